package main

// r5_backend_c12.go — whole-broker scenarios of property C12 (command c12) whose verdict depends on what the BACKEND does
// with a will it is handed:
//
// backendCloseWills   the termination cause is the backend's shutdown (MemoryBackend.Close with connected, accepted clients that
//                     carry wills).  Nobody can connect any more afterwards, so the observers are read at the backend: the stored
//                     queue of a persistent subscriber that was offline, the stored queue of one that was online (and is closed
//                     with everybody else), the dying clients' own persistent sessions, the retained store, and the backend log
//                     (one will per client, handed over before its Terminate).
// ownSessionWill      the observer is the dying client's own persistent session, subscribed to its own will topic: after an
//                     unclean end (connection lost, protocol error, displaced by a newer connection with its id) the connection
//                     that resumes the session gets the will exactly once.  Completion without waiting for an absent message: the
//                     resuming connection publishes a QoS 1 marker on a topic of that same subscription; the stored queue is
//                     FIFO, so once the marker is back the will has been delivered or was never queued.

import (
	"fmt"
	"sort"
	"strings"
	"time"

	"github.com/256dpi/gomqtt/broker"
	"github.com/256dpi/gomqtt/packet"
	"github.com/256dpi/gomqtt/session"

	"verifh/hx"
)

type bcClient struct {
	id      string
	clean   bool
	will    packet.Message
	ownSub  bool // subscribed (QoS 2) to a filter matching its own will topic
	traffic bool // has an unacknowledged delivery in flight when the backend closes
}

// topicsOf: the wills among the messages (the retained message that was there before the shutdown is not one)
func topicsOf(ms []packet.Message, prefix string) []string {
	var out []string
	for _, m := range ms {
		if strings.HasPrefix(m.Topic, prefix) && string(m.Payload) != "before" {
			// topic and payload (the QoS of a queued copy is the subscription's business: C06)
			out = append(out, fmt.Sprintf("%s=%s", m.Topic, string(m.Payload)))
		}
	}
	sort.Strings(out)
	return out
}

// heldFor: what the backend keeps for the persistent session of a client id — its stored queue, and whatever a dequeuer of its
// last connection had already taken out of it and recorded in the session for retransmission
func heldFor(b *RecBackend, st broker.VerifState, id string) []packet.Message {
	ms := append([]packet.Message(nil), st.Stored[id].Stored...)
	n := b.setupCalls(id)
	if n == 0 {
		return ms
	}
	if c := b.nth(id, n); c != nil && c.Session() != nil {
		pkts, _ := c.Session().AllPackets(session.Outgoing)
		for _, g := range pkts {
			if p, ok := g.(*packet.Publish); ok {
				ms = append(ms, p.Message)
			}
		}
	}
	return ms
}

func backendCloseWills(o *out, c *hx.Ctx, variant int) {
	sc := o.begin(c, fmt.Sprintf("c12 backend shutdown (MemoryBackend.Close) with connected clients that carry wills, variant %d", variant), 3, 100)
	defer sc.end()
	b := sc.s.backend
	// observers
	off := sc.dial("offline", true)
	on := sc.dial("online", true)
	if off.connect("bc-off", false, nil) == nil || !off.subscribe(1, "will/#", 1+variant%2) || on.connect("bc-on", false, nil) == nil || !on.subscribe(1, "will/#", 2-variant%2) {
		sc.direct("setup", false, "observers could not connect")
		return
	}
	off.send(&packet.Disconnect{})
	off.isClosed(long)
	waitFor(long, func() bool { c := b.nth("bc-off", 1); return c != nil && closedNow(c) })
	// the clients that will be ended by the shutdown: every will QoS, retained or not, clean and persistent sessions, an empty
	// retained will (clears), one of them subscribed to its own will topic, one with an unacknowledged delivery in flight
	var cl []bcClient
	for i := 0; i < 6; i++ {
		k := i + variant
		w := packet.Message{Topic: fmt.Sprintf("will/bc/%d", i), Payload: []byte(fmt.Sprintf("gone%d", i)), QOS: packet.QOS(k % 3), Retain: (k/3)%2 == 0}
		cl = append(cl, bcClient{id: fmt.Sprintf("bc-w%d", i), clean: k%2 == 0, will: w, ownSub: i == 1 || i == 4, traffic: i == 2})
	}
	// a retained message that the (empty, retained) will of client 5 clears
	cl[5].will.Payload = nil
	cl[5].will.Retain = true
	cl[5].will.Topic = "will/bc/cleared"
	feeder := sc.dial("feeder", true)
	feeder.connect("bc-feed", true, nil)
	feeder.send(&packet.Publish{ID: 1, Message: packet.Message{Topic: "will/bc/cleared", Payload: []byte("before"), QOS: 1, Retain: true}})
	feeder.send(&packet.Publish{ID: 2, Message: packet.Message{Topic: "keep/r", Payload: []byte("kept"), QOS: 1, Retain: true}})
	fed := waitFor(long, func() bool { return ackCount(feeder) >= 2 })
	okConn := true
	var peers []*peer
	for i := range cl {
		p := sc.dial(cl[i].id, !cl[i].traffic)
		w := cl[i].will
		if p.connect(cl[i].id, cl[i].clean, &w) == nil {
			okConn = false
		}
		if cl[i].ownSub && !p.subscribe(1, "will/bc/#", 2) {
			okConn = false
		}
		if cl[i].traffic {
			p.subscribe(1, "tr/#", 1)
			feeder.send(&packet.Publish{ID: 3, Message: packet.Message{Topic: "tr/x", Payload: []byte("inflight"), QOS: 1}})
			waitFor(long, func() bool { return p.countTopic("tr/x") >= 1 }) // delivered, never acknowledged
		}
		peers = append(peers, p)
	}
	feeder.send(&packet.Disconnect{})
	feeder.isClosed(long)
	// ---- the shutdown
	closedInTime := b.Close(long)
	allClosed := true
	for _, p := range peers {
		if !p.isClosed(long) {
			allClosed = false
		}
	}
	allClosed = allClosed && on.isClosed(long)
	sc.direct("shutdown_ends_clients", fed && okConn && closedInTime && allClosed, fmt.Sprintf("retained messages stored=%v, clients connected=%v; Close returned in time=%v, every connection closed=%v", fed, okConn, closedInTime, allClosed))
	// ---- observers, read at the backend
	st := b.MemoryBackend.VerifSnapshot()
	var wantQ []string // wills with QoS > 0, as queued for a persistent subscriber of will/#
	for _, x := range cl {
		if x.will.QOS > 0 {
			wantQ = append(wantQ, fmt.Sprintf("%s=%s", x.will.Topic, string(x.will.Payload)))
		}
	}
	sort.Strings(wantQ)
	gotOff := topicsOf(heldFor(b, st, "bc-off"), "will/bc/")
	gotOn := topicsOf(heldFor(b, st, "bc-on"), "will/bc/")
	sc.direct("will_delivered", strings.Join(gotOff, " ") == strings.Join(wantQ, " "),
		fmt.Sprintf("stored queue of the persistent subscriber of will/# that was offline, after the shutdown: %v; wills (QoS>0) of the clients the shutdown ended: %v", gotOff, wantQ))
	sc.direct("will_delivered", strings.Join(gotOn, " ") == strings.Join(wantQ, " "),
		fmt.Sprintf("stored queue of the persistent subscriber of will/# that was online (ended by the shutdown as well): %v; expected %v", gotOn, wantQ))
	for _, x := range cl {
		if !x.ownSub || x.clean {
			continue
		}
		got := topicsOf(heldFor(b, st, x.id), "will/bc/")
		sc.direct("will_delivered", strings.Join(got, " ") == strings.Join(wantQ, " "),
			fmt.Sprintf("stored queue of the persistent session of %s, subscribed to will/bc/# (its own will topic included): %v; expected %v", x.id, got, wantQ))
	}
	var wantR, gotR []string
	for _, x := range cl {
		if x.will.Retain && len(x.will.Payload) > 0 {
			wantR = append(wantR, fmt.Sprintf("%s/q%d/%s", x.will.Topic, x.will.QOS, string(x.will.Payload)))
		}
	}
	wantR = append(wantR, "keep/r/q1/kept")
	for _, m := range st.Retained {
		gotR = append(gotR, fmt.Sprintf("%s/q%d/%s", m.Topic, m.QOS, string(m.Payload)))
	}
	sort.Strings(wantR)
	sort.Strings(gotR)
	sc.direct("will_retained", strings.Join(gotR, " ") == strings.Join(wantR, " "),
		fmt.Sprintf("retained store after the shutdown: %v; expected (retained wills with a payload stored, the one cleared by an empty retained will gone): %v", gotR, wantR))
	// ---- the backend log: every accepted client with a will handed it over exactly once, and the call succeeded
	lines := b.log.snapshot()
	for _, x := range cl {
		cn := ""
		pubs, dones, errs := 0, 0, 0
		for _, l := range lines {
			f := strings.Fields(l)
			if f[0] == "SetupCall" && f[1] == hx.Hx([]byte(x.id)) {
				cn = f[len(f)-1]
			}
		}
		for _, l := range lines {
			f := strings.Fields(l)
			if f[len(f)-1] != cn {
				continue
			}
			switch {
			case f[0] == "WillPub":
				pubs++
			case f[0] == "WillDone":
				dones++
			case f[0] == "Err" && f[1] == strings.Replace(string(broker.BackendError), " ", "-", -1):
				errs++
			}
		}
		sc.direct("will_once", pubs == 1 && dones == 1,
			fmt.Sprintf("client %s (connection %s), ended by the backend's shutdown: will handed to the backend %d time(s), call returned %d time(s) (1 and 1 expected)", x.id, cn, pubs, dones))
		sc.direct("will_accepted", errs == 0,
			fmt.Sprintf("client %s (connection %s), ended by the backend's shutdown: backend errors logged by the connection (the only backend calls of its cleanup are the will's Publish and Terminate): %d", x.id, cn, errs))
	}
}

// ownSessionWill: see the head of the file
func ownSessionWill(o *out, c *hx.Ctx, route string, wq, sq int, retain bool) {
	sc := o.begin(c, fmt.Sprintf("c12 will (QoS %d, retain=%v) for the dying client's own persistent session (subscribed at QoS %d to its own will topic), ended by %s, then resumed", wq, retain, sq, route), 3, 100)
	defer sc.end()
	b := sc.s.backend
	on := sc.dial("online", true)
	if on.connect("os-on", true, nil) == nil || !on.subscribe(1, "dev/#", 2) {
		sc.direct("setup", false, "observer could not connect")
		return
	}
	will := &packet.Message{Topic: "dev/os/status", Payload: []byte("offline"), QOS: packet.QOS(wq), Retain: retain}
	wc := sc.dial("wc", true)
	ack1 := wc.connect("os-wc", false, will)
	okSub := wc.subscribe(1, "dev/#", sq)
	var np *peer
	var ack2 *packet.Connack
	will2 := &packet.Message{Topic: "dev/os/status", Payload: []byte("offline-again"), QOS: packet.QOS(wq)}
	switch route {
	case "connection-loss":
		wc.close()
	case "protocol-error":
		wc.send(packet.NewConnack())
	case "displacement":
		np = sc.dial("wc2", true)
		ack2 = np.connect("os-wc", false, will2)
	}
	gone := wc.isClosed(long) && waitFor(long, func() bool { c := b.nth("os-wc", 1); return c != nil && closedNow(c) })
	if np == nil {
		np = sc.dial("wc2", true)
		ack2 = np.connect("os-wc", false, will2)
	}
	resumed := ack2 != nil && ack2.SessionPresent
	// FIFO marker through the same subscription and the same (stored) queue
	np.send(&packet.Publish{ID: 9, Message: packet.Message{Topic: "dev/os/mark", Payload: []byte("mark"), QOS: 1}})
	flushed := waitFor(long, func() bool { return np.countTopic("dev/os/mark") >= 1 })
	seenOn := waitFor(long, func() bool { return on.countTopic("dev/os/status") >= 1 })
	okPing := np.ping()
	time.Sleep(absence) // a second copy would follow at once
	nOwn, nOn, qOwn := 0, on.countTopic("dev/os/status"), -1
	for _, m := range np.received() {
		if m.Message.Topic == "dev/os/status" && string(m.Message.Payload) == "offline" && !m.Message.Retain {
			nOwn++
			qOwn = int(m.Message.QOS)
		}
	}
	wantQ := wq
	if sq < wq {
		wantQ = sq
	}
	sc.direct("will_delivered", ack1 != nil && okSub && gone && resumed && flushed && okPing && seenOn && nOn == 1 && nOwn == 1 && qOwn == wantQ,
		fmt.Sprintf("first connection accepted=%v subscribed=%v, ended=%v; session resumed (session-present)=%v, marker through the same subscription back=%v, ping=%v; own will received by the resumed session %d time(s) at QoS %d (once at QoS %d expected), by an online observer %d time(s) (1 expected)",
			ack1 != nil, okSub, gone, resumed, flushed, okPing, nOwn, qOwn, wantQ, nOn))
}

// r5BackendC12 is called from runC12
func r5BackendC12(o *out, c *hx.Ctx) {
	variants := 2
	if c.Thorough() {
		variants = 6
	}
	v0 := c.Rng.Intn(6)
	for v := 0; v < variants; v++ {
		backendCloseWills(o, c, (v0+v)%6)
	}
	n := c.Rng.Intn(4)
	for _, route := range []string{"connection-loss", "protocol-error", "displacement"} {
		for _, wq := range []int{1, 2} {
			// quick: the subscription's QoS and the retain flag rotate so that every (will QoS, subscription QoS) pair and both flag
			// values occur over the three routes
			sqs := []int{1 + (n+n/2)%2}
			if c.Thorough() {
				sqs = []int{1, 2}
			}
			for _, sq := range sqs {
				ownSessionWill(o, c, route, wq, sq, n%3 == 0)
				n++
			}
		}
	}
}
