package main

// c15.go — whole-broker scenarios for C15: per-publisher message order end to end, including retransmissions.
//
// direct clauses:
//   order               per (publisher, publish QoS, delivery QoS): sequence numbers never go back at a subscriber; no QoS 2 message twice as new
//   resume              a resumed subscriber is told the session is present
//   resend_order        what is retransmitted on resume (PUBLISH flagged dup, PUBREL) comes in the order of the original transmission
//                       and includes everything the subscriber had left unacknowledged
//                       (also with the packet id counter wrapping between them: ids 65534 65535 1 2)
//   resend_first        … and before anything new; nothing is dequeued before Restore returned (gate; log_restore_first on the log)
//   publisher_resume    a publisher cut with unacknowledged QoS 1 / QoS 2 publishes resumes and retransmits: order kept, QoS 2 once
//   order_e2e           the same order at the application callbacks of real client.Client subscribers fed by real client.Service publishers
//   in_order / progress (back-pressure scenarios shared with C16)

import (
	"fmt"
	"sync"
	"time"

	"github.com/256dpi/gomqtt/client"
	"github.com/256dpi/gomqtt/packet"

	"verifh/hx"
)

type c15cfg struct {
	pubs, subs, window, count int
	cut                       bool
}

func runC15(c *hx.Ctx) {
	o := newOut(c)
	var cfgs []c15cfg
	for _, w := range []int{1, 2, 3, 10} {
		cfgs = append(cfgs, c15cfg{1, 1, w, 20, false}, c15cfg{3, 2, w, 12, false}, c15cfg{2, 2, w, 12, true})
	}
	cfgs = append(cfgs, c15cfg{8, 4, 5, 8, false}, c15cfg{8, 4, 2, 8, true}, c15cfg{5, 3, 7, 8, true})
	if c.Thorough() {
		for w := 1; w <= 10; w++ {
			cfgs = append(cfgs, c15cfg{1 + c.Rng.Intn(8), 1 + c.Rng.Intn(4), w, 30, w%2 == 0})
		}
	}
	for _, cf := range cfgs {
		orderScenario(o, c, cf)
	}
	for _, w := range []int{1, 2} {
		backlogScenario(o, c, w)
	}
	for _, w := range []int{2, 3, 4} {
		resumeOrder(o, c, w)
	}
	runFlowC15(o, c) // r5_flow_resume.go
	wrapResend(o, c)
	takeoverOrder(o, c)
	slowFirstPublish(o, c)
	publisherResume(o, c)
	endToEnd(o, c)
	backPressure(o, c, false)
}

func orderScenario(o *out, c *hx.Ctx, cf c15cfg) {
	if cf.pubs < 2 {
		cf.cut = false // the subscriber that is cut gets its QoS>0 deliveries from the odd-numbered publishers
	}
	sc := o.begin(c, fmt.Sprintf("c15 pubs=%d subs=%d window=%d count=%d cut=%v", cf.pubs, cf.subs, cf.window, cf.count, cf.cut), cf.window, 10000)
	defer sc.end()
	var subs []*peer
	for i := 0; i < cf.subs; i++ {
		sp := sc.dial(fmt.Sprintf("sub%d", i), true)
		if sp.connect(fmt.Sprintf("sub%d", i), false, nil) == nil {
			sc.direct("order", false, "could not set up subscribers")
			return
		}
		// differing granted QoS, overlapping filters
		sp.subscribe(1, "all", i%3)
		sp.subscribe(2, "pub/#", (i+1)%3)
		subs = append(subs, sp)
	}
	// one subscriber stops acknowledging, is cut while 2..window messages are unacknowledged (1 for window 1), and resumes
	victim := subs[0]
	target := 0
	if cf.cut {
		target = 2 + c.Rng.Intn(cf.window)
		if target > cf.window {
			target = cf.window
		}
		victim.setHold(target)
	}
	var wg sync.WaitGroup
	for i := 0; i < cf.pubs; i++ {
		wg.Add(1)
		pp := sc.dial(fmt.Sprintf("pub%d", i), true)
		go func(i int) {
			defer wg.Done()
			if pp.connect(fmt.Sprintf("pub%d", i), true, nil) == nil {
				return
			}
			id := 0
			topic := "all"
			if i%2 == 1 {
				topic = fmt.Sprintf("pub/%d", i)
			}
			publishStream(pp, i, topic, cf.count, &id)
			// wait until every QoS>0 publish is acknowledged
			waitFor(3*long, func() bool { return ackCount(pp) >= 2*cf.count })
			pp.send(&packet.Disconnect{})
		}(i)
	}
	if cf.cut {
		reached := waitFor(long, func() bool { return victim.heldCount() >= target })
		victim.close()
		victim.isClosed(long)
		before := victim.received()
		var heldIDs []int
		victim.mu.Lock()
		for _, p := range victim.held {
			heldIDs = append(heldIDs, int(p.ID))
		}
		victim.mu.Unlock()
		np := sc.dial("sub0r", true)
		ack := np.connect("sub0", false, nil)
		sc.direct("resume", reached && ack != nil && ack.SessionPresent, fmt.Sprintf("%d deliveries left unacknowledged at the cut (%d intended); resumed subscriber session-present=%v", len(heldIDs), target, ack != nil && ack.SessionPresent))
		subs[0] = np
		wg.Wait()
		np.idle(30*time.Millisecond, long)
		// retransmitted packets first, in the order of their original transmission
		var origUnacked []int
		for _, p := range before {
			if p.Message.QOS > 0 {
				origUnacked = append(origUnacked, int(p.ID))
			}
		}
		var dups []int
		sawNew := false
		lateDup := false
		for _, p := range np.received() {
			if p.Dup {
				dups = append(dups, int(p.ID))
				if sawNew {
					lateDup = true
				}
			} else {
				sawNew = true
			}
		}
		// the dup ids must appear in the relative order in which those ids were first sent
		pos := map[int]int{}
		for i, id := range origUnacked {
			if _, ok := pos[id]; !ok {
				pos[id] = i
			}
		}
		okd := true
		lastp := -1
		isDup := map[int]bool{}
		for _, id := range dups {
			isDup[id] = true
			if pp, ok := pos[id]; ok {
				if pp < lastp {
					okd = false
				}
				lastp = pp
			} // (an id the peer never saw may still have been transmitted: sent by the broker and lost with the connection)
		}
		for _, id := range heldIDs {
			if !isDup[id] {
				okd = false
			}
		}
		sc.direct("resend_order", okd, fmt.Sprintf("first transmission ids %v, left unacknowledged %v, retransmitted (dup) ids %v", origUnacked, heldIDs, dups))
		sc.direct("resend_first", !lateDup, "every retransmission precedes the first new PUBLISH on the resumed connection")
		all := append(before, np.received()...)
		ok, d := checkOrder(all)
		sc.direct("order", ok, "resumed subscriber: "+d)
	}
	wg.Wait()
	for i, sp := range subs {
		if cf.cut && i == 0 {
			continue
		}
		sp.idle(30*time.Millisecond, long)
		got := sp.received()
		ok, d := checkOrder(got)
		sc.direct("order", ok, fmt.Sprintf("%s received %d publishes, %s", sp.name, len(got), d))
		// completeness for QoS>0 streams at delivery QoS>0 is C06/C08's business; here only order
	}
}

// a backlogged subscriber with overlapping subscriptions of differing granted QoS: one publisher alternates
// between two topics at each QoS while the subscriber withholds its acknowledgements (the window fills, both
// session queues fill), then everything is acknowledged and drained: per (publisher, QoS, delivery QoS) order
func backlogScenario(o *out, c *hx.Ctx, w int) {
	sc := o.begin(c, fmt.Sprintf("c15 backlog window=%d", w), w, 10000)
	defer sc.end()
	sub := sc.dial("bsub", true)
	if sub.connect("bsub", true, nil) == nil {
		sc.direct("order", false, "could not connect")
		return
	}
	sub.state = newSubState()
	sub.subscribe(1, "ba", 1)
	sub.subscribe(2, "bb", 0)
	sub.setHold(1 << 20)
	pp := sc.dial("bpub", true)
	pp.connect("bpub", true, nil)
	id := 0
	sent := 0
	for i := 0; i < 60; i++ {
		for q := 0; q <= 1; q++ {
			topic := "ba"
			if (i+q)%2 == 1 {
				topic = "bb"
			}
			m := &packet.Publish{Message: packet.Message{Topic: topic, Payload: payload(7, q, i), QOS: packet.QOS(q)}}
			if q > 0 {
				id++
				m.ID = packet.ID(id)
				sent++
				waitFor(long, func() bool { return sent-ackCount(pp) < 5 })
			}
			pp.send(m)
		}
	}
	waitFor(long, func() bool { return sc.s.backend.published("bpub") >= 120 })
	// acknowledge step by step so that the dequeuer drains both queues while they are both non-empty
	for k := 0; k < 400 && len(sub.received()) < 120; k++ {
		sub.releaseHeld()
		sub.setHold(1 << 20)
		n := len(sub.received())
		waitFor(20*time.Millisecond, func() bool { return len(sub.received()) > n })
	}
	sub.releaseHeld()
	complete := waitFor(long, func() bool { return len(sub.received()) >= 120 })
	got := sub.received()
	ok, d := checkOrder(got)
	sc.direct("order", ok && complete, fmt.Sprintf("backlogged subscriber received %d of 120 publishes, %s", len(got), d))
}

// resumeOrder: a persistent subscriber is cut with a PUBREL and w-2 PUBLISHes unacknowledged (one slot of the window free);
// three messages are published while it is away.  On resume: PUBREL and the dup PUBLISHes in the original order, nothing
// else while Restore is held back, then the backlog in publication order.
func resumeOrder(o *out, c *hx.Ctx, w int) {
	sc := o.begin(c, fmt.Sprintf("c15 resume with retransmissions and a backlog, window=%d", w), w, 100)
	defer sc.end()
	b := sc.s.backend
	sub := sc.dial("rsub", false)
	feeder := sc.dial("feed", true)
	if sub.connect("rs", false, nil) == nil || !sub.subscribe(1, "r", 2) || feeder.connect("feed", true, nil) == nil {
		sc.direct("resend_order", false, "could not connect")
		return
	}
	total := 0
	feed := func(k int) {
		for i := 0; i < k; i++ {
			q := 2 - total%2 // QoS 2, 1, 2, 1, …
			feeder.send(&packet.Publish{ID: packet.ID(1 + total), Message: packet.Message{Topic: "r", Payload: payload(3, q, total), QOS: packet.QOS(q)}})
			total++
			// one at a time: a QoS 2 publish is handed to the backend only when its PUBREL arrives
			waitFor(long, func() bool { return ackCount(feeder) >= total })
		}
	}
	feed(w)
	waitFor(long, func() bool { return len(sub.received()) >= w })
	first := sub.received()
	// the first delivery (QoS 2): PUBREC, the broker answers PUBREL; the second (QoS 1) is acknowledged, which frees one slot
	// of the window (the queue is empty, nothing more comes); the PINGRESP tells that the broker has seen the PUBACK
	sub.send(&packet.Pubrec{ID: first[0].ID})
	gotRel := waitFor(long, func() bool {
		return sub.count(func(g packet.Generic) bool { r, ok := g.(*packet.Pubrel); return ok && r.ID == first[0].ID }) >= 1
	})
	sub.send(&packet.Puback{ID: first[1].ID})
	gotRel = sub.ping() && gotRel
	sub.close()
	sub.isClosed(long)
	before := steps(sub)
	waitFor(long, func() bool { return b.termEntered("rs", 1) }) // the broker knows the subscriber is gone
	feed(3)                                                      // published while the subscriber is away
	// expected retransmissions: everything transmitted and not completely acknowledged, in first-transmission order
	var want []string
	seen := map[int]bool{}
	for _, s := range before {
		if s.kind == "pubrel" || seen[s.id] || s.id == int(first[1].ID) {
			continue
		}
		seen[s.id] = true
		if s.id == int(first[0].ID) {
			want = append(want, fmt.Sprintf("pubrel:%d", s.id))
		} else {
			want = append(want, fmt.Sprintf("dup:%d", s.id))
		}
	}
	rel := sc.gate(b.holdRestore("rs"))
	np := sc.dial("rsub2", false)
	np.sendConnect("rs", false, nil)
	at := waitFor(long, func() bool { return b.atRestoreGate("rs") })
	waitFor(long, func() bool { return len(steps(np)) >= len(want) })
	time.Sleep(absence)
	held := steps(np)
	var resent []string
	for _, s := range held {
		resent = append(resent, fmt.Sprintf("%s:%d", s.kind, s.id))
	}
	sc.direct("resend_order", gotRel && fmt.Sprint(resent) == fmt.Sprint(want), fmt.Sprintf("unacknowledged at the cut, in transmission order: %v; sent to the resumed connection before Restore returned: %v", want, resent))
	sc.direct("resend_first", at && len(held) == len(want), fmt.Sprintf("Restore held back (reached=%v): %d packets sent, %d retransmissions expected and nothing else (a slot of the window is free and 3 messages are queued)", at, len(held), len(want)))
	rel()
	// now acknowledge everything as it comes: the backlog arrives in publication order, each message once
	np.mu.Lock()
	np.autoAck = true
	np.mu.Unlock()
	for _, s := range held {
		switch s.kind {
		case "pubrel":
			np.send(&packet.Pubcomp{ID: packet.ID(s.id)})
		case "dup":
			if s.qos == 1 {
				np.send(&packet.Puback{ID: packet.ID(s.id)})
			} else {
				np.send(&packet.Pubrec{ID: packet.ID(s.id)})
			}
		}
	}
	numbers := func() map[int]int {
		m := map[int]int{}
		for _, p := range append(sub.received(), np.received()...) {
			if _, _, n, ok := parsePayload(p.Message.Payload); ok && !p.Dup {
				m[n]++
			}
		}
		return m
	}
	complete := waitFor(long, func() bool { return len(numbers()) >= total })
	time.Sleep(absence)
	ok, d := checkOrder(append(sub.received(), np.received()...))
	once := true
	for _, k := range numbers() {
		if k != 1 {
			once = false
		}
	}
	sc.direct("order", ok && complete && once, fmt.Sprintf("across the cut: %d of %d messages arrived, each once as a new delivery=%v, %s", len(numbers()), total, once, d))
}

// publisherResume: a publisher with a persistent session is cut while QoS 1 and QoS 2 publishes are unacknowledged from its point
// of view (it lost the last PUBACK and the last PUBREC, and never sent its PUBRELs); it resumes and retransmits in the original
// order.  The subscriber sees each stream in order, every QoS 2 message exactly once.
func publisherResume(o *out, c *hx.Ctx) {
	sc := o.begin(c, "c15 publisher cut with unacknowledged publishes, resumes and retransmits", 10, 100)
	defer sc.end()
	sub := sc.dial("sub", true)
	pub := sc.dial("pub", false)
	if sub.connect("prsub", true, nil) == nil || !sub.subscribe(1, "pr", 2) || pub.connect("prpub", false, nil) == nil {
		sc.direct("publisher_resume", false, "could not connect")
		return
	}
	isAck := func(g packet.Generic) bool {
		switch g.(type) {
		case *packet.Puback, *packet.Pubrec:
			return true
		}
		return false
	}
	for n := 0; n < 3; n++ {
		pub.send(&packet.Publish{ID: packet.ID(1 + 2*n), Message: packet.Message{Topic: "pr", Payload: payload(5, 1, n), QOS: 1}})
		pub.send(&packet.Publish{ID: packet.ID(2 + 2*n), Message: packet.Message{Topic: "pr", Payload: payload(5, 2, n), QOS: 2}})
	}
	all6 := waitFor(long, func() bool { return pub.count(isAck) >= 6 })
	pub.close()
	pub.isClosed(long)
	p2 := sc.dial("pub2", false)
	ack := p2.connect("prpub", false, nil)
	// as a publisher that saw PUBACK 1, 3 and PUBREC 2, 4 only: PUBREL 2, PUBREL 4, PUBLISH 5 (dup), PUBLISH 6 (dup), then new ones
	p2.send(&packet.Pubrel{ID: 2})
	p2.send(&packet.Pubrel{ID: 4})
	p2.send(&packet.Publish{ID: 5, Dup: true, Message: packet.Message{Topic: "pr", Payload: payload(5, 1, 2), QOS: 1}})
	p2.send(&packet.Publish{ID: 6, Dup: true, Message: packet.Message{Topic: "pr", Payload: payload(5, 2, 2), QOS: 2}})
	waitFor(long, func() bool {
		return p2.count(func(g packet.Generic) bool { r, ok := g.(*packet.Pubrec); return ok && r.ID == 6 }) >= 1
	})
	p2.send(&packet.Pubrel{ID: 6})
	p2.send(&packet.Publish{ID: 7, Message: packet.Message{Topic: "pr", Payload: payload(5, 1, 3), QOS: 1}})
	p2.send(&packet.Publish{ID: 8, Message: packet.Message{Topic: "pr", Payload: payload(5, 2, 3), QOS: 2}})
	waitFor(long, func() bool {
		return p2.count(func(g packet.Generic) bool { r, ok := g.(*packet.Pubrec); return ok && r.ID == 8 }) >= 1
	})
	p2.send(&packet.Pubrel{ID: 8})
	comps := waitFor(long, func() bool {
		return p2.count(func(g packet.Generic) bool { _, ok := g.(*packet.Pubcomp); return ok }) >= 4
	})
	count := func() (map[int]int, map[int]int) {
		q1, q2 := map[int]int{}, map[int]int{}
		for _, p := range sub.received() {
			if _, q, n, ok := parsePayload(p.Message.Payload); ok {
				if q == 1 {
					q1[n]++
				} else {
					q2[n]++
				}
			}
		}
		return q1, q2
	}
	complete := waitFor(long, func() bool { q1, q2 := count(); return len(q1) >= 4 && len(q2) >= 4 })
	time.Sleep(absence)
	q1, q2 := count()
	once := true
	for _, k := range q2 {
		if k != 1 {
			once = false
		}
	}
	ok, d := checkOrder(sub.received())
	sc.direct("publisher_resume", all6 && ack != nil && ack.SessionPresent && comps && complete && once,
		fmt.Sprintf("first connection fully answered=%v, session present on resume=%v, four PUBCOMP=%v; subscriber got QoS 1 numbers %v, QoS 2 numbers %v (each QoS 2 number exactly once)", all6, ack != nil && ack.SessionPresent, comps, q1, q2))
	sc.direct("order", ok, "subscriber of the resumed publisher: "+d)
}

// endToEnd: real client.Service publishers (command queue, futures) and real client.Client subscribers (application callback)
// around the real broker: the order of one publisher's messages of one QoS level at the callback of a subscriber
func endToEnd(o *out, c *hx.Ctx) {
	sc := o.begin(c, "c15 end to end with the client library: 3 services publish, 2 clients subscribe", 2, 100)
	defer sc.end()
	url := "tcp://localhost:" + sc.s.port
	type rec struct {
		mu  sync.Mutex
		got []*packet.Publish
	}
	const count = 12
	recs := []*rec{{}, {}}
	var clients []*client.Client
	okSetup := true
	for i, r := range recs {
		r := r
		cl := client.New()
		cl.Callback = func(m *packet.Message, err error) error {
			if m != nil {
				r.mu.Lock()
				r.got = append(r.got, &packet.Publish{Message: *m.Copy()})
				r.mu.Unlock()
			}
			return nil
		}
		cf, err := cl.Connect(client.NewConfigWithClientID(url, fmt.Sprintf("e2e-sub%d", i)))
		if err != nil || cf.Wait(long) != nil {
			okSetup = false
			continue
		}
		sf, err := cl.Subscribe("e/#", packet.QOS(2-i))
		if err != nil || sf.Wait(long) != nil {
			okSetup = false
		}
		clients = append(clients, cl)
	}
	var svcs []*client.Service
	var wg sync.WaitGroup
	failed := 0
	var fmu sync.Mutex
	for i := 0; i < 3; i++ {
		s := client.NewService(200)
		online := make(chan struct{})
		var once sync.Once
		s.OnlineCallback = func(bool) { once.Do(func() { close(online) }) }
		s.Start(client.NewConfigWithClientID(url, fmt.Sprintf("e2e-pub%d", i)))
		svcs = append(svcs, s)
		wg.Add(1)
		go func(i int) {
			defer wg.Done()
			select {
			case <-online:
			case <-time.After(long):
			}
			// three rounds of commands are queued at once (the service's command queue is first-in first-out), then their
			// futures are awaited: a publisher must not have more QoS 2 exchanges open than the broker's ParallelPublishes (10),
			// its own PUBRELs would wait behind a PUBLISH the broker cannot take yet (DESIGN 12.4, observation)
			for n := 0; n < count; n += 3 {
				var futs []client.GenericFuture
				for k := n; k < n+3 && k < count; k++ {
					for q := 0; q <= 2; q++ {
						futs = append(futs, s.Publish(fmt.Sprintf("e/%d", i%2), payload(i, q, k), packet.QOS(q), false))
					}
				}
				for _, f := range futs {
					if f.Wait(3*long) != nil {
						fmu.Lock()
						failed++
						fmu.Unlock()
					}
				}
			}
		}(i)
	}
	wg.Wait()
	want := 3 * 3 * count
	complete := waitFor(long, func() bool {
		for _, r := range recs {
			r.mu.Lock()
			n := len(r.got)
			r.mu.Unlock()
			if n < want {
				return false
			}
		}
		return true
	})
	for i, r := range recs {
		r.mu.Lock()
		got := append([]*packet.Publish(nil), r.got...)
		r.mu.Unlock()
		ok, d := checkOrder(got)
		sc.direct("order_e2e", okSetup && ok && complete && failed == 0, fmt.Sprintf("client %d (granted QoS %d): %d of %d callbacks, %d publish futures failed, %s", i, 2-i, len(got), want, failed, d))
	}
	for _, s := range svcs {
		s.Stop(true)
	}
	for _, cl := range clients {
		_ = cl.Disconnect(long)
	}
}

// wrapResend: the subscriber's packet id counter wraps (65535 -> 1) while deliveries on both sides of the wrap are
// unacknowledged; on resume they are retransmitted in the order of their original transmission, not in the order of their ids
func wrapResend(o *out, c *hx.Ctx) {
	sc := o.begin(c, "c15 resume with unacknowledged deliveries on both sides of the packet id wrap", 1000, 2000)
	defer sc.end()
	// 65533 deliveries have to be got out of the way first: wide windows and a short flush delay make that a matter of seconds
	sc.s.backend.ClientParallelPublishes = 1000
	sc.s.engine.MaxWriteDelay = time.Millisecond
	sub := sc.dial("wsub", true)
	feeder := sc.dial("feed", true)
	if sub.connect("wr", false, nil) == nil || !sub.subscribe(1, "w", 1) || feeder.connect("feed", true, nil) == nil {
		sc.direct("resend_order", false, "could not connect")
		return
	}
	// drop what the reader keeps: 65533 deliveries are only counted
	const pre = 65533
	for i := 0; i < pre; i++ {
		waitFor(3*long, func() bool { return i-ackCount(feeder) < 500 })
		feeder.send(&packet.Publish{ID: packet.ID(1 + i%60000), Message: packet.Message{Topic: "w", Payload: []byte("x"), QOS: 1}})
	}
	okPre := waitFor(3*long, func() bool { return sub.pubCount() >= pre && ackCount(feeder) >= pre })
	sub.setHold(4)
	for i := 0; i < 4; i++ {
		feeder.send(&packet.Publish{ID: packet.ID(61000 + i), Message: packet.Message{Topic: "w", Payload: payload(9, 1, i), QOS: 1}})
	}
	waitFor(long, func() bool { return sub.heldCount() >= 4 })
	var want []int
	sub.mu.Lock()
	for _, p := range sub.held {
		want = append(want, int(p.ID))
	}
	sub.mu.Unlock()
	sub.close()
	sub.isClosed(long)
	np := sc.dial("wsub2", false)
	np.connect("wr", false, nil)
	waitFor(long, func() bool { return np.pubCount() >= 4 })
	var got []int
	for _, p := range np.received() {
		if p.Dup {
			got = append(got, int(p.ID))
		}
	}
	sc.direct("resend_order", okPre && len(want) == 4 && fmt.Sprint(got) == fmt.Sprint(want), fmt.Sprintf("%d deliveries acknowledged first=%v; left unacknowledged, in transmission order: ids %v; retransmitted: ids %v", pre, okPre, want, got))
}

// slowFirstPublish: the backend takes its time over the first message of a publisher while the publisher's next messages are
// already on the wire: they must wait their turn (one processor per connection), at every QoS
func slowFirstPublish(o *out, c *hx.Ctx) {
	sc := o.begin(c, "c15 the backend is slow with a publisher's first message, the next ones are already there", 10, 100)
	defer sc.end()
	sub := sc.dial("sub", true)
	if sub.connect("sfsub", true, nil) == nil || !sub.subscribe(1, "sf/#", 2) {
		sc.direct("order", false, "could not connect")
		return
	}
	var pubs []*peer
	for q := 0; q <= 2; q++ {
		id := fmt.Sprintf("sfpub%d", q)
		sc.s.backend.slowFirst[id] = absence
		p := sc.dial(id, true)
		p.connect(id, true, nil)
		pubs = append(pubs, p)
	}
	const count = 6
	for q, p := range pubs {
		for n := 0; n < count; n++ {
			p.send(&packet.Publish{ID: packet.ID(1 + n), Message: packet.Message{Topic: fmt.Sprintf("sf/%d", q), Payload: payload(q, q, n), QOS: packet.QOS(q)}})
		}
	}
	complete := waitFor(long, func() bool { return sub.pubCount() >= 3*count })
	ok, d := checkOrder(sub.received())
	sc.direct("order", ok && complete, fmt.Sprintf("subscriber received %d of %d publishes, %s", sub.pubCount(), 3*count, d))
}
