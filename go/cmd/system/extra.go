package main

// extra.go — deterministic whole-broker scenarios added after the second round of seeded changes: each puts the real
// Engine + MemoryBackend into one specific situation with gates and small limits instead of waiting for a random run
// to get there.

import (
	"fmt"
	"time"

	"github.com/256dpi/gomqtt/packet"

	"verifh/hx"
)

// termEntered reports whether the n-th connection that presented the id has entered Backend.Terminate
func (b *RecBackend) termEntered(id string, n int) bool {
	b.mu.Lock()
	defer b.mu.Unlock()
	l := b.perID[id]
	return len(l) >= n && b.terms[l[n-1]] > 0
}

func waitFor(d time.Duration, f func() bool) bool {
	deadline := time.Now().Add(d)
	for time.Now().Before(deadline) {
		if f() {
			return true
		}
		time.Sleep(time.Millisecond)
	}
	return f()
}

// ------------------------------------------------------------------- C08

// dyingWindow: QoS 1 messages accepted (PUBACKed) in the window between a persistent subscriber's connection dying and
// its Terminate — held open here by gating Terminate — are all delivered after the reconnect.
func dyingWindow(o *out, c *hx.Ctx) {
	for _, how := range []string{"close", "disconnect"} {
		n := o.scn("c08 messages accepted while the subscriber's connection is dying (Terminate held back), end by " + how)
		s := startSys(3, 1000)
		rel := s.backend.holdTerminate("dw", 1)
		st := newSubState()
		sub, _ := dialPeer("sub", s.port, true)
		sub.state = st
		feeder, _ := dialPeer("feed", s.port, true)
		if sub.connect("dw", false, nil) == nil || feeder.connect("feed", true, nil) == nil || !sub.subscribe(1, "dw/#", 1) {
			o.direct("setup", n, false, "could not connect")
			rel()
			s.stop()
			continue
		}
		if how == "disconnect" {
			sub.send(&packet.Disconnect{})
		} else {
			sub.close()
		}
		entered := waitFor(long, func() bool { return s.backend.termEntered("dw", 1) })
		const k = 24
		for i := 0; i < k; i++ {
			feeder.send(&packet.Publish{ID: packet.ID(1 + i), Message: packet.Message{Topic: "dw/x", Payload: payload(0, 1, i), QOS: 1}})
		}
		accepted := waitFor(long, func() bool { return ackCount(feeder) >= k })
		rel()
		sub.close()
		np, _ := dialPeer("sub2", s.port, true)
		np.state = st
		np.connect("dw", false, nil)
		waitFor(long, func() bool { return len(st.missing(k)) == 0 })
		missing := st.missing(k)
		o.direct("nothing_lost", n, entered && accepted && len(missing) == 0,
			fmt.Sprintf("cleanup reached Terminate=%v, all %d publishes acknowledged to the publisher=%v, never delivered to the persistent subscriber after its reconnect: %v", entered, k, accepted, missing))
		np.close()
		feeder.close()
		s.stop()
		o.syslog(n, s)
		c.Stat("scenarios", 1)
	}
}

// coSubscriber: a QoS 1 message that a lower-QoS co-subscriber dequeued first still reaches the persistent QoS 1
// subscriber as QoS 1 (packet id, stored, retransmitted after a cut).
func coSubscriber(o *out, c *hx.Ctx) {
	for _, pq := range []int{1, 2} {
		n := o.scn(fmt.Sprintf("c08 co-subscriber with a lower granted QoS dequeues first (publish QoS %d)", pq))
		s := startSys(3, 100)
		b1, _ := dialPeer("B1", s.port, true)
		b1.connect("cb", false, nil)
		b1.subscribe(1, "co/#", pq)
		b1.close()
		b1.isClosed(long)
		waitFor(long, func() bool { return s.backend.termEntered("cb", 1) })
		a, _ := dialPeer("A", s.port, true)
		a.connect("ca", true, nil)
		a.subscribe(1, "co/#", 0)
		feeder, _ := dialPeer("feed", s.port, true)
		feeder.connect("feed", true, nil)
		feeder.send(&packet.Publish{ID: 1, Message: packet.Message{Topic: "co/x", Payload: payload(0, pq, 0), QOS: packet.QOS(pq)}})
		waitFor(long, func() bool { return ackCount(feeder) >= 1 })
		waitFor(long, func() bool { return len(a.received()) >= 1 })
		gotA := len(a.received())
		b2, _ := dialPeer("B2", s.port, false) // does not acknowledge
		b2.connect("cb", false, nil)
		waitFor(long, func() bool { return len(b2.received()) >= 1 })
		var first *packet.Publish
		if r := b2.received(); len(r) > 0 {
			first = r[0]
		}
		okQ := first != nil && int(first.Message.QOS) == pq && first.ID != 0
		o.direct("qos_kept", n, gotA == 1 && okQ, fmt.Sprintf("QoS 0 co-subscriber received %d; persistent subscriber (granted %d) received %v", gotA, pq, first))
		b2.close()
		b2.isClosed(long)
		b3, _ := dialPeer("B3", s.port, true)
		b3.connect("cb", false, nil)
		again := waitFor(long, func() bool {
			for _, p := range b3.received() {
				if _, _, i, ok := parsePayload(p.Message.Payload); ok && i == 0 && p.Dup && int(p.Message.QOS) == pq {
					return true
				}
			}
			return false
		})
		o.direct("nothing_lost", n, again, "the unacknowledged delivery is retransmitted (dup) after the subscriber's reconnect")
		b3.close()
		a.close()
		feeder.close()
		s.stop()
		o.syslog(n, s)
		c.Stat("scenarios", 1)
	}
}

// ------------------------------------------------------------------- C12

// the will of a client that ended without DISCONNECT reaches every matching observer exactly once — also an observer
// that is busy (window used up, queue full) at that moment and acknowledges a little later
func runC12(c *hx.Ctx) {
	o := newOut(c)
	for _, wq := range []int{0, 1, 2} {
		for _, cause := range []string{"close", "protocol-error"} {
			n := o.scn(fmt.Sprintf("c12 will (QoS %d) for an observer whose queue is full when the client ends by %s", wq, cause))
			s := startSys(1, 2)
			obs, _ := dialPeer("obs", s.port, true)
			obs.state = newSubState()
			obs.mu.Lock()
			obs.hold = 1
			obs.mu.Unlock()
			idle, _ := dialPeer("idle", s.port, true)
			feeder, _ := dialPeer("feed", s.port, true)
			if obs.connect("obs", true, nil) == nil || idle.connect("idleobs", true, nil) == nil || feeder.connect("feed", true, nil) == nil {
				o.direct("setup", n, false, "could not connect")
				s.stop()
				continue
			}
			obs.subscribe(1, "will/#", 2)
			obs.subscribe(2, "fill/#", 1)
			idle.subscribe(1, "will/#", 2)
			// one delivery in flight and unacknowledged (window 1), two queued: the observer's stored queue (size 2) is full
			for i := 0; i < 3; i++ {
				feeder.send(&packet.Publish{ID: packet.ID(1 + i), Message: packet.Message{Topic: "fill/x", Payload: payload(0, 1, i), QOS: 1}})
			}
			filled := waitFor(long, func() bool { return ackCount(feeder) >= 3 })
			wc, _ := dialPeer("wc", s.port, true)
			wc.connect("wc", true, &packet.Message{Topic: "will/wc", Payload: []byte("gone"), QOS: packet.QOS(wq)})
			if cause == "close" {
				wc.close()
			} else {
				wc.send(packet.NewConnack())
			}
			// the cleanup is publishing the will (QoS>0: parked inside the backend, waiting for room at the busy observer; QoS 0: done)
			waitFor(long, func() bool { return s.backend.parked("wc") >= 1 || s.backend.published("wc") >= 1 })
			obs.releaseHeld()
			count := func(p *peer) int { return p.countTopic("will/wc") }
			waitFor(long, func() bool { return count(obs) >= 1 && count(idle) >= 1 })
			time.Sleep(absence)
			// a QoS 0 will uses the temporary queue, which is not full: delivered as well
			o.direct("will_delivered", n, filled && count(obs) == 1 && count(idle) == 1,
				fmt.Sprintf("queue filled=%v; will seen by the busy observer %d time(s), by the idle observer %d time(s) (1 and 1 expected)", filled, count(obs), count(idle)))
			wills := 0
			for _, l := range s.backend.log.snapshot() {
				if len(l) > 8 && l[:8] == "WillPub " {
					wills++
				}
			}
			o.direct("will_once", n, wills == 1, fmt.Sprintf("the backend was handed the will %d time(s)", wills))
			obs.close()
			idle.close()
			feeder.close()
			wc.close()
			bad := s.backend.lifecycle(long)
			o.direct("lifecycle", n, len(bad) == 0, joinLines(bad))
			s.stop()
			o.syslog(n, s)
			c.Stat("scenarios", 1)
		}
	}
	// the dying client's own queue is full and it is subscribed to its own will topic: every other observer still gets the will
	ownQueueFull(o, c, true)
	keepAlive(o, c)
	willBehindBlockedWrite(o, c)
	willObservers(o, c)
	r5BackendC12(o, c) // r5_backend_c12.go: backend shutdown as the cause, the dying client's own persistent session as the observer
	retainedWillDuringSubscribe(o, c)
	// clean DISCONNECT: no will, whatever the observers do
	{
		n := o.scn("c12 clean disconnect: no will")
		s := startSys(3, 100)
		obs, _ := dialPeer("obs", s.port, true)
		obs.connect("obs", true, nil)
		obs.subscribe(1, "will/#", 1)
		wc, _ := dialPeer("wc", s.port, true)
		wc.connect("wc", true, &packet.Message{Topic: "will/wc", Payload: []byte("gone"), QOS: 1})
		wc.send(&packet.Disconnect{})
		wc.isClosed(long)
		waitFor(long, func() bool { c := s.backend.nth("wc", 1); return c != nil && closedNow(c) }) // the cleanup is through
		time.Sleep(absence)
		o.direct("no_will_after_disconnect", n, len(obs.received()) == 0, fmt.Sprintf("observer received %d message(s)", len(obs.received())))
		obs.close()
		s.stop()
		o.syslog(n, s)
		c.Stat("scenarios", 1)
	}
}

// keepAlive (over real TCP): a client that announced keep-alive 1 s and falls silent ends without DISCONNECT: its will is
// published — not before one and a half keep-alive intervals have passed, and in bounded time; the same when the client asked for
// 60 s and the backend imposes a maximum of 1 s; a client that keeps sending PINGREQ is not dropped.
//
// Clocks: t0 is taken BEFORE the CONNECT is sent and the will's arrival is read afterwards, so every delay of a loaded machine
// makes the measured time longer: the lower bound cannot fail because the machine is slow.  The pinging client's verdict is
// void if the harness itself was stalled for more than a second between two PINGREQs.
func keepAlive(o *out, c *hx.Ctx) {
	sc := o.begin(c, "c12 keep-alive over TCP: silent clients are dropped after 1.5 intervals and their wills published, a pinging one stays", 3, 100)
	defer sc.end()
	sc.s.backend.maxKeepAliveFor["ka-max"] = time.Second
	obs := sc.dial("obs", true)
	if obs.connect("obs", true, nil) == nil || !obs.subscribe(1, "will/#", 1) {
		sc.direct("setup", false, "observer could not connect")
		return
	}
	type silent struct {
		id        string
		keepAlive uint16
		p         *peer
		t0        time.Time
		after     chan time.Duration // when the observer held the will, counted from t0
		busy      bool               // subscribed to a topic on which another client publishes every 100 ms
	}
	cl := []*silent{{id: "ka-own", keepAlive: 1}, {id: "ka-max", keepAlive: 60}, {id: "ka-busy", keepAlive: 1, busy: true}}
	// broker-to-client traffic does not keep a silent client alive: a publisher feeds the busy topic until the will of its
	// subscriber has been seen (or the bound for that is over)
	busyPub := sc.dial("ka-pub", true)
	busyPub.connect("ka-pub", true, nil)
	stopBusy := make(chan struct{})
	busyDone := make(chan struct{})
	go func() {
		defer close(busyDone)
		for i := 0; ; i++ {
			select {
			case <-stopBusy:
				return
			default:
			}
			busyPub.send(&packet.Publish{Message: packet.Message{Topic: "busy/x", Payload: payload(0, 0, i)}})
			time.Sleep(100 * time.Millisecond)
		}
	}()
	for _, s := range cl {
		s.p = sc.dial(s.id, true)
		cp := packet.NewConnect()
		cp.ClientID = s.id
		cp.KeepAlive = s.keepAlive
		cp.Will = &packet.Message{Topic: "will/" + s.id, Payload: []byte("silent"), QOS: 1}
		s.t0 = time.Now()
		s.p.send(cp)
		if s.busy {
			// its last packet is the SUBSCRIBE: the clock starts before that is sent
			s.p.await(isConnack, long)
			s.t0 = time.Now()
			s.p.send(&packet.Subscribe{ID: 1, Subscriptions: []packet.Subscription{{Topic: "busy/#", QOS: 0}}})
		}
		s.after = make(chan time.Duration, 1)
		go func(s *silent) {
			topic := "will/" + s.id
			if waitFor(long, func() bool { return obs.countTopic(topic) >= 1 }) {
				s.after <- time.Since(s.t0)
			} else {
				s.after <- -1
			}
		}(s)
	}
	// the pinging client: keep-alive 1 s, a PINGREQ every 200 ms for 2.6 s
	pg := sc.dial("ka-ping", true)
	cp := packet.NewConnect()
	cp.ClientID = "ka-ping"
	cp.KeepAlive = 1
	cp.Will = &packet.Message{Topic: "will/ka-ping", Payload: []byte("dropped"), QOS: 1}
	pg.send(cp)
	acked := pg.await(isConnack, long) != nil
	start := time.Now()
	last := start
	var maxGap time.Duration
	for time.Since(start) < 2600*time.Millisecond && pg.isOpen() {
		pg.send(&packet.Pingreq{})
		if g := time.Since(last); g > maxGap {
			maxGap = g
		}
		last = time.Now()
		time.Sleep(200 * time.Millisecond)
	}
	if g := time.Since(last); g > maxGap {
		maxGap = g
	}
	stalled := maxGap > time.Second
	alive := pg.isOpen() && obs.countTopic("will/ka-ping") == 0
	sc.direct("keepalive_alive", acked && (alive || stalled), fmt.Sprintf("client with keep-alive 1 s sending PINGREQ every 200 ms for 2.6 s: still connected=%v, will published=%v, %d PINGRESP (longest gap between two PINGREQs on the harness side %v; void above 1 s)",
		pg.isOpen(), obs.countTopic("will/ka-ping") > 0, pg.count(isPingresp), maxGap.Round(time.Millisecond)))
	for _, s := range cl {
		after := <-s.after
		got := after >= 0
		dropped := s.p.isClosed(long)
		const least = 1350 * time.Millisecond // 1.5 s · 0.9
		if s.busy {
			close(stopBusy)
			<-busyDone
		}
		sc.direct("keepalive_will", got && dropped && after >= least,
			fmt.Sprintf("client %s (keep-alive requested %d s, effective 1 s; publishes received meanwhile: %d) fell silent after its last packet: will received=%v %.2fs after that packet was sent (not before 1.35 s, and within %v), connection dropped=%v", s.id, s.keepAlive, s.p.pubCount(), got, after.Seconds(), long, dropped))
	}
	time.Sleep(absence)
	once := obs.countTopic("will/ka-own") == 1 && obs.countTopic("will/ka-max") == 1 && obs.countTopic("will/ka-busy") == 1
	sc.direct("will_once", once, fmt.Sprintf("wills of the three dropped clients seen %d, %d and %d time(s)", obs.countTopic("will/ka-own"), obs.countTopic("will/ka-max"), obs.countTopic("will/ka-busy")))
}

// ------------------------------------------------------------------- C16 / C15

// backPressure: small session queue and small window, bursts larger than both from one publisher to an always-connected
// subscriber that acknowledges everything (immediately / after a pause / in reverse batches): every message arrives, in
// publication order, and the publisher gets all its acknowledgements — nothing stalls as long as the subscriber acknowledges.
func backPressure(o *out, c *hx.Ctx, thorough bool) {
	type cfg struct{ w, q, burst, qos int }
	cfgs := []cfg{{1, 2, 8, 1}, {2, 3, 6, 1}, {2, 3, 12, 2}, {1, 1, 6, 2}, {3, 2, 16, 1}}
	if thorough {
		for w := 1; w <= 4; w++ {
			for q := 1; q <= 4; q++ {
				cfgs = append(cfgs, cfg{w, q, 3*(w+q) + c.Rng.Intn(8), 1 + c.Rng.Intn(2)})
			}
		}
	}
	for _, mode := range []string{"immediate", "paused"} {
		for _, f := range cfgs {
			n := o.scn(fmt.Sprintf("c16 back-pressure window=%d queue=%d burst=%d qos=%d acks=%s", f.w, f.q, f.burst, f.qos, mode))
			s := startSys(f.w, f.q)
			sub, _ := dialPeer("sub", s.port, true)
			sub.state = newSubState()
			pub, _ := dialPeer("pub", s.port, true)
			if sub.connect("bpsub", true, nil) == nil || pub.connect("bppub", true, nil) == nil || !sub.subscribe(1, "bp/#", 2) {
				o.direct("setup", n, false, "could not connect")
				s.stop()
				continue
			}
			if mode == "paused" {
				sub.mu.Lock()
				sub.hold = f.w
				sub.mu.Unlock()
			}
			done := make(chan struct{})
			go func() {
				defer close(done)
				for i := 0; i < f.burst; i++ {
					if f.qos == 2 {
						// a publisher must not have more QoS 2 exchanges open than the broker's ParallelPublishes (10): its own
						// PUBRELs would wait behind a PUBLISH the broker cannot take yet (a client-side obligation, see DESIGN 12.4)
						waitFor(3*long, func() bool { return i-ackCount(pub) < 8 })
					}
					pub.send(&packet.Publish{ID: packet.ID(1 + i), Message: packet.Message{Topic: "bp/x", Payload: payload(1, f.qos, i), QOS: packet.QOS(f.qos)}})
				}
			}()
			if mode == "paused" {
				// window used up, queue full: the publisher is held back inside the broker
				waitFor(long, func() bool { return s.backend.parked("bppub") >= 1 })
				sub.releaseHeld()
			}
			<-done
			all := waitFor(3*long, func() bool { return len(sub.received()) >= f.burst })
			acked := waitFor(3*long, func() bool { return ackCount(pub) >= f.burst })
			got := sub.received()
			seq := []int{}
			for _, p := range got {
				if _, _, i, ok := parsePayload(p.Message.Payload); ok {
					seq = append(seq, i)
				}
			}
			o.direct("progress", n, all && acked, fmt.Sprintf("subscriber acknowledges everything: received %d of %d, publisher acknowledged %d of %d", len(got), f.burst, ackCount(pub), f.burst))
			inOrder := true
			for i := 1; i < len(seq); i++ {
				if seq[i] < seq[i-1] {
					inOrder = false
				}
			}
			o.direct("in_order", n, inOrder, fmt.Sprintf("arrival order of one publisher's messages at one subscriber: %v", seq))
			sub.close()
			pub.close()
			stopped := s.stop()
			o.direct("shutdown", n, stopped, "backend and engine shut down in time")
			o.syslog(n, s)
			c.Stat("scenarios", 1)
		}
	}
}

func runC16(c *hx.Ctx) {
	o := newOut(c)
	backPressure(o, c, c.Thorough())
	tokenTimerAfterIdle(o, c)
	for _, mode := range []string{"first", "resumed", "takeover"} {
		windowBound(o, c, 3, mode)
	}
	windowBound(o, c, 12, "resumed")
}

// ------------------------------------------------------------------- C14

// closeThenConnect: the backend is closed while nobody is connected and the engine still listens; a connection that
// arrives afterwards is refused or closed promptly, its closed signal fires, and nothing is left blocked.
func closeThenConnect(o *out, c *hx.Ctx) {
	for _, before := range []int{0, 1} {
		n := o.scn(fmt.Sprintf("c14 backend closed with %d earlier client(s) gone, then a connection arrives", before))
		s := startSys(3, 100)
		for i := 0; i < before; i++ {
			p, _ := dialPeer("early", s.port, true)
			p.connect("early", true, nil)
			p.send(&packet.Disconnect{})
			p.isClosed(long)
			// the early client is gone from the backend's point of view too
			waitFor(long, func() bool { c := s.backend.nth("early", 1); return c != nil && closedNow(c) })
		}
		closed := make(chan bool, 1)
		go func() { closed <- s.backend.Close(long) }()
		var ok bool
		select {
		case ok = <-closed:
		case <-time.After(2 * long):
		}
		o.direct("shutdown", n, ok, "Close of a backend without clients returns true")
		late, err := dialPeer("late", s.port, true)
		refused := err != nil
		if late != nil {
			ack := late.connect("late", true, nil)
			refused = ack == nil || ack.ReturnCode != packet.ConnectionAccepted
			gone := late.isClosed(long)
			o.direct("late_connection_released", n, gone || !refused, fmt.Sprintf("connection arriving after Close: accepted=%v, closed by the broker=%v", !refused, gone))
			late.close()
		}
		// a witness on a second, healthy broker instance is not needed: the life cycle check covers "closed signal fires"
		bad := s.backend.lifecycle(long)
		o.direct("lifecycle", n, len(bad) == 0, joinLines(bad))
		close(s.quit)
		select {
		case <-s.done:
		case <-time.After(long):
			o.direct("shutdown", n, false, "engine did not stop")
		}
		o.syslog(n, s)
		c.Stat("scenarios", 1)
	}
}

// ------------------------------------------------------------------- C06 / C12

// ownQueueFull: a client that subscribes to what it publishes and does not drain its deliveries runs into its own full
// queue.  The broker cannot wait for that client (it would wait for itself) and refuses the publish with an error; the
// message must then reach either every other matching subscriber or none of them — not the ones that happen to come
// first in the broker's session map.  For a will (the publisher is gone, nobody will read its queue) every other
// matching subscriber must still get it.
func ownQueueFull(o *out, c *hx.Ctx, will bool) {
	rounds := 6
	if c.Thorough() {
		rounds = 24
	}
	for r := 0; r < rounds; r++ {
		kind := "publish"
		if will {
			kind = "will"
		}
		n := o.scn(fmt.Sprintf("c06 %s into the publisher's own full queue, round %d", kind, r))
		s := startSys(1, 2)
		var obs []*peer
		for i := 0; i < 6; i++ {
			p, _ := dialPeer(fmt.Sprintf("o%d", i), s.port, true)
			// clean and persistent observers: the broker keeps them in two maps
			if p.connect(fmt.Sprintf("oq-o%d", i), i%2 == 0, nil) == nil || !p.subscribe(1, "oq/#", 1) {
				o.direct("setup", n, false, "observer could not connect")
			}
			obs = append(obs, p)
		}
		pub, _ := dialPeer("P", s.port, false) // never acknowledges what it receives
		var w *packet.Message
		if will {
			w = &packet.Message{Topic: "oq/will", Payload: []byte("gone"), QOS: 1}
		}
		pub.connect("oq-p", r%2 == 0, w)
		pub.subscribe(1, "oq/#", 1)
		// one delivery to P in flight and unacknowledged (window 1) + two queued: P's own queue (size 2) is full
		for i := 0; i < 3; i++ {
			pub.send(&packet.Publish{ID: packet.ID(1 + i), Message: packet.Message{Topic: "oq/x", Payload: payload(1, 1, i), QOS: 1}})
		}
		filled := waitFor(long, func() bool { return ackCount(pub) >= 3 })
		if will {
			pub.close()
		} else {
			pub.send(&packet.Publish{ID: 4, Message: packet.Message{Topic: "oq/x", Payload: payload(1, 1, 3), QOS: 1}})
		}
		pub.isClosed(long) // the refused publish ends the publisher's connection
		count := func() int {
			got := 0
			for _, p := range obs {
				for _, m := range p.received() {
					if will && m.Message.Topic == "oq/will" {
						got++
					} else if _, _, i, ok := parsePayload(m.Message.Payload); !will && ok && i == 3 {
						got++
					}
				}
			}
			return got
		}
		if will {
			waitFor(long, func() bool { return count() >= len(obs) })
		} else {
			// the publisher's cleanup is through: whatever the refused publish did, it has done
			waitFor(long, func() bool { c := s.backend.nth("oq-p", 1); return c != nil && closedNow(c) })
		}
		time.Sleep(absence)
		got := count()
		if will {
			o.direct("will_delivered", n, filled && got == len(obs), fmt.Sprintf("own queue filled=%v; the will reached %d of %d matching observers", filled, got, len(obs)))
		} else {
			acked := ackCount(pub) >= 4
			ok := filled && ((got == 0 && !acked) || got == len(obs))
			o.direct("all_or_nothing", n, ok, fmt.Sprintf("own queue filled=%v; the refused publish (acknowledged to the publisher=%v) reached %d of %d matching observers", filled, acked, got, len(obs)))
		}
		for _, p := range obs {
			p.close()
		}
		s.stop()
		o.syslog(n, s)
		c.Stat("scenarios", 1)
	}
}

func runC06(c *hx.Ctx) {
	o := newOut(c)
	ownQueueFull(o, c, false)
	ownQueueFull(o, c, true)
}
