package main

// r5_flow_debug.go — developer entry: `harness flow13|flow14|flow15|flow20 -out FILE` runs only the fifth-round flow-control
// scenarios of one command (the checks never use it: they run the full commands c13 c14 c15 c20, which include these scenarios).

import (
	"os"
	"strings"

	"verifh/hx"
)

func init() {
	if len(os.Args) < 2 || !strings.HasPrefix(os.Args[1], "flow") {
		return
	}
	wrap := func(f func(*out, *hx.Ctx)) func(*hx.Ctx) { return func(c *hx.Ctx) { f(newOut(c), c) } }
	hx.Main(map[string]func(*hx.Ctx){"flow13": wrap(runFlowC13), "flow14": wrap(runFlowC14), "flow15": wrap(runFlowC15), "flow20": wrap(runFlowC20)})
	os.Exit(0)
}
