package main

// main.go — whole-broker harness: real Engine + MemoryBackend (wrapped by RecBackend, peer.go) over TCP loopback,
// scripted MQTT peers.  Commands c06 c07 c08 c12 c13 c14 c15 c16 c20 (scenario groups of the properties of those names).
//
//	main.go   start/stop of a broker instance, payload numbering, the order oracle, the C08 rounds
//	peer.go   scripted peer, RecBackend: life-cycle log, gates, fault injection by call site
//	judge.go  verdict lines, watchdog, scenario context (lifecycle / shutdown / goroutines at every end), clauses on the backend log
//	c13.go c14.go c15.go extra.go   the scenarios
//
// Output: `scn <n> <name>`, `sys <n> <backend log line>`, `info …`, `direct <clause> scn=<n> ok|FAIL <detail>`.
// Every clause is evaluated on what peers and the recording backend observed of the implementation alone.

import (
	"fmt"
	"strconv"
	"strings"
	"time"

	"github.com/256dpi/gomqtt/broker"
	"github.com/256dpi/gomqtt/packet"

	"verifh/hx"
)

func main() {
	hx.Main(map[string]func(*hx.Ctx){"c11": runC11, "c06": runC06, "c07": runC07, "c08": runC08, "c12": runC12, "c13": runC13, "c14": runC14, "c15": runC15, "c16": runC16, "c20": runC20})
}

type sys struct {
	backend *RecBackend
	engine  *broker.Engine
	port    string
	quit    chan struct{}
	done    chan struct{}
}

func startSys(window int, queue int) *sys {
	b := newRecBackend()
	if window > 0 {
		b.ClientInflightMessages = window
	}
	if queue > 0 {
		b.SessionQueueSize = queue
	}
	// everything else keeps the library's defaults (kill timeout 5 s: a gate is held for an absence window, not longer; token
	// timeout, parallel publishes/subscribes, engine read limit and timeouts): a changed default is then seen by the scenarios.
	// window == 0 / queue == 0: the defaults for those too
	e := broker.NewEngine(b)
	port, quit, done := broker.Run(e, "tcp")
	return &sys{backend: b, engine: e, port: port, quit: quit, done: done}
}

func (s *sys) stop() bool {
	// a backend whose global mutex is held forever would block Close itself: bound the whole shutdown
	res := make(chan bool, 1)
	go func() {
		ok := s.backend.Close(long)
		close(s.quit)
		select {
		case <-s.done:
		case <-time.After(long):
			ok = false
		}
		res <- ok
	}()
	select {
	case ok := <-res:
		return ok
	case <-time.After(3 * long):
		return false
	}
}

func payload(pub, qos, n int) []byte { return []byte(fmt.Sprintf("%d:%d:%d", pub, qos, n)) }

func parsePayload(b []byte) (pub, qos, n int, ok bool) {
	f := strings.Split(string(b), ":")
	if len(f) != 3 {
		return 0, 0, 0, false
	}
	pub, e1 := strconv.Atoi(f[0])
	qos, e2 := strconv.Atoi(f[1])
	n, e3 := strconv.Atoi(f[2])
	return pub, qos, n, e1 == nil && e2 == nil && e3 == nil
}

// ackCount: PUBACK and PUBCOMP packets the peer has received (its completed QoS 1 / QoS 2 publishes)
func ackCount(p *peer) int {
	p.mu.Lock()
	defer p.mu.Unlock()
	return p.nAcks
}

// publish n numbered messages at each QoS, never more than 5 QoS>0 publishes unacknowledged (a
// publisher that pipelines more QoS 2 publishes than the broker's ParallelPublishes blocks its own
// connection until the token timeout: the processor waits for a token and never reads the PUBRELs)
func publishStream(p *peer, pub int, topic string, count int, nextID *int) {
	sent := 0
	for i := 0; i < count; i++ {
		for q := 0; q <= 2; q++ {
			m := &packet.Publish{Message: packet.Message{Topic: topic, Payload: payload(pub, q, i), QOS: packet.QOS(q)}}
			if q > 0 {
				*nextID++
				m.ID = packet.ID(*nextID)
				waitFor(3*long, func() bool { return sent-ackCount(p) < 5 })
				sent++
			}
			if p.send(m) != nil {
				return
			}
		}
	}
}

// per (publisher, publish qos, delivery qos): sequence numbers must be increasing (duplicates flagged dup are removed first)
func checkOrder(pubs []*packet.Publish) (bool, string) {
	last := map[string]int{}
	seen := map[string]bool{}
	for _, p := range pubs {
		pub, q, n, ok := parsePayload(p.Message.Payload)
		if !ok {
			continue
		}
		key := fmt.Sprintf("p%d/q%d/d%d", pub, q, p.Message.QOS)
		id := fmt.Sprintf("%s/%d", key, n)
		if seen[id] {
			if !p.Dup && p.Message.QOS == 2 {
				return false, fmt.Sprintf("message %s offered twice as a new QoS 2 delivery", id)
			}
			continue
		}
		seen[id] = true
		if l, ok := last[key]; ok && n < l {
			return false, fmt.Sprintf("stream %s: message %d arrived after %d", key, n, l)
		}
		last[key] = n
	}
	return true, fmt.Sprintf("%d streams", len(last))
}

// ------------------------------------------------------------------- C08

// a persistent subscriber that withholds acknowledgements, is cut, reconnects (repeatedly, also
// during the resend phase), while messages keep being published — also while it is offline
func runC08(c *hx.Ctx) {
	o := newOut(c)
	rounds := 8
	if c.Thorough() {
		rounds = 60
	}
	for r := 0; r < rounds; r++ {
		w := 1 + c.Rng.Intn(4)
		cuts := 1 + c.Rng.Intn(3)
		n := o.scn(fmt.Sprintf("c08 round=%d window=%d cuts=%d", r, w, cuts))
		s := startSys(w, 1000)
		sub, err := dialPeer("sub", s.port, true)
		feeder, _ := dialPeer("feed", s.port, true)
		if err != nil || feeder == nil || feeder.connect("feed", true, nil) == nil {
			o.direct("setup", n, false, "could not connect")
			s.stop()
			continue
		}
		st := newSubState()
		sub.state = st
		ack := sub.connect("sub", false, nil)
		o.direct("session_present", n, ack != nil && !ack.SessionPresent, "first connect of a persistent session: session-present must be false")
		sub.subscribe(1, "q1/#", 1)
		sub.subscribe(2, "q2/#", 2)
		sent := 0
		fid := 0
		send := func(k int) {
			for i := 0; i < k; i++ {
				q := 1 + sent%2
				fid++
				feeder.send(&packet.Publish{ID: packet.ID(fid), Message: packet.Message{Topic: fmt.Sprintf("q%d/x", q), Payload: payload(0, q, sent), QOS: packet.QOS(q)}})
				sent++
			}
			// wait until the broker has acknowledged them all (accepted responsibility)
			waitFor(3*long, func() bool { return ackCount(feeder) >= sent })
		}
		var all []*packet.Publish
		for cut := 0; cut < cuts; cut++ {
			hold := 1 + c.Rng.Intn(w+2) // leave 1..window+2 deliveries unacknowledged (the window caps what is in flight)
			sub.setHold(hold)
			send(w + 2)
			waitFor(long, func() bool { return sub.heldCount() >= hold || sub.heldCount() >= w })
			all = append(all, sub.received()...)
			c.Emit("info scn=%d cut=%d sent=%d received_so_far=%d hold_left=%d", n, cut, sent, len(all), sub.hold)
			sub.close()
			sub.isClosed(long)
			// published while the subscriber is offline: queued, delivered after reconnect
			send(2)
			np, _ := dialPeer(fmt.Sprintf("sub-r%d", cut), s.port, true)
			np.state = st
			// keep withholding acknowledgements of the retransmissions for a while, so that new messages are
			// delivered while older ones are still unacknowledged
			np.hold = c.Rng.Intn(w + 1)
			if cut%2 == 1 {
				// cut again in the middle of the resend phase, without acknowledging anything
				np.mu.Lock()
				np.autoAck = false
				np.mu.Unlock()
				a2 := np.connect("sub", false, nil)
				o.direct("session_present", n, a2 != nil && a2.SessionPresent, "resumed persistent session: session-present must be true")
				time.Sleep(5 * time.Millisecond)
				all = append(all, np.received()...)
				np.close()
				np.isClosed(long)
				np, _ = dialPeer(fmt.Sprintf("sub-r%d-b", cut), s.port, true)
				np.state = st
			}
			a3 := np.connect("sub", false, nil)
			o.direct("session_present", n, a3 != nil && a3.SessionPresent, "resumed persistent session: session-present must be true")
			sub = np
		}
		sub.idle(30*time.Millisecond, 3*time.Second)
		all = append(all, sub.received()...)
		// a last unclean reconnect that acknowledges everything it gets: whatever is still recorded must come again
		sub.close()
		sub.isClosed(long)
		fin, _ := dialPeer("sub-final", s.port, true)
		fin.state = st
		fin.connect("sub", false, nil)
		waitFor(long, func() bool { return len(st.missing(sent)) == 0 })
		time.Sleep(absence)
		all = append(all, fin.received()...)
		sub = fin
		// every accepted message was delivered AND could be acknowledged by the subscriber (a message it never
		// acknowledged must keep coming back); QoS 2 never twice as a new (non-dup) delivery
		fresh2 := map[int]int{}
		for _, p := range all {
			if _, q, i, ok := parsePayload(p.Message.Payload); ok {
				if q == 2 && !p.Dup {
					fresh2[i]++
				}
			}
		}
		var missing, twice []int
		st.mu.Lock()
		for i := 0; i < sent; i++ {
			if !st.acked[i] {
				missing = append(missing, i)
			}
			if fresh2[i] > 1 {
				twice = append(twice, i)
			}
		}
		st.mu.Unlock()
		o.direct("nothing_lost", n, len(missing) == 0, fmt.Sprintf("published %d QoS>0 messages to a persistent subscriber; never delivered-and-acknowledged although the subscriber acknowledges everything in the end: %v", sent, missing))
		o.direct("qos2_not_twice_new", n, len(twice) == 0, fmt.Sprintf("QoS 2 messages offered twice as a new delivery: %v", twice))
		// a clean-session connect discards everything: no session-present, nothing delivered, subscriptions gone
		sub.mu.Lock()
		sub.hold = 1000
		sub.mu.Unlock()
		send(2)
		time.Sleep(5 * time.Millisecond)
		sub.close()
		sub.isClosed(long)
		cl, _ := dialPeer("sub-clean", s.port, true)
		a4 := cl.connect("sub", true, nil)
		send(2)
		cl.idle(20*time.Millisecond, time.Second)
		o.direct("clean_discards", n, a4 != nil && !a4.SessionPresent && len(cl.received()) == 0,
			fmt.Sprintf("clean connect: session-present=%v, %d publishes delivered (0 expected)", a4 != nil && a4.SessionPresent, len(cl.received())))
		cl.close()
		feeder.close()
		s.stop()
		o.syslog(n, s)
		c.Stat("scenarios", 1)
	}
	dyingWindow(o, c)
	coSubscriber(o, c)
	for _, v := range []string{"two-cuts", "three-cuts", "second"} {
		pubrelAcrossCuts(o, c, v)
	}
	takeoverCombos(o, c)
	multiFilterSubscribe(o, c, []int{1, 0})
	multiFilterSubscribe(o, c, []int{2, 1, 0})
}
