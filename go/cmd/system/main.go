package main

// main.go — whole-broker harness: real Engine + MemoryBackend (wrapped by
// RecBackend) over TCP loopback, scripted MQTT peers.  Commands c13, c14, c15.
//
// Output: `scn <n> <name>`, `sys <n> <event> <client>` (life-cycle log for the
// Coq scanners of coq/Broker/System.v), `direct <clause> scn=<n> ok|FAIL <detail>`.

import (
	"fmt"
	"net"
	"os"
	"runtime"
	"sort"
	"strconv"
	"strings"
	"sync"
	"time"

	"github.com/256dpi/gomqtt/broker"
	"github.com/256dpi/gomqtt/packet"
	"github.com/256dpi/gomqtt/transport"

	"verifh/hx"
)

func main() {
	hx.Main(map[string]func(*hx.Ctx){"c06": runC06, "c08": runC08, "c12": runC12, "c13": runC13, "c14": runC14, "c15": runC15, "c16": runC16})
}

type sys struct {
	backend *RecBackend
	engine  *broker.Engine
	port    string
	quit    chan struct{}
	done    chan struct{}
}

func startSys(window int, queue int) *sys {
	b := newRecBackend()
	if window > 0 {
		b.ClientInflightMessages = window
	}
	if queue > 0 {
		b.SessionQueueSize = queue
	}
	b.KillTimeout = 2 * time.Second
	e := broker.NewEngine(b)
	port, quit, done := broker.Run(e, "tcp")
	return &sys{backend: b, engine: e, port: port, quit: quit, done: done}
}

func (s *sys) stop() bool {
	// a backend whose global mutex is held forever would block Close itself: bound the whole shutdown
	res := make(chan bool, 1)
	go func() {
		ok := s.backend.Close(3 * time.Second)
		close(s.quit)
		select {
		case <-s.done:
		case <-time.After(3 * time.Second):
			ok = false
		}
		res <- ok
	}()
	select {
	case ok := <-res:
		return ok
	case <-time.After(8 * time.Second):
		return false
	}
}

type out struct {
	c   *hx.Ctx
	mu  sync.Mutex
	n   int
	bad int
}

func (o *out) scn(name string) int {
	o.mu.Lock()
	defer o.mu.Unlock()
	o.n++
	o.c.Emit("scn %d %s", o.n, name)
	fmt.Fprintf(os.Stderr, "begin %d %s\n", o.n, name)
	return o.n
}

func (o *out) direct(clause string, n int, ok bool, detail string) {
	o.mu.Lock()
	defer o.mu.Unlock()
	if ok {
		o.c.Emit("direct %s scn=%d ok %s", clause, n, detail)
	} else {
		o.bad++
		o.c.Emit("direct %s scn=%d FAIL %s", clause, n, detail)
	}
	o.c.Stat("direct_"+clause, 1)
}

func (o *out) syslog(n int, s *sys) {
	o.mu.Lock()
	defer o.mu.Unlock()
	for _, l := range s.backend.log.snapshot() {
		o.c.Emit("sys %d %s", n, l)
	}
}

func payload(pub, qos, n int) []byte { return []byte(fmt.Sprintf("%d:%d:%d", pub, qos, n)) }

func parsePayload(b []byte) (pub, qos, n int, ok bool) {
	f := strings.Split(string(b), ":")
	if len(f) != 3 {
		return 0, 0, 0, false
	}
	pub, e1 := strconv.Atoi(f[0])
	qos, e2 := strconv.Atoi(f[1])
	n, e3 := strconv.Atoi(f[2])
	return pub, qos, n, e1 == nil && e2 == nil && e3 == nil
}

func ackCount(p *peer) int {
	p.mu.Lock()
	defer p.mu.Unlock()
	acks := 0
	for _, g := range p.all {
		switch g.(type) {
		case *packet.Puback, *packet.Pubcomp:
			acks++
		}
	}
	return acks
}

// publish n numbered messages at each QoS, never more than 5 QoS>0 publishes unacknowledged (a
// publisher that pipelines more QoS 2 publishes than the broker's ParallelPublishes blocks its own
// connection until the token timeout: the processor waits for a token and never reads the PUBRELs)
func publishStream(p *peer, pub int, topic string, count int, nextID *int) {
	sent := 0
	for i := 0; i < count; i++ {
		for q := 0; q <= 2; q++ {
			m := &packet.Publish{Message: packet.Message{Topic: topic, Payload: payload(pub, q, i), QOS: packet.QOS(q)}}
			if q > 0 {
				*nextID++
				m.ID = packet.ID(*nextID)
				deadline := time.Now().Add(3 * time.Second)
				for sent-ackCount(p) >= 5 && time.Now().Before(deadline) {
					time.Sleep(200 * time.Microsecond)
				}
				sent++
			}
			if p.send(m) != nil {
				return
			}
		}
	}
}

// per (publisher, publish qos, delivery qos): sequence numbers must be increasing (duplicates flagged dup are removed first)
func checkOrder(pubs []*packet.Publish) (bool, string) {
	last := map[string]int{}
	seen := map[string]bool{}
	for _, p := range pubs {
		pub, q, n, ok := parsePayload(p.Message.Payload)
		if !ok {
			continue
		}
		key := fmt.Sprintf("p%d/q%d/d%d", pub, q, p.Message.QOS)
		id := fmt.Sprintf("%s/%d", key, n)
		if seen[id] {
			if !p.Dup && p.Message.QOS == 2 {
				return false, fmt.Sprintf("message %s offered twice as a new QoS 2 delivery", id)
			}
			continue
		}
		seen[id] = true
		if l, ok := last[key]; ok && n < l {
			return false, fmt.Sprintf("stream %s: message %d arrived after %d", key, n, l)
		}
		last[key] = n
	}
	return true, fmt.Sprintf("%d streams", len(last))
}

// ------------------------------------------------------------------- C08

// a persistent subscriber that withholds acknowledgements, is cut, reconnects (repeatedly, also
// during the resend phase), while messages keep being published — also while it is offline
func runC08(c *hx.Ctx) {
	o := &out{c: c}
	rounds := 8
	if c.Thorough() {
		rounds = 60
	}
	for r := 0; r < rounds; r++ {
		w := 1 + c.Rng.Intn(4)
		cuts := 1 + c.Rng.Intn(3)
		n := o.scn(fmt.Sprintf("c08 round=%d window=%d cuts=%d", r, w, cuts))
		s := startSys(w, 1000)
		sub, err := dialPeer("sub", s.port, true)
		feeder, _ := dialPeer("feed", s.port, true)
		if err != nil || feeder == nil || feeder.connect("feed", true, nil) == nil {
			o.direct("setup", n, false, "could not connect")
			s.stop()
			continue
		}
		st := newSubState()
		sub.state = st
		ack := sub.connect("sub", false, nil)
		o.direct("session_present", n, ack != nil && !ack.SessionPresent, "first connect of a persistent session: session-present must be false")
		sub.subscribe(1, "q1/#", 1)
		sub.subscribe(2, "q2/#", 2)
		sent := 0
		fid := 0
		send := func(k int) {
			for i := 0; i < k; i++ {
				q := 1 + sent%2
				fid++
				feeder.send(&packet.Publish{ID: packet.ID(fid), Message: packet.Message{Topic: fmt.Sprintf("q%d/x", q), Payload: payload(0, q, sent), QOS: packet.QOS(q)}})
				sent++
			}
			// wait until the broker has acknowledged them all (accepted responsibility)
			deadline := time.Now().Add(3 * time.Second)
			for ackCount(feeder) < sent && time.Now().Before(deadline) {
				time.Sleep(500 * time.Microsecond)
			}
		}
		var all []*packet.Publish
		for cut := 0; cut < cuts; cut++ {
			sub.mu.Lock()
			sub.hold = 1 + c.Rng.Intn(w+2) // leave 1..window+2 deliveries unacknowledged
			sub.mu.Unlock()
			send(w + 2)
			time.Sleep(10 * time.Millisecond)
			all = append(all, sub.received()...)
			c.Emit("info scn=%d cut=%d sent=%d received_so_far=%d hold_left=%d", n, cut, sent, len(all), sub.hold)
			sub.close()
			sub.isClosed(time.Second)
			// published while the subscriber is offline: queued, delivered after reconnect
			send(2)
			np, _ := dialPeer(fmt.Sprintf("sub-r%d", cut), s.port, true)
			np.state = st
			// keep withholding acknowledgements of the retransmissions for a while, so that new messages are
			// delivered while older ones are still unacknowledged
			np.hold = c.Rng.Intn(w + 1)
			if cut%2 == 1 {
				// cut again in the middle of the resend phase, without acknowledging anything
				np.mu.Lock()
				np.autoAck = false
				np.mu.Unlock()
				a2 := np.connect("sub", false, nil)
				o.direct("session_present", n, a2 != nil && a2.SessionPresent, "resumed persistent session: session-present must be true")
				time.Sleep(5 * time.Millisecond)
				all = append(all, np.received()...)
				np.close()
				np.isClosed(time.Second)
				np, _ = dialPeer(fmt.Sprintf("sub-r%d-b", cut), s.port, true)
				np.state = st
			}
			a3 := np.connect("sub", false, nil)
			o.direct("session_present", n, a3 != nil && a3.SessionPresent, "resumed persistent session: session-present must be true")
			sub = np
		}
		sub.idle(30*time.Millisecond, 3*time.Second)
		all = append(all, sub.received()...)
		// a last unclean reconnect that acknowledges everything it gets: whatever is still recorded must come again
		sub.close()
		sub.isClosed(time.Second)
		fin, _ := dialPeer("sub-final", s.port, true)
		fin.state = st
		fin.connect("sub", false, nil)
		fin.idle(30*time.Millisecond, 3*time.Second)
		all = append(all, fin.received()...)
		sub = fin
		// every accepted message was delivered AND could be acknowledged by the subscriber (a message it never
		// acknowledged must keep coming back); QoS 2 never twice as a new (non-dup) delivery
		fresh2 := map[int]int{}
		for _, p := range all {
			if _, q, i, ok := parsePayload(p.Message.Payload); ok {
				if q == 2 && !p.Dup {
					fresh2[i]++
				}
			}
		}
		var missing, twice []int
		st.mu.Lock()
		for i := 0; i < sent; i++ {
			if !st.acked[i] {
				missing = append(missing, i)
			}
			if fresh2[i] > 1 {
				twice = append(twice, i)
			}
		}
		st.mu.Unlock()
		o.direct("nothing_lost", n, len(missing) == 0, fmt.Sprintf("published %d QoS>0 messages to a persistent subscriber; never delivered-and-acknowledged although the subscriber acknowledges everything in the end: %v", sent, missing))
		o.direct("qos2_not_twice_new", n, len(twice) == 0, fmt.Sprintf("QoS 2 messages offered twice as a new delivery: %v", twice))
		// a clean-session connect discards everything: no session-present, nothing delivered, subscriptions gone
		sub.mu.Lock()
		sub.hold = 1000
		sub.mu.Unlock()
		send(2)
		time.Sleep(5 * time.Millisecond)
		sub.close()
		sub.isClosed(time.Second)
		cl, _ := dialPeer("sub-clean", s.port, true)
		a4 := cl.connect("sub", true, nil)
		send(2)
		cl.idle(20*time.Millisecond, time.Second)
		o.direct("clean_discards", n, a4 != nil && !a4.SessionPresent && len(cl.received()) == 0,
			fmt.Sprintf("clean connect: session-present=%v, %d publishes delivered (0 expected)", a4 != nil && a4.SessionPresent, len(cl.received())))
		cl.close()
		feeder.close()
		s.stop()
		o.syslog(n, s)
		c.Stat("scenarios", 1)
	}
	dyingWindow(o, c)
	coSubscriber(o, c)
}

// ------------------------------------------------------------------- C15

func runC15(c *hx.Ctx) {
	o := &out{c: c}
	defer backPressure(o, c, false)
	type cfg struct {
		pubs, subs, window, count int
		cut                       bool
	}
	var cfgs []cfg
	for _, w := range []int{1, 2, 3, 10} {
		cfgs = append(cfgs, cfg{1, 1, w, 20, false}, cfg{3, 2, w, 12, false}, cfg{2, 2, w, 12, true})
	}
	cfgs = append(cfgs, cfg{8, 4, 5, 8, false}, cfg{8, 4, 2, 8, true})
	if c.Thorough() {
		for w := 1; w <= 10; w++ {
			cfgs = append(cfgs, cfg{1 + c.Rng.Intn(8), 1 + c.Rng.Intn(4), w, 30, w%2 == 0})
		}
	}
	for _, cf := range cfgs {
		name := fmt.Sprintf("c15 pubs=%d subs=%d window=%d count=%d cut=%v", cf.pubs, cf.subs, cf.window, cf.count, cf.cut)
		n := o.scn(name)
		s := startSys(cf.window, 10000)
		var subs []*peer
		okAll := true
		for i := 0; i < cf.subs; i++ {
			sp, err := dialPeer(fmt.Sprintf("sub%d", i), s.port, true)
			if err != nil || sp.connect(fmt.Sprintf("sub%d", i), false, nil) == nil {
				okAll = false
				break
			}
			// differing granted QoS, overlapping filters
			sp.subscribe(1, "all", i%3)
			sp.subscribe(2, "pub/#", (i+1)%3)
			subs = append(subs, sp)
		}
		if !okAll {
			o.direct("order", n, false, "could not set up subscribers")
			s.stop()
			continue
		}
		var wg sync.WaitGroup
		for i := 0; i < cf.pubs; i++ {
			wg.Add(1)
			go func(i int) {
				defer wg.Done()
				pp, err := dialPeer(fmt.Sprintf("pub%d", i), s.port, true)
				if err != nil || pp.connect(fmt.Sprintf("pub%d", i), true, nil) == nil {
					return
				}
				id := 0
				topic := "all"
				if i%2 == 1 {
					topic = fmt.Sprintf("pub/%d", i)
				}
				publishStream(pp, i, topic, cf.count, &id)
				// wait until every QoS>0 publish is acknowledged
				deadline := time.Now().Add(5 * time.Second)
				for ackCount(pp) < 2*cf.count && time.Now().Before(deadline) {
					time.Sleep(time.Millisecond)
				}
				pp.send(&packet.Disconnect{})
			}(i)
		}
		if cf.cut {
			// one subscriber stops acknowledging, is cut while 2..window messages are unacknowledged, and resumes
			victim := subs[0]
			victim.mu.Lock()
			victim.hold = 2 + c.Rng.Intn(cf.window+1)
			victim.mu.Unlock()
			time.Sleep(20 * time.Millisecond)
			before := victim.received()
			victim.close()
			victim.isClosed(time.Second)
			np, err := dialPeer("sub0r", s.port, true)
			if err == nil {
				ack := np.connect("sub0", false, nil)
				if ack == nil || !ack.SessionPresent {
					o.direct("resume", n, false, "resumed subscriber did not get session-present")
				}
				subs[0] = np
				wg.Wait()
				np.idle(30*time.Millisecond, 3*time.Second)
				// retransmitted packets first, in the order of their original transmission
				var origUnacked []int
				for _, p := range before {
					if p.Message.QOS > 0 {
						origUnacked = append(origUnacked, int(p.ID))
					}
				}
				var dups []int
				for _, p := range np.received() {
					if p.Dup {
						dups = append(dups, int(p.ID))
					}
				}
				// the dup ids must appear in the relative order in which those ids were first sent
				pos := map[int]int{}
				for i, id := range origUnacked {
					if _, ok := pos[id]; !ok {
						pos[id] = i
					}
				}
				okd := true
				lastp := -1
				for _, id := range dups {
					if pp, ok := pos[id]; ok {
						if pp < lastp {
							okd = false
						}
						lastp = pp
					}
				}
				o.direct("resend_order", n, okd, fmt.Sprintf("first transmission ids %v, retransmitted (dup) ids %v", origUnacked, dups))
				all := append(before, np.received()...)
				ok, d := checkOrder(all)
				o.direct("order", n, ok, "resumed subscriber: "+d)
			}
		}
		wg.Wait()
		for i, sp := range subs {
			if cf.cut && i == 0 {
				continue
			}
			sp.idle(30*time.Millisecond, 3*time.Second)
			got := sp.received()
			ok, d := checkOrder(got)
			o.direct("order", n, ok, fmt.Sprintf("%s received %d publishes, %s", sp.name, len(got), d))
			// completeness for QoS>0 streams at delivery QoS>0 is C06/C08's business; here only order
		}
		for _, sp := range subs {
			sp.close()
		}
		s.stop()
		o.syslog(n, s)
		c.Stat("scenarios", 1)
	}
	// a backlogged subscriber with overlapping subscriptions of differing granted QoS: one publisher alternates
	// between two topics at each QoS while the subscriber withholds its acknowledgements (the window fills, both
	// session queues fill), then everything is acknowledged and drained: per (publisher, QoS, delivery QoS) order
	for _, w := range []int{1, 2} {
		n := o.scn(fmt.Sprintf("c15 backlog window=%d", w))
		s := startSys(w, 10000)
		sub, err := dialPeer("bsub", s.port, true)
		if err != nil || sub.connect("bsub", true, nil) == nil {
			o.direct("order", n, false, "could not connect")
			s.stop()
			continue
		}
		sub.state = newSubState()
		sub.subscribe(1, "ba", 1)
		sub.subscribe(2, "bb", 0)
		sub.mu.Lock()
		sub.hold = 1 << 20
		sub.mu.Unlock()
		pp, _ := dialPeer("bpub", s.port, true)
		pp.connect("bpub", true, nil)
		id := 0
		sent := 0
		for i := 0; i < 60; i++ {
			for q := 0; q <= 1; q++ {
				topic := "ba"
				if (i+q)%2 == 1 {
					topic = "bb"
				}
				m := &packet.Publish{Message: packet.Message{Topic: topic, Payload: payload(7, q, i), QOS: packet.QOS(q)}}
				if q > 0 {
					id++
					m.ID = packet.ID(id)
					sent++
					deadline := time.Now().Add(2 * time.Second)
					for sent-ackCount(pp) >= 5 && time.Now().Before(deadline) {
						time.Sleep(200 * time.Microsecond)
					}
				}
				pp.send(m)
			}
		}
		time.Sleep(30 * time.Millisecond)
		// acknowledge step by step so that the dequeuer drains both queues while they are both non-empty
		for k := 0; k < 200; k++ {
			sub.releaseHeld()
			sub.mu.Lock()
			sub.hold = 1 << 20
			sub.mu.Unlock()
			time.Sleep(2 * time.Millisecond)
			if len(sub.received()) >= 120 {
				break
			}
		}
		sub.releaseHeld()
		sub.idle(30*time.Millisecond, 2*time.Second)
		got := sub.received()
		ok, d := checkOrder(got)
		o.direct("order", n, ok, fmt.Sprintf("backlogged subscriber received %d publishes, %s", len(got), d))
		sub.close()
		pp.close()
		s.stop()
		o.syslog(n, s)
		c.Stat("scenarios", 1)
	}
}

// ------------------------------------------------------------------- C13

func runC13(c *hx.Ctx) {
	o := &out{c: c}
	rounds := 6
	if c.Thorough() {
		rounds = 40
	}
	for r := 0; r < rounds; r++ {
		k := 2 + c.Rng.Intn(7) // 2..8 simultaneous attempts
		oldState := []string{"idle", "mid-handshake", "traffic", "dying"}[r%4]
		name := fmt.Sprintf("c13 round=%d attempts=%d old=%s", r, k, oldState)
		n := o.scn(name)
		s := startSys(3, 100)
		// the old connection with a persistent session, a subscription and an unacknowledged delivery
		old, err := dialPeer("old", s.port, false)
		if err != nil || old.connect("same", false, &packet.Message{Topic: "will/same", Payload: []byte("w"), QOS: 1}) == nil {
			o.direct("takeover", n, false, "could not connect the first holder")
			s.stop()
			continue
		}
		old.subscribe(1, "t/#", 1)
		watcher, _ := dialPeer("watch", s.port, true)
		watcher.connect("watch", true, nil)
		watcher.subscribe(1, "will/#", 1)
		feeder, _ := dialPeer("feed", s.port, true)
		feeder.connect("feed", true, nil)
		feed := func(i int) {
			feeder.send(&packet.Publish{ID: packet.ID(100 + i), Message: packet.Message{Topic: "t/x", Payload: payload(0, 1, i), QOS: 1}})
		}
		feed(0) // stays unacknowledged at the old connection (it does not auto-ack)
		old.await(func(g packet.Generic) bool { _, ok := g.(*packet.Publish); return ok }, time.Second)
		stopFeed := make(chan struct{})
		var fwg sync.WaitGroup
		if oldState == "traffic" {
			fwg.Add(1)
			go func() {
				defer fwg.Done()
				for i := 1; i < 40; i++ {
					select {
					case <-stopFeed:
						return
					default:
					}
					feed(i)
					time.Sleep(time.Millisecond)
				}
			}()
		}
		if oldState == "mid-handshake" {
			old.send(&packet.Publish{ID: 9, Message: packet.Message{Topic: "u", Payload: []byte("x"), QOS: 2}})
		}
		// k simultaneous attempts with the same id, clean and unclean mixed (the first one unclean)
		peers := make([]*peer, k)
		acks := make([]*packet.Connack, k)
		var wg sync.WaitGroup
		start := make(chan struct{})
		for i := 0; i < k; i++ {
			wg.Add(1)
			go func(i int) {
				defer wg.Done()
				p, err := dialPeer(fmt.Sprintf("new%d", i), s.port, true)
				if err != nil {
					return
				}
				peers[i] = p
				<-start
				acks[i] = p.connect("same", i%3 == 2, nil)
			}(i)
		}
		if oldState == "dying" {
			go func() { <-start; old.close() }()
		}
		close(start)
		wg.Wait()
		close(stopFeed)
		fwg.Wait()
		time.Sleep(30 * time.Millisecond)
		// exactly one of all connections with that id is still open
		open := 0
		if !old.isClosed(300 * time.Millisecond) {
			open++
		}
		survivors := []string{}
		for i, p := range peers {
			if p == nil {
				continue
			}
			if !p.isClosed(20 * time.Millisecond) {
				open++
				survivors = append(survivors, fmt.Sprintf("new%d(connack=%v)", i, acks[i] != nil))
			}
		}
		o.direct("exactly_one", n, open == 1, fmt.Sprintf("%d connection(s) with the id still open: %v", open, survivors))
		// the will of the displaced first holder reached the watcher exactly once
		watcher.idle(20*time.Millisecond, time.Second)
		wills := 0
		for _, p := range watcher.received() {
			if p.Message.Topic == "will/same" {
				wills++
			}
		}
		o.direct("will_once", n, wills == 1, fmt.Sprintf("will of the displaced holder seen %d time(s)", wills))
		// a witness connection with another id is still served (nothing is stalled)
		wit, err := dialPeer("witness", s.port, true)
		served := err == nil && wit.connect("witness", true, nil) != nil
		o.direct("not_stalled", n, served, "a fresh client with another id gets its CONNACK")
		if wit != nil {
			wit.close()
		}
		for _, p := range peers {
			if p != nil {
				p.close()
			}
		}
		old.close()
		watcher.close()
		feeder.close()
		bad := s.backend.lifecycle(3 * time.Second)
		o.direct("lifecycle", n, len(bad) == 0, joinLines(bad))
		stopped := s.stop()
		o.direct("shutdown", n, stopped, "backend and engine shut down in time")
		o.syslog(n, s)
		c.Stat("scenarios", 1)
	}
	staggeredContenders(o, c)
	willBeforeTakeover(o, c)
	takeoverDuringDequeue(o, c)
	blockedTakeover(o, c)
	// session handover: the persistent session passes to the newcomer without loss or duplication
	for _, w := range []int{1, 3} {
		n := o.scn(fmt.Sprintf("c13 handover window=%d", w))
		s := startSys(w, 100)
		old, _ := dialPeer("old", s.port, false)
		old.connect("h", false, nil)
		old.subscribe(1, "t", 2)
		feeder, _ := dialPeer("feed", s.port, true)
		feeder.connect("feed", true, nil)
		for i := 0; i < 5; i++ {
			feeder.send(&packet.Publish{ID: packet.ID(1 + i), Message: packet.Message{Topic: "t", Payload: payload(0, 1+i%2, i), QOS: packet.QOS(1 + i%2)}})
		}
		time.Sleep(30 * time.Millisecond)
		before := old.received()
		np, _ := dialPeer("new", s.port, true)
		ack := np.connect("h", false, nil)
		o.direct("handover_sp", n, ack != nil && ack.SessionPresent, "newcomer is told the session is present")
		np.idle(30*time.Millisecond, 2*time.Second)
		o.direct("old_closed", n, old.isClosed(time.Second), "the displaced connection is closed")
		got := np.received()
		seen := map[int]int{}
		for _, p := range got {
			_, _, i, ok := parsePayload(p.Message.Payload)
			if ok {
				seen[i]++
			}
		}
		okAll := len(seen) == 5
		for _, cnt := range seen {
			if cnt != 1 {
				okAll = false
			}
		}
		// what the old connection had received unacknowledged must come again flagged dup
		dupOK := true
		firstNew := map[int]bool{}
		for _, p := range got {
			firstNew[int(p.ID)] = p.Dup
		}
		for _, p := range before {
			if d, ok := firstNew[int(p.ID)]; ok && !d {
				dupOK = false
			}
		}
		o.direct("handover_messages", n, okAll, fmt.Sprintf("newcomer received message numbers %v (each of 0..4 exactly once expected)", seen))
		o.direct("handover_dup", n, dupOK, "messages already transmitted to the old connection are flagged duplicate")
		np.close()
		feeder.close()
		s.stop()
		o.syslog(n, s)
		c.Stat("scenarios", 1)
	}
}

// four connections with one id arrive staggered while the Terminate of the first two is held back, so
// that each newcomer reaches Setup while the previous takeover is still in progress: in the end exactly
// one of them may be live
// willBeforeTakeover: the displaced connection is fully terminated — its will handed to the backend — before the newcomer's
// Setup returns (and so before its CONNACK).  The backend is slow at publishing wills, so a newcomer that does not wait is
// visibly early.  Judged on the backend log: WillDone(old) precedes SetupRet(new) for the same id.
func willBeforeTakeover(o *out, c *hx.Ctx) {
	for _, how := range []string{"takeover", "takeover-clean", "takeover-mid-traffic"} {
		n := o.scn("c13 will published before the newcomer is acknowledged: " + how)
		s := startSys(3, 100)
		s.backend.willDelay = 150 * time.Millisecond
		old, _ := dialPeer("old", s.port, false)
		old.connect("wb", how == "takeover-clean", &packet.Message{Topic: "will/wb", Payload: []byte("w"), QOS: 1})
		old.subscribe(1, "t/#", 1)
		watcher, _ := dialPeer("watch", s.port, true)
		watcher.connect("watch", true, nil)
		watcher.subscribe(1, "will/#", 1)
		if how == "takeover-mid-traffic" {
			for i := 0; i < 3; i++ {
				watcher.send(&packet.Publish{ID: packet.ID(50 + i), Message: packet.Message{Topic: "t/x", Payload: payload(0, 1, i), QOS: 1}})
			}
		}
		np, _ := dialPeer("new", s.port, true)
		ack := np.connect("wb", how == "takeover-clean", nil)
		ackAt := time.Now()
		// the watcher has the will by the time the newcomer holds its CONNACK (allowing for the delivery hop)
		watcher.idle(20*time.Millisecond, time.Second)
		wills := 0
		for _, p := range watcher.received() {
			if p.Message.Topic == "will/wb" {
				wills++
			}
		}
		_ = ackAt
		lines := s.backend.log.snapshot()
		oldID, newID := "1", ""
		order := []string{}
		for _, l := range lines {
			f := strings.Fields(l)
			cid := f[len(f)-1]
			switch {
			case f[0] == "SetupCall" && f[1] == hx.Hx([]byte("wb")) && cid != oldID && newID == "":
				newID = cid
			}
		}
		for _, l := range lines {
			f := strings.Fields(l)
			cid := f[len(f)-1]
			if (f[0] == "WillDone" && cid == oldID) || (f[0] == "SetupRet" && cid == newID) || (f[0] == "Term" && cid == oldID) {
				order = append(order, f[0])
			}
		}
		okOrder := ack != nil && len(order) == 3 && order[2] == "SetupRet"
		o.direct("will_before_takeover", n, okOrder, fmt.Sprintf("backend log order for the displaced connection and the newcomer: %v (WillDone and Term before SetupRet expected)", order))
		o.direct("will_once", n, wills == 1, fmt.Sprintf("will of the displaced holder seen %d time(s)", wills))
		np.close()
		old.close()
		watcher.close()
		s.stop()
		o.syslog(n, s)
		c.Stat("scenarios", 1)
	}
}

func staggeredContenders(o *out, c *hx.Ctx) {
	n := o.scn("c13 staggered contenders with held-back Terminate")
	s := startSys(3, 100)
	waitSetups := func(k int) {
		deadline := time.Now().Add(2 * time.Second)
		for s.backend.setupCalls("stag") < k && time.Now().Before(deadline) {
			time.Sleep(time.Millisecond)
		}
		time.Sleep(40 * time.Millisecond) // let it get as far as it can (blocked in Setup or on the setup lock)
	}
	relA := s.backend.holdTerminate("stag", 1)
	relB := s.backend.holdTerminate("stag", 2)
	a, _ := dialPeer("A", s.port, true)
	a.connect("stag", true, nil)
	type res struct {
		p   *peer
		ack *packet.Connack
	}
	start := func(name string) chan res {
		ch := make(chan res, 1)
		go func() {
			p, err := dialPeer(name, s.port, true)
			if err != nil {
				ch <- res{}
				return
			}
			ch <- res{p, p.connect("stag", true, nil)}
		}()
		return ch
	}
	chB := start("B")
	waitSetups(2) // B is inside Setup, waiting for A, whose Terminate is held
	chC := start("C")
	waitSetups(3) // C waits for the setup lock
	relA()        // A terminates: B completes
	rB := <-chB
	time.Sleep(40 * time.Millisecond) // C closes B and waits for it (B's Terminate is held)
	chD := start("D")
	waitSetups(4)
	relB()
	rC := <-chC
	rD := <-chD
	time.Sleep(60 * time.Millisecond)
	open := []string{}
	for _, x := range []struct {
		name string
		p    *peer
	}{{"A", a}, {"B", rB.p}, {"C", rC.p}, {"D", rD.p}} {
		if x.p != nil && !x.p.isClosed(30*time.Millisecond) {
			open = append(open, x.name)
		}
	}
	o.direct("exactly_one", n, len(open) == 1, fmt.Sprintf("connections with the id still open after four staggered attempts: %v", open))
	for _, x := range []*peer{a, rB.p, rC.p, rD.p} {
		if x != nil {
			x.close()
		}
	}
	bad := s.backend.lifecycle(3 * time.Second)
	o.direct("lifecycle", n, len(bad) == 0, joinLines(bad))
	s.stop()
	o.syslog(n, s)
	c.Stat("scenarios", 1)
}

// the takeover lands between the old connection's Dequeue returning a message and the message being
// saved in the session: the message must not be lost, the newcomer gets it
func takeoverDuringDequeue(o *out, c *hx.Ctx) {
	n := o.scn("c13 takeover between Dequeue and SavePacket of the old connection")
	s := startSys(3, 100)
	s.backend.holdDequeueUntilClosing("deq", 1)
	old, _ := dialPeer("old", s.port, true)
	old.connect("deq", false, nil)
	old.subscribe(1, "t", 1)
	feeder, _ := dialPeer("feed", s.port, true)
	feeder.connect("feed", true, nil)
	feeder.send(&packet.Publish{ID: 1, Message: packet.Message{Topic: "t", Payload: payload(0, 1, 0), QOS: 1}})
	feeder.await(func(g packet.Generic) bool { _, ok := g.(*packet.Puback); return ok }, time.Second)
	time.Sleep(20 * time.Millisecond) // the old connection's dequeuer now holds the message at the gate
	np, _ := dialPeer("new", s.port, true)
	ack := np.connect("deq", false, nil)
	got := np.await(func(g packet.Generic) bool { _, ok := g.(*packet.Publish); return ok }, 2*time.Second)
	o.direct("takeover_keeps_message", n, ack != nil && got != nil,
		fmt.Sprintf("newcomer connack=%v; the QoS 1 message accepted before the takeover reached the newcomer: %v", ack != nil, got != nil))
	old.close()
	np.close()
	feeder.close()
	s.stop()
	o.syslog(n, s)
	c.Stat("scenarios", 1)
}

// the witness of the open known finding: the displaced connection is blocked in a carrier
// write (its peer stopped reading), so Close() cannot get the send mutex while Setup holds
// the backend's mutexes
func blockedTakeover(o *out, c *hx.Ctx) {
	n := o.scn("c13 old connection blocked in a carrier write (known finding witness)")
	s := startSys(10, 100)
	a, b := net.Pipe() // unbuffered: a write blocks until the other side reads
	s.engine.Handle(transport.NewNetConn(a))
	old := transport.NewNetConn(b)
	cp := packet.NewConnect()
	cp.ClientID = "stuck"
	cp.CleanSession = true
	_ = old.Send(cp, false)
	_, _ = old.Receive() // CONNACK
	_ = old.Send(&packet.Subscribe{ID: 1, Subscriptions: []packet.Subscription{{Topic: "t", QOS: 0}}}, false)
	_, _ = old.Receive() // SUBACK; from now on the old peer does not read any more
	feeder, _ := dialPeer("feed", s.port, true)
	feeder.connect("feed", true, nil)
	big := make([]byte, 10000)
	for i := 0; i < 5; i++ {
		feeder.send(&packet.Publish{Message: packet.Message{Topic: "t", Payload: big}})
	}
	time.Sleep(50 * time.Millisecond)
	newcomer, _ := dialPeer("newcomer", s.port, true)
	got := make(chan bool, 1)
	go func() { got <- newcomer.connect("stuck", true, nil) != nil }()
	witnessOK := false
	takeoverOK := false
	select {
	case takeoverOK = <-got:
	case <-time.After(700 * time.Millisecond):
	}
	wit, _ := dialPeer("witness", s.port, true)
	wgot := make(chan bool, 1)
	go func() { wgot <- wit.connect("unrelated", true, nil) != nil }()
	select {
	case witnessOK = <-wgot:
	case <-time.After(700 * time.Millisecond):
	}
	o.direct("takeover_blocked_in_write", n, takeoverOK && witnessOK,
		fmt.Sprintf("old connection blocked in a carrier write: newcomer got CONNACK=%v, unrelated client got CONNACK=%v within 700ms", takeoverOK, witnessOK))
	// unblock: the stuck peer goes away, the pending write fails
	_ = b.Close()
	time.Sleep(50 * time.Millisecond)
	newcomer.close()
	wit.close()
	feeder.close()
	s.stop()
	o.syslog(n, s)
}

// ------------------------------------------------------------------- C14

type hostile struct {
	name string
	run  func(port string, c *hx.Ctx)
}

func rawConn(port string) net.Conn {
	conn, err := net.DialTimeout("tcp", "localhost:"+port, time.Second)
	if err != nil {
		return nil
	}
	return conn
}

func rawSend(port string, chunks ...[]byte) {
	conn := rawConn(port)
	if conn == nil {
		return
	}
	defer conn.Close()
	for _, ch := range chunks {
		_ = conn.SetWriteDeadline(time.Now().Add(time.Second))
		if _, err := conn.Write(ch); err != nil {
			return
		}
	}
	_ = conn.SetReadDeadline(time.Now().Add(50 * time.Millisecond))
	buf := make([]byte, 4096)
	for {
		if _, err := conn.Read(buf); err != nil {
			return
		}
	}
}

func enc(p packet.Generic) []byte {
	buf := make([]byte, p.Len())
	n, err := p.Encode(buf)
	if err != nil {
		return nil
	}
	return buf[:n]
}

// rawPublish builds a QoS 0 PUBLISH by hand (independent of the library's encoder, which a
// regression may have made refuse boundary values the decoder still admits)
func rawPublish(topic string, payload []byte) []byte {
	rl := 2 + len(topic) + len(payload)
	out := []byte{0x30}
	for {
		b := byte(rl % 128)
		rl /= 128
		if rl > 0 {
			b |= 0x80
		}
		out = append(out, b)
		if rl == 0 {
			break
		}
	}
	out = append(out, byte(len(topic)>>8), byte(len(topic)))
	out = append(out, topic...)
	return append(out, payload...)
}

func connectBytes(id string) []byte {
	c := packet.NewConnect()
	c.ClientID = id
	return enc(c)
}

func connectBytesPersistent(id string) []byte {
	c := packet.NewConnect()
	c.ClientID = id
	c.CleanSession = false
	return enc(c)
}

func hostiles(c *hx.Ctx) []hostile {
	big := strings.Repeat("x", 65535)
	var hs []hostile
	add := func(name string, f func(port string, c *hx.Ctx)) { hs = append(hs, hostile{name, f}) }
	add("garbage", func(port string, c *hx.Ctx) {
		for i := 0; i < 20; i++ {
			b := make([]byte, 1+c.Rng.Intn(64))
			c.Rng.Read(b)
			rawSend(port, b)
		}
	})
	add("truncated-frames", func(port string, c *hx.Ctx) {
		full := append(connectBytes("h1"), enc(&packet.Publish{ID: 1, Message: packet.Message{Topic: "a", Payload: []byte("p"), QOS: 1}})...)
		for k := 1; k < len(full); k += 3 {
			rawSend(port, full[:k])
		}
	})
	add("oversized-length", func(port string, c *hx.Ctx) {
		rawSend(port, connectBytes("h2"), []byte{0x30, 0xff, 0xff, 0xff, 0x7f, 0x00, 0x01, 'a'})
		rawSend(port, []byte{0x10, 0xff, 0xff, 0xff, 0xff, 0x01})
		rawSend(port, []byte{0x30, 0x80, 0x80, 0x80, 0x80, 0x80, 0x01})
	})
	add("empty-and-odd-topics", func(port string, c *hx.Ctx) {
		// raw encodings the library itself refuses to produce
		rawSend(port, connectBytes("h3"), []byte{0x30, 0x02, 0x00, 0x00})                         // publish, empty topic
		rawSend(port, connectBytes("h3"), []byte{0x32, 0x05, 0x00, 0x01, 'a', 0x00, 0x00})        // qos1 id 0
		rawSend(port, connectBytes("h3"), []byte{0x36, 0x05, 0x00, 0x01, 'a', 0x00, 0x01})        // qos 3
		rawSend(port, connectBytes("h3"), []byte{0x82, 0x05, 0x00, 0x01, 0x00, 0x00, 0x01})       // subscribe empty filter
		rawSend(port, connectBytes("h3"), []byte{0x82, 0x06, 0x00, 0x01, 0x00, 0x01, 0x00, 0x01}) // filter with NUL
		rawSend(port, connectBytes("h3"), enc(&packet.Publish{Message: packet.Message{Topic: "a/+/#", Payload: []byte("w")}}))
		rawSend(port, connectBytes("h3"), enc(&packet.Publish{Message: packet.Message{Topic: "all", Payload: []byte("hostile")}}))
		rawSend(port, connectBytes("h3"), enc(&packet.Publish{Message: packet.Message{Topic: "a\x00b", Payload: []byte("w")}}))
		rawSend(port, connectBytes("h3"), enc(&packet.Publish{ID: 7, Message: packet.Message{Topic: big, Payload: []byte(big), QOS: 2}}))
		rawSend(port, connectBytes("h3"), enc(&packet.Subscribe{ID: 1, Subscriptions: []packet.Subscription{{Topic: big, QOS: 1}, {Topic: "#", QOS: 2}, {Topic: "+/+/#", QOS: 0}}}))
		// boundary values built by hand: the longest topic, the longest topic with a payload, a 65535-byte will topic
		rawSend(port, connectBytes("h3"), rawPublish(big, nil))
		rawSend(port, connectBytes("h3"), rawPublish(big, []byte(big)))
		rawSend(port, connectBytes("h3"), rawPublish(big[:65534], []byte("x")))
		// a will with empty topic
		rawSend(port, []byte{0x10, 0x13, 0x00, 0x04, 'M', 'Q', 'T', 'T', 0x04, 0x06, 0x00, 0x00, 0x00, 0x01, 'w', 0x00, 0x00, 0x00, 0x01, 'x'})
	})
	add("invalid-filters", func(port string, c *hx.Ctx) {
		// filters the specification forbids ('#' not last, wildcards sharing a level): the broker does not validate them,
		// so they end up in the subscription tree; publishes that walk those nodes must not take the broker down
		filters := []string{"a/#/b", "#/x", "a+/b", "+a/#", "a/#b", "/#/", "a/+/#/+", "#/#", "a/b#", "+/#/+"}
		topics := []string{"a/x", "a/x/b", "a", "x", "a+/b", "/", "a/b", "a/b/c/d", "//", "a/#/b"}
		for i, f := range filters {
			chunks := [][]byte{connectBytes(fmt.Sprintf("h5-%d", i)), enc(&packet.Subscribe{ID: 1, Subscriptions: []packet.Subscription{{Topic: f, QOS: packet.QOS(i % 3)}}})}
			for j, t := range topics {
				chunks = append(chunks, enc(&packet.Publish{ID: packet.ID(10 + j), Message: packet.Message{Topic: t, Payload: []byte("w"), QOS: packet.QOS(j % 2)}}))
			}
			rawSend(port, chunks...)
		}
		// a persistent session keeps such a subscription beyond its connection; a will walks it too
		rawSend(port, connectBytesPersistent("h5-p"), enc(&packet.Subscribe{ID: 1, Subscriptions: []packet.Subscription{{Topic: "a/#/b", QOS: 1}, {Topic: "w/#/x", QOS: 1}}}))
		for _, t := range topics {
			rawSend(port, connectBytes("h5-q"), enc(&packet.Publish{ID: 3, Message: packet.Message{Topic: t, Payload: []byte("w"), QOS: 1}}))
		}
	})
	add("out-of-protocol", func(port string, c *hx.Ctx) {
		pk := []packet.Generic{packet.NewConnack(), &packet.Suback{ID: 1, ReturnCodes: []packet.QOS{0}}, &packet.Unsuback{ID: 1}, &packet.Pingresp{},
			&packet.Puback{ID: 77}, &packet.Pubrec{ID: 78}, &packet.Pubrel{ID: 79}, &packet.Pubcomp{ID: 80}, &packet.Pingreq{}, &packet.Disconnect{},
			&packet.Unsubscribe{ID: 3, Topics: []string{"zz"}}}
		for _, first := range pk {
			rawSend(port, enc(first))
		}
		for i := 0; i < 30; i++ {
			var chunks [][]byte
			chunks = append(chunks, connectBytes(fmt.Sprintf("h4-%d", i%3)))
			for j := 0; j < 1+c.Rng.Intn(6); j++ {
				chunks = append(chunks, enc(pk[c.Rng.Intn(len(pk))]))
			}
			rawSend(port, chunks...)
		}
		rawSend(port, connectBytes("h4"), connectBytes("h4"))
	})
	add("storm", func(port string, c *hx.Ctx) {
		var wg sync.WaitGroup
		for i := 0; i < 40; i++ {
			wg.Add(1)
			go func(i int) {
				defer wg.Done()
				conn := rawConn(port)
				if conn == nil {
					return
				}
				if i%2 == 0 {
					conn.Write(connectBytes(fmt.Sprintf("storm%d", i%5)))
				}
				if i%3 == 0 {
					time.Sleep(time.Duration(i%7) * time.Millisecond)
				}
				conn.Close()
			}(i)
		}
		wg.Wait()
	})
	add("subscriber-with-full-queue-dies", func(port string, c *hx.Ctx) {
		// a subscriber that never acknowledges fills its window and queue; a publisher's QoS 1 publish then
		// blocks inside the backend until the subscriber's connection goes away — it must be released then
		subp, err := dialPeer("stall", port, false)
		if err != nil || subp.connect("stall", true, nil) == nil {
			return
		}
		subp.subscribe(1, "stall/#", 1)
		pubp, err := dialPeer("stallpub", port, true)
		if err != nil || pubp.connect("stallpub", true, nil) == nil {
			return
		}
		for i := 1; i <= 1100; i++ {
			pubp.send(&packet.Publish{ID: packet.ID(i), Message: packet.Message{Topic: "stall/x", Payload: []byte("p"), QOS: 1}})
		}
		time.Sleep(30 * time.Millisecond)
		subp.close()
		time.Sleep(30 * time.Millisecond)
		pubp.close()
	})
	add("wildcard-flood-to-witness-topic", func(port string, c *hx.Ctx) {
		p, err := dialPeer("flood", port, false)
		if err != nil || p.connect("flood", true, nil) == nil {
			return
		}
		p.subscribe(1, "#", 2) // subscribes to everything and never acknowledges nor reads fast
		for i := 0; i < 50; i++ {
			p.send(&packet.Publish{Message: packet.Message{Topic: "noise", Payload: []byte(big[:1000])}})
		}
		time.Sleep(20 * time.Millisecond)
		p.close()
	})
	return hs
}

func runC14(c *hx.Ctx) {
	o := &out{c: c}
	base := runtime.NumGoroutine()
	reps := 1
	if c.Thorough() {
		reps = 5
	}
	for rep := 0; rep < reps; rep++ {
		for _, h := range hostiles(c) {
			n := o.scn("c14 hostile=" + h.name)
			s := startSys(10, 1000)
			// witnesses exchange numbered traffic while the hostile peer acts
			sub, _ := dialPeer("wsub", s.port, true)
			pub, _ := dialPeer("wpub", s.port, true)
			// a second witness subscribes to everything: whatever a hostile client manages to publish is forwarded to it
			wall, _ := dialPeer("wall", s.port, true)
			if wall == nil || wall.connect("wall", true, nil) == nil || !wall.subscribe(1, "#", 1) {
				o.direct("witness", n, false, "the catch-all witness could not connect")
				s.stop()
				continue
			}
			if sub.connect("wsub", true, nil) == nil || pub.connect("wpub", true, nil) == nil || !sub.subscribe(1, "all", 1) {
				o.direct("witness", n, false, "witnesses could not connect")
				s.stop()
				continue
			}
			stop := make(chan struct{})
			sent := 0
			var wg sync.WaitGroup
			wg.Add(1)
			go func() {
				defer wg.Done()
				for i := 0; ; i++ {
					select {
					case <-stop:
						return
					default:
					}
					if pub.send(&packet.Publish{ID: packet.ID(1 + i%60000), Message: packet.Message{Topic: "all", Payload: payload(1, 1, i), QOS: 1}}) != nil {
						return
					}
					sent = i + 1
					time.Sleep(500 * time.Microsecond)
				}
			}()
			h.run(s.port, c)
			close(stop)
			wg.Wait()
			sub.idle(30*time.Millisecond, 3*time.Second)
			// the witnesses are still connected and every numbered message arrived, in order
			alive := !sub.isClosed(10*time.Millisecond) && !pub.isClosed(10*time.Millisecond) && !wall.isClosed(10*time.Millisecond)
			o.direct("witness_connected", n, alive, "all three witness connections are still open")
			got := map[int]bool{}
			for _, p := range sub.received() {
				if pb, _, i, ok := parsePayload(p.Message.Payload); ok && pb == 1 {
					got[i] = true
				}
			}
			missing := []int{}
			for i := 0; i < sent; i++ {
				if !got[i] {
					missing = append(missing, i)
				}
			}
			sort.Ints(missing)
			if len(missing) > 10 {
				missing = missing[:10]
			}
			o.direct("witness_traffic", n, len(missing) == 0, fmt.Sprintf("sent %d, missing %v", sent, missing))
			ok, d := checkOrder(sub.received())
			o.direct("witness_order", n, ok, d)
			sub.close()
			pub.close()
			wall.close()
			time.Sleep(20 * time.Millisecond)
			bad := s.backend.lifecycle(3 * time.Second)
			o.direct("lifecycle", n, len(bad) == 0, joinLines(bad))
			o.direct("shutdown", n, s.stop(), "backend and engine shut down in time")
			o.syslog(n, s)
			c.Stat("scenarios", 1)
		}
		// backend shutdown racing with connection setup, and backend calls failing
		for _, kind := range []string{"shutdown-race", "fail-setup", "fail-publish", "fail-subscribe", "fail-terminate"} {
			n := o.scn("c14 " + kind)
			s := startSys(10, 1000)
			if kind != "shutdown-race" {
				s.backend.failNext[strings.TrimPrefix(kind, "fail-")] = 2
			}
			var wg sync.WaitGroup
			for i := 0; i < 12; i++ {
				wg.Add(1)
				go func(i int) {
					defer wg.Done()
					p, err := dialPeer(fmt.Sprintf("r%d", i), s.port, true)
					if err != nil {
						return
					}
					if p.connect(fmt.Sprintf("r%d", i%4), i%2 == 0, &packet.Message{Topic: "w", Payload: []byte("x")}) != nil {
						p.subscribe(1, "x/#", 1)
						p.send(&packet.Publish{ID: 5, Message: packet.Message{Topic: "x/y", Payload: []byte("p"), QOS: 1}})
						time.Sleep(time.Duration(i) * time.Millisecond)
					}
					p.close()
				}(i)
			}
			if kind == "shutdown-race" {
				time.Sleep(time.Duration(1+c.Rng.Intn(5)) * time.Millisecond)
				s.backend.Close(2 * time.Second)
			}
			wg.Wait()
			bad := s.backend.lifecycle(3 * time.Second)
			o.direct("lifecycle", n, len(bad) == 0, joinLines(bad))
			o.direct("shutdown", n, s.stop(), "backend and engine shut down in time")
			o.syslog(n, s)
			c.Stat("scenarios", 1)
		}
	}
	closeThenConnect(o, c)
	// no goroutine is left blocked once everything is shut down
	leaked := 0
	for i := 0; i < 100; i++ {
		leaked = runtime.NumGoroutine() - base
		if leaked <= 2 {
			break
		}
		time.Sleep(20 * time.Millisecond)
	}
	detail := fmt.Sprintf("%d goroutines above the baseline after shutdown", leaked)
	if leaked > 2 {
		buf := make([]byte, 1<<16)
		m := runtime.Stack(buf, true)
		detail += ": " + strings.Replace(string(buf[:m]), "\n", " / ", -1)
		if len(detail) > 3000 {
			detail = detail[:3000]
		}
	}
	o.direct("goroutines", 0, leaked <= 2, detail)
}
