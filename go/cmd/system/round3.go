package main

// round3.go — deterministic whole-broker scenarios added for the third round of seeded changes (first-contact misses):
//
//	c08  pubrelAcrossCuts    two / three connection losses around one QoS 2 delivery: once the PUBREC was received the broker
//	                         retransmits the PUBREL, never the PUBLISH again (resend_pubrel)
//	c08, c13 takeoverCombos  clean/unclean over clean/unclean takeover: session-present of the newcomer, then subscribe, go offline,
//	                         QoS 1 publish, come back unclean: session-present and delivery as due (session_present, nothing_lost)
//	c12  willObservers       the observer dimension: online, offline with a persistent session, subscribing later × will QoS × retain
//	                         (will_delivered, will_retained)
//	c12  keepAlive           (extra.go) + a silent client subscribed to a busy topic
//	c13  repeatedTakeovers   small kill timeout, takeovers separated by pauses longer than it: each must succeed (takeover_after_pause)

import (
	"fmt"
	"time"

	"github.com/256dpi/gomqtt/packet"

	"verifh/hx"
)

func isPubrelID(id packet.ID) func(packet.Generic) bool {
	return func(g packet.Generic) bool { r, ok := g.(*packet.Pubrel); return ok && r.ID == id }
}

// pubrelAcrossCuts: one QoS 2 delivery to a persistent subscriber, the connection lost before the PUBREC and again (and again)
// before the PUBCOMP; no other packet id is saved or deleted in the subscriber's session meanwhile (variant "second": a second
// delivery is in flight from the start and stays untouched)
func pubrelAcrossCuts(o *out, c *hx.Ctx, variant string) {
	sc := o.begin(c, "c08 QoS 2 delivery across connection losses before PUBREC and before PUBCOMP ("+variant+")", 3, 100)
	defer sc.end()
	b := sc.s.backend
	feeder := sc.dial("feed", true)
	feeder.connect("feed", true, nil)
	conn := 0
	connect := func() (*peer, *packet.Connack) {
		conn++
		p := sc.dial(fmt.Sprintf("sub-%d", conn), false)
		return p, p.connect("pc", false, nil)
	}
	cut := func(p *peer) {
		n := conn
		p.close()
		p.isClosed(long)
		waitFor(long, func() bool { c := b.nth("pc", n); return c != nil && closedNow(c) })
	}
	s1, _ := connect()
	s1.subscribe(1, "pc/#", 2)
	msgs := 1
	if variant == "second" {
		msgs = 2
	}
	for i := 0; i < msgs; i++ {
		feeder.send(&packet.Publish{ID: packet.ID(1 + i), Message: packet.Message{Topic: "pc/x", Payload: payload(0, 2, i), QOS: 2}})
		waitFor(long, func() bool { return ackCount(feeder) >= i+1 })
	}
	got := waitFor(long, func() bool { return s1.pubCount() >= msgs })
	var id packet.ID
	if got {
		id = s1.received()[0].ID
	}
	cut(s1) // before PUBREC
	s2, a2 := connect()
	dup := waitFor(long, func() bool {
		for _, p := range s2.received() {
			if p.ID == id && p.Dup {
				return true
			}
		}
		return false
	})
	s2.send(&packet.Pubrec{ID: id})
	rel := waitFor(long, func() bool { return s2.count(isPubrelID(id)) >= 1 })
	sc.direct("session_present", got && a2 != nil && a2.SessionPresent && dup && rel, fmt.Sprintf("delivered=%v; after the first loss: session-present=%v, PUBLISH retransmitted with dup=%v, PUBREC answered by PUBREL=%v", got, a2 != nil && a2.SessionPresent, dup, rel))
	cur := s2
	rounds := 1
	if variant == "three-cuts" {
		rounds = 2
	}
	for r := 0; r < rounds; r++ {
		cut(cur) // before PUBCOMP
		np, _ := connect()
		// what the broker retransmits for this id: the PUBREL, and not the PUBLISH (the subscriber has said PUBREC: a second PUBLISH
		// would be a second delivery of a QoS 2 message)
		relAgain := waitFor(long, func() bool { return np.count(isPubrelID(id)) >= 1 })
		time.Sleep(absence)
		pubAgain := 0
		for _, p := range np.received() {
			if p.ID == id {
				pubAgain++
			}
		}
		other := 0
		if variant == "second" {
			for _, p := range np.received() {
				if p.ID != id && p.Dup {
					other++
				}
			}
		}
		sc.direct("resend_pubrel", relAgain && pubAgain == 0 && (variant != "second" || other == 1),
			fmt.Sprintf("connection %d, lost after PUBREC and before PUBCOMP, resumed: PUBREL %d retransmitted=%v, PUBLISH %d sent again %d time(s) (0 expected); the other in-flight delivery retransmitted %d time(s)", conn, id, relAgain, id, pubAgain, other))
		cur = np
	}
	// completing the exchange ends it: nothing of it comes back after one more loss
	cur.send(&packet.Pubcomp{ID: id})
	okPing := cur.ping()
	cut(cur)
	last, _ := connect()
	okPing = last.ping() && okPing
	time.Sleep(absence)
	left := last.count(isPubrelID(id))
	for _, p := range last.received() {
		if p.ID == id {
			left++
		}
	}
	sc.direct("nothing_lost", okPing && left == 0, fmt.Sprintf("after PUBCOMP and one more loss: %d packet(s) for the completed delivery retransmitted (0 expected)", left))
}

// takeoverCombos: a live connection with id X (clean or not) is displaced by a connection with id X (clean or not)
func takeoverCombos(o *out, c *hx.Ctx) {
	for _, oldClean := range []bool{true, false} {
		for _, newClean := range []bool{true, false} {
			name := func(clean bool) string {
				if clean {
					return "clean"
				}
				return "persistent"
			}
			sc := o.begin(c, fmt.Sprintf("c08 takeover of a live %s connection by a %s one: session-present, then offline delivery", name(oldClean), name(newClean)), 3, 100)
			b := sc.s.backend
			feeder := sc.dial("feed", true)
			feeder.connect("feed", true, nil)
			old := sc.dial("old", true)
			old.connect("tc", oldClean, nil)
			old.subscribe(1, "old/#", 1)
			np := sc.dial("new", true)
			ack := np.connect("tc", newClean, nil)
			wantSP := !oldClean && !newClean
			sc.direct("session_present", ack != nil && ack.SessionPresent == wantSP && old.isClosed(long),
				fmt.Sprintf("newcomer acknowledged=%v session-present=%v (%v expected: a session is present only if both the displaced and the new connection are persistent); old closed=%v", ack != nil, ack != nil && ack.SessionPresent, wantSP, !old.isOpen()))
			np.subscribe(2, "tc/#", 1)
			np.send(&packet.Disconnect{})
			np.isClosed(long)
			waitFor(long, func() bool { c := b.nth("tc", 2); return c != nil && closedNow(c) })
			feeder.send(&packet.Publish{ID: 1, Message: packet.Message{Topic: "tc/x", Payload: payload(0, 1, 0), QOS: 1}})
			accepted := waitFor(long, func() bool { return ackCount(feeder) >= 1 })
			back := sc.dial("back", true)
			ack2 := back.connect("tc", false, nil)
			wantBack := !newClean
			if wantBack {
				waitFor(long, func() bool { return back.pubCount() >= 1 })
			}
			time.Sleep(absence)
			n := back.pubCount()
			sc.direct("session_present", ack2 != nil && ack2.SessionPresent == wantBack, fmt.Sprintf("persistent reconnect after the newcomer subscribed and disconnected: session-present=%v (%v expected)", ack2 != nil && ack2.SessionPresent, wantBack))
			want := 0
			if wantBack {
				want = 1
			}
			sc.direct("nothing_lost", accepted && n == want, fmt.Sprintf("QoS 1 message published while offline (accepted=%v): delivered %d time(s) after the reconnect (%d expected)", accepted, n, want))
			sc.end()
		}
	}
}

// willObservers: who gets the will of a client that ends without DISCONNECT — an observer that is online, one that is offline with a
// persistent session (subscribed at QoS 1 before it left), one that subscribes only afterwards (retained wills only)
func willObservers(o *out, c *hx.Ctx) {
	for _, wq := range []int{0, 1, 2} {
		for _, retain := range []bool{false, true} {
			sc := o.begin(c, fmt.Sprintf("c12 observers of a will (QoS %d, retain=%v): online, offline persistent, subscribing later", wq, retain), 3, 100)
			b := sc.s.backend
			on := sc.dial("online", true)
			on.connect("wo-on", true, nil)
			on.subscribe(1, "will/#", 2)
			off := sc.dial("offline", true)
			off.connect("wo-off", false, nil)
			off.subscribe(1, "will/#", 1)
			off.send(&packet.Disconnect{})
			off.isClosed(long)
			waitFor(long, func() bool { c := b.nth("wo-off", 1); return c != nil && closedNow(c) })
			wc := sc.dial("wc", true)
			wc.connect("wo-wc", true, &packet.Message{Topic: "will/wo", Payload: []byte("gone"), QOS: packet.QOS(wq), Retain: retain})
			wc.close()
			waitFor(long, func() bool { c := b.nth("wo-wc", 1); return c != nil && closedNow(c) }) // the will has been handed to the backend
			waitFor(long, func() bool { return on.countTopic("will/wo") >= 1 })
			back := sc.dial("offline-back", true)
			ack := back.connect("wo-off", false, nil)
			wantOff := 1
			if wq == 0 {
				wantOff = 0 // a QoS 0 message is not kept for an offline session
			}
			if wantOff == 1 {
				waitFor(long, func() bool { return back.countTopic("will/wo") >= 1 })
			}
			later := sc.dial("later", true)
			later.connect("wo-later", true, nil)
			later.subscribe(1, "will/#", 2)
			if retain {
				waitFor(long, func() bool { return later.countTopic("will/wo") >= 1 })
			}
			okPing := later.ping() && back.ping()
			time.Sleep(absence)
			nOn, nOff, nLater := on.countTopic("will/wo"), back.countTopic("will/wo"), later.countTopic("will/wo")
			qOff := -1
			for _, m := range back.received() {
				if m.Message.Topic == "will/wo" {
					qOff = int(m.Message.QOS)
				}
			}
			sc.direct("will_delivered", okPing && ack != nil && ack.SessionPresent && nOn == 1 && nOff == wantOff && (wantOff == 0 || qOff == 1),
				fmt.Sprintf("will seen by the online observer %d time(s) (1 expected), by the persistent observer that was offline %d time(s) after its reconnect (%d expected, at QoS 1: got QoS %d)", nOn, nOff, wantOff, qOff))
			flag := false
			for _, m := range later.received() {
				if m.Message.Topic == "will/wo" && m.Message.Retain {
					flag = true
				}
			}
			wantLater := 0
			if retain {
				wantLater = 1
			}
			sc.direct("will_retained", nLater == wantLater && flag == retain, fmt.Sprintf("observer subscribing after the death: will replayed %d time(s) (%d expected), retain flag=%v", nLater, wantLater, flag))
			sc.end()
		}
	}
}

// repeatedTakeovers: with a small kill timeout, takeovers separated by pauses longer than it.  Each displaced connection is idle
// and closes at once, so each newcomer must be acknowledged.  A refusal counts only if the displaced connection's cleanup was seen
// to be through within half the kill timeout after the newcomer entered Setup (a loaded machine voids the verdict, it cannot fail it).
func repeatedTakeovers(o *out, c *hx.Ctx) {
	const kill = 700 * time.Millisecond
	sc := o.begin(c, "c13 takeovers separated by pauses longer than the kill timeout", 3, 100)
	defer sc.end()
	b := sc.s.backend
	b.KillTimeout = kill
	for k, id := range []string{"rt-a", "rt-b", "rt-c"} {
		if k > 0 {
			time.Sleep(kill + 200*time.Millisecond) // a pause, not a verdict: whatever timer the previous takeover left behind has fired
		}
		old := sc.dial(id+"-old", true)
		old.connect(id, k%2 == 0, nil)
		np := sc.dial(id+"-new", true)
		ack := np.connect(id, k%2 == 1, nil)
		took, seen := b.cleanupTook(b.nth(id, 1), b.nth(id, 2))
		if !seen {
			waitFor(long, func() bool { took, seen = b.cleanupTook(b.nth(id, 1), b.nth(id, 2)); return seen })
		}
		prompt := seen && took < kill/2
		served := ack != nil && np.ping()
		sc.direct("takeover_after_pause", served || !prompt,
			fmt.Sprintf("takeover %d (id %s, kill timeout %v, idle old connection whose cleanup was through %v after the newcomer entered Setup): newcomer acknowledged and served=%v", k+1, id, kill, took.Round(time.Millisecond), served))
	}
}

// takeoverOrder (c15): the takeover lands while the old connection's dequeuer holds a message it has taken out of the queue and not
// yet stored; two more messages are queued behind it.  The newcomer must get all three in publication order (the held one first,
// as a retransmission), and after one more cut they are retransmitted in that order.
func takeoverOrder(o *out, c *hx.Ctx) {
	sc := o.begin(c, "c15 takeover while the old connection's dequeuer holds a dequeued, not yet stored message; two more queued", 3, 100)
	defer sc.end()
	b := sc.s.backend
	b.holdDequeueUntilClosingThen("ord", 1, func() bool { return b.dequeued("ord", 2) >= 1 })
	old := sc.dial("old", true)
	old.connect("ord", false, nil)
	old.subscribe(1, "ord", 1)
	feeder := sc.dial("feed", true)
	feeder.connect("feed", true, nil)
	feed := func(n int) {
		feeder.send(&packet.Publish{ID: packet.ID(1 + n), Message: packet.Message{Topic: "ord", Payload: payload(4, 1, n), QOS: 1}})
		waitFor(long, func() bool { return ackCount(feeder) >= n+1 })
	}
	feed(0)
	atGate := waitFor(long, func() bool { return b.dequeueHeld("ord", 1) })
	feed(1)
	feed(2)
	np := sc.dial("new", true)
	np.setHold(1 << 20) // acknowledges nothing: everything it gets is retransmitted after the next cut
	ack := np.connect("ord", false, nil)
	all3 := waitFor(long, func() bool { return np.pubCount() >= 3 })
	time.Sleep(absence)
	first := np.received()
	ok, d := checkOrder(first)
	var nums, ids []int
	for _, p := range first {
		_, _, n, _ := parsePayload(p.Message.Payload)
		nums = append(nums, n)
		ids = append(ids, int(p.ID))
	}
	sc.direct("order", atGate && ack != nil && all3 && ok && fmt.Sprint(nums) == "[0 1 2]",
		fmt.Sprintf("old dequeuer held message 0 when the takeover began=%v; the newcomer received message numbers %v (0 1 2 expected), %s", atGate, nums, d))
	np.close()
	np.isClosed(long)
	waitFor(long, func() bool { c := b.nth("ord", 2); return c != nil && closedNow(c) })
	np2 := sc.dial("new2", true)
	np2.connect("ord", false, nil)
	waitFor(long, func() bool { return np2.pubCount() >= 3 })
	time.Sleep(absence)
	var again []int
	for _, p := range np2.received() {
		if p.Dup {
			again = append(again, int(p.ID))
		}
	}
	ok2, d2 := checkOrder(append(first, np2.received()...))
	sc.direct("resend_order", fmt.Sprint(again) == fmt.Sprint(ids) && ok2, fmt.Sprintf("transmitted to the newcomer in the order of ids %v; retransmitted after its connection was cut: %v; %s", ids, again, d2))
}

// tokenTimerAfterIdle (c16): a subscriber that acknowledges everything has a token timeout of 1 s and a window of 2.  It idles for
// 1.6 timeouts after connecting, takes a burst of 8 (acknowledging as soon as the window is full, so that the dequeuer does wait
// for a slot), idles again, takes another burst: everything arrives and the connection stays up.
func tokenTimerAfterIdle(o *out, c *hx.Ctx) {
	const timeout = time.Second
	sc := o.begin(c, "c16 bursts filling the window after idle periods longer than the token timeout", 2, 100)
	defer sc.end()
	sc.s.backend.tokenTimeoutFor["ttsub"] = timeout
	sub := sc.dial("sub", true)
	pub := sc.dial("pub", true)
	if sub.connect("ttsub", true, nil) == nil || !sub.subscribe(1, "tt", 1) || pub.connect("ttpub", true, nil) == nil {
		sc.direct("progress", false, "could not connect")
		return
	}
	sent := 0
	for burst := 1; burst <= 2; burst++ {
		time.Sleep(timeout * 16 / 10) // idle: a pause, not a verdict
		sub.setHold(2)
		for i := 0; i < 8; i++ {
			pub.send(&packet.Publish{ID: packet.ID(1 + sent), Message: packet.Message{Topic: "tt", Payload: payload(2, 1, sent), QOS: 1}})
			sent++
		}
		full := waitFor(long, func() bool { return sub.heldCount() >= 2 }) // the window is used up: the dequeuer waits for a slot
		time.Sleep(20 * time.Millisecond)
		sub.releaseHeld()
		all := waitFor(long, func() bool { return sub.pubCount() >= sent || !sub.isOpen() })
		acked := waitFor(long, func() bool { return ackCount(pub) >= sent || !sub.isOpen() })
		sc.direct("progress", full && all && acked && sub.isOpen() && sub.pubCount() >= sent && sub.ping(),
			fmt.Sprintf("burst %d after %.1fs idle (token timeout %v, window 2, window seen full=%v): subscriber received %d of %d, still connected=%v, publisher acknowledged %d", burst, (timeout*16/10).Seconds(), timeout, full, sub.pubCount(), sent, sub.isOpen(), ackCount(pub)))
	}
	ok, d := checkOrder(sub.received())
	sc.direct("in_order", ok, d)
}

// windowBound (c16): a subscriber that withholds every acknowledgement while 2·window+2 QoS 1 messages are published holds exactly
// `window` unacknowledged deliveries — on its first connection, on a resumed persistent session, after a takeover
func windowBound(o *out, c *hx.Ctx, w int, mode string) {
	sc := o.begin(c, fmt.Sprintf("c16 configured window %d, subscriber withholding every acknowledgement: %s connection", w, mode), w, 100)
	defer sc.end()
	b := sc.s.backend
	feeder := sc.dial("feed", true)
	feeder.connect("feed", true, nil)
	sub := sc.dial("sub-1", false)
	ack := sub.connect("wb", false, nil)
	sub.subscribe(1, "wb", 1)
	sp := true
	switch mode {
	case "resumed":
		sub.send(&packet.Disconnect{})
		sub.isClosed(long)
		waitFor(long, func() bool { c := b.nth("wb", 1); return c != nil && closedNow(c) })
		sub = sc.dial("sub-2", false)
		ack = sub.connect("wb", false, nil)
		sp = ack != nil && ack.SessionPresent
	case "takeover":
		np := sc.dial("sub-2", false)
		ack = np.connect("wb", false, nil)
		sp = ack != nil && ack.SessionPresent && sub.isClosed(long)
		sub = np
	}
	total := 2*w + 2
	for i := 0; i < total; i++ {
		feeder.send(&packet.Publish{ID: packet.ID(1 + i), Message: packet.Message{Topic: "wb", Payload: payload(0, 1, i), QOS: 1}})
	}
	accepted := waitFor(long, func() bool { return ackCount(feeder) >= total })
	reached := waitFor(long, func() bool { return sub.pubCount() >= w })
	time.Sleep(absence)
	ids := map[packet.ID]bool{}
	for _, p := range sub.received() {
		ids[p.ID] = true
	}
	sc.direct("window_bound", ack != nil && sp && accepted && reached && len(ids) == w,
		fmt.Sprintf("%d QoS 1 messages accepted=%v for a subscriber (session as expected=%v) that acknowledges nothing: %d distinct unacknowledged deliveries (exactly the configured window %d expected)", total, accepted, sp, len(ids), w))
	// acknowledging them lets the rest through, in order
	sub.mu.Lock()
	sub.autoAck = true
	sub.mu.Unlock()
	for _, p := range sub.received() {
		sub.send(&packet.Puback{ID: p.ID})
	}
	all := waitFor(long, func() bool { return sub.pubCount() >= total })
	ok, d := checkOrder(sub.received())
	sc.direct("progress", all && ok, fmt.Sprintf("after acknowledging: %d of %d received, %s", sub.pubCount(), total, d))
}

// ------------------------------------------------------------------- fourth round

// killTimeoutDuringPubrel (c07): the publisher's connection is cut while its processor sits inside Backend.Publish for a PUBREL, for
// longer than the kill timeout.  Whatever the broker does with the resuming connection meanwhile (the current tree refuses it: no
// CONNACK), and with the one after the held call has returned, the message is handed on exactly once.
func killTimeoutDuringPubrel(o *out, c *hx.Ctx) {
	e := c07begin(o, c, "c07 PUBREL's Publish held past the kill timeout, publisher cut, resumes and retransmits")
	defer e.sc.end()
	e.b.KillTimeout = 300 * time.Millisecond
	p1, _ := e.connect(false)
	m := msg7(2, 0)
	p1.send(&packet.Publish{ID: 5, Message: m})
	rec := waitAck(p1, "pubrec", 5, 1)
	rel := e.sc.gate(e.b.holdPublishOf("pub7", 1))
	p1.send(&packet.Pubrel{ID: 5})
	at := waitFor(long, func() bool { return e.b.atPublishGate("pub7") >= 1 })
	p1.close()
	p1.isClosed(long)
	// the second connection arrives while the first one's processor is still inside Publish: its Setup waits out the kill timeout
	p2, ack2 := e.connect(false)
	second := "refused"
	if ack2 != nil {
		second = "acknowledged"
		p2.send(&packet.Pubrel{ID: 5})
		waitAck(p2, "pubcomp", 5, 1)
	}
	rel() // the held call goes on
	waitFor(long, func() bool { c := e.b.nth("pub7", 1); return c != nil && closedNow(c) })
	p3, ack3 := e.connect(false)
	p3.send(&packet.Pubrel{ID: 5})
	answered := waitAck(p3, "pubcomp", 5, 1)
	got := waitFor(long, func() bool { return deliveredNum(e.sub, 2, 0) >= 1 })
	time.Sleep(absence)
	e.sc.direct("pubrel_answered", rec && at && ack3 != nil && answered, fmt.Sprintf("PUBREL's Publish held (reached=%v); second connection %s; third connection acknowledged=%v, its PUBREL answered=%v", at, second, ack3 != nil, answered))
	d, a := deliveredNum(e.sub, 2, 0), accepted(e.b, &m)
	e.sc.direct("qos2_exactly_once", got && d == 1 && a == 1, fmt.Sprintf("second connection %s while the first one's Publish was still in progress: the QoS 2 message reached the subscriber %d time(s), the backend accepted %d Publish call(s) for it (1 and 1 expected)", second, d, a))
	e.probe(p3)
}

// multiFilterSubscribe (c08): ONE SUBSCRIBE with several filters of different QoS from a persistent subscriber: each filter keeps
// its own granted QoS — deliveries on the QoS>0 filters carry that QoS and a packet id, are stored, and come back (dup) after a cut
func multiFilterSubscribe(o *out, c *hx.Ctx, grants []int) {
	sc := o.begin(c, fmt.Sprintf("c08 one SUBSCRIBE with filters granted QoS %v: deliveries keep each filter's QoS and are retransmitted", grants), 5, 100)
	defer sc.end()
	b := sc.s.backend
	sub := sc.dial("sub", false)
	sub.connect("mf", false, nil)
	var subs []packet.Subscription
	for i, q := range grants {
		subs = append(subs, packet.Subscription{Topic: fmt.Sprintf("mf/%d", i), QOS: packet.QOS(q)})
	}
	sub.send(&packet.Subscribe{ID: 1, Subscriptions: subs})
	var codes []packet.QOS
	if g := sub.await(func(g packet.Generic) bool { _, ok := g.(*packet.Suback); return ok }, long); g != nil {
		codes = g.(*packet.Suback).ReturnCodes
	}
	feeder := sc.dial("feed", true)
	feeder.connect("feed", true, nil)
	want := 0
	for i, q := range grants {
		// published at QoS 2: the delivery is capped by the filter's grant
		feeder.send(&packet.Publish{ID: packet.ID(1 + i), Message: packet.Message{Topic: fmt.Sprintf("mf/%d", i), Payload: payload(0, 2, i), QOS: 2}})
		waitFor(long, func() bool { return ackCount(feeder) >= i+1 })
		if q > 0 {
			want++
		}
	}
	waitFor(long, func() bool { return sub.pubCount() >= len(grants) })
	bad := []string{}
	byNum := map[int]*packet.Publish{}
	for _, p := range sub.received() {
		if _, _, n, ok := parsePayload(p.Message.Payload); ok {
			byNum[n] = p
		}
	}
	for i, q := range grants {
		p := byNum[i]
		switch {
		case p == nil:
			bad = append(bad, fmt.Sprintf("filter %d (granted %d): nothing delivered", i, q))
		case int(p.Message.QOS) != q || (q > 0) != (p.ID != 0):
			bad = append(bad, fmt.Sprintf("filter %d (granted %d): delivered with QoS %d, packet id %d", i, q, p.Message.QOS, p.ID))
		}
	}
	sc.direct("qos_kept", len(bad) == 0 && len(codes) == len(grants), fmt.Sprintf("SUBACK %v; %s", codes, joinLines(bad)))
	// nothing was acknowledged: after a cut every QoS>0 delivery comes again, flagged dup, with its QoS
	sub.close()
	sub.isClosed(long)
	waitFor(long, func() bool { c := b.nth("mf", 1); return c != nil && closedNow(c) })
	back := sc.dial("sub2", true)
	ack := back.connect("mf", false, nil)
	waitFor(long, func() bool { return back.pubCount() >= want })
	time.Sleep(absence)
	again := map[int]int{}
	for _, p := range back.received() {
		if _, _, n, ok := parsePayload(p.Message.Payload); ok && p.Dup && int(p.Message.QOS) == grants[n] {
			again[n]++
		}
	}
	missing := []int{}
	for i, q := range grants {
		if q > 0 && again[i] != 1 {
			missing = append(missing, i)
		}
	}
	sc.direct("nothing_lost", ack != nil && ack.SessionPresent && len(missing) == 0, fmt.Sprintf("after a cut without acknowledgements: deliveries on the QoS>0 filters retransmitted (dup, same QoS) %v; not retransmitted exactly once: filters %v", again, missing))
}

// willBehindBlockedWrite (c12): a client with a will and keep-alive 1 s subscribes to a topic and then stops READING, while another
// client publishes 64 KiB messages to that topic until the broker's write towards the silent client blocks (its queue fills up and
// the publisher is parked inside the backend).  The keep-alive expiry must still end the connection and publish the will.
func willBehindBlockedWrite(o *out, c *hx.Ctx) {
	sc := o.begin(c, "c12 keep-alive expiry of a client that stopped reading, with the broker's write towards it blocked", 3, 20)
	defer sc.end()
	b := sc.s.backend
	obs := sc.dial("obs", true)
	pub := sc.dial("kbpub", true)
	if obs.connect("kb-obs", true, nil) == nil || !obs.subscribe(1, "will/#", 1) || pub.connect("kbpub", true, nil) == nil {
		sc.direct("setup", false, "could not connect")
		return
	}
	conn := rawConn(sc.s.port)
	if conn == nil {
		sc.direct("setup", false, "could not dial")
		return
	}
	sc.gate(func() { conn.Close() })
	cp := packet.NewConnect()
	cp.ClientID = "kb"
	cp.KeepAlive = 1
	cp.Will = &packet.Message{Topic: "will/kb", Payload: []byte("stuck"), QOS: 1}
	buf := make([]byte, 16)
	conn.SetDeadline(time.Now().Add(long))
	conn.Write(enc(cp))
	_, err1 := conn.Read(buf[:4]) // CONNACK
	t0 := time.Now()
	conn.Write(enc(&packet.Subscribe{ID: 1, Subscriptions: []packet.Subscription{{Topic: "kb/#", QOS: 0}}}))
	_, err2 := conn.Read(buf[:5]) // SUBACK — the last thing this peer ever reads
	conn.SetDeadline(time.Time{})
	big := make([]byte, 64*1024)
	stop := make(chan struct{})
	done := make(chan struct{})
	go func() {
		defer close(done)
		for i := 0; i < 2000; i++ {
			select {
			case <-stop:
				return
			default:
			}
			if pub.send(&packet.Publish{Message: packet.Message{Topic: "kb/x", Payload: big}}) != nil {
				return
			}
		}
	}()
	// the queue of the silent client is full and a publish waits for room: the broker's dequeuer for it is stuck in a write
	parkedSeen := false
	blocked := waitFor(long, func() bool {
		if b.parked("kbpub") >= 1 {
			parkedSeen = true
		}
		return parkedSeen || obs.countTopic("will/kb") >= 1
	})
	got := waitFor(long, func() bool { return obs.countTopic("will/kb") >= 1 })
	after := time.Since(t0)
	close(stop)
	gone := waitFor(long, func() bool { c := b.nth("kb", 1); return c != nil && closedNow(c) })
	sc.direct("keepalive_will", err1 == nil && err2 == nil && blocked && got && gone,
		fmt.Sprintf("client with keep-alive 1 s that stopped reading (its queue full and the publisher parked behind it before the expiry=%v): will received=%v %.2fs after its last packet (within %v expected), its connection released=%v", parkedSeen, got, after.Seconds(), long, gone))
	_ = parkedSeen
	conn.Close()
	<-done
	time.Sleep(absence)
	sc.direct("will_once", obs.countTopic("will/kb") == 1, fmt.Sprintf("will seen %d time(s)", obs.countTopic("will/kb")))
}

// retainedWillDuringSubscribe (c12): an observer's SUBSCRIBE is being acknowledged by the backend at the very moment a client with a
// RETAINED will dies: the observer gets that will exactly once — live or as retained replay, not both
func retainedWillDuringSubscribe(o *out, c *hx.Ctx) {
	for _, wq := range []int{0, 1} {
		sc := o.begin(c, fmt.Sprintf("c12 client with a retained will (QoS %d) dies while an observer's SUBSCRIBE is being acknowledged", wq), 3, 100)
		b := sc.s.backend
		wc := sc.dial("wc", true)
		wc.connect("rs-wc", true, &packet.Message{Topic: "will/rs", Payload: []byte("gone"), QOS: packet.QOS(wq), Retain: true})
		obs := sc.dial("obs", true)
		obs.connect("rs-obs", true, nil)
		hooked := false
		b.mu.Lock()
		b.subAckHook["rs-obs"] = func() {
			hooked = true
			wc.close()
			// on a backend that holds its lock across the acknowledgement the dying client's cleanup cannot get anywhere before this
			// returns: the wait runs out; otherwise its will is published right now
			waitFor(2*absence, func() bool { c := b.nth("rs-wc", 1); return c != nil && closedNow(c) })
		}
		b.mu.Unlock()
		okSub := obs.subscribe(1, "will/#", 1)
		waitFor(long, func() bool { c := b.nth("rs-wc", 1); return c != nil && closedNow(c) })
		waitFor(long, func() bool { return obs.countTopic("will/rs") >= 1 })
		okPing := obs.ping()
		time.Sleep(absence)
		n := obs.countTopic("will/rs")
		sc.direct("will_delivered", okSub && hooked && okPing && n == 1, fmt.Sprintf("subscription acknowledged=%v, will owner closed inside the acknowledgement=%v: the observer received the retained will %d time(s) (exactly once expected)", okSub, hooked, n))
		sc.end()
	}
}
