(* Tracker.v — model of client.Tracker (/repo/client/tracker.go) and of the decision rule of the
   pinger goroutine (/repo/client/client.go, pinger()).  The Go type reads time.Now() itself; here
   the clock is an explicit argument (nanoseconds, Z).  `pings` is a uint8: the wrap-around is
   written out. *)
From Coq Require Import ZArith NArith List Lia Bool.
Import ListNotations.
Open Scope Z_scope.

Record tracker := Trk { tk_last : Z; tk_pings : Z; tk_timeout : Z }.

(* NewTracker(timeout) at time now *)
Definition tk_new (timeout now : Z) : tracker := Trk now 0 timeout.
(* Reset: last = time.Now() *)
Definition tk_reset (t : tracker) (now : Z) : tracker := Trk now (tk_pings t) (tk_timeout t).
(* Window: timeout - time.Since(last) *)
Definition tk_window (t : tracker) (now : Z) : Z := tk_timeout t - (now - tk_last t).
(* Ping: pings++ ; Pong: pings-- (uint8) *)
Definition tk_ping (t : tracker) : tracker := Trk (tk_last t) ((tk_pings t + 1) mod 256) (tk_timeout t).
Definition tk_pong (t : tracker) : tracker := Trk (tk_last t) ((tk_pings t - 1) mod 256) (tk_timeout t).
(* Pending: pings > 0 *)
Definition tk_pending (t : tracker) : bool := 0 <? tk_pings t.

(* ---- the pinger loop body: what it does when it looks at the tracker at time now *)
Inductive pinger_move :=
| PmWait (d : Z)       (* window >= 0: sleep for the window (or until the tomb dies) *)
| PmSend               (* window < 0, nothing pending: send PINGREQ, then Ping() *)
| PmDie.               (* window < 0, a ping is pending: die(ErrClientMissingPong) *)

Definition pinger_decide (t : tracker) (now : Z) : pinger_move :=
  let w := tk_window t now in
  if w <? 0 then (if tk_pending t then PmDie else PmSend) else PmWait w.

(* ---- a run: the operations other goroutines and the pinger perform on one tracker *)
Inductive tk_op :=
| OReset (now : Z)     (* any send() *)
| OPong                (* the processor received PINGRESP *)
| OPinger (now : Z).   (* one iteration of the pinger loop at time now; a successful send of PINGREQ
                          is followed by send()'s own Reset and by Ping() *)

(* the state also records whether the pinger died and how many PINGREQ are unanswered *)
Record tk_run := TkRun { r_t : tracker; r_dead : bool; r_sent : list bool (* per PINGREQ: was one already pending? *) }.

Definition tk_apply (r : tk_run) (o : tk_op) : tk_run :=
  match o with
  | OReset now => TkRun (tk_reset (r_t r) now) (r_dead r) (r_sent r)
  | OPong => TkRun (tk_pong (r_t r)) (r_dead r) (r_sent r)
  | OPinger now =>
    if r_dead r then r else
    match pinger_decide (r_t r) now with
    | PmWait _ => r
    | PmDie => TkRun (r_t r) true (r_sent r)
    | PmSend => TkRun (tk_ping (tk_reset (r_t r) now)) false (tk_pending (r_t r) :: r_sent r)
    end
  end.

Definition tk_exec (r : tk_run) (ops : list tk_op) : tk_run := fold_left tk_apply ops r.

(* ------------------------------------------------------------------ theorems *)

(* Window decreases as time passes after a Reset ... *)
Theorem window_decreases t r now1 now2 : now1 <= now2 ->
  tk_window (tk_reset t r) now2 <= tk_window (tk_reset t r) now1.
Proof. unfold tk_window, tk_reset; cbn. lia. Qed.

(* ... by exactly the time that passed *)
Theorem window_exact t r now : tk_window (tk_reset t r) now = tk_timeout t - (now - r).
Proof. reflexivity. Qed.

(* and is negative exactly when more than the keep-alive interval has elapsed since the Reset *)
Theorem window_negative_iff t r now : tk_window (tk_reset t r) now < 0 <-> tk_timeout t < now - r.
Proof. unfold tk_window, tk_reset; cbn. lia. Qed.

(* Ping/Pong/Reset do not touch what they should not *)
Theorem reset_keeps_pings t now : tk_pings (tk_reset t now) = tk_pings t /\ tk_timeout (tk_reset t now) = tk_timeout t.
Proof. split; reflexivity. Qed.
Theorem ping_pong_keep_clock t : tk_last (tk_ping t) = tk_last t /\ tk_last (tk_pong t) = tk_last t.
Proof. split; reflexivity. Qed.

(* Pending is true exactly between a Ping and the Pong that answers it: with n pings outstanding
   (fewer than 256), Pending <-> n > 0; Ping makes it n+1, Pong n-1 *)
Definition outstanding (t : tracker) (n : Z) : Prop := 0 <= n < 256 /\ tk_pings t = n.

Theorem pending_iff t n : outstanding t n -> (tk_pending t = true <-> 0 < n).
Proof. intros [Hn Hp]. unfold tk_pending. rewrite Hp. apply Z.ltb_lt. Qed.

Theorem ping_outstanding t n : outstanding t n -> n < 255 -> outstanding (tk_ping t) (n + 1).
Proof. intros [Hn Hp] H. split; [lia|]. unfold tk_ping; cbn. rewrite Hp. apply Z.mod_small. lia. Qed.

Theorem pong_outstanding t n : outstanding t n -> 0 < n -> outstanding (tk_pong t) (n - 1).
Proof. intros [Hn Hp] H. split; [lia|]. unfold tk_pong; cbn. rewrite Hp. apply Z.mod_small. lia. Qed.

Corollary pending_between t : outstanding t 0 ->
  tk_pending t = false /\ tk_pending (tk_ping t) = true /\ tk_pending (tk_pong (tk_ping t)) = false.
Proof.
  intros H. pose proof (ping_outstanding _ _ H ltac:(lia)) as H1.
  pose proof (pong_outstanding _ _ H1 ltac:(lia)) as H2. cbn in H2.
  repeat split.
  - destruct (tk_pending t) eqn:E; [|reflexivity]. apply (pending_iff _ _ H) in E. lia.
  - apply (pending_iff _ _ H1). lia.
  - destruct (tk_pending (tk_pong (tk_ping t))) eqn:E; [|reflexivity]. apply (pending_iff _ _ H2) in E. lia.
Qed.

(* a PINGRESP nobody asked for: the uint8 wraps to 255 and Pending stays true until 255 more
   arrive — the pinger then dies with ErrClientMissingPong at its next turn although no ping is
   outstanding (recorded as an observation) *)
Example unsolicited_pong_wraps : tk_pings (tk_pong (tk_new 30 0)) = 255 /\ tk_pending (tk_pong (tk_new 30 0)) = true.
Proof. split; reflexivity. Qed.

(* the pinger's rule: it sends only when the window is over and nothing is pending, and it dies
   exactly when the window is over and a ping is pending *)
Theorem pinger_send_iff t now : pinger_decide t now = PmSend <-> (tk_window t now < 0 /\ tk_pending t = false).
Proof.
  unfold pinger_decide. destruct (tk_window t now <? 0) eqn:E.
  - apply Z.ltb_lt in E. destruct (tk_pending t); split; intros H; try discriminate; try tauto. destruct H; discriminate.
  - apply Z.ltb_ge in E. split; [discriminate|]. intros [H _]. lia.
Qed.

Theorem pinger_die_iff t now : pinger_decide t now = PmDie <-> (tk_window t now < 0 /\ tk_pending t = true).
Proof.
  unfold pinger_decide. destruct (tk_window t now <? 0) eqn:E.
  - apply Z.ltb_lt in E. destruct (tk_pending t); split; intros H; try discriminate; try tauto. destruct H; discriminate.
  - apply Z.ltb_ge in E. split; [discriminate|]. intros [H _]. lia.
Qed.

(* over every interleaving of sends (Reset), PINGRESPs (Pong) and pinger turns: no PINGREQ is ever
   sent while a ping is pending — the pinger dies instead, and a dead pinger sends nothing *)
Lemma apply_sent r o : Forall (fun b => b = false) (r_sent r) -> Forall (fun b => b = false) (r_sent (tk_apply r o)).
Proof.
  intros H. destruct o; cbn [tk_apply r_sent]; try exact H.
  destruct (r_dead r); [exact H|].
  destruct (pinger_decide (r_t r) now) eqn:E; cbn [r_sent]; try exact H.
  constructor; [|exact H]. apply pinger_send_iff in E. tauto.
Qed.

Theorem never_second_ping ops t0 :
  Forall (fun b => b = false) (r_sent (tk_exec (TkRun t0 false []) ops)).
Proof.
  assert (G : forall r, Forall (fun b => b = false) (r_sent r) ->
                        Forall (fun b => b = false) (r_sent (tk_exec r ops))).
  { unfold tk_exec. induction ops as [|o ops IH]; intros r H; cbn [fold_left]; [exact H|]. apply IH, apply_sent, H. }
  apply G. constructor.
Qed.

Theorem dead_pinger_stays_dead ops r : r_dead r = true -> r_dead (tk_exec r ops) = true /\ r_sent (tk_exec r ops) = r_sent r.
Proof.
  unfold tk_exec. revert r; induction ops as [|o ops IH]; intros r H; cbn [fold_left]; [auto|].
  assert (X : r_dead (tk_apply r o) = true /\ r_sent (tk_apply r o) = r_sent r).
  { destruct o; cbn [tk_apply]; rewrite ?H; auto. }
  destruct X as [X1 X2]. destruct (IH _ X1) as [Y1 Y2]. split; [exact Y1|]. rewrite Y2. exact X2.
Qed.

(* non-vacuity: keep-alive 30 units: ping at 31, no pong, next turn at 62: dies; with a pong: pings again *)
Example pinger_example :
  r_dead (tk_exec (TkRun (tk_new 30 0) false []) [OPinger 10; OPinger 31; OPinger 62]) = true /\
  r_dead (tk_exec (TkRun (tk_new 30 0) false []) [OPinger 31; OPong; OPinger 62]) = false /\
  length (r_sent (tk_exec (TkRun (tk_new 30 0) false []) [OPinger 31; OPong; OPinger 62])) = 2%nat.
Proof. repeat split. Qed.
