(* ClientTruth.v — C09_future_truthful, step form: the only steps that turn a future into a
   successfully completed one. *)
From Coq Require Import List NArith Bool Lia.
From GM Require Import Base.Lts Codec.Packet Session.Ids Session.Store
  Client.Future Client.Client Client.ClientSpec
  Client.ClientTactics Client.AMap Client.PacketEq Client.ClientInvCtl Client.ClientInvOwed Client.ClientInvWf
  Client.ClientInvHs Client.ClientInvSbs Client.ClientC10 Client.ClientInvRx Client.ClientKept.
Import ListNotations.
Open Scope N_scope.

Definition completed (s : st) (c : N) : Prop :=
  exists f, fut_get s c = Some f /\ f_status (cf_fut f) = Completed.

(* a future becomes Completed only
   - while the processor handles an acknowledgement (the last packet received) that carries the
     packet id under which the future is stored in the future store, or
   - (connect future) in the processor's step that ends processConnack for a CONNACK with return code 0
     (still the last packet received): after the listing and the last re-send, or when one of them failed, or
   - (QoS 0 publish) in the API call itself after conn.Send returned nil *)
Definition C09_future_truthful_partial_statement : Prop :=
  forall es s e s' c, run step init es = Some s -> step s e = Some s' ->
  completed s' c -> ~ completed s c ->
  (e = EHid HProc /\ exists p rest id,
      g_rx (g s) = p :: rest /\ k_ppc (k s) = PAckFut p /\ is_ackp p = true /\ get_id p = Some id /\
      store_get_f s id = Some c) \/
  (e = EHid HProc /\ exists sp d rest,
      g_rx (g s) = Connack sp 0 :: rest /\ k_ppc (k s) = PConnDone sp d /\
      t_connfut (t s) = Some c) \/
  (e = EHid HApi /\ k_api (k s) = Some (c, AReqFin)).

(* how the helpers change the table of futures *)
Lemma completed_fut_cancel s c' v c : completed (fut_cancel s c' v) c -> completed s c.
Proof.
  unfold completed, fut_cancel, fut_resolve, fut_get. intros (f & Hg & Hs).
  destruct (amap_get (t_futs (t s)) c') as [f'|] eqn:E; [|exists f; auto].
  cbn [t t_futs set_t t_set_futs] in Hg. rewrite aget_put in Hg.
  destruct (N.eqb_spec c c') as [->|].
  - injection Hg as <-. cbn [cf_fut] in Hs. unfold resolve1 in Hs.
    destruct (f_done (cf_fut f')) eqn:Ed; cbn [fst f_status] in Hs; [|discriminate Hs].
    exists f'. auto.
  - exists f. auto.
Qed.

Lemma completed_fold_cancel l s c :
  completed (fold_left (fun acc (ic : N * N) => fut_cancel acc (snd ic) VNil) l s) c -> completed s c.
Proof.
  revert s; induction l as [|x l IH]; intros s H; cbn in H; [exact H|].
  apply IH in H. eapply completed_fut_cancel; exact H.
Qed.

Lemma completed_store_clear_f s c : completed (store_clear_f s) c -> completed s c.
Proof.
  unfold store_clear_f. destruct (t_protected (t s)); [auto|]. intros H.
  apply (completed_fold_cancel (t_store (t s)) s c). destruct H as (f & Hg & Hs). exists f. split; [exact Hg|exact Hs].
Qed.

Lemma completed_store_put_f s id c' c : completed (store_put_f s id c') c -> completed s c.
Proof.
  unfold store_put_f. destruct (amap_get (t_store (t s)) id) as [c0|]; [destruct (c0 =? c')|]; intros (f & Hg & Hs).
  - exists f; auto.
  - apply (completed_fut_cancel s c0 VNil c). exists f; auto.
  - exists f; auto.
Qed.

Lemma completed_fut_new s c' id kd c : completed (fut_new s c' id kd) c -> completed s c.
Proof.
  unfold completed, fut_new, fut_get. cbn [t t_futs set_t t_set_futs]. intros (f & Hg & Hs).
  rewrite aget_put in Hg. destruct (c =? c'); [injection Hg as <-; discriminate Hs|exists f; auto].
Qed.

Lemma completed_fut_complete s c' v c : completed (fut_complete s c' v) c -> completed s c \/ c = c'.
Proof.
  unfold completed, fut_complete, fut_resolve, fut_get. intros (f & Hg & Hs).
  destruct (amap_get (t_futs (t s)) c') as [f'|] eqn:E; [|left; exists f; auto].
  cbn [t t_futs set_t t_set_futs] in Hg. rewrite aget_put in Hg.
  destruct (N.eqb_spec c c') as [->|]; [right; reflexivity|left; exists f; auto].
Qed.

(* state components that do not matter *)
Lemma completed_ext s1 s2 c : t_futs (t s1) = t_futs (t s2) -> completed s1 c -> completed s2 c.
Proof. unfold completed, fut_get. intros ->. auto. Qed.

Ltac peel Hc Hn :=
  repeat first
  [ exact (False_rect _ (Hn Hc))
  | match type of Hc with
    | completed (fut_cancel _ _ _) _ => apply completed_fut_cancel in Hc
    | completed (store_clear_f _) _ => apply completed_store_clear_f in Hc
    | completed (store_put_f _ _ _) _ => apply completed_store_put_f in Hc
    | completed (fut_new _ _ _ _) _ => apply completed_fut_new in Hc
    | completed (fut_complete _ _ _) _ => apply completed_fut_complete in Hc; destruct Hc as [Hc| ->]
    | completed (?f ?x) _ => apply (completed_ext _ x) in Hc; [|reflexivity]
    | completed (?f ?x _) _ => apply (completed_ext _ x) in Hc; [|reflexivity]
    | completed (?f ?x _ _) _ => apply (completed_ext _ x) in Hc; [|reflexivity]
    | completed (?f ?x _ _ _) _ => apply (completed_ext _ x) in Hc; [|reflexivity]
    end ].

Theorem future_truthful_partial : C09_future_truthful_partial_statement.
Proof.
  intros es s e s' c Hr H Hc Hn.
  pose proof (InvF_reach _ _ Hr) as ((_ & R) & _). unfold InvRx in R.
  revert Hc Hn.
  destruct e.
  all: step_cases H.
  all: try (destruct cu; cbn [cu_hidden] in *; try discriminate;
            match goal with E : Some _ = Some _ |- _ => injection E as E; subst end).
  all: unfold_ctl; dgoal.
  all: intros Hc Hn.
  all: peel Hc Hn.
  all: try solve [right; right; split; reflexivity].
  (* CONNACK accepted, listing and re-send over *)
  all: try solve [right; left; split; [reflexivity|];
                  cbn [rx_pc] in R; destruct R as [rest Hrx];
                  do 3 eexists; repeat split; first [eassumption|reflexivity]].
  (* an acknowledgement *)
  all: try solve [left; split; [reflexivity|];
                  cbn [rx_pc] in R; destruct R as [[rest Hrx] Hack]; cbn [is_ackp] in Hack; try discriminate Hack;
                  do 3 eexists; repeat split; first [eassumption|reflexivity]].
  all: try solve [left; split; [reflexivity|];
                  cbn [rx_pc] in R; destruct R as [[rest Hrx] Hack];
                  match goal with Hx : g_rx _ = ?p :: ?r, E1 : get_id _ = Some ?i |- _ =>
                    exists p, r, i; repeat split; first [assumption|reflexivity] end].
Qed.

