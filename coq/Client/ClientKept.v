(* ClientKept.v — C09_kept_until_acked. *)
From Coq Require Import List NArith Bool Lia.
From GM Require Import Base.Lts Codec.Packet Session.Ids Session.Store Session.StoreProofs
  Client.Future Client.Client Client.ClientSpec
  Client.ClientTactics Client.AMap Client.PacketEq Client.ClientInvCtl Client.ClientInvOwed Client.ClientInvWf
  Client.ClientInvHs Client.ClientInvSbs Client.ClientC10 Client.ClientInvRx.
Import ListNotations.
Open Scope N_scope.

(* Session.Reset is only ever called with clean session on *)
Definition InvCl (s : st) : Prop :=
  match k_api (k s) with
  | Some (_, AConnReset) | Some (_, ACu CU4 _ _ _ _) => cf_clean (k_cfg (k s)) = true
  | _ => True
  end /\
  match k_dpc (k s) with
  | DCu CU4 _ _ => cf_clean (k_cfg (k s)) = true
  | _ => True
  end /\
  (k_ppc (k s) = PNone -> k_dpc (k s) = DNone /\ k_kpc (k s) = KNone).

Lemma InvCl_init : InvCl init.
Proof. split; [exact I|split; [exact I|intros _; split; reflexivity]]. Qed.

Lemma InvCl_step s e s' : InvOwed s -> InvCl s -> step s e = Some s' -> InvCl s'.
Proof.
  intros (_ & O2) (L1 & L2 & L3) H.
  destruct e.
  all: step_leaves H.
  all: unfold InvCl in *; simp_proj; clean_eqs.
  all: try solve [split; [|split]; first [exact I | assumption | discriminate | intros _; split; reflexivity]].
  all: try solve [specialize (O2 _ eq_refl); destruct after; cbn [after_pc] in O2; try contradiction;
                  split; [|split]; first [exact I | assumption | discriminate]].
  all: try solve [split; [|split]; try first [exact I | assumption | discriminate];
                  repeat match goal with |- context [match ?x with _ => _ end] => destruct x end;
                  first [exact I | assumption | reflexivity | discriminate | tauto]].
  all: try solve [split; [|split];
                  [ first [exact I | assumption | discriminate |
                           repeat match goal with |- context [match ?x with _ => _ end] => destruct x end;
                           first [exact I | assumption | reflexivity | discriminate | tauto]]
                  | first [exact I | assumption | discriminate |
                           repeat match goal with |- context [match ?x with _ => _ end] => destruct x end;
                           first [exact I | assumption | reflexivity | discriminate | tauto]]
                  | let Hp := fresh "Hp" in let X1 := fresh "X" in let X2 := fresh "X" in
                    intros Hp; first [discriminate Hp | destruct (L3 Hp) as [X1 X2];
                                      first [discriminate X1 | discriminate X2 | split; first [assumption|reflexivity]]]]].
  (* die body done: `after` is never PNone *)
  all: try solve [specialize (O2 _ eq_refl); destruct after; cbn [after_pc] in O2; try contradiction;
                  (split; [assumption|split; [exact I|intros Xd; discriminate Xd]])].
  (* Connect takes the configuration: no die body exists yet *)
  all: try solve [destruct (L3 eq_refl) as [X1 X2]; rewrite X1; split; [exact I|split; [exact I|intros _; split; [reflexivity|assumption]]]].
Qed.

Definition InvF (s : st) : Prop := InvE s /\ InvCl s.

Lemma InvF_reach es s : run step init es = Some s -> InvF s.
Proof.
  apply reach_inv.
  - split; [|exact InvCl_init]. split; [|exact InvRx_init]. split; [|exact InvSbs_init].
    split; [apply InvWf_init|split; [apply InvCtl_init|split; [apply InvOwed_init|apply InvHs_init]]].
  - intros s0 e s1 ((((HW & HC & HO & HH) & HS) & HR) & HL) Hs. split; [split; [split|]|].
    + split; [eapply InvWf_step; eassumption|].
      split; [eapply InvCtl_step; eassumption|].
      split; [eapply InvOwed_step; eassumption|].
      eapply InvHs_step; eassumption.
    + eapply InvSbs_step; eassumption.
    + eapply InvRx_step; eassumption.
    + eapply InvCl_step; eassumption.
Qed.

Lemma lookup_setdup st q id p : store_lookup st id = Some p ->
  store_lookup (store_setdup st q) id = Some p \/ store_lookup (store_setdup st q) id = Some (set_dup p).
Proof.
  intros Hl. unfold store_setdup. destruct q; try (left; exact Hl).
  destruct (store_lookup st id0) as [[]|] eqn:E; try (left; exact Hl).
  rewrite lookup_put. destruct (N.eqb_spec id id0) as [->|]; [|left; exact Hl].
  rewrite E in Hl. injection Hl as <-. right. reflexivity.
Qed.

Lemma is_ack_for_of p id : is_ackp p = true -> get_id p = Some id -> is_ack_for id p = true.
Proof. destruct p; cbn; intros H1 H2; try discriminate; injection H2 as ->; apply N.eqb_refl. Qed.

Lemma option_N_eqb_eq a b : option_eqb N.eqb a b = true -> a = b.
Proof. apply option_eqb_eq. intros x y; apply N.eqb_eq. Qed.

Lemma req_packet_id rq id : get_id (req_packet rq id) = Some id.
Proof. destruct rq; reflexivity. Qed.

Theorem kept_until_acked : C09_kept_until_acked_statement.
Proof.
  intros es s e s' Hr H id p Hl.
  destruct (InvF_reach _ _ Hr) as (((((_ & W2 & _) & _) & _) & R) & (L1 & L2 & _)).
  destruct e.
  all: step_leaves H.
  all: simp_proj.
  all: repeat match goal with E : (?a =? ?b) = true |- _ => apply N.eqb_eq in E; subst end.
  all: try solve [left; exact Hl].
  (* the resend loop sets DUP on the stored packet *)
  all: try solve [match goal with |- context [store_setdup _ ?q] =>
                    destruct (lookup_setdup _ q _ _ Hl) as [X|X]; [left; exact X|right; left; exact X] end].
  (* Session.Reset *)
  all: try solve [do 4 right; left; eexists; split; [reflexivity|];
                  first [ exact L1 | exact L2
                        | match goal with E : k_api (k _) = _ |- _ => rewrite E in L1; exact L1 end
                        | match goal with E : k_dpc (k _) = _ |- _ => rewrite E in L2; exact L2 end ]].
  (* PUBREC: the PUBREL replaces the PUBLISH *)
  all: try solve [match goal with E : k_ppc (k _) = PRecSave ?i |- _ =>
                    unfold store_save; cbn [get_id]; rewrite lookup_put;
                    destruct (N.eqb_spec id i) as [->|];
                    [ do 3 right; left; split; [reflexivity|split; [reflexivity|]];
                      unfold InvRx in R; rewrite E in R; exact R
                    | left; exact Hl ] end].
  (* an acknowledgement removes the entry *)
  all: try solve [match goal with E : k_ppc (k _) = PAckDel ?q, E' : option_eqb N.eqb (get_id ?q) (Some ?i) = true |- _ =>
                    apply option_N_eqb_eq in E';
                    rewrite lookup_delete by exact W2;
                    destruct (N.eqb_spec id i) as [->|];
                    [ do 2 right; left; split; [reflexivity|split; [reflexivity|]];
                      unfold InvRx in R; rewrite E in R; destruct R as [[rest Hrx] Hack];
                      exists q, rest; split; [exact Hrx|split; [apply is_ack_for_of; assumption|exact E]]
                    | left; exact Hl ] end].
  (* a new request is saved under the id *)
  all: try solve [match goal with E : k_api (k _) = Some (?c, AReqSave ?rq ?i), E' : packet_eqb ?p0 (req_packet ?rq ?i) = true |- _ =>
                    apply packet_eqb_eq in E'; rewrite E'; unfold store_save; rewrite req_packet_id, lookup_put;
                    destruct (N.eqb_spec id i) as [->|];
                    [ do 5 right; exists c, rq; split; [first [exact E|reflexivity]|reflexivity]
                    | left; exact Hl ] end].
  all: try solve [left; match goal with F : sess _ = sess _ |- _ => rewrite F end; exact Hl].
Qed.

