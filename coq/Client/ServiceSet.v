(* ServiceSet.v — the resubscribe request, characterised independently of the code's
   structure: `spec_resub bs` (what the model sends) is strictly sorted by topic (Go's
   string order) and holds exactly the topics subscribed after the command history bs,
   each with the qos of its last subscription (ServiceSpec.is_resub_of). *)
From Coq Require Import List NArith Bool Lia Sorted.
From Coq.Strings Require Import Byte.
From GM Require Import Codec.Packet Client.Service Client.ServiceSpec.
Import ListNotations.
Open Scope N_scope.

(* ---------------------------------------------------------------- equality tests *)

Lemma bytes_eqb_eq a : forall b, bytes_eqb a b = true -> a = b.
Proof.
  induction a as [|x a IH]; intros [|y b] H; cbn in H; try discriminate; [reflexivity|].
  apply andb_true_iff in H. destruct H as [H1 H2]. apply Byte.byte_dec_bl in H1. subst. f_equal. auto.
Qed.

Lemma bytes_eqb_refl a : bytes_eqb a a = true.
Proof.
  induction a as [|x a IH]; cbn; [reflexivity|].
  assert (Hx : Byte.eqb x x = true) by (apply Byte.byte_dec_lb; reflexivity).
  rewrite IH, Hx. reflexivity.
Qed.

Lemma bytes_eqb_neq a b : a <> b -> bytes_eqb a b = false.
Proof. intros H. destruct (bytes_eqb a b) eqn:E; [|reflexivity]. apply bytes_eqb_eq in E. contradiction. Qed.

Lemma bytes_eqb_sym a b : bytes_eqb a b = bytes_eqb b a.
Proof.
  destruct (bytes_eqb a b) eqn:E.
  - apply bytes_eqb_eq in E. subst. symmetry. apply bytes_eqb_refl.
  - destruct (bytes_eqb b a) eqn:E'; [|reflexivity]. apply bytes_eqb_eq in E'. subst. rewrite bytes_eqb_refl in E. discriminate.
Qed.

Lemma sub_eqb_eq x y : sub_eqb x y = true -> x = y.
Proof.
  destruct x as [t q], y as [t' q']. unfold sub_eqb; cbn. intros H. apply andb_true_iff in H. destruct H as [H1 H2].
  apply bytes_eqb_eq in H1. apply N.eqb_eq in H2. subst. reflexivity.
Qed.

Lemma subs_eqb_eq l : forall l', list_eqb sub_eqb l l' = true -> l = l'.
Proof.
  induction l as [|x l IH]; intros [|y l'] H; cbn in H; try discriminate; [reflexivity|].
  apply andb_true_iff in H. destruct H as [H1 H2]. apply sub_eqb_eq in H1. subst. f_equal. auto.
Qed.

(* ---------------------------------------------------------------- Go's string order *)

Lemma to_N_inj x y : Byte.to_N x = Byte.to_N y -> x = y.
Proof.
  intros H. pose proof (Byte.of_to_N x) as Hx. pose proof (Byte.of_to_N y) as Hy. rewrite H in Hx. congruence.
Qed.

Lemma leb_refl a : bytes_leb a a = true.
Proof. induction a as [|x a IH]; cbn; [reflexivity|]. rewrite N.ltb_irrefl. exact IH. Qed.

Lemma leb_total a : forall b, bytes_leb a b = true \/ bytes_leb b a = true.
Proof.
  induction a as [|x a IH]; intros [|y b]; cbn; auto.
  destruct (N.ltb_spec (Byte.to_N x) (Byte.to_N y)); auto.
  destruct (N.ltb_spec (Byte.to_N y) (Byte.to_N x)); auto.
Qed.

Lemma leb_antisym a : forall b, bytes_leb a b = true -> bytes_leb b a = true -> a = b.
Proof.
  induction a as [|x a IH]; intros [|y b]; cbn; intros H1 H2; try discriminate; [reflexivity|].
  destruct (N.ltb_spec (Byte.to_N x) (Byte.to_N y)) as [Hxy|Hxy];
  destruct (N.ltb_spec (Byte.to_N y) (Byte.to_N x)) as [Hyx|Hyx]; try discriminate; try lia.
  assert (x = y) by (apply to_N_inj; lia). subst. f_equal. auto.
Qed.

Lemma leb_trans a : forall b c, bytes_leb a b = true -> bytes_leb b c = true -> bytes_leb a c = true.
Proof.
  induction a as [|x a IH]; intros [|y b] [|z c]; cbn; intros H1 H2; try discriminate; try reflexivity.
  destruct (N.ltb_spec (Byte.to_N x) (Byte.to_N y)) as [Hxy|Hxy];
  destruct (N.ltb_spec (Byte.to_N y) (Byte.to_N x)) as [Hyx|Hyx];
  destruct (N.ltb_spec (Byte.to_N y) (Byte.to_N z)) as [Hyz|Hyz];
  destruct (N.ltb_spec (Byte.to_N z) (Byte.to_N y)) as [Hzy|Hzy];
  destruct (N.ltb_spec (Byte.to_N x) (Byte.to_N z)) as [Hxz|Hxz];
  destruct (N.ltb_spec (Byte.to_N z) (Byte.to_N x)) as [Hzx|Hzx];
  try discriminate; try reflexivity; try lia.
  eapply IH; eauto.
Qed.

Lemma ltb_intro a b : bytes_leb a b = true -> a <> b -> bytes_ltb a b = true.
Proof. intros H1 H2. unfold bytes_ltb. rewrite H1, (bytes_eqb_neq a b H2). reflexivity. Qed.

Lemma ltb_elim a b : bytes_ltb a b = true -> bytes_leb a b = true /\ a <> b.
Proof.
  unfold bytes_ltb. intros H. apply andb_true_iff in H. destruct H as [H1 H2]. split; [exact H1|].
  intros ->. rewrite bytes_eqb_refl in H2. discriminate.
Qed.

Lemma ltb_trans a b c : bytes_ltb a b = true -> bytes_ltb b c = true -> bytes_ltb a c = true.
Proof.
  intros H1 H2. apply ltb_elim in H1. apply ltb_elim in H2. destruct H1 as [H1 N1], H2 as [H2 N2].
  apply ltb_intro; [eapply leb_trans; eauto|]. intros ->. apply N1. apply leb_antisym; auto.
Qed.

(* ---------------------------------------------------------------- the map *)

Fixpoint smap_get (t : topic) (m : smap) : option N :=
  match m with
  | [] => None
  | (t', q) :: m' => if bytes_eqb t' t then Some q else smap_get t m'
  end.

Definition keys (m : smap) : list topic := map fst m.

Lemma in_del e t m : In e (smap_del t m) <-> In e m /\ fst e <> t.
Proof.
  unfold smap_del. rewrite filter_In. destruct e as [k q]; cbn [fst]. split; intros [H1 H2]; split; auto.
  - intros ->. rewrite bytes_eqb_refl in H2. discriminate.
  - rewrite (bytes_eqb_neq _ _ H2). reflexivity.
Qed.

Lemma del_nodup t m : NoDup (keys m) -> NoDup (keys (smap_del t m)) /\ ~ In t (keys (smap_del t m)).
Proof.
  intros Hnd. split.
  - unfold smap_del, keys. induction m as [|[k q] m IH]; cbn [filter map fst]; [constructor|].
    cbn [keys map fst] in Hnd. inversion Hnd as [|? ? Hni Hnd']; subst.
    destruct (negb (bytes_eqb k t)); cbn [map fst]; auto.
    constructor; auto. intros Hin. apply Hni. apply in_map_iff in Hin. destruct Hin as (y & <- & Hy).
    apply filter_In in Hy. apply in_map. tauto.
  - intros Hin. apply in_map_iff in Hin. destruct Hin as (y & Hy & Hin). apply in_del in Hin. tauto.
Qed.

Lemma get_del t t' m : smap_get t (smap_del t' m) = if bytes_eqb t' t then None else smap_get t m.
Proof.
  unfold smap_del. induction m as [|[k q] m IH]; cbn [filter smap_get fst].
  - destruct (bytes_eqb t' t); reflexivity.
  - destruct (bytes_eqb k t') eqn:Ek; cbn [negb].
    + apply bytes_eqb_eq in Ek; subst k. rewrite IH. destruct (bytes_eqb t' t); reflexivity.
    + cbn [smap_get]. destruct (bytes_eqb k t) eqn:Ekt.
      * apply bytes_eqb_eq in Ekt; subst k. rewrite bytes_eqb_sym, Ek. reflexivity.
      * exact IH.
Qed.

Lemma get_set t t' q m : smap_get t (smap_set t' q m) = if bytes_eqb t' t then Some q else smap_get t m.
Proof.
  unfold smap_set. cbn [smap_get]. destruct (bytes_eqb t' t) eqn:E; [reflexivity|].
  rewrite get_del, E. reflexivity.
Qed.

Lemma set_nodup t q m : NoDup (keys m) -> NoDup (keys (smap_set t q m)).
Proof. intros H. unfold smap_set. cbn [keys map fst]. destruct (del_nodup t m H). constructor; auto. Qed.

Lemma get_in t q m : NoDup (keys m) -> (In (t, q) m <-> smap_get t m = Some q).
Proof.
  induction m as [|[k x] m IH]; intros Hnd; cbn [smap_get]; [split; [intros []|discriminate]|].
  cbn [keys map fst] in Hnd. inversion Hnd as [|? ? Hni Hnd']; subst.
  destruct (bytes_eqb k t) eqn:E.
  - apply bytes_eqb_eq in E; subst k. split.
    + intros [H|H]; [injection H as ->; reflexivity|]. exfalso. apply Hni. apply in_map_iff. exists (t, q); auto.
    + intros H; injection H as ->. left; reflexivity.
  - split.
    + intros [H|H]; [injection H as -> ->; rewrite bytes_eqb_refl in E; discriminate|]. apply IH; auto.
    + intros H. right. apply IH; auto.
Qed.

(* the code's map and the specification's lookup agree, command by command *)
Lemma apply_body_spec t b : forall m,
  NoDup (keys m) ->
  NoDup (keys (apply_body b m)) /\ smap_get t (apply_body b m) = upd_body t (smap_get t m) b.
Proof.
  destruct b as [l|ts|msg]; cbn [apply_body upd_body].
  - induction l as [|[k q] l IH]; intros m Hnd; cbn [fold_left fst snd]; [auto|].
    specialize (IH (smap_set k q m) (set_nodup k q m Hnd)). destruct IH as [IH1 IH2].
    split; [exact IH1|]. rewrite IH2, get_set. reflexivity.
  - induction ts as [|k ts IH]; intros m Hnd; cbn [fold_left]; [auto|].
    specialize (IH (smap_del k m) (proj1 (del_nodup k m Hnd))). destruct IH as [IH1 IH2].
    split; [exact IH1|]. rewrite IH2, get_del. reflexivity.
  - auto.
Qed.

Lemma fold_apply_spec t bs : forall m,
  NoDup (keys m) ->
  NoDup (keys (fold_left (fun m b => apply_body b m) bs m)) /\
  smap_get t (fold_left (fun m b => apply_body b m) bs m) = fold_left (upd_body t) bs (smap_get t m).
Proof.
  induction bs as [|b bs IH]; intros m Hnd; cbn [fold_left]; [auto|].
  destruct (apply_body_spec t b m Hnd) as [H1 H2].
  specialize (IH (apply_body b m) H1). destruct IH as [IH1 IH2]. split; [exact IH1|]. rewrite IH2, H2. reflexivity.
Qed.

(* ---------------------------------------------------------------- All (dedup) and sort *)

Lemma dedup_id m : NoDup (keys m) -> dedup m = m.
Proof.
  induction m as [|[k q] m IH]; intros Hnd; cbn [dedup]; [reflexivity|].
  cbn [keys map fst] in Hnd. inversion Hnd as [|? ? Hni Hnd']; subst.
  destruct (existsb (sub_eqb (k, q)) m) eqn:E.
  - exfalso. apply existsb_exists in E. destruct E as (y & Hy & He). apply sub_eqb_eq in He. subst y.
    apply Hni. apply in_map_iff. exists (k, q); auto.
  - f_equal. auto.
Qed.

Lemma in_insert x y l : In y (insert_sub x l) <-> y = x \/ In y l.
Proof.
  induction l as [|z l IH]; cbn [insert_sub].
  - cbn. intuition.
  - destruct (bytes_leb (fst x) (fst z)); cbn [In]; [intuition|]. rewrite IH. intuition.
Qed.

Lemma in_sort y l : In y (sort_subs l) <-> In y l.
Proof.
  induction l as [|x l IH]; cbn [sort_subs]; [reflexivity|]. rewrite in_insert, IH. cbn. intuition.
Qed.

Lemma insert_sorted x l :
  StronglySorted sub_lt l -> ~ In (fst x) (keys l) -> StronglySorted sub_lt (insert_sub x l).
Proof.
  induction 1 as [|z l Hs IH Hz]; intros Hni; cbn [insert_sub].
  - constructor; constructor.
  - cbn [keys map] in Hni.
    assert (Hne : fst x <> fst z) by (intros E; apply Hni; left; symmetry; exact E).
    assert (Hni' : ~ In (fst x) (keys l)) by (intros H; apply Hni; right; exact H).
    destruct (bytes_leb (fst x) (fst z)) eqn:E.
    + assert (Hxz : sub_lt x z) by (apply ltb_intro; auto).
      constructor; [constructor; auto|]. constructor; [exact Hxz|].
      eapply Forall_impl; [|exact Hz]. intros w Hw. unfold sub_lt in *. eapply ltb_trans; eauto.
    + assert (Hzx : sub_lt z x).
      { apply ltb_intro; [|auto]. destruct (leb_total (fst x) (fst z)) as [H|H]; [congruence|exact H]. }
      constructor; [apply IH; exact Hni'|].
      apply Forall_forall. intros w Hw. apply in_insert in Hw. destruct Hw as [->|Hw]; [exact Hzx|].
      rewrite Forall_forall in Hz. auto.
Qed.

Lemma sort_sorted l : NoDup (keys l) -> StronglySorted sub_lt (sort_subs l).
Proof.
  induction l as [|x l IH]; intros Hnd; cbn [sort_subs]; [constructor|].
  cbn [keys map] in Hnd. inversion Hnd as [|? ? Hni Hnd']; subst.
  apply insert_sorted; [apply IH; exact Hnd'|]. intros Hin. apply Hni.
  apply in_map_iff in Hin. destruct Hin as (y & Hy & Hin). apply (proj1 (in_sort y l)) in Hin.
  apply in_map_iff. exists y; auto.
Qed.

(* ---------------------------------------------------------------- the characterisation *)

Theorem spec_resub_is_resub bs : is_resub_of bs (spec_resub bs).
Proof.
  unfold is_resub_of, spec_resub, sub_lookup.
  assert (Hnd0 : NoDup (keys [])) by constructor.
  split.
  - destruct (fold_apply_spec [] bs [] Hnd0) as [Hnd _]. rewrite dedup_id by exact Hnd. apply sort_sorted; exact Hnd.
  - intros t q. destruct (fold_apply_spec t bs [] Hnd0) as [Hnd Hg]. rewrite dedup_id by exact Hnd.
    rewrite in_sort, (get_in t q _ Hnd), Hg. reflexivity.
Qed.

(* a strictly sorted list is determined by its elements: is_resub_of has at most one solution *)
Lemma sorted_unique l : forall l',
  StronglySorted sub_lt l -> StronglySorted sub_lt l' -> (forall x, In x l <-> In x l') -> l = l'.
Proof.
  assert (Hirr : forall x, ~ sub_lt x x).
  { intros x H. apply ltb_elim in H. destruct H as [_ H]. apply H; reflexivity. }
  assert (Hasym : forall x y, sub_lt x y -> sub_lt y x -> False).
  { intros x y H1 H2. apply (Hirr x). unfold sub_lt in *. eapply ltb_trans; eauto. }
  induction l as [|x l IH]; intros [|y l'] Hs Hs' Heq.
  - reflexivity.
  - exfalso. apply (Heq y). left; reflexivity.
  - exfalso. apply (Heq x). left; reflexivity.
  - inversion Hs as [|? ? Hs1 Hf1]; subst. inversion Hs' as [|? ? Hs2 Hf2]; subst.
    rewrite Forall_forall in Hf1, Hf2.
    assert (x = y).
    { destruct (proj1 (Heq x) (or_introl eq_refl)) as [->|Hx]; [reflexivity|].
      destruct (proj2 (Heq y) (or_introl eq_refl)) as [->|Hy]; [reflexivity|].
      exfalso. exact (Hasym x y (Hf1 y Hy) (Hf2 x Hx)). }
    subst y. f_equal. apply IH; auto.
    intros z. split; intros Hz.
    + destruct (proj1 (Heq z) (or_intror Hz)) as [<-|H]; [|exact H]. exfalso. exact (Hirr x (Hf1 x Hz)).
    + destruct (proj2 (Heq z) (or_intror Hz)) as [<-|H]; [|exact H]. exfalso. exact (Hirr x (Hf2 x Hz)).
Qed.

Theorem is_resub_unique bs r r' : is_resub_of bs r -> is_resub_of bs r' -> r = r'.
Proof.
  intros [H1 H2] [H1' H2']. apply sorted_unique; auto.
  intros [t q]. rewrite H2, H2'. reflexivity.
Qed.

(* ---------------------------------------------------------------- the extracted predicates reflect the specification *)

Lemma sub_eqb_refl x : sub_eqb x x = true.
Proof. destruct x as [t q]. unfold sub_eqb; cbn. rewrite bytes_eqb_refl, N.eqb_refl. reflexivity. Qed.

Lemma subs_eqb_refl l : list_eqb sub_eqb l l = true.
Proof. induction l as [|x l IH]; cbn; [reflexivity|]. rewrite sub_eqb_refl, IH. reflexivity. Qed.

(* resub_ok (run by the model runner on the observed requests) decides is_resub_of *)
Theorem resub_ok_iff bs r : resub_ok bs r = true <-> is_resub_of bs r.
Proof.
  unfold resub_ok. split.
  - intros H. apply subs_eqb_eq in H. subst r. apply spec_resub_is_resub.
  - intros H. rewrite (is_resub_unique bs r (spec_resub bs) H (spec_resub_is_resub bs)). apply subs_eqb_refl.
Qed.

Lemma topics_eqb_eq l : forall l', list_eqb bytes_eqb l l' = true -> l = l'.
Proof.
  induction l as [|x l IH]; intros [|y l'] H; cbn in H; try discriminate; [reflexivity|].
  apply andb_true_iff in H. destruct H as [H1 H2]. apply bytes_eqb_eq in H1. subst. f_equal. auto.
Qed.

Lemma message_eqb_eq m m' : message_eqb m m' = true -> m = m'.
Proof.
  destruct m as [t p q r], m' as [t' p' q' r']. unfold message_eqb; cbn. intros H.
  apply andb_true_iff in H. destruct H as [H Hr]. apply andb_true_iff in H. destruct H as [H Hq].
  apply andb_true_iff in H. destruct H as [Ht Hp].
  apply bytes_eqb_eq in Ht. apply bytes_eqb_eq in Hp. apply N.eqb_eq in Hq. apply Bool.eqb_prop in Hr. subst. reflexivity.
Qed.

Lemma body_eqb_eq b b' : body_eqb b b' = true -> b = b'.
Proof.
  destruct b, b'; cbn; intros H; try discriminate.
  - apply subs_eqb_eq in H. subst; reflexivity.
  - apply topics_eqb_eq in H. subst; reflexivity.
  - apply message_eqb_eq in H. subst; reflexivity.
Qed.

(* fifo_ok (run on the requests the peers saw) is sound for "a subsequence of the commands in issue order" *)
Theorem fifo_ok_sound : forall issued seen, fifo_ok seen issued = true -> Subseq seen issued.
Proof.
  unfold fifo_ok. induction issued as [|y l2 IH]; intros [|x l1] H; cbn in H; try discriminate.
  - apply SubNil.
  - apply SubSkip. apply IH. destruct l2; reflexivity.
  - destruct (body_eqb x y) eqn:E.
    + apply body_eqb_eq in E. subst y. apply SubKeep. apply IH. exact H.
    + apply SubSkip. apply IH. exact H.
Qed.
