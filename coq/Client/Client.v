(* Client.v — CL: model of client.Client (/repo/client/client.go) as a deterministic
   monitor `step : st -> event -> option st`.  Definitions only.

   One model state covers a session object (Session/Store.v) and the current
   incarnation of a client.Client that uses it; ENew starts the next incarnation
   (a Client cannot be reused after Connect) on the same session.

   Threads of the Go code and their model counterparts
     API callers     each call is a coroutine of micro-steps; the client mutex makes
                     the calls mutually exclusive: `k_api` holds the one call that owns
                     the mutex, `k_pending` the calls that have been entered
     processor       `k_ppc`
     pinger          `k_kpc`
     die body        `k_dpc` (run once, by the processor or the pinger; finish.Do)
   cleanup() is executed by API callers (send failure, end()) and by the die body; it
   does not take the mutex, so its steps interleave with everything else.

   Observable events are the calls the client makes on its Conn, Session, Dialer and
   Callback (logged when they return) plus API call entry/return and future
   resolution seen by a watcher.  Reads and writes of the client's own shared
   variables (state word, future store, connect future) are the hidden events
   `EHid _`; the trace driver places them.  Given the event the successor is a
   function: all nondeterminism is in which event comes next. *)
From Coq Require Import List NArith Bool.
From GM Require Import Base.Lts Codec.Packet Session.Ids Session.Store Client.Future.
Import ListNotations.
Open Scope N_scope.

(* ---------------------------------------------------------------- vocabulary *)

Inductive cstate := StInit | StConnecting | StConnacked | StConnected | StDisconnecting | StDisconnected.

Definition cst_n (s : cstate) : N :=
  match s with
  | StInit => 0 | StConnecting => 1 | StConnacked => 2 | StConnected => 3
  | StDisconnecting => 4 | StDisconnected => 5
  end.

Definition is_connected (s : cstate) : bool := cst_n s =? 3.

Inductive res := Ok | Fail.
Definition res_ok (r : res) : bool := match r with Ok => true | Fail => false end.

(* who runs a cleanup step: an API caller or an internal goroutine (die body) *)
Inductive who := WApi | WInt.
Definition who_eqb (a b : who) : bool :=
  match a, b with WApi, WApi | WInt, WInt => true | _, _ => false end.

(* the part of Config (and of the Client fields set before Connect) the control flow depends on *)
Record config := Cfg {
  cf_clean     : bool;   (* CleanSession *)
  cf_early     : bool;   (* AlwaysAnnounceOnPublish *)
  cf_validate  : bool;   (* ValidateSubs *)
  cf_keepalive : bool;   (* KeepAlive > 0: a pinger is started *)
  cf_callback  : bool }. (* Client.Callback != nil *)

Inductive req :=
| RPub (m : message)
| RSub (subs : list (bytes * N))
| RUns (topics : list bytes).

Inductive call :=
| CConnect (c : config)
| CReq (r : req)
| CDisconnect (timeout : bool)
| CClose.

(* what an API call returned *)
Inductive aret := RetFut | RetNil | RetNotConnected | RetAlreadyConnecting | RetErr.
Definition aret_eqb (a b : aret) : bool :=
  match a, b with
  | RetFut, RetFut | RetNil, RetNil | RetNotConnected, RetNotConnected
  | RetAlreadyConnecting, RetAlreadyConnecting | RetErr, RetErr => true
  | _, _ => false
  end.

Inductive hid :=
| HAcq (c : N)     (* call c takes the mutex and makes its first state check *)
| HApi             (* next hidden step of the call that holds the mutex *)
| HProc            (* next hidden step of the processor *)
| HDie             (* next hidden step of the die body *)
| HPingMissing.    (* the pinger found a ping unanswered and calls die *)

Inductive event :=
| ENew (protected : bool)                    (* a fresh Client on the same session *)
| EApiCall (c : N) (k : call)
| EApiRet (c : N) (r : aret)
| EDial (r : res)
| ERx (p : packet)
| ERxErr
| ETx (p : packet) (async : bool) (r : res)
| EConnClose (w : who) (r : res)
| ENextId (id : N)
| ESave (d : direction) (p : packet) (r : res)
| ELookup (d : direction) (id : N) (r : option (option packet))   (* None: the session returned an error *)
| EDelete (d : direction) (id : N) (r : res)
| EAll (d : direction) (r : option (list packet))
| EReset (w : who) (r : res)
| ECb (m : message) (r : res)                (* Callback(msg, nil); Fail: it returned an error *)
| ECbErr                                     (* Callback(nil, err) *)
| EFut (c : N) (completed : bool) (sp : bool) (rc : N) (codes : list N)
                                             (* a watcher saw the future of call c resolve and read the accessors *)
| EHid (h : hid).

(* ---------------------------------------------------------------- control points *)

(* cleanup(): CU1 cancel the connect future if state < connacked; CU2 state := disconnected;
   CU3 conn.Close (if closeConn); CU4 Session.Reset (if clean); CU5 futureStore.Clear *)
Inductive cupc := CU1 | CU2 | CU3 | CU4 | CU5.

Inductive apc :=
| AConnDial
| AConnReset
| AConnSend
| AReqNext (r : req)
| AReqPut (r : req) (id : N)
| AReqSave (r : req) (id : N)
| AReqSend (r : req) (id : N)
| AReqFin
| ADiscSet
| ADiscSend
| ACu (cu : cupc) (close_conn err possibly_closed endw : bool)
| AEndWait (err : bool).

Inductive ppc :=
| PNone                                (* no processor was started *)
| PRecv (first : bool)                 (* in conn.Receive *)
| PErrChk                              (* Receive failed: state >= disconnecting? *)
| PConnack (sp : bool) (rc : N)
| PConnackCancel (sp : bool) (rc : N)  (* connectFuture.Cancel(connack) after die *)
| PAll (sp : bool)                              (* accepted CONNACK, state Connacked: AllPackets(Outgoing) is next *)
| PResend (sp : bool) (l : list packet)         (* l still has to be re-sent; the client is not Connected yet *)
| PConnDone (sp : bool) (d : option bool)       (* complete the connect future; None: after Connacked -> Connected,
                                                   Some close: then die(err, close) (listing / re-send failed) *)
| PAckDel (p : packet)                 (* SUBACK/UNSUBACK/PUBACK/PUBCOMP: DeletePacket(Outgoing, id) *)
| PAckFut (p : packet)                 (* ... then the future *)
| PPubCb (p : packet)
| PPubAck (id : N)
| PPubSave (p : packet)
| PPubRec (id : N)
| PRecSave (id : N)
| PRecSend (id : N)
| PRelLookup (id : N)
| PRelCb (m : message) (pid id : N)
| PRelComp (pid id : N)
| PRelDel (id : N)
| PInDie                               (* running the die body *)
| PExited.

Inductive dafter := DAProc (after : ppc) | DAPing.

Inductive dpc :=
| DNone
| DCu (cu : cupc) (close_conn : bool) (a : dafter)
| DCb (a : dafter)
| DDone.

Inductive kpc := KNone | KRun | KInDie | KExited.

(* ---------------------------------------------------------------- state *)

Inductive fkind := KConnect | KPub (qos : N) | KSub | KUns.

(* a future handed out by API call number c, with ghost marks: how many packets had been
   received / sent when it was put into the future store *)
Record cfut := CFut {
  cf_fut   : future;
  cf_id    : N;
  cf_kind  : fkind;
  cf_rxmark : nat;
  cf_txmark : nat }.

Record ctl := Ctl {
  k_cs : cstate;
  k_cfg : config;
  k_api : option (N * apc);
  k_pending : list (N * call);
  k_returning : list (N * aret);
  k_ppc : ppc;
  k_dpc : dpc;
  k_kpc : kpc;
  k_started : bool }.

Record ftab := FTab {
  t_protected : bool;
  t_store : list (N * N);        (* futureStore: packet id -> call number of the future *)
  t_futs : list (N * cfut);      (* every future created so far, by call number *)
  t_connfut : option N }.

Record ghost := Ghost {
  g_rx : list packet;                     (* packets received, newest first *)
  g_tx : list (packet * bool * res);      (* Send calls, newest first *)
  g_saved : list (direction * packet);    (* successful SavePacket calls *)
  g_hs : list (N * N);                    (* open inbound QoS 2 handshakes: id -> accepted deliveries *)
  g_owed : list packet;                   (* acknowledgement owed for the packet being processed *)
  g_cbfail : bool;                        (* a message callback returned an error (this incarnation) *)
  g_dead : bool;                          (* the connection was closed or failed (this incarnation) *)
  g_compfail : bool;                      (* a PUBCOMP write failed *)
  g_delfail : bool;                       (* a DeletePacket(Incoming) failed *)
  g_nextids : N }.                        (* NextID calls so far *)

Record st := St { sess : session; k : ctl; t : ftab; g : ghost }.

Definition cfg0 : config := Cfg false false false false false.

Definition ctl0 : ctl := Ctl StInit cfg0 None [] [] PNone DNone KNone false.
Definition ftab0 : ftab := FTab false [] [] None.
Definition ghost0 : ghost := Ghost [] [] [] [] [] false false false false 0.
Definition init : st := St session_new ctl0 ftab0 ghost0.

(* setters *)
Definition set_k (s : st) (x : ctl) : st := St (sess s) x (t s) (g s).
Definition set_t (s : st) (x : ftab) : st := St (sess s) (k s) x (g s).
Definition set_g (s : st) (x : ghost) : st := St (sess s) (k s) (t s) x.
Definition set_sess (s : st) (x : session) : st := St x (k s) (t s) (g s).

Definition k_set_cs (c : ctl) x := Ctl x (k_cfg c) (k_api c) (k_pending c) (k_returning c) (k_ppc c) (k_dpc c) (k_kpc c) (k_started c).
Definition k_set_cfg (c : ctl) x := Ctl (k_cs c) x (k_api c) (k_pending c) (k_returning c) (k_ppc c) (k_dpc c) (k_kpc c) (k_started c).
Definition k_set_api (c : ctl) x := Ctl (k_cs c) (k_cfg c) x (k_pending c) (k_returning c) (k_ppc c) (k_dpc c) (k_kpc c) (k_started c).
Definition k_set_pending (c : ctl) x := Ctl (k_cs c) (k_cfg c) (k_api c) x (k_returning c) (k_ppc c) (k_dpc c) (k_kpc c) (k_started c).
Definition k_set_returning (c : ctl) x := Ctl (k_cs c) (k_cfg c) (k_api c) (k_pending c) x (k_ppc c) (k_dpc c) (k_kpc c) (k_started c).
Definition k_set_ppc (c : ctl) x := Ctl (k_cs c) (k_cfg c) (k_api c) (k_pending c) (k_returning c) x (k_dpc c) (k_kpc c) (k_started c).
Definition k_set_dpc (c : ctl) x := Ctl (k_cs c) (k_cfg c) (k_api c) (k_pending c) (k_returning c) (k_ppc c) x (k_kpc c) (k_started c).
Definition k_set_kpc (c : ctl) x := Ctl (k_cs c) (k_cfg c) (k_api c) (k_pending c) (k_returning c) (k_ppc c) (k_dpc c) x (k_started c).
Definition k_set_started (c : ctl) x := Ctl (k_cs c) (k_cfg c) (k_api c) (k_pending c) (k_returning c) (k_ppc c) (k_dpc c) (k_kpc c) x.

Definition set_cs s x := set_k s (k_set_cs (k s) x).
Definition set_api s x := set_k s (k_set_api (k s) x).
Definition set_ppc s x := set_k s (k_set_ppc (k s) x).
Definition set_dpc s x := set_k s (k_set_dpc (k s) x).
Definition set_kpc s x := set_k s (k_set_kpc (k s) x).

Definition t_set_store (f : ftab) x := FTab (t_protected f) x (t_futs f) (t_connfut f).
Definition t_set_futs (f : ftab) x := FTab (t_protected f) (t_store f) x (t_connfut f).
Definition t_set_connfut (f : ftab) x := FTab (t_protected f) (t_store f) (t_futs f) x.

Definition g_set_rx (h : ghost) x := Ghost x (g_tx h) (g_saved h) (g_hs h) (g_owed h) (g_cbfail h) (g_dead h) (g_compfail h) (g_delfail h) (g_nextids h).
Definition g_set_tx (h : ghost) x := Ghost (g_rx h) x (g_saved h) (g_hs h) (g_owed h) (g_cbfail h) (g_dead h) (g_compfail h) (g_delfail h) (g_nextids h).
Definition g_set_saved (h : ghost) x := Ghost (g_rx h) (g_tx h) x (g_hs h) (g_owed h) (g_cbfail h) (g_dead h) (g_compfail h) (g_delfail h) (g_nextids h).
Definition g_set_hs (h : ghost) x := Ghost (g_rx h) (g_tx h) (g_saved h) x (g_owed h) (g_cbfail h) (g_dead h) (g_compfail h) (g_delfail h) (g_nextids h).
Definition g_set_owed (h : ghost) x := Ghost (g_rx h) (g_tx h) (g_saved h) (g_hs h) x (g_cbfail h) (g_dead h) (g_compfail h) (g_delfail h) (g_nextids h).
Definition g_set_cbfail (h : ghost) x := Ghost (g_rx h) (g_tx h) (g_saved h) (g_hs h) (g_owed h) x (g_dead h) (g_compfail h) (g_delfail h) (g_nextids h).
Definition g_set_dead (h : ghost) x := Ghost (g_rx h) (g_tx h) (g_saved h) (g_hs h) (g_owed h) (g_cbfail h) x (g_compfail h) (g_delfail h) (g_nextids h).
Definition g_set_compfail (h : ghost) x := Ghost (g_rx h) (g_tx h) (g_saved h) (g_hs h) (g_owed h) (g_cbfail h) (g_dead h) x (g_delfail h) (g_nextids h).
Definition g_set_delfail (h : ghost) x := Ghost (g_rx h) (g_tx h) (g_saved h) (g_hs h) (g_owed h) (g_cbfail h) (g_dead h) (g_compfail h) x (g_nextids h).
Definition g_set_nextids (h : ghost) x := Ghost (g_rx h) (g_tx h) (g_saved h) (g_hs h) (g_owed h) (g_cbfail h) (g_dead h) (g_compfail h) (g_delfail h) x.

Definition mark_dead s := set_g s (g_set_dead (g s) true).
Definition set_owed s x := set_g s (g_set_owed (g s) x).

(* ---------------------------------------------------------------- futures *)

Definition fut_get (s : st) (c : N) : option cfut := amap_get (t_futs (t s)) c.

Definition fut_new (s : st) (c : N) (id : N) (kd : fkind) : st :=
  set_t s (t_set_futs (t s)
    (amap_put (t_futs (t s)) c (CFut future_new id kd (length (g_rx (g s))) (length (g_tx (g s)))))).

(* Complete / Cancel on the future of call c *)
Definition fut_resolve (stt : fstatus) (s : st) (c : N) (v : value) : st :=
  match fut_get s c with
  | None => s
  | Some f =>
    set_t s (t_set_futs (t s)
      (amap_put (t_futs (t s)) c
         (CFut (fst (resolve1 stt (cf_fut f) v)) (cf_id f) (cf_kind f) (cf_rxmark f) (cf_txmark f))))
  end.
Definition fut_complete := fut_resolve Completed.
Definition fut_cancel := fut_resolve Cancelled.

(* futureStore.Put: a different future still stored under the id is cancelled (e5b29e3) *)
Definition store_put_f (s : st) (id c : N) : st :=
  let s1 := match amap_get (t_store (t s)) id with
            | Some c' => if c' =? c then s else fut_cancel s c' VNil
            | None => s
            end in
  set_t s1 (t_set_store (t s1) (amap_put (t_store (t s1)) id c)).
Definition store_del_f (s : st) (id : N) : st := set_t s (t_set_store (t s) (amap_del (t_store (t s)) id)).
Definition store_get_f (s : st) (id : N) : option N := amap_get (t_store (t s)) id.

(* futureStore.Clear() *)
Definition store_clear_f (s : st) : st :=
  if t_protected (t s) then s
  else
    let s1 := fold_left (fun acc ic => fut_cancel acc (snd ic) VNil) (t_store (t s)) s in
    set_t s1 (t_set_store (t s1) []).

(* ---------------------------------------------------------------- small helpers *)

Definition finish_call (s : st) (c : N) (r : aret) : st :=
  set_k s (k_set_returning (k_set_api (k s) None) ((c, r) :: k_returning (k s))).

Definition req_qos0 (r : req) : bool :=
  match r with RPub m => m_qos m =? 0 | _ => false end.

Definition req_packet (r : req) (id : N) : packet :=
  match r with
  | RPub m => Publish false m id
  | RSub subs => Subscribe id subs
  | RUns ts => Unsubscribe id ts
  end.

Definition req_kind (r : req) : fkind :=
  match r with RPub m => KPub (m_qos m) | RSub _ => KSub | RUns _ => KUns end.

Definition set_dup (p : packet) : packet :=
  match p with Publish _ m id => Publish true m id | _ => p end.

(* the resend loop sets Dup on the packet object the MemorySession holds *)
Definition store_setdup (stor : store) (p : packet) : store :=
  match p with
  | Publish _ m id =>
    match store_lookup stor id with
    | Some (Publish _ m' id') => store_put stor id (Publish true m' id')
    | _ => stor
    end
  | _ => stor
  end.

Definition has_failure (codes : list N) : bool := existsb (fun c => c =? 128) codes.

Definition hs_open (h : list (N * N)) (id : N) : list (N * N) :=
  match amap_get h id with Some _ => h | None => amap_put h id 0 end.
Definition hs_incr (h : list (N * N)) (id : N) : list (N * N) :=
  match amap_get h id with Some n => amap_put h id (n + 1) | None => amap_put h id 1 end.

Definition sess_reset (s : st) : st :=
  set_g (set_sess s (Sess reset_ids [] [])) (g_set_hs (g s) []).

Definition log_tx (s : st) (p : packet) (a : bool) (r : res) : st :=
  let s1 := set_g s (g_set_tx (g s) ((p, a, r) :: g_tx (g s))) in
  match r with Ok => s1 | Fail => mark_dead s1 end.

Definition drop_owed (s : st) (p : packet) : st :=
  set_owed s (filter (fun q => negb (packet_eqb p q)) (g_owed (g s))).

(* ---------------------------------------------------------------- cleanup() *)

(* the stage that follows cu *)
Definition cu_after (cu : cupc) (close_conn clean : bool) : option cupc :=
  match cu with
  | CU1 => Some CU2
  | CU2 => if close_conn then Some CU3 else if clean then Some CU4 else Some CU5
  | CU3 => if clean then Some CU4 else Some CU5
  | CU4 => Some CU5
  | CU5 => None
  end.

(* effect of the hidden stages *)
Definition cu_hidden (cu : cupc) (s : st) : option st :=
  match cu with
  | CU1 =>
    Some (if cst_n (k_cs (k s)) <? 2
          then match t_connfut (t s) with Some c => fut_cancel s c VNil | None => s end
          else s)
  | CU2 => Some (set_cs s StDisconnected)
  | CU5 => Some (store_clear_f s)
  | _ => None
  end.

(* ---------------------------------------------------------------- die() *)

Definition die_done (s : st) (a : dafter) : st :=
  let s1 := set_dpc s DDone in
  match a with
  | DAProc after => set_ppc s1 after
  | DAPing => set_kpc s1 KExited
  end.

(* die(err, closeConn) called by the processor; `after` is where the processor goes once die returned *)
Definition die_proc (s : st) (close_conn : bool) (after : ppc) : st :=
  match k_dpc (k s) with
  | DNone => set_ppc (set_dpc s (DCu CU1 close_conn (DAProc after))) PInDie
  | _ => set_ppc s after
  end.

Definition die_ping (s : st) (close_conn : bool) : st :=
  match k_dpc (k s) with
  | DNone => set_kpc (set_dpc s (DCu CU1 close_conn DAPing)) KInDie
  | _ => set_kpc s KExited
  end.

(* after the cleanup of the die body: Callback(nil, err) if there is a callback *)
Definition die_after_cu (s : st) (a : dafter) : st :=
  if cf_callback (k_cfg (k s)) then set_dpc s (DCb a) else die_done s a.

(* advance a cleanup that is at stage cu (already executed) *)
Definition die_cu_next (s : st) (cu : cupc) (cc : bool) (a : dafter) : st :=
  match cu_after cu cc (cf_clean (k_cfg (k s))) with
  | Some cu' => set_dpc s (DCu cu' cc a)
  | None => die_after_cu s a
  end.

Definition api_cu_next (s : st) (c : N) (cu : cupc) (cc err pc endw : bool) : st :=
  match cu_after cu cc (cf_clean (k_cfg (k s))) with
  | Some cu' => set_api s (Some (c, ACu cu' cc err pc endw))
  | None => if endw then set_api s (Some (c, AEndWait err))
            else finish_call s c (if err then RetErr else RetNil)
  end.

(* ---------------------------------------------------------------- the processor *)

(* what follows the callback (or its omission) for an incoming PUBLISH *)
Definition after_pub_cb (s : st) (p : packet) : st :=
  match p with
  | Publish _ m id =>
    if m_qos m =? 1 then set_ppc s (PPubAck id)
    else if m_qos m =? 2 then set_ppc s (PPubSave p)
    else set_ppc s (PRecv false)
  | _ => set_ppc s (PRecv false)
  end.

Definition proc_rx (s : st) (first : bool) (p : packet) : st :=
  let s := set_g s (g_set_rx (g s) (p :: g_rx (g s))) in
  if first then
    match p with
    | Connack sp rc => set_ppc s (PConnack sp rc)
    | _ => die_proc s true PExited
    end
  else
    match p with
    | Suback _ _ | Unsuback _ | Puback _ | Pubcomp _ => set_ppc s (PAckDel p)
    | Publish _ m id =>
      let s := set_owed s (if m_qos m =? 1 then [Puback id] else if m_qos m =? 2 then [Pubrec id] else []) in
      if ((m_qos m <=? 1) || cf_early (k_cfg (k s))) && cf_callback (k_cfg (k s))
      then set_ppc s (PPubCb p)
      else after_pub_cb s p
    | Pubrec id => set_ppc s (PRecSave id)
    | Pubrel id => set_ppc (set_owed s [Pubcomp id]) (PRelLookup id)
    | _ => set_ppc s (PRecv false)
    end.

Definition proc_hidden (s : st) : option st :=
  match k_ppc (k s) with
  | PErrChk =>
    if 4 <=? cst_n (k_cs (k s)) then Some (set_ppc s PExited)
    else Some (die_proc s false PExited)
  | PConnack sp rc =>
    if negb (cst_n (k_cs (k s)) =? 1) then Some (set_ppc s (PRecv false))
    else if negb (rc =? 0) then Some (die_proc (set_cs s StConnacked) true (PConnackCancel sp rc))
    else Some (set_ppc (set_cs s StConnacked) (PAll sp))
  | PConnDone sp d =>
    (* only after the last re-send: Connacked -> Connected (compare-and-swap), and the connect future completes *)
    let s1 := match d with
              | None => if cst_n (k_cs (k s)) =? 2 then set_cs s StConnected else s
              | Some _ => s
              end in
    let s2 := match t_connfut (t s1) with Some c => fut_complete s1 c (VConnack sp 0) | None => s1 end in
    match d with
    | None => Some (set_ppc s2 (PRecv false))
    | Some close => Some (die_proc s2 close (PRecv false))
    end
  | PConnackCancel sp rc =>
    let s1 := match t_connfut (t s) with Some c => fut_cancel s c (VConnack sp rc) | None => s end in
    Some (set_ppc s1 (PRecv false))     (* the loop ignores processConnack's error and goes on to Receive *)
  | PAckFut p =>
    match get_id p with
    | None => None
    | Some id =>
      match store_get_f s id with
      | None => Some (set_ppc s (PRecv false))
      | Some c =>
        match p with
        | Suback _ codes =>
          let s1 := store_del_f s id in
          if cf_validate (k_cfg (k s)) && has_failure codes
          then Some (die_proc (fut_cancel s1 c VNil) true PExited)  (* die(ErrFailedSubscription, true) (7ac1a73) *)
          else Some (set_ppc (fut_complete s1 c (VSuback codes)) (PRecv false))
        | _ => Some (set_ppc (store_del_f (fut_complete s c VNil) id) (PRecv false))
        end
      end
    end
  | _ => None
  end.

(* ---------------------------------------------------------------- API calls *)

Definition acquire (s : st) (c : N) : option st :=
  match k_api (k s), amap_get (k_pending (k s)) c with
  | None, Some cl =>
    let s := set_k s (k_set_pending (k s) (amap_del (k_pending (k s)) c)) in
    match cl with
    | CConnect cfg =>
      if 1 <=? cst_n (k_cs (k s)) then Some (finish_call s c RetAlreadyConnecting)
      else match k_ppc (k s) with
           | PNone => Some (set_api (set_k s (k_set_cfg (k s) cfg)) (Some (c, AConnDial)))
           | _ => None            (* state initialized: no processor has been started on this Client *)
           end
    | CReq r =>
      if negb (is_connected (k_cs (k s))) then Some (finish_call s c RetNotConnected)
      else if req_qos0 r then Some (set_api s (Some (c, AReqPut r 0)))
      else Some (set_api s (Some (c, AReqNext r)))
    | CDisconnect _ =>
      if negb (is_connected (k_cs (k s))) then Some (finish_call s c RetNotConnected)
      else Some (set_api s (Some (c, ADiscSet)))
    | CClose =>
      if cst_n (k_cs (k s)) <? 1 then Some (finish_call s c RetNotConnected)
      else Some (set_api s (Some (c, ACu CU1 true false false true)))
    end
  | _, _ => None
  end.

Definition procs_gone (s : st) : bool :=
  match k_ppc (k s), k_dpc (k s), k_kpc (k s) with
  | PExited, DNone, _ | PExited, DDone, _ => match k_kpc (k s) with KInDie => false | _ => true end
  | _, _, _ => false
  end.

Definition api_hidden (s : st) : option st :=
  match k_api (k s) with
  | Some (c, AReqPut r id) =>
    let s1 := store_put_f (fut_new s c id (req_kind r)) id c in
    if negb (is_connected (k_cs (k s1)))
    then Some (finish_call (fut_cancel (store_del_f s1 id) c VNil) c RetNotConnected)
    else if req_qos0 r then Some (set_api s1 (Some (c, AReqSend r id)))
    else match r with
         | RPub _ => Some (set_api s1 (Some (c, AReqSave r id)))
         | _ => Some (set_api s1 (Some (c, AReqSend r id)))
         end
  | Some (c, AReqFin) =>
    Some (finish_call (store_del_f (fut_complete s c VNil) 0) c RetFut)
  | Some (c, ADiscSet) => Some (set_api (set_cs s StDisconnecting) (Some (c, ADiscSend)))
  | Some (c, ACu cu cc err pc endw) =>
    match cu_hidden cu s with
    | Some s1 => Some (api_cu_next s1 c cu cc err pc endw)
    | None => None
    end
  | Some (c, AEndWait err) =>
    if negb (k_started (k s)) || procs_gone s
    then Some (finish_call s c (if err then RetErr else RetNil))
    else None
  | _ => None
  end.

Definition die_hidden (s : st) : option st :=
  match k_dpc (k s) with
  | DCu cu cc a =>
    match cu_hidden cu s with
    | Some s1 => Some (die_cu_next s1 cu cc a)
    | None => None
    end
  | _ => None
  end.

(* ---------------------------------------------------------------- Tx *)

Definition connect_matches (cfg : config) (c : connect) : bool :=
  Bool.eqb (c_clean c) (cf_clean cfg) && Bool.eqb (negb (c_keep_alive c =? 0)) (cf_keepalive cfg).

Definition step_tx (s : st) (p : packet) (async : bool) (r : res) : option st :=
  let s' := log_tx s p async r in
  match p with
  | Connect c =>
    match k_api (k s), k_ppc (k s) with
    | Some (cn, AConnSend), PNone =>
      if negb async && connect_matches (k_cfg (k s)) c then
        match r with
        | Fail => Some (set_api s' (Some (cn, ACu CU1 false true false false)))
        | Ok =>
          let kk := k_set_started (k_set_ppc (k_set_kpc (k s')
                      (if cf_keepalive (k_cfg (k s)) then KRun else KNone)) (PRecv true)) true in
          Some (finish_call (set_k s' kk) cn RetFut)
        end
      else None
    | _, _ => None
    end
  | Disconnect =>
    match k_api (k s) with
    | Some (cn, ADiscSend) =>
      if negb async then Some (set_api s' (Some (cn, ACu CU1 true (negb (res_ok r)) true true))) else None
    | _ => None
    end
  | Publish false _ _ | Subscribe _ _ | Unsubscribe _ _ =>
    match k_api (k s) with
    | Some (cn, AReqSend rq id) =>
      if async && packet_eqb p (req_packet rq id) then
        match r with
        | Fail => Some (set_api s' (Some (cn, ACu CU1 false true false false)))
        | Ok => if req_qos0 rq then Some (set_api s' (Some (cn, AReqFin)))
                else Some (finish_call s' cn RetFut)
        end
      else None
    | _ => None
    end
  | Pingreq =>
    match k_kpc (k s) with
    | KRun => if async then match r with Ok => Some s' | Fail => Some (die_ping s' false) end else None
    | _ => None
    end
  | _ =>
    (* everything else is written by the processor *)
    if negb async then None else
    let s' := drop_owed s' p in
    let cont (next : ppc) :=
      match r with
      | Ok => Some (set_ppc s' next)
      | Fail => Some (die_proc s' false PExited)
      end in
    match k_ppc (k s), p with
    | PResend sp (q :: rest), _ =>
      if packet_eqb p (set_dup q) then
        let s' := set_sess s' (sess_with (sess s') Outgoing (store_setdup (s_out (sess s')) q)) in
        match r with
        | Ok => Some (set_ppc s' (match rest with [] => PConnDone sp None | _ => PResend sp rest end))
        | Fail => Some (set_ppc s' (PConnDone sp (Some false)))
        end
      else None
    | PPubAck id, Puback id' => if id =? id' then cont (PRecv false) else None
    | PPubRec id, Pubrec id' => if id =? id' then cont (PRecv false) else None
    | PRecSend id, Pubrel id' => if id =? id' then cont (PRecv false) else None
    | PRelComp pid id, Pubcomp id' =>
      if pid =? id' then
        match r with
        | Ok => Some (set_ppc s' (PRelDel id))
        | Fail => Some (die_proc (set_g s' (g_set_compfail (g s') true)) false PExited)
        end
      else None
    | _, _ => None
    end
  end.

(* ---------------------------------------------------------------- step *)

Definition opt_packet_eqb (a b : option packet) : bool := option_eqb packet_eqb a b.

Definition ctl_idle (c : ctl) : bool :=
  match k_api c, k_pending c with
  | None, [] =>
    match k_ppc c with
    | PNone | PExited =>
      match k_dpc c with
      | DNone | DDone => match k_kpc c with KInDie => false | _ => true end
      | _ => false
      end
    | _ => false
    end
  | _, _ => false
  end.

Definition step (s : st) (e : event) : option st :=
  match e with
  | ENew prot =>
    if ctl_idle (k s) then
      Some (St (sess s)
               (Ctl StInit cfg0 None [] (k_returning (k s)) PNone DNone KNone false)
               (FTab prot [] (t_futs (t s)) None)
               (Ghost (g_rx (g s)) (g_tx (g s)) (g_saved (g s)) (g_hs (g s)) [] false false
                      (g_compfail (g s)) (g_delfail (g s)) (g_nextids (g s))))
    else None
  | EApiCall c cl =>
    match amap_get (k_pending (k s)) c, fut_get s c with
    | None, None =>
      match k_api (k s) with
      | Some (c', _) => if c =? c' then None
                        else Some (set_k s (k_set_pending (k s) (amap_put (k_pending (k s)) c cl)))
      | None => Some (set_k s (k_set_pending (k s) (amap_put (k_pending (k s)) c cl)))
      end
    | _, _ => None
    end
  | EApiRet c r =>
    match amap_get (k_returning (k s)) c with
    | Some r' => if aret_eqb r r'
                 then Some (set_k s (k_set_returning (k s) (amap_del (k_returning (k s)) c)))
                 else None
    | None => None
    end
  | EDial r =>
    match k_api (k s) with
    | Some (c, AConnDial) =>
      match r with
      | Fail => Some (finish_call s c RetErr)
      | Ok =>
        let s1 := set_cs s StConnecting in
        if cf_clean (k_cfg (k s)) then Some (set_api s1 (Some (c, AConnReset)))
        else Some (set_api (set_t (fut_new s1 c 0 KConnect) (t_set_connfut (t (fut_new s1 c 0 KConnect)) (Some c)))
                           (Some (c, AConnSend)))
      end
    | _ => None
    end
  | ERx p =>
    match k_ppc (k s) with
    | PRecv first => Some (proc_rx s first p)
    | _ => None
    end
  | ERxErr =>
    match k_ppc (k s) with
    | PRecv _ => Some (set_ppc (mark_dead s) PErrChk)
    | _ => None
    end
  | ETx p async r => step_tx s p async r
  | EConnClose w r =>
    match w with
    | WApi =>
      match k_api (k s) with
      | Some (c, ACu CU3 cc err pc endw) =>
        let err' := err || (negb (res_ok r) && negb pc) in
        Some (api_cu_next (mark_dead s) c CU3 cc err' pc endw)
      | _ => None
      end
    | WInt =>
      match k_dpc (k s) with
      | DCu CU3 cc a => Some (die_cu_next (mark_dead s) CU3 cc a)
      | _ => None
      end
    end
  | ENextId id =>
    match k_api (k s) with
    | Some (c, AReqNext r) =>
      let '(id', ctr) := next_id (s_counter (sess s)) in
      if id =? id' then
        let s1 := set_sess s (Sess ctr (s_in (sess s)) (s_out (sess s))) in
        let s2 := set_g s1 (g_set_nextids (g s1) (g_nextids (g s1) + 1)) in
        Some (set_api s2 (Some (c, AReqPut r id)))
      else None
    | _ => None
    end
  | ESave d p r =>
    match d with
    | Outgoing =>
      match p with
      | Pubrel id =>
        match k_ppc (k s) with
        | PRecSave id' =>
          if id =? id' then
            match r with
            | Fail => Some (die_proc s true PExited)
            | Ok =>
              let s1 := set_sess s (sess_with (sess s) Outgoing (store_save (s_out (sess s)) p)) in
              let s2 := set_g s1 (g_set_saved (g s1) ((Outgoing, p) :: g_saved (g s1))) in
              Some (set_ppc s2 (PRecSend id))
            end
          else None
        | _ => None
        end
      | _ =>
        match k_api (k s) with
        | Some (c, AReqSave rq id) =>
          if packet_eqb p (req_packet rq id) then
            match r with
            | Fail => Some (set_api s (Some (c, ACu CU1 true true false false)))
            | Ok =>
              let s1 := set_sess s (sess_with (sess s) Outgoing (store_save (s_out (sess s)) p)) in
              let s2 := set_g s1 (g_set_saved (g s1) ((Outgoing, p) :: g_saved (g s1))) in
              Some (set_api s2 (Some (c, AReqSend rq id)))
            end
          else None
        | _ => None
        end
      end
    | Incoming =>
      match k_ppc (k s) with
      | PPubSave q =>
        if packet_eqb p q then
          match r, get_id q with
          | Fail, _ => Some (die_proc s true PExited)
          | Ok, Some id =>
            let s1 := set_sess s (sess_with (sess s) Incoming (store_save (s_in (sess s)) p)) in
            let s2 := set_g s1 (g_set_hs (g_set_saved (g s1) ((Incoming, p) :: g_saved (g s1)))
                                         (hs_open (g_hs (g s1)) id)) in
            Some (set_ppc s2 (PPubRec id))
          | Ok, None => None
          end
        else None
      | _ => None
      end
    end
  | ELookup d id r =>
    match d, k_ppc (k s) with
    | Incoming, PRelLookup id' =>
      if id =? id' then
        match r with
        | None => Some (die_proc s true PExited)
        | Some x =>
          if opt_packet_eqb x (store_lookup (s_in (sess s)) id) then
            match x with
            | Some (Publish _ m pid) =>
              if cf_callback (k_cfg (k s)) && negb (cf_early (k_cfg (k s)))
              then Some (set_ppc s (PRelCb m pid id))
              else Some (set_ppc s (PRelComp pid id))
            | _ => Some (set_ppc s (PRecv false))        (* `return nil`: the PUBREL is ignored *)
            end
          else None
        end
      else None
    | _, _ => None
    end
  | EDelete d id r =>
    match d, k_ppc (k s) with
    | Outgoing, PAckDel p =>
      if option_eqb N.eqb (get_id p) (Some id) then
        match r with
        | Fail => Some (die_proc s true PExited)          (* die(err, true) (7e8a35e) *)
        | Ok => Some (set_ppc (set_sess s (sess_with (sess s) Outgoing (store_delete (s_out (sess s)) id))) (PAckFut p))
        end
      else None
    | Incoming, PRelDel id' =>
      if id =? id' then
        match r with
        | Fail => Some (die_proc (set_g s (g_set_delfail (g s) true)) true PExited)
        | Ok =>
          let s1 := set_sess s (sess_with (sess s) Incoming (store_delete (s_in (sess s)) id)) in
          Some (set_ppc (set_g s1 (g_set_hs (g s1) (amap_del (g_hs (g s1)) id))) (PRecv false))
        end
      else None
    | _, _ => None
    end
  | EAll d r =>
    match d, k_ppc (k s) with
    | Outgoing, PAll sp =>
      match r with
      | None => Some (set_ppc s (PConnDone sp (Some true)))
      | Some l =>
        if list_eqb packet_eqb l (store_all (s_out (sess s)))
        then Some (set_ppc s (match l with [] => PConnDone sp None | _ => PResend sp l end))
        else None
      end
    | _, _ => None
    end
  | EReset w r =>
    let s1 := match r with Ok => sess_reset s | Fail => s end in
    match w with
    | WApi =>
      match k_api (k s) with
      | Some (c, AConnReset) =>
        match r with
        | Fail => Some (set_api s1 (Some (c, ACu CU1 true true false false)))
        | Ok =>
          let s2 := fut_new s1 c 0 KConnect in
          Some (set_api (set_t s2 (t_set_connfut (t s2) (Some c))) (Some (c, AConnSend)))
        end
      | Some (c, ACu CU4 cc err pc endw) =>
        Some (api_cu_next s1 c CU4 cc (err || negb (res_ok r)) pc endw)
      | _ => None
      end
    | WInt =>
      match k_dpc (k s) with
      | DCu CU4 cc a => Some (die_cu_next s1 CU4 cc a)
      | _ => None
      end
    end
  | ECb m r =>
    match k_ppc (k s) with
    | PPubCb (Publish d m' id) =>
      if message_eqb m m' then
        match r with
        | Fail => Some (die_proc (set_g s (g_set_cbfail (g s) true)) true PExited)
        | Ok => Some (after_pub_cb s (Publish d m' id))
        end
      else None
    | PRelCb m' pid id =>
      if message_eqb m m' then
        match r with
        | Fail => Some (die_proc (set_g s (g_set_cbfail (g s) true)) true PExited)
        | Ok => Some (set_ppc (set_g s (g_set_hs (g s) (hs_incr (g_hs (g s)) id))) (PRelComp pid id))
        end
      else None
    | _ => None
    end
  | ECbErr =>
    match k_dpc (k s) with
    | DCb a => Some (die_done s a)
    | _ => None
    end
  | EFut c completed sp rc codes =>
    match fut_get s c with
    | Some f =>
      let fu := cf_fut f in
      let v := f_result fu in
      if fstatus_eqb (f_status fu) (if completed then Completed else Cancelled) then
        (* the watcher reads the accessors the future's Go type has *)
        let want_sp := match cf_kind f with KConnect => session_present v | _ => AVal false end in
        let want_rc := match cf_kind f with KConnect => return_code v | _ => AVal 0 end in
        let want_codes := match cf_kind f with KSub => return_codes v | _ => AVal [] end in
        match want_sp, want_rc, want_codes with
        | AVal sp', AVal rc', AVal codes' =>
          if Bool.eqb sp sp' && (rc =? rc') && list_eqb N.eqb codes codes' then Some s else None
        | _, _, _ => None
        end
      else None
    | None => None
    end
  | EHid h =>
    match h with
    | HAcq c => acquire s c
    | HApi => api_hidden s
    | HProc => proc_hidden s
    | HDie => die_hidden s
    | HPingMissing =>
      match k_kpc (k s) with
      | KRun => Some (die_ping s true)
      | _ => None
      end
    end
  end.

Definition run_trace := @Lts.run st event step.
Definition accepted (es : list event) : Prop := exists s, Lts.run step init es = Some s.

(* ---------------------------------------------------------------- checkers used on observed traces *)

(* the processor is back in Receive while an acknowledgement is still owed *)
Definition owed_unanswered (s : st) : option packet :=
  match k_ppc (k s), g_owed (g s) with
  | PRecv _, p :: _ => Some p
  | _, _ => None
  end.

(* an open inbound handshake with more than one accepted delivery *)
Definition delivered_twice (s : st) : option N :=
  match filter (fun x => 1 <? snd x) (g_hs (g s)) with
  | (id, _) :: _ => Some id
  | [] => None
  end.

(* quiescent: nothing internal is left to happen *)
Definition quiescent (s : st) : bool :=
  match k_api (k s), k_pending (k s), k_returning (k s) with
  | None, [], [] =>
    match k_ppc (k s) with
    | PNone | PExited | PRecv _ =>
      match k_dpc (k s) with DNone | DDone => true | _ => false end
    | _ => false
    end
  | _, _, _ => false
  end.

Definition pending_futures (s : st) : list N :=
  map fst (filter (fun cf => negb (f_done (cf_fut (snd cf)))) (t_futs (t s))).

(* futures of the current store that are still pending though the client has ended *)
Definition ended (s : st) : bool := cst_n (k_cs (k s)) =? 5.

(* ---------------------------------------------------------------- property predicates (boolean) *)

(* C09 store-before-send: every PUBLISH with QoS >= 1 that was handed to conn.Send (first
   transmission or retransmission, successful or not) had been saved in the session's
   outgoing store before *)
Definition saved_out (h : ghost) (m : message) (id : N) : bool :=
  existsb (fun dp => match dp with
                     | (Outgoing, q) => packet_eqb q (Publish false m id)
                     | _ => false
                     end) (g_saved h).

Definition tx_entry_ok (h : ghost) (e : packet * bool * res) : bool :=
  match e with
  | (Publish _ m id, _, _) => (m_qos m =? 0) || saved_out h m id
  | _ => true
  end.

Definition store_before_send_ok (s : st) : bool := forallb (tx_entry_ok (g s)) (g_tx (g s)).

(* C09 truthful futures: the packets received / sent since the future was put into the store *)
Definition rx_since (s : st) (f : cfut) : list packet :=
  firstn (length (g_rx (g s)) - cf_rxmark f) (g_rx (g s)).
Definition tx_since (s : st) (f : cfut) : list (packet * bool * res) :=
  firstn (length (g_tx (g s)) - cf_txmark f) (g_tx (g s)).

Definition is_ack_for (id : N) (p : packet) : bool :=
  match p with
  | Puback i | Pubcomp i | Suback i _ | Unsuback i => i =? id
  | _ => false
  end.

Definition fut_truthful (s : st) (f : cfut) : bool :=
  match f_status (cf_fut f) with
  | Completed =>
    match cf_kind f with
    | KConnect => existsb (fun p => match p with Connack _ rc => rc =? 0 | _ => false end) (rx_since s f)
    | KPub q =>
      if q =? 0
      then existsb (fun e => match e with
                             | (Publish false m _, _, Ok) => m_qos m =? 0
                             | _ => false
                             end) (tx_since s f)
      else existsb (is_ack_for (cf_id f)) (rx_since s f)
    | KSub | KUns => existsb (is_ack_for (cf_id f)) (rx_since s f)
    end
  | _ => true
  end.

Definition truthful_ok (s : st) : bool := forallb (fun cf => fut_truthful s (snd cf)) (t_futs (t s)).
