(* ClientHist.v — C09_future_truthful, history form: a completed future has, in the logs of received
   and sent packets, the acknowledgement (resp. the successful QoS 0 write) that justifies it, after the
   point at which it was stored. *)
From Coq Require Import List NArith Bool Lia PeanoNat.
From GM Require Import Base.Lts Codec.Packet Session.Ids Session.Store
  Client.Future Client.Client Client.ClientSpec
  Client.ClientTactics Client.AMap Client.PacketEq Client.ClientInvCtl Client.ClientInvOwed Client.ClientInvWf
  Client.ClientInvHs Client.ClientInvSbs Client.ClientC10 Client.ClientInvRx Client.ClientKept Client.ClientTotal.
Import ListNotations.
Open Scope N_scope.

(* ---- the statement *)

Definition ack_clause (rx : list packet) (f : cfut) : Prop :=
  exists p, In p (firstn (S (length rx - cf_rxmark f)) rx) /\ is_ack_for (cf_id f) p = true.
Definition connack_clause (rx : list packet) (f : cfut) : Prop :=
  exists sp, In (Connack sp 0) (firstn (S (length rx - cf_rxmark f)) rx).
Definition qos0_clause (tx : list (packet * bool * res)) (f : cfut) : Prop :=
  exists m id, In (Publish false m id, true, Ok) (firstn (length tx - cf_txmark f) tx) /\ m_qos m = 0.

Definition justified (rx : list packet) (tx : list (packet * bool * res)) (f : cfut) : Prop :=
  match cf_kind f with
  | KConnect => connack_clause rx f
  | KPub 0 => qos0_clause tx f \/ ack_clause rx f
  | _ => ack_clause rx f
  end.

(* for every accepted trace and every future that is Completed in its final state: among the packets
   received since the future was stored (plus the one that was being processed at that moment) there is
   an acknowledgement carrying the future's packet id — for a connect future a CONNACK with code 0 —;
   for a QoS 0 publish: a successful Send of a QoS 0 PUBLISH since it was stored (the alternative, an
   acknowledgement carrying its id 0, is something the decoder never delivers) *)
Definition C09_future_truthful_history_statement : Prop :=
  forall es s, run step init es = Some s ->
  forall c f, fut_get s c = Some f -> f_status (cf_fut f) = Completed ->
  justified (g_rx (g s)) (g_tx (g s)) f.

(* ---- monotonicity in the logs *)

Lemma firstn_window_cons {A} (x : A) l m y : (m <= length l)%nat ->
  In y (firstn (S (length l - m)) l) -> In y (firstn (S (length (x :: l) - m)) (x :: l)).
Proof.
  intros Hm H. cbn [length]. replace (S (length l) - m)%nat with (S (length l - m)) by lia.
  cbn [firstn]. right. exact H.
Qed.

Lemma firstn_since_cons {A} (x : A) l m y : (m <= length l)%nat ->
  In y (firstn (length l - m) l) -> In y (firstn (length (x :: l) - m) (x :: l)).
Proof.
  intros Hm H. cbn [length]. replace (S (length l) - m)%nat with (S (length l - m)) by lia.
  cbn [firstn]. right. exact H.
Qed.

Definition marks_ok (rx : list packet) (tx : list (packet * bool * res)) (f : cfut) : Prop :=
  (cf_rxmark f <= length rx)%nat /\ (cf_txmark f <= length tx)%nat.

Definition good (rx : list packet) (tx : list (packet * bool * res)) (f : cfut) : Prop :=
  marks_ok rx tx f /\ (f_status (cf_fut f) = Completed -> justified rx tx f).

Lemma justified_rx x rx tx f : marks_ok rx tx f -> justified rx tx f -> justified (x :: rx) tx f.
Proof.
  intros [Hr _]. unfold justified, connack_clause, ack_clause.
  destruct (cf_kind f) as [|[|q]| |].
  - intros (sp & H). exists sp. apply firstn_window_cons; assumption.
  - intros [H|(p & H & Ha)]; [left; exact H|right]. exists p. split; [apply firstn_window_cons; assumption|exact Ha].
  - intros (p & H & Ha). exists p. split; [apply firstn_window_cons; assumption|exact Ha].
  - intros (p & H & Ha). exists p. split; [apply firstn_window_cons; assumption|exact Ha].
  - intros (p & H & Ha). exists p. split; [apply firstn_window_cons; assumption|exact Ha].
Qed.

Lemma justified_tx x rx tx f : marks_ok rx tx f -> justified rx tx f -> justified rx (x :: tx) f.
Proof.
  intros [_ Ht]. unfold justified, qos0_clause.
  destruct (cf_kind f) as [|[|q]| |]; auto.
  intros [(m & id & H & Hq)|H]; [left|right; exact H].
  exists m, id. split; [apply firstn_since_cons; assumption|exact Hq].
Qed.

Lemma good_rx x rx tx f : good rx tx f -> good (x :: rx) tx f.
Proof.
  intros [Hm Hj]. split; [destruct Hm; split; cbn [length]; lia|].
  intros Hc. apply justified_rx; auto.
Qed.
Lemma good_tx x rx tx f : good rx tx f -> good rx (x :: tx) f.
Proof.
  intros [Hm Hj]. split; [destruct Hm; split; cbn [length]; lia|].
  intros Hc. apply justified_tx; auto.
Qed.

(* ---- how one table slot may evolve in a step that completes nothing *)

Definition meta (f : cfut) := (cf_id f, cf_kind f, cf_rxmark f, cf_txmark f).

Definition ev (nr nt : nat) (cr : bool) (o o' : option cfut) : Prop :=
  match o, o' with
  | Some f, Some f' => meta f' = meta f /\ (f_status (cf_fut f') = Completed -> f_status (cf_fut f) = Completed)
  | None, None => True
  | None, Some f' => cr = true /\ f_status (cf_fut f') <> Completed /\ cf_rxmark f' = nr /\ cf_txmark f' = nt
  | Some _, None => False
  end.

Definition is_cr (cr : option N) (c : N) : bool := match cr with Some c0 => c =? c0 | None => false end.

Definition evtab (nr nt : nat) (cr : option N) (s s' : st) : Prop :=
  forall c, ev nr nt (is_cr cr c) (fut_get s c) (fut_get s' c).

Lemma ev_refl nr nt o : ev nr nt false o o.
Proof. destruct o; cbn; auto. Qed.

Lemma evtab_refl nr nt s : evtab nr nt None s s.
Proof. intros c. apply ev_refl. Qed.

Lemma evtab_same nr nt s s' : t_futs (t s') = t_futs (t s) -> evtab nr nt None s s'.
Proof. intros E c. unfold fut_get. rewrite E. apply ev_refl. Qed.

Lemma ev_trans nr nt b1 b2 o o1 o2 : ev nr nt b1 o o1 -> ev nr nt b2 o1 o2 -> ev nr nt (b1 || b2) o o2.
Proof.
  destruct o as [f|], o1 as [f1|], o2 as [f2|]; cbn; try tauto.
  - intros [M1 C1] [M2 C2]. split; [congruence|auto].
  - intros (-> & Hn & Hr & Ht) [M2 C2]. unfold meta in M2. injection M2 as ? ? ? ?.
    repeat split; try congruence. intros X. apply Hn, C2, X.
  - intros _ (-> & H). rewrite orb_true_r. split; [reflexivity|exact H].
Qed.

Lemma evtab_trans_l nr nt cr s x s' : evtab nr nt cr s x -> evtab nr nt None x s' -> evtab nr nt cr s s'.
Proof. intros H1 H2 c. pose proof (ev_trans _ _ _ _ _ _ _ (H1 c) (H2 c)) as H. cbn [is_cr] in H. rewrite orb_false_r in H. exact H. Qed.

Lemma evtab_trans_r nr nt cr s x s' : evtab nr nt None s x -> evtab nr nt cr x s' -> evtab nr nt cr s s'.
Proof. intros H1 H2 c. exact (ev_trans _ _ _ _ _ _ _ (H1 c) (H2 c)). Qed.

Lemma evtab_wrap nr nt cr s x s' : t_futs (t s') = t_futs (t x) -> evtab nr nt cr s x -> evtab nr nt cr s s'.
Proof. intros E H. eapply evtab_trans_l; [exact H|apply evtab_same; exact E]. Qed.

(* Cancel (and Complete on an already resolved future) never makes a future Completed *)
Lemma evtab_cancel nr nt x c v : evtab nr nt None x (fut_cancel x c v).
Proof.
  intros c'. unfold fut_cancel, fut_resolve, fut_get. cbn [is_cr].
  destruct (amap_get (t_futs (t x)) c) as [f0|] eqn:E; [|apply ev_refl].
  cbn [t t_futs set_t t_set_futs]. rewrite aget_put. destruct (N.eqb_spec c' c) as [->|]; [|apply ev_refl].
  rewrite E. cbn [ev meta cf_id cf_kind cf_rxmark cf_txmark cf_fut]. split; [reflexivity|].
  unfold resolve1. destruct (f_done (cf_fut f0)); cbn [fst f_status]; [auto|discriminate].
Qed.

Lemma evtab_fold_cancel nr nt l x :
  evtab nr nt None x (fold_left (fun acc (ic : N * N) => fut_cancel acc (snd ic) VNil) l x).
Proof.
  revert x; induction l as [|a l IH]; intros x; cbn [fold_left]; [apply evtab_refl|].
  eapply evtab_trans_l; [apply evtab_cancel|apply IH].
Qed.

Lemma evtab_clear nr nt x : evtab nr nt None x (store_clear_f x).
Proof.
  unfold store_clear_f. destruct (t_protected (t x)); [apply evtab_refl|].
  eapply evtab_wrap; [|apply evtab_fold_cancel]. reflexivity.
Qed.

Lemma evtab_put nr nt x id c : evtab nr nt None x (store_put_f x id c).
Proof.
  unfold store_put_f. destruct (amap_get (t_store (t x)) id) as [c0|]; [destruct (c0 =? c)|].
  - apply evtab_same. reflexivity.
  - eapply evtab_wrap; [|apply evtab_cancel]. reflexivity.
  - apply evtab_same. reflexivity.
Qed.

Lemma evtab_new x c id kd : fut_get x c = None ->
  evtab (length (g_rx (g x))) (length (g_tx (g x))) (Some c) x (fut_new x c id kd).
Proof.
  intros Hn c'. unfold fut_new, fut_get in *. cbn [t t_futs set_t t_set_futs is_cr]. rewrite aget_put.
  destruct (N.eqb_spec c' c) as [->|]; [|apply ev_refl].
  rewrite Hn. cbn [ev cf_fut cf_rxmark cf_txmark future_new f_status]. repeat split. discriminate.
Qed.

(* consequences of an evolution *)
Lemma evtab_none nr nt cr s s' c : evtab nr nt cr s s' -> is_cr cr c = false -> fut_get s c = None -> fut_get s' c = None.
Proof. intros H Hc Hn. specialize (H c). rewrite Hc, Hn in H. destruct (fut_get s' c); [destruct H; discriminate|reflexivity]. Qed.

Lemma evtab_fwd nr nt cr s s' c f : evtab nr nt cr s s' -> fut_get s c = Some f ->
  exists f', fut_get s' c = Some f' /\ meta f' = meta f.
Proof. intros H Hf. specialize (H c). rewrite Hf in H. destruct (fut_get s' c) as [f'|]; [|contradiction]. exists f'. split; [reflexivity|apply H]. Qed.

Lemma evtab_good nr nt cr s s' rx tx : evtab nr nt cr s s' -> nr = length rx -> nt = length tx ->
  (forall c f, fut_get s c = Some f -> good rx tx f) ->
  forall c f', fut_get s' c = Some f' -> good rx tx f'.
Proof.
  intros H -> -> Hg c f' Hf'. specialize (H c). rewrite Hf' in H.
  destruct (fut_get s c) as [f|] eqn:Ef.
  - destruct H as [M C]. destruct (Hg _ _ Ef) as [[Hr Ht] Hj]. unfold meta in M. injection M as Mi Mk Mr Mt.
    split; [split; congruence|]. intros Hc. specialize (Hj (C Hc)).
    unfold justified, connack_clause, ack_clause, qos0_clause in *. rewrite Mi, Mk, Mr, Mt. exact Hj.
  - destruct H as (_ & Hn & Hr & Ht). split; [split; lia|]. intros Hc. contradiction.
Qed.

(* Complete keeps the meta data and may turn exactly one future Completed *)
Lemma fut_get_complete x c v c' :
  fut_get (fut_complete x c v) c' =
  if c' =? c then option_map (fun f => CFut (fst (resolve1 Completed (cf_fut f) v)) (cf_id f) (cf_kind f) (cf_rxmark f) (cf_txmark f)) (fut_get x c)
  else fut_get x c'.
Proof.
  unfold fut_complete, fut_resolve, fut_get. destruct (amap_get (t_futs (t x)) c) as [f0|] eqn:E.
  - cbn [t t_futs set_t t_set_futs]. rewrite aget_put. destruct (c' =? c); reflexivity.
  - destruct (N.eqb_spec c' c) as [->|]; [rewrite E|]; reflexivity.
Qed.

(* ---- the invariant *)

Definition api_fut (s : st) (c : N) (pc : apc) : Prop :=
  match pc with
  | AConnDial | AConnReset | AReqNext _ | AReqPut _ _ => fut_get s c = None
  | AReqSave r _ | AReqSend r _ => exists f, fut_get s c = Some f /\ cf_kind f = req_kind r
  | AReqFin => exists f, fut_get s c = Some f /\ cf_kind f = KPub 0 /\ qos0_clause (g_tx (g s)) f
  | _ => True
  end.

Definition InvHist (s : st) : Prop :=
  NoDup (akeys (k_pending (k s))) /\
  (forall c cl, amap_get (k_pending (k s)) c = Some cl -> fut_get s c = None) /\
  match k_api (k s) with
  | Some (c, pc) => amap_get (k_pending (k s)) c = None /\ api_fut s c pc
  | None => True
  end /\
  (forall j c, amap_get (t_store (t s)) j = Some c ->
     exists f, fut_get s c = Some f /\ cf_id f = j /\ cf_kind f <> KConnect) /\
  (forall c f, fut_get s c = Some f -> good (g_rx (g s)) (g_tx (g s)) f) /\
  match t_connfut (t s) with
  | Some c => exists f, fut_get s c = Some f /\ cf_kind f = KConnect
  | None => True
  end.

Lemma InvHist_init : InvHist init.
Proof.
  split; [constructor|]. split; [intros c cl H; discriminate H|]. split; [exact I|].
  split; [intros j c H; discriminate H|]. split; [intros c f H; discriminate H|exact I].
Qed.

(* evolution of the futures table along the helpers, read off the term *)
Ltac evt :=
  first
  [ apply evtab_same; reflexivity
  | match goal with
    | |- evtab _ _ None ?s (fut_cancel ?x _ _) => apply (evtab_trans_l _ _ _ s x); [evt|apply evtab_cancel]
    | |- evtab _ _ None ?s (store_clear_f ?x) => apply (evtab_trans_l _ _ _ s x); [evt|apply evtab_clear]
    | |- evtab _ _ None ?s (store_put_f ?x _ _) => apply (evtab_trans_l _ _ _ s x); [evt|apply evtab_put]
    | |- evtab _ _ None ?s (?f ?x _ _ _) => apply (evtab_wrap _ _ _ s x); [reflexivity|evt]
    | |- evtab _ _ None ?s (?f ?x _ _) => apply (evtab_wrap _ _ _ s x); [reflexivity|evt]
    | |- evtab _ _ None ?s (?f ?x _) => apply (evtab_wrap _ _ _ s x); [reflexivity|evt]
    | |- evtab _ _ None ?s (?f ?x) => apply (evtab_wrap _ _ _ s x); [reflexivity|evt]
    end ].

Definition log_ext {A} (l l' : list A) : Prop := l' = l \/ exists x, l' = x :: l.

Lemma good_ext rx tx rx' tx' f : log_ext rx rx' -> log_ext tx tx' -> good rx tx f -> good rx' tx' f.
Proof.
  intros [->|(x & ->)] [->|(y & ->)] H; auto using good_rx, good_tx.
Qed.

(* the store/connfut/futures part of the invariant survives every step that completes nothing,
   creates nothing and adds nothing to the future store *)
Lemma hist_BCD s s' :
  evtab (length (g_rx (g s))) (length (g_tx (g s))) None s s' ->
  log_ext (g_rx (g s)) (g_rx (g s')) -> log_ext (g_tx (g s)) (g_tx (g s')) ->
  (forall j c, amap_get (t_store (t s')) j = Some c -> amap_get (t_store (t s)) j = Some c) ->
  (t_connfut (t s') = t_connfut (t s) \/ t_connfut (t s') = None) ->
  (forall j c, amap_get (t_store (t s)) j = Some c -> exists f, fut_get s c = Some f /\ cf_id f = j /\ cf_kind f <> KConnect) ->
  (forall c f, fut_get s c = Some f -> good (g_rx (g s)) (g_tx (g s)) f) ->
  match t_connfut (t s) with Some c => exists f, fut_get s c = Some f /\ cf_kind f = KConnect | None => True end ->
  (forall j c, amap_get (t_store (t s')) j = Some c -> exists f, fut_get s' c = Some f /\ cf_id f = j /\ cf_kind f <> KConnect) /\
  (forall c f, fut_get s' c = Some f -> good (g_rx (g s')) (g_tx (g s')) f) /\
  match t_connfut (t s') with Some c => exists f, fut_get s' c = Some f /\ cf_kind f = KConnect | None => True end.
Proof.
  intros EV Hrx Htx Hst Hcf B C D. split; [|split].
  - intros j c Hj. destruct (B _ _ (Hst _ _ Hj)) as (f & Hf & Hi & Hk).
    destruct (evtab_fwd _ _ _ _ _ _ _ EV Hf) as (f' & Hf' & M). unfold meta in M. injection M as Mi Mk _ _.
    exists f'. split; [exact Hf'|]. split; congruence.
  - intros c f' Hf'. eapply good_ext; [exact Hrx|exact Htx|].
    eapply (evtab_good _ _ _ _ _ _ _ EV eq_refl eq_refl C); exact Hf'.
  - destruct Hcf as [->| ->]; [|exact I]. destruct (t_connfut (t s)) as [c|]; [|exact I].
    destruct D as (f & Hf & Hk). destruct (evtab_fwd _ _ _ _ _ _ _ EV Hf) as (f' & Hf' & M).
    unfold meta in M. injection M as _ Mk _ _. exists f'. split; [exact Hf'|congruence].
Qed.

Lemma qos0_clause_ext tx tx' f : (cf_txmark f <= length tx)%nat -> log_ext tx tx' -> qos0_clause tx f -> qos0_clause tx' f.
Proof.
  intros Hm [->|(x & ->)] H; [exact H|]. destruct H as (m & id & H & Hq). exists m, id.
  split; [apply firstn_since_cons; assumption|exact Hq].
Qed.

Lemma api_fut_ev s s' c pc :
  evtab (length (g_rx (g s))) (length (g_tx (g s))) None s s' ->
  log_ext (g_tx (g s)) (g_tx (g s')) ->
  (forall c f, fut_get s c = Some f -> good (g_rx (g s)) (g_tx (g s)) f) ->
  api_fut s c pc -> api_fut s' c pc.
Proof.
  intros EV Htx C H. destruct pc; cbn [api_fut] in *; try exact I.
  all: try (eapply evtab_none; [exact EV|reflexivity|exact H]).
  - destruct H as (f & Hf & Hk). destruct (evtab_fwd _ _ _ _ _ _ _ EV Hf) as (f' & Hf' & M).
    unfold meta in M. injection M as _ Mk _ _. exists f'. split; [exact Hf'|congruence].
  - destruct H as (f & Hf & Hk). destruct (evtab_fwd _ _ _ _ _ _ _ EV Hf) as (f' & Hf' & M).
    unfold meta in M. injection M as _ Mk _ _. exists f'. split; [exact Hf'|congruence].
  - destruct H as (f & Hf & Hk & Hq). destruct (evtab_fwd _ _ _ _ _ _ _ EV Hf) as (f' & Hf' & M).
    unfold meta in M. injection M as _ Mk _ Mt. exists f'. split; [exact Hf'|]. split; [congruence|].
    destruct (C _ _ Hf) as [[_ Hm] _].
    assert (X : qos0_clause (g_tx (g s')) f) by (eapply qos0_clause_ext; eassumption).
    unfold qos0_clause in *. rewrite Mt. exact X.
Qed.

(* weaker views of a table evolution: futures stay (with their meta data), absent ones stay absent *)
Definition mtab (s s' : st) : Prop :=
  forall c f, fut_get s c = Some f -> exists f', fut_get s' c = Some f' /\ meta f' = meta f.
Definition ntab (skip : option N) (s s' : st) : Prop :=
  forall c, is_cr skip c = false -> fut_get s c = None -> fut_get s' c = None.

Lemma evtab_mtab nr nt cr s s' : evtab nr nt cr s s' -> mtab s s'.
Proof. intros H c f Hf. eapply evtab_fwd; eassumption. Qed.
Lemma evtab_ntab nr nt cr s s' : evtab nr nt cr s s' -> ntab cr s s'.
Proof. intros H c Hc Hn. eapply evtab_none; eassumption. Qed.

Lemma complete_mtab x c v : mtab x (fut_complete x c v).
Proof.
  intros c' f Hf. rewrite fut_get_complete. destruct (N.eqb_spec c' c) as [->|]; [|exists f; auto].
  rewrite Hf. cbn [option_map]. eexists. split; reflexivity.
Qed.
Lemma complete_ntab x c v : ntab None x (fut_complete x c v).
Proof.
  intros c' _ Hn. rewrite fut_get_complete. destruct (N.eqb_spec c' c) as [->|]; [|exact Hn]. rewrite Hn. reflexivity.
Qed.
Lemma mtab_trans s x s' : mtab s x -> mtab x s' -> mtab s s'.
Proof.
  intros H1 H2 c f Hf. destruct (H1 _ _ Hf) as (f1 & Hf1 & M1). destruct (H2 _ _ Hf1) as (f2 & Hf2 & M2).
  exists f2. split; [exact Hf2|congruence].
Qed.
Lemma ntab_trans_l k s x s' : ntab k s x -> ntab None x s' -> ntab k s s'.
Proof. intros H1 H2 c Hc Hn. apply H2; [reflexivity|]. apply H1; assumption. Qed.
Lemma mtab_same s s' : (forall c, fut_get s' c = fut_get s c) -> mtab s s'.
Proof. intros E c f Hf. exists f. rewrite E. auto. Qed.
Lemma ntab_same k s s' : (forall c, fut_get s' c = fut_get s c) -> ntab k s s'.
Proof. intros E c _ Hn. rewrite E. exact Hn. Qed.

Lemma hist_B s s' : mtab s s' ->
  (forall j c, amap_get (t_store (t s')) j = Some c -> amap_get (t_store (t s)) j = Some c) ->
  (forall j c, amap_get (t_store (t s)) j = Some c -> exists f, fut_get s c = Some f /\ cf_id f = j /\ cf_kind f <> KConnect) ->
  (forall j c, amap_get (t_store (t s')) j = Some c -> exists f, fut_get s' c = Some f /\ cf_id f = j /\ cf_kind f <> KConnect).
Proof.
  intros M Hst B j c Hj. destruct (B _ _ (Hst _ _ Hj)) as (f & Hf & Hi & Hk).
  destruct (M _ _ Hf) as (f' & Hf' & Mm). unfold meta in Mm. injection Mm as Mi Mk _ _.
  exists f'. split; [exact Hf'|]. split; congruence.
Qed.

Lemma hist_D s s' : mtab s s' ->
  (t_connfut (t s') = t_connfut (t s) \/ t_connfut (t s') = None) ->
  match t_connfut (t s) with Some c => exists f, fut_get s c = Some f /\ cf_kind f = KConnect | None => True end ->
  match t_connfut (t s') with Some c => exists f, fut_get s' c = Some f /\ cf_kind f = KConnect | None => True end.
Proof.
  intros M [->| ->] D; [|exact I]. destruct (t_connfut (t s)) as [c|]; [|exact I].
  destruct D as (f & Hf & Hk). destruct (M _ _ Hf) as (f' & Hf' & Mm).
  unfold meta in Mm. injection Mm as _ Mk _ _. exists f'. split; [exact Hf'|congruence].
Qed.

Lemma hist_C nr nt cr s s' : evtab nr nt cr s s' -> nr = length (g_rx (g s)) -> nt = length (g_tx (g s)) ->
  log_ext (g_rx (g s)) (g_rx (g s')) -> log_ext (g_tx (g s)) (g_tx (g s')) ->
  (forall c f, fut_get s c = Some f -> good (g_rx (g s)) (g_tx (g s)) f) ->
  (forall c f, fut_get s' c = Some f -> good (g_rx (g s')) (g_tx (g s')) f).
Proof.
  intros EV -> -> Hrx Htx C c f' Hf'. eapply good_ext; [exact Hrx|exact Htx|].
  eapply (evtab_good _ _ _ _ _ _ _ EV eq_refl eq_refl C); exact Hf'.
Qed.

(* a completion: every other slot as before, the completed one justified *)
Lemma hist_C_complete s x c v s' :
  evtab (length (g_rx (g s))) (length (g_tx (g s))) None s x ->
  (forall c', fut_get s' c' = fut_get (fut_complete x c v) c') ->
  g_rx (g s') = g_rx (g s) -> g_tx (g s') = g_tx (g s) ->
  (forall c f, fut_get s c = Some f -> good (g_rx (g s)) (g_tx (g s)) f) ->
  (forall f, fut_get s c = Some f -> justified (g_rx (g s)) (g_tx (g s)) f) ->
  (forall c f, fut_get s' c = Some f -> good (g_rx (g s')) (g_tx (g s')) f).
Proof.
  intros EV E Hrx Htx C J c' f' Hf'. rewrite Hrx, Htx. rewrite E, fut_get_complete in Hf'.
  destruct (N.eqb_spec c' c) as [->|].
  - destruct (fut_get x c) as [fx|] eqn:Ex; [|discriminate Hf']. cbn [option_map] in Hf'. injection Hf' as <-.
    pose proof (EV c) as Hev. rewrite Ex in Hev. destruct (fut_get s c) as [f|] eqn:Ef; [|destruct Hev as [X _]; discriminate X].
    destruct Hev as [M _]. unfold meta in M. injection M as Mi Mk Mr Mt.
    destruct (C _ _ Ef) as [[Hr Ht] _]. split; [split; cbn [cf_rxmark cf_txmark]; congruence|].
    intros _. specialize (J _ eq_refl).
    unfold justified, connack_clause, ack_clause, qos0_clause in *. cbn [cf_kind cf_id cf_rxmark cf_txmark].
    rewrite Mi, Mk, Mr, Mt. exact J.
  - eapply (evtab_good _ _ _ _ _ _ _ EV eq_refl eq_refl C); exact Hf'.
Qed.

Lemma fut_get_new x c id kd : fut_get (fut_new x c id kd) c = Some (CFut future_new id kd (length (g_rx (g x))) (length (g_tx (g x)))).
Proof. unfold fut_new, fut_get. cbn [t t_futs set_t t_set_futs]. rewrite aget_put, N.eqb_refl. reflexivity. Qed.

(* storing a freshly created future: it is still there, with its id and kind *)
Lemma fut_get_new_put x c id kd :
  exists f, fut_get (store_put_f (fut_new x c id kd) id c) c = Some f /\ cf_id f = id /\ cf_kind f = kd.
Proof.
  unfold store_put_f.
  destruct (amap_get (t_store (t (fut_new x c id kd))) id) as [c0|]; [destruct (N.eqb_spec c0 c) as [->|Hne]|].
  - eexists. split; [apply fut_get_new|split; reflexivity].
  - assert (G : fut_get (fut_cancel (fut_new x c id kd) c0 VNil) c = fut_get (fut_new x c id kd) c).
    { unfold fut_cancel, fut_resolve. destruct (fut_get (fut_new x c id kd) c0); [|reflexivity].
      unfold fut_get at 1. cbn [t t_futs set_t t_set_futs]. rewrite aget_put.
      destruct (N.eqb_spec c c0) as [->|]; [contradiction|reflexivity]. }
    exists (CFut future_new id kd (length (g_rx (g x))) (length (g_tx (g x)))). split; [|split; reflexivity].
    unfold fut_get at 1. cbn [t t_futs set_t t_set_store]. fold (fut_get (fut_cancel (fut_new x c id kd) c0 VNil) c).
    rewrite G. apply fut_get_new.
  - eexists. split; [apply fut_get_new|split; reflexivity].
Qed.

Lemma fin_clause rx tx r id f : good rx tx f -> req_qos0 r = true -> cf_kind f = req_kind r ->
  cf_kind f = KPub 0 /\ qos0_clause ((req_packet r id, true, Ok) :: tx) f.
Proof.
  intros [[_ Ht] _] Hq Hk. destruct r as [m| |]; cbn [req_qos0] in Hq; try discriminate Hq.
  apply N.eqb_eq in Hq. cbn [req_kind req_packet] in *. rewrite Hq in Hk. split; [exact Hk|].
  exists m, id. split; [|exact Hq]. cbn [length]. replace (S (length tx) - cf_txmark f)%nat with (S (length tx - cf_txmark f)) by lia.
  cbn [firstn]. left. reflexivity.
Qed.

(* ---- the steps that create or complete a future *)

Definition frame (s tm : st) : Prop :=
  k_pending (k tm) = k_pending (k s) /\ g_rx (g tm) = g_rx (g s) /\ g_tx (g tm) = g_tx (g s).

Lemma same_table_evtab nr nt cr s x tm :
  (forall c, fut_get tm c = fut_get x c) -> evtab nr nt cr s x -> evtab nr nt cr s tm.
Proof. intros E H c. rewrite E. apply H. Qed.

(* Connect creates its future *)
Lemma hist_create_connect s tm n :
  InvHist s -> k_api (k s) = Some (n, AConnDial) \/ k_api (k s) = Some (n, AConnReset) ->
  (forall c, fut_get tm c = fut_get (fut_new s n 0 KConnect) c) ->
  frame s tm -> k_api (k tm) = Some (n, AConnSend) ->
  t_store (t tm) = t_store (t s) -> t_connfut (t tm) = Some n ->
  InvHist tm.
Proof.
  intros (A1 & A2 & A3 & B & C & D) Hapi Etab (Fp & Frx & Ftx) Hapi' Hst Hcf.
  assert (Hnone : fut_get s n = None /\ amap_get (k_pending (k s)) n = None).
  { destruct Hapi as [E|E]; rewrite E in A3; destruct A3 as [P F]; split; assumption. }
  destruct Hnone as [Hn Hp].
  assert (EV : evtab (length (g_rx (g s))) (length (g_tx (g s))) (Some n) s tm).
  { eapply same_table_evtab; [exact Etab|]. apply evtab_new. exact Hn. }
  unfold InvHist. rewrite Fp, Hapi', Frx, Ftx.
  split; [exact A1|]. split.
  { intros c cl Hc. eapply evtab_none; [exact EV| |eapply A2; exact Hc].
    cbn [is_cr]. destruct (N.eqb_spec c n) as [->|]; [rewrite Hp in Hc; discriminate Hc|reflexivity]. }
  split; [split; [exact Hp|exact I]|]. split.
  { apply (hist_B s tm (evtab_mtab _ _ _ _ _ EV)); [intros j c Hj; rewrite Hst in Hj; exact Hj|exact B]. }
  split.
  { intros c f Hf. pose proof (evtab_good _ _ _ _ _ _ _ EV eq_refl eq_refl C c f Hf) as G. exact G. }
  rewrite Hcf, Etab, fut_get_new. eexists. split; reflexivity.
Qed.

(* a request creates and stores its future; the client is still connected *)
Lemma hist_create_req s tm n r id pc' :
  InvHist s -> k_api (k s) = Some (n, AReqPut r id) ->
  (forall c, fut_get tm c = fut_get (store_put_f (fut_new s n id (req_kind r)) id n) c) ->
  frame s tm -> k_api (k tm) = Some (n, pc') -> (pc' = AReqSave r id \/ pc' = AReqSend r id) ->
  t_store (t tm) = amap_put (t_store (t s)) id n -> t_connfut (t tm) = t_connfut (t s) ->
  InvHist tm.
Proof.
  intros (A1 & A2 & A3 & B & C & D) Hapi Etab (Fp & Frx & Ftx) Hapi' Hpc Hst Hcf.
  rewrite Hapi in A3. destruct A3 as [Hp Hn]. cbn [api_fut] in Hn.
  assert (EV : evtab (length (g_rx (g s))) (length (g_tx (g s))) (Some n) s tm).
  { eapply same_table_evtab; [exact Etab|].
    eapply evtab_trans_l; [apply evtab_new; exact Hn|].
    assert (X := evtab_put (length (g_rx (g s))) (length (g_tx (g s))) (fut_new s n id (req_kind r)) id n). exact X. }
  destruct (fut_get_new_put s n id (req_kind r)) as (fn & Hfn & Hfi & Hfk). rewrite <- Etab in Hfn.
  unfold InvHist. rewrite Fp, Hapi', Hst, Frx, Ftx.
  split; [exact A1|]. split.
  { intros c cl Hc. eapply evtab_none; [exact EV| |eapply A2; exact Hc].
    cbn [is_cr]. destruct (N.eqb_spec c n) as [->|]; [rewrite Hp in Hc; discriminate Hc|reflexivity]. }
  split.
  { split; [exact Hp|]. destruct Hpc as [-> | ->]; cbn [api_fut]; exists fn; split; assumption. }
  split.
  { intros j c Hj. rewrite aget_put in Hj. destruct (N.eqb_spec j id) as [->|].
    - injection Hj as <-. exists fn. split; [exact Hfn|]. split; [exact Hfi|]. rewrite Hfk. destruct r; discriminate.
    - destruct (B _ _ Hj) as (f & Hf & Hi & Hk). destruct (evtab_fwd _ _ _ _ _ _ _ EV Hf) as (f' & Hf' & M).
      unfold meta in M. injection M as Mi Mk _ _. exists f'. split; [exact Hf'|]. split; congruence. }
  split.
  { intros c f Hf. exact (evtab_good _ _ _ _ _ _ _ EV eq_refl eq_refl C c f Hf). }
  apply (hist_D s tm (evtab_mtab _ _ _ _ _ EV)); [left; exact Hcf|exact D].
Qed.

(* ... or the client has died meanwhile: the future is cancelled and taken out again *)
Lemma hist_create_req_fail s tm n r id :
  InvHist s -> NoDup (akeys (t_store (t s))) -> k_api (k s) = Some (n, AReqPut r id) ->
  (forall c, fut_get tm c = fut_get (fut_cancel (store_del_f (store_put_f (fut_new s n id (req_kind r)) id n) id) n VNil) c) ->
  frame s tm -> k_api (k tm) = None ->
  t_store (t tm) = amap_del (amap_put (t_store (t s)) id n) id -> t_connfut (t tm) = t_connfut (t s) ->
  InvHist tm.
Proof.
  intros (A1 & A2 & A3 & B & C & D) W4 Hapi Etab (Fp & Frx & Ftx) Hapi' Hst Hcf.
  rewrite Hapi in A3. destruct A3 as [Hp Hn]. cbn [api_fut] in Hn.
  assert (EV : evtab (length (g_rx (g s))) (length (g_tx (g s))) (Some n) s tm).
  { eapply same_table_evtab; [exact Etab|].
    eapply evtab_trans_l; [|apply evtab_cancel].
    eapply evtab_wrap; [reflexivity|].
    eapply evtab_trans_l; [apply evtab_new; exact Hn|].
    exact (evtab_put _ _ (fut_new s n id (req_kind r)) id n). }
  unfold InvHist. rewrite Fp, Hapi', Hst, Frx, Ftx.
  split; [exact A1|]. split.
  { intros c cl Hc. eapply evtab_none; [exact EV| |eapply A2; exact Hc].
    cbn [is_cr]. destruct (N.eqb_spec c n) as [->|]; [rewrite Hp in Hc; discriminate Hc|reflexivity]. }
  split; [exact I|]. split.
  { intros j c Hj. rewrite aget_del in Hj by (apply anodup_put; exact W4).
    destruct (N.eqb_spec j id) as [->|Hne]; [discriminate Hj|]. rewrite aget_put in Hj.
    destruct (N.eqb_spec j id) as [->|_]; [contradiction|].
    destruct (B _ _ Hj) as (f & Hf & Hi & Hk). destruct (evtab_fwd _ _ _ _ _ _ _ EV Hf) as (f' & Hf' & M).
    unfold meta in M. injection M as Mi Mk _ _. exists f'. split; [exact Hf'|]. split; congruence. }
  split.
  { intros c f Hf. exact (evtab_good _ _ _ _ _ _ _ EV eq_refl eq_refl C c f Hf). }
  apply (hist_D s tm (evtab_mtab _ _ _ _ _ EV)); [left; exact Hcf|exact D].
Qed.

(* a completion *)
Lemma hist_complete s x tm c v :
  InvHist s ->
  evtab (length (g_rx (g s))) (length (g_tx (g s))) None s x ->
  (forall c', fut_get tm c' = fut_get (fut_complete x c v) c') ->
  frame s tm ->
  (forall j c0, amap_get (t_store (t tm)) j = Some c0 -> amap_get (t_store (t s)) j = Some c0) ->
  t_connfut (t tm) = t_connfut (t s) ->
  (forall f, fut_get s c = Some f -> justified (g_rx (g s)) (g_tx (g s)) f) ->
  (* the call that holds the mutex, afterwards *)
  match k_api (k tm) with
  | Some (c0, pc) => k_api (k s) = Some (c0, pc)
  | None => True
  end ->
  InvHist tm.
Proof.
  intros (A1 & A2 & A3 & B & C & D) EV Etab (Fp & Frx & Ftx) Hst Hcf J Hapi.
  assert (M : mtab s tm).
  { eapply mtab_trans; [exact (evtab_mtab _ _ _ _ _ EV)|].
    intros c' f Hf. rewrite Etab. apply complete_mtab. exact Hf. }
  assert (Nt : ntab None s tm).
  { intros c' _ Hn. rewrite Etab. apply complete_ntab; [reflexivity|]. eapply evtab_none; [exact EV|reflexivity|exact Hn]. }
  assert (C' : forall c0 f, fut_get tm c0 = Some f -> good (g_rx (g tm)) (g_tx (g tm)) f).
  { eapply hist_C_complete; eassumption. }
  unfold InvHist. rewrite Fp.
  split; [exact A1|]. split.
  { intros c0 cl Hc. apply Nt; [reflexivity|]. eapply A2; exact Hc. }
  split.
  { destruct (k_api (k tm)) as [[c0 pc]|]; [|exact I]. rename Hapi into Hs. rewrite Hs in A3.
    destruct A3 as [P F]. split; [exact P|].
    destruct pc; cbn [api_fut] in *; try exact I; try (apply Nt; [reflexivity|exact F]).
    - destruct F as (f & Hf & Hk). destruct (M _ _ Hf) as (f' & Hf' & Mm). unfold meta in Mm. injection Mm as _ Mk _ _.
      exists f'. split; [exact Hf'|congruence].
    - destruct F as (f & Hf & Hk). destruct (M _ _ Hf) as (f' & Hf' & Mm). unfold meta in Mm. injection Mm as _ Mk _ _.
      exists f'. split; [exact Hf'|congruence].
    - destruct F as (f & Hf & Hk & Hq). destruct (M _ _ Hf) as (f' & Hf' & Mm). unfold meta in Mm. injection Mm as _ Mk _ Mt.
      exists f'. split; [exact Hf'|]. split; [congruence|]. rewrite Ftx. unfold qos0_clause in *. rewrite Mt. exact Hq. }
  split; [exact (hist_B s tm M Hst B)|]. split; [exact C'|].
  apply (hist_D s tm M); [left; exact Hcf|exact D].
Qed.

Lemma head_in_window {A} (x : A) rest m : In x (firstn (S (length (x :: rest) - m)) (x :: rest)).
Proof. cbn [firstn]. left. reflexivity. Qed.

Lemma ack_justified rx tx f p rest : rx = p :: rest -> is_ack_for (cf_id f) p = true -> cf_kind f <> KConnect ->
  justified rx tx f.
Proof.
  intros -> Ha Hk. assert (X : ack_clause (p :: rest) f) by (exists p; split; [apply head_in_window|exact Ha]).
  unfold justified. destruct (cf_kind f) as [|[|q]| |]; [contradiction|right; exact X|exact X|exact X|exact X].
Qed.

Lemma connack_justified rx tx f sp rest : rx = Connack sp 0 :: rest -> cf_kind f = KConnect -> justified rx tx f.
Proof. intros -> Hk. unfold justified. rewrite Hk. exists sp. apply head_in_window. Qed.

Lemma sub_del {A} (m : list (N * A)) k : NoDup (akeys m) ->
  forall j c, amap_get (amap_del m k) j = Some c -> amap_get m j = Some c.
Proof. intros Hnd j c H. rewrite aget_del in H by exact Hnd. destruct (j =? k); [discriminate H|exact H]. Qed.

Lemma InvHist_step s e s' : InvWf s -> InvRx s -> InvHist s -> step s e = Some s' -> InvHist s'.
Proof.
  intros (_ & _ & _ & W4 & W5) R INV H. pose proof INV as (A1 & A2 & A3 & B & C & D).
  destruct e.
  all: step_cases H.
  all: try (destruct cu; cbn [cu_hidden] in *; try discriminate;
            match goal with E : Some _ = Some _ |- _ => injection E as E; subst end).
  all: unfold_ctl; dgoal.
  all: try (match goal with |- InvHist ?t =>
         assert (EV : evtab (length (g_rx (g s))) (length (g_tx (g s))) None s t) by evt end).
  (* generic leaves: store, connect future and table-wide clauses *)
  all: try (match goal with EV : evtab _ _ _ _ _ |- InvHist ?tm =>
         assert (BCD := hist_BCD s tm EV);
         let X := fresh "X" in
         assert (X : log_ext (g_rx (g s)) (g_rx (g tm))) by (simp_proj; first [left; reflexivity|right; eexists; reflexivity]);
         specialize (BCD X); clear X;
         assert (X : log_ext (g_tx (g s)) (g_tx (g tm))) by (simp_proj; first [left; reflexivity|right; eexists; reflexivity]);
         specialize (BCD X); clear X;
         assert (X : forall j c, amap_get (t_store (t tm)) j = Some c -> amap_get (t_store (t s)) j = Some c)
           by (simp_proj; first [ intros ? ? X0; exact X0
                                | apply sub_del; exact W4
                                | intros ? ? X0; discriminate X0
                                | destruct (t_protected (t s)); [intros ? ? X0; exact X0|intros ? ? X0; discriminate X0] ]);
         specialize (BCD X); clear X;
         assert (X : t_connfut (t tm) = t_connfut (t s) \/ t_connfut (t tm) = None)
           by (simp_proj; first [left; reflexivity|right; reflexivity]);
         specialize (BCD X); clear X;
         repeat match goal with E : t_connfut (t _) = _ |- _ => rewrite E in BCD end;
         specialize (BCD B C D) end).
  all: try (match goal with BCD : _ /\ _ /\ _ |- InvHist ?tm =>
         let B' := fresh "B'" in let C' := fresh "C'" in let D' := fresh "D'" in
         destruct BCD as (B' & C' & D');
         unfold InvHist; split; [|split; [|split; [|split; [exact B'|split; [exact C'|exact D']]]]] end).
  (* pending calls keep distinct numbers *)
  all: try solve [simp_proj; first [exact A1 | apply anodup_put; exact A1 | apply anodup_del; exact A1 | constructor]].
  (* pending calls have no future yet *)
  all: try solve [match goal with EV : evtab _ _ _ _ _ |- forall c cl, amap_get _ c = Some cl -> fut_get _ c = None =>
         simp_proj; let c0 := fresh "c" in let cl0 := fresh "cl" in let Hp := fresh "Hp" in
         intros c0 cl0 Hp;
         first [ discriminate Hp
               | eapply evtab_none; [exact EV|reflexivity|eapply A2; exact Hp]
               | rewrite aget_put in Hp;
                 match type of Hp with (if ?a =? ?b then _ else _) = _ =>
                   destruct (N.eqb_spec a b) as [->|];
                   [ eapply evtab_none; [exact EV|reflexivity|assumption]
                   | eapply evtab_none; [exact EV|reflexivity|eapply A2; exact Hp] ] end
               | rewrite aget_del in Hp by exact A1;
                 match type of Hp with (if ?a =? ?b then _ else _) = _ =>
                   destruct (a =? b); [discriminate Hp|eapply evtab_none; [exact EV|reflexivity|eapply A2; exact Hp]] end ] end].
  (* the call that holds the mutex *)
  all: try solve [match goal with EV : evtab _ _ _ _ ?tm |- match k_api _ with _ => _ end =>
         let TX := fresh "TX" in
         assert (TX : log_ext (g_tx (g s)) (g_tx (g tm))) by (simp_proj; first [left; reflexivity|right; eexists; reflexivity]);
         simp_proj;
         first
         [ exact I
         | match goal with E : k_api (k _) = None |- _ => rewrite E; exact I end
         | match goal with E : k_api (k _) = Some (?n, ?pc) |- _ =>
             try rewrite E in A3; try rewrite E; cbv iota beta in A3; cbv iota beta;
             destruct A3 as [P F]; split;
             [ first [ exact P
                     | rewrite aget_put;
                       match goal with |- (if ?a =? ?b then _ else _) = _ =>
                         destruct (N.eqb_spec a b) as [X|X]; [try rewrite X in *; rewrite ?N.eqb_refl in *; discriminate|exact P] end ]
             | first [ exact I | exact (api_fut_ev s tm n pc EV TX C F)
                     | cbn [api_fut] in *; eapply evtab_none; [exact EV|reflexivity|exact F] ] ] end
         | destruct (k_api (k s)) as [[c0 pc0]|] eqn:EA; [|exact I];
           destruct A3 as [P F]; split;
           [ first [ exact P
                   | rewrite aget_put;
                     match goal with |- (if ?a =? ?b then _ else _) = _ =>
                       destruct (N.eqb_spec a b) as [X|X]; [try rewrite X in *; rewrite ?N.eqb_refl in *; discriminate|exact P] end ]
           | exact (api_fut_ev s tm c0 pc0 EV TX C F) ] ] end].
  (* a watcher's report changes nothing *)
  all: try solve [unfold InvHist; repeat (split; [assumption|]); assumption].
  (* a call takes the mutex *)
  all: try solve [match goal with EV : evtab _ _ _ _ ?tm, E0 : amap_get (k_pending (k _)) ?c = Some _ |- match k_api _ with _ => _ end =>
         simp_proj; split;
         [ rewrite aget_del by exact A1; rewrite N.eqb_refl; reflexivity
         | first [exact I | cbn [api_fut]; eapply evtab_none; [exact EV|reflexivity|eapply A2; exact E0]] ] end].
  (* the QoS 0 PUBLISH was written *)
  all: try solve [match goal with
         EV : evtab _ _ _ _ ?tm, E : k_api (k _) = Some (?n, AReqSend ?r ?id), Eq : req_qos0 ?r = true,
         Ep : _ && packet_eqb _ _ = true |- match k_api _ with _ => _ end =>
         apply andb_true_iff in Ep; destruct Ep as [Ea Ep]; apply packet_eqb_eq in Ep;
         first
         [ destruct r; cbn [req_qos0] in Eq; try discriminate Eq; cbn [req_packet] in Ep; discriminate Ep
         | try rewrite E in A3; cbv iota beta in A3; destruct A3 as [P (f & Hf & Hk)];
           simp_proj; split; [exact P|];
           destruct (evtab_fwd _ _ _ _ _ _ _ EV Hf) as (f' & Hf' & M);
           pose proof (evtab_good _ _ _ _ _ _ _ EV eq_refl eq_refl C _ _ Hf') as G;
           unfold meta in M; injection M as _ Mk _ _;
           destruct (fin_clause _ _ r id f' G Eq (eq_trans Mk Hk)) as [K Q];
           cbn [api_fut]; exists f'; split; [exact Hf'|split; [exact K|]];
           simp_proj; rewrite Ep; subst; exact Q ] end].
  (* Connect creates its future *)
  all: try solve [match goal with E : k_api (k _) = Some (?n, AConnDial) |- InvHist ?tm =>
         apply (hist_create_connect s tm n INV (or_introl E));
         [intros ?; reflexivity|repeat split; reflexivity|reflexivity|reflexivity|reflexivity] end].
  all: try solve [match goal with E : k_api (k _) = Some (?n, AConnReset) |- InvHist ?tm =>
         apply (hist_create_connect s tm n INV (or_intror E));
         [intros ?; reflexivity|repeat split; reflexivity|reflexivity|reflexivity|reflexivity] end].
  (* a request creates and stores its future *)
  all: try solve [match goal with E : k_api (k _) = Some (?n, AReqPut ?r ?id) |- InvHist (set_api _ (Some (_, ?pc))) =>
         apply (hist_create_req s _ n r id pc INV E);
         [ intros ?; reflexivity | repeat split; simp_proj; reflexivity | simp_proj; reflexivity
         | first [left; reflexivity|right; reflexivity] | simp_proj; reflexivity | simp_proj; reflexivity ] end].
  all: try solve [match goal with E : k_api (k _) = Some (?n, AReqPut ?r ?id) |- InvHist (finish_call _ _ _) =>
         apply (hist_create_req_fail s _ n r id INV W4 E);
         [ intros ?; reflexivity | repeat split; simp_proj; reflexivity | simp_proj; reflexivity
         | simp_proj; reflexivity | simp_proj; reflexivity ] end].
  (* the QoS 0 publish completes its own future *)
  all: try solve [match goal with E : k_api (k _) = Some (?n, AReqFin) |- InvHist (finish_call (store_del_f (fut_complete ?x ?c ?v) _) _ _) =>
         apply (hist_complete s x _ c v INV);
         [ evt | intros ?; reflexivity | repeat split; simp_proj; reflexivity
         | simp_proj; apply sub_del; exact W4 | simp_proj; reflexivity
         | try rewrite E in A3; cbv iota beta in A3; destruct A3 as [_ (f0 & Hf0 & Hk & Hq)];
           intros f Hf; rewrite Hf in Hf0; injection Hf0 as <-; unfold justified; rewrite Hk; left; exact Hq
         | simp_proj; exact I ] end].
  (* CONNACK accepted, listing and re-send over (or failed): the connect future completes *)
  all: try solve [match goal with E : k_ppc (k _) = PConnDone ?sp _, Ec : t_connfut (t _) = Some ?n |- InvHist ?tm =>
         match tm with context [fut_complete ?x n ?v] =>
           simp_in Ec; try rewrite Ec in D; destruct D as (f0 & Hf0 & Hk);
           unfold InvRx in R; rewrite E in R; cbn [rx_pc] in R; destruct R as [rest Hrx];
           apply (hist_complete s x tm n v INV);
           [ evt | intros ?; reflexivity | repeat split; simp_proj; reflexivity
           | simp_proj; intros ? ? X0; exact X0 | simp_proj; reflexivity
           | intros f Hf; rewrite Hf in Hf0; injection Hf0 as <-; eapply connack_justified; eassumption
           | simp_proj; destruct (k_api (k s)) as [[? ?]|]; [reflexivity|exact I] ] end end].
  (* an acknowledgement completes the future stored under its id *)
  all: try solve [match goal with E : k_ppc (k _) = PAckFut ?p, E1 : get_id ?p = Some ?id, E2 : store_get_f _ ?id = Some ?c
                       |- InvHist (set_ppc ?inner (PRecv false)) =>
         unfold store_get_f in E2; destruct (B _ _ E2) as (f0 & Hf0 & Hi & Hk);
         unfold InvRx in R; rewrite E in R; cbn [rx_pc] in R; destruct R as [[rest Hrx] Hack];
         match inner with
         | store_del_f (fut_complete ?x _ ?v) _ => apply (hist_complete s x _ c v INV)
         | fut_complete ?x _ ?v => apply (hist_complete s x _ c v INV)
         end;
         [ evt | intros ?; reflexivity | repeat split; simp_proj; reflexivity
         | simp_proj; apply sub_del; exact W4 | simp_proj; reflexivity
         | intros f Hf; rewrite Hf in Hf0; injection Hf0 as <-;
           eapply ack_justified; [exact Hrx| |exact Hk]; rewrite Hi; apply is_ack_for_of; assumption
         | simp_proj; destruct (k_api (k s)) as [[? ?]|]; [reflexivity|exact I] ] end].
Qed.

Definition InvH (s : st) : Prop := InvG s /\ InvHist s.

Lemma InvH_reach es s : run step init es = Some s -> InvH s.
Proof.
  apply reach_inv.
  - split; [|exact InvHist_init]. split; [|exact InvTot_init]. split; [|exact InvCl_init].
    split; [|exact InvRx_init]. split; [|exact InvSbs_init].
    split; [apply InvWf_init|split; [apply InvCtl_init|split; [apply InvOwed_init|apply InvHs_init]]].
  - intros s0 e s1 ((((((HW & HC & HO & HH) & HS) & HR) & HL) & HT) & HI) Hs.
    split; [split; [split; [split; [split|]|]|]|].
    + split; [eapply InvWf_step; eassumption|].
      split; [eapply InvCtl_step; eassumption|].
      split; [eapply InvOwed_step; eassumption|].
      eapply InvHs_step; eassumption.
    + eapply InvSbs_step; eassumption.
    + eapply InvRx_step; eassumption.
    + eapply InvCl_step; eassumption.
    + eapply InvTot_step; eassumption.
    + eapply InvHist_step; eassumption.
Qed.

Theorem future_truthful_history : C09_future_truthful_history_statement.
Proof.
  intros es s Hr c f Hf Hc. destruct (InvH_reach _ _ Hr) as (_ & (_ & _ & _ & _ & C & _)).
  destruct (C _ _ Hf) as [_ J]. exact (J Hc).
Qed.

