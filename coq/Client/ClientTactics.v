(* ClientTactics.v — case analysis of one step of the CL monitor. *)
From Coq Require Import List NArith Bool Lia.
From GM Require Import Base.Lts Codec.Packet Session.Ids Session.Store Client.Future Client.Client.
Import ListNotations.
Open Scope N_scope.

(* projections of the helpers that do not reduce by computation *)
Lemma k_fut_resolve stt s c v : k (fut_resolve stt s c v) = k s.
Proof. unfold fut_resolve. destruct (fut_get s c); reflexivity. Qed.
Lemma g_fut_resolve stt s c v : g (fut_resolve stt s c v) = g s.
Proof. unfold fut_resolve. destruct (fut_get s c); reflexivity. Qed.
Lemma sess_fut_resolve stt s c v : sess (fut_resolve stt s c v) = sess s.
Proof. unfold fut_resolve. destruct (fut_get s c); reflexivity. Qed.

Lemma fold_cancel_k l s : k (fold_left (fun acc (ic : N * N) => fut_cancel acc (snd ic) VNil) l s) = k s.
Proof. revert s; induction l as [|x l IH]; intros s; cbn; [reflexivity|]. rewrite IH. apply k_fut_resolve. Qed.
Lemma fold_cancel_g l s : g (fold_left (fun acc (ic : N * N) => fut_cancel acc (snd ic) VNil) l s) = g s.
Proof. revert s; induction l as [|x l IH]; intros s; cbn; [reflexivity|]. rewrite IH. apply g_fut_resolve. Qed.
Lemma fold_cancel_sess l s : sess (fold_left (fun acc (ic : N * N) => fut_cancel acc (snd ic) VNil) l s) = sess s.
Proof. revert s; induction l as [|x l IH]; intros s; cbn; [reflexivity|]. rewrite IH. apply sess_fut_resolve. Qed.

Lemma k_store_clear_f s : k (store_clear_f s) = k s.
Proof. unfold store_clear_f. destruct (t_protected (t s)); [reflexivity|]. cbn. apply fold_cancel_k. Qed.
Lemma g_store_clear_f s : g (store_clear_f s) = g s.
Proof. unfold store_clear_f. destruct (t_protected (t s)); [reflexivity|]. cbn. apply fold_cancel_g. Qed.
Lemma sess_store_clear_f s : sess (store_clear_f s) = sess s.
Proof. unfold store_clear_f. destruct (t_protected (t s)); [reflexivity|]. cbn. apply fold_cancel_sess. Qed.

Lemma k_store_put_f s id c : k (store_put_f s id c) = k s.
Proof. unfold store_put_f. destruct (amap_get (t_store (t s)) id) as [c'|]; [destruct (c' =? c)|]; cbn; try reflexivity. apply k_fut_resolve. Qed.
Lemma g_store_put_f s id c : g (store_put_f s id c) = g s.
Proof. unfold store_put_f. destruct (amap_get (t_store (t s)) id) as [c'|]; [destruct (c' =? c)|]; cbn; try reflexivity. apply g_fut_resolve. Qed.
Lemma sess_store_put_f s id c : sess (store_put_f s id c) = sess s.
Proof. unfold store_put_f. destruct (amap_get (t_store (t s)) id) as [c'|]; [destruct (c' =? c)|]; cbn; try reflexivity. apply sess_fut_resolve. Qed.

Global Hint Rewrite k_fut_resolve g_fut_resolve sess_fut_resolve k_store_clear_f g_store_clear_f sess_store_clear_f
  k_store_put_f g_store_put_f sess_store_put_f : proj.

Global Arguments fut_resolve : simpl never.
Global Arguments fut_complete : simpl never.
Global Arguments fut_cancel : simpl never.
Global Arguments store_clear_f : simpl never.
Global Arguments store_put_f : simpl never.

Lemma k_fut_complete s c v : k (fut_complete s c v) = k s. Proof. apply k_fut_resolve. Qed.
Lemma g_fut_complete s c v : g (fut_complete s c v) = g s. Proof. apply g_fut_resolve. Qed.
Lemma sess_fut_complete s c v : sess (fut_complete s c v) = sess s. Proof. apply sess_fut_resolve. Qed.
Lemma k_fut_cancel s c v : k (fut_cancel s c v) = k s. Proof. apply k_fut_resolve. Qed.
Lemma g_fut_cancel s c v : g (fut_cancel s c v) = g s. Proof. apply g_fut_resolve. Qed.
Lemma sess_fut_cancel s c v : sess (fut_cancel s c v) = sess s. Proof. apply sess_fut_resolve. Qed.
Global Hint Rewrite k_fut_complete g_fut_complete sess_fut_complete k_fut_cancel g_fut_cancel sess_fut_cancel : proj.

(* the hidden cleanup stages touch only the state word and the futures *)
Lemma cu_hidden_frame cu s s0 : cu_hidden cu s = Some s0 ->
  sess s0 = sess s /\ g s0 = g s /\
  k_cfg (k s0) = k_cfg (k s) /\ k_api (k s0) = k_api (k s) /\ k_pending (k s0) = k_pending (k s) /\
  k_returning (k s0) = k_returning (k s) /\ k_ppc (k s0) = k_ppc (k s) /\ k_dpc (k s0) = k_dpc (k s) /\
  k_kpc (k s0) = k_kpc (k s) /\ k_started (k s0) = k_started (k s).
Proof.
  destruct cu; cbn [cu_hidden]; intros H; try discriminate; injection H as <-.
  - destruct (cst_n (k_cs (k s)) <? 2); [destruct (t_connfut (t s))|]; autorewrite with proj; repeat split; reflexivity.
  - repeat split; reflexivity.
  - autorewrite with proj; repeat split; reflexivity.
Qed.

Ltac use_cu :=
  repeat match goal with
  | E : cu_hidden ?cu ?s = Some ?s0 |- _ =>
    let F := fresh "F" in
    pose proof (cu_hidden_frame _ _ _ E) as F;
    destruct F as (?F & ?F & ?F & ?F & ?F & ?F & ?F & ?F & ?F & ?F);
    destruct cu; try discriminate E; clear E
  end;
  repeat match goal with
  | E : cu_after ?cu _ _ = _ |- _ => first [is_var cu; destruct cu | idtac]; cbn [cu_after] in E
  end.

(* destruct the head match of H until it reads Some _ = Some _ *)
Ltac dhead H :=
  lazymatch type of H with
  | Some _ = Some _ => idtac
  | None = Some _ => discriminate H
  | (match ?x with _ => _ end) = Some _ =>
    let E := fresh "E" in destruct x eqn:E; cbv beta iota zeta in H; dhead H
  | _ => idtac
  end.

Ltac unfold_step H :=
  cbv beta iota zeta delta [step step_tx acquire api_hidden proc_hidden die_hidden] in H.

(* all the ways in which step s e = Some s' can hold; leaves s' as an explicit term *)
Ltac step_cases H :=
  unfold_step H; dhead H;
  try (injection H as H; subst).

Ltac simp_proj :=
  repeat (autorewrite with proj; cbn [k g t sess set_k set_t set_g set_sess set_cs set_api set_ppc set_dpc set_kpc
     k_cs k_cfg k_api k_pending k_returning k_ppc k_dpc k_kpc k_started
     k_set_cs k_set_cfg k_set_api k_set_pending k_set_returning k_set_ppc k_set_dpc k_set_kpc k_set_started
     g_rx g_tx g_saved g_hs g_owed g_cbfail g_dead g_compfail g_delfail g_nextids
     g_set_rx g_set_tx g_set_saved g_set_hs g_set_owed g_set_cbfail g_set_dead g_set_compfail g_set_delfail g_set_nextids
     mark_dead set_owed finish_call log_tx drop_owed sess_reset fut_new
     t_protected t_store t_futs t_connfut t_set_store t_set_futs t_set_connfut store_del_f
     s_counter s_in s_out sess_with]).

Ltac dgoal :=
  repeat match goal with |- context [match ?x with _ => _ end] => destruct x eqn:? end.

(* unfold the control helpers in the goal, splitting on what they branch on *)
Ltac unfold_ctl :=
  unfold proc_rx, after_pub_cb, log_tx; cbv beta zeta; dgoal;
  unfold die_proc, die_ping, die_cu_next, api_cu_next, die_after_cu, die_done, cu_after; cbv beta zeta; dgoal;
  unfold die_done; dgoal.

Ltac use_eqs :=
  repeat match goal with
  | E : k_ppc (k ?s) = _ |- _ => rewrite E in *; clear E
  | E : k_dpc (k ?s) = _ |- _ => rewrite E in *; clear E
  | E : k_api (k ?s) = _ |- _ => rewrite E in *; clear E
  | E : k_kpc (k ?s) = _ |- _ => rewrite E in *; clear E
  end.

(* ---- the common opening of an invariance proof: all leaves of one step, simplified *)
Ltac clean_eqs :=
  repeat match goal with
  | F : sess ?a = sess ?b |- _ => rewrite F in *; clear F
  | F : g ?a = g ?b |- _ => rewrite F in *; clear F
  | F : k_cfg (k ?a) = k_cfg (k ?b) |- _ => rewrite F in *; clear F
  | F : k_api (k ?a) = k_api (k ?b) |- _ => rewrite F in *; clear F
  | F : k_pending (k ?a) = k_pending (k ?b) |- _ => rewrite F in *; clear F
  | F : k_returning (k ?a) = k_returning (k ?b) |- _ => rewrite F in *; clear F
  | F : k_ppc (k ?a) = k_ppc (k ?b) |- _ => rewrite F in *; clear F
  | F : k_dpc (k ?a) = k_dpc (k ?b) |- _ => rewrite F in *; clear F
  | F : k_kpc (k ?a) = k_kpc (k ?b) |- _ => rewrite F in *; clear F
  | F : k_started (k ?a) = k_started (k ?b) |- _ => rewrite F in *; clear F
  end; subst;
  repeat match goal with
  | E : context [k (set_k ?a ?b)] |- _ =>
    progress cbn [k set_k k_cs k_cfg k_api k_pending k_returning k_ppc k_dpc k_kpc k_started
                  k_set_pending k_set_cfg k_set_api k_set_returning] in E
  end;
  use_eqs;
  repeat match goal with
  | E : DCu _ _ _ = DCu _ _ _ |- _ => injection E as ? ? ?; subst
  | E : DCb _ = DCb _ |- _ => injection E as ?; subst
  | E : DAProc _ = DAProc _ |- _ => injection E as ?; subst
  | E : DAProc _ = DAPing |- _ => discriminate E
  | E : DAPing = DAProc _ |- _ => discriminate E
  | E : Some _ = Some _ |- _ => injection E as ?; subst
  | E : (if ?b then _ else _) = None |- _ => destruct b; try discriminate E
  | E : (if ?b then _ else _) = Some _ |- _ => destruct b eqn:?
  end; try discriminate.

Ltac step_leaves H :=
  step_cases H; use_cu; unfold_ctl; simp_proj; dgoal; simp_proj.

(* every accepted trace ends in a state satisfying an inductive invariant *)
Lemma reach_inv (Inv : st -> Prop) :
  Inv init -> (forall s e s', Inv s -> step s e = Some s' -> Inv s') ->
  forall es s, run step init es = Some s -> Inv s.
Proof. intros H0 Hs es s Hr. exact (invariant_all_traces st event step Inv init H0 Hs es s Hr). Qed.
