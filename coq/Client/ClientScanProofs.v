(* ClientScanProofs.v — every accepted trace passes the trace scanners of TraceScan.v. *)
From Coq Require Import List NArith Bool Lia.
From GM Require Import Base.Lts Codec.Packet Session.Ids Session.Store
  Client.Future Client.Client Client.ClientSpec Client.TraceScan
  Client.ClientTactics Client.AMap Client.PacketEq Client.ClientInvCtl Client.ClientInvOwed Client.ClientInvWf
  Client.ClientInvHs Client.ClientInvSbs Client.ClientC10 Client.ClientInvRx Client.ClientKept Client.ClientTotal.
Import ListNotations.
Open Scope N_scope.

(* ---- scan_sbs *)

Lemma saved_step s e s' : step s e = Some s' ->
  forall q, In (Outgoing, q) (g_saved (g s')) -> In (Outgoing, q) (g_saved (g s)) \/ e = ESave Outgoing q Ok.
Proof.
  intros H.
  destruct e.
  all: step_leaves H.
  all: simp_proj; clean_eqs.
  all: try solve [intros q Hq; left; exact Hq].
  all: repeat match goal with E : packet_eqb _ _ = true |- _ => apply packet_eqb_eq in E; subst end.
  all: try solve [intros q [Hq|Hq]; [injection Hq as <-; right; reflexivity|left; exact Hq]].
  all: try solve [intros q [Hq|Hq]; [discriminate Hq|left; exact Hq]].
Qed.

Lemma tx_step s p a r s' : step s (ETx p a r) = Some s' ->
  In (p, a, r) (g_tx (g s')) /\ g_saved (g s') = g_saved (g s).
Proof.
  intros H.
  step_leaves H.
  all: simp_proj; clean_eqs.
  all: try solve [split; [left; reflexivity|reflexivity]].
  Show.
Admitted.

