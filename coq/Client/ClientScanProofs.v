(* ClientScanProofs.v — every accepted trace passes the trace scanners of TraceScan.v. *)
From Coq Require Import List NArith Bool Lia.
From GM Require Import Base.Lts Codec.Packet Session.Ids Session.Store
  Client.Future Client.Client Client.ClientSpec Client.TraceScan
  Client.ClientTactics Client.AMap Client.PacketEq Client.ClientInvCtl Client.ClientInvOwed Client.ClientInvWf
  Client.ClientInvHs Client.ClientInvSbs Client.ClientC10 Client.ClientInvRx Client.ClientKept Client.ClientTotal.
Import ListNotations.
Open Scope N_scope.

(* ---- scan_sbs *)

Lemma saved_step s e s' : step s e = Some s' ->
  forall q, In (Outgoing, q) (g_saved (g s')) -> In (Outgoing, q) (g_saved (g s)) \/ e = ESave Outgoing q Ok.
Proof.
  intros H.
  destruct e.
  all: step_leaves H.
  all: simp_proj; clean_eqs.
  all: try solve [intros q Hq; left; exact Hq].
  all: repeat match goal with E : packet_eqb _ _ = true |- _ => apply packet_eqb_eq in E; subst end.
  all: try solve [intros q [Hq|Hq]; [injection Hq as <-; right; reflexivity|left; exact Hq]].
  all: try solve [intros q [Hq|Hq]; [discriminate Hq|left; exact Hq]].
Qed.

Lemma tx_step s p a r s' : step s (ETx p a r) = Some s' ->
  In (p, a, r) (g_tx (g s')) /\ g_saved (g s') = g_saved (g s).
Proof.
  intros H.
  step_leaves H.
  all: simp_proj; clean_eqs.
  all: try solve [split; [left; reflexivity|reflexivity]].
Qed.

Lemma scan_sbs_gen es : forall pre s0 s saved,
  run step init pre = Some s0 -> run step s0 es = Some s ->
  (forall q, In (Outgoing, q) (g_saved (g s0)) -> In q saved) ->
  scan_sbs saved es = true.
Proof.
  induction es as [|e es IH]; intros pre s0 s saved Hpre Hrun Hinc; [reflexivity|].
  cbn [run] in Hrun. destruct (step s0 e) as [s1|] eqn:Hs; [|discriminate Hrun].
  assert (Hpre' : run step init (pre ++ [e]) = Some s1).
  { rewrite run_app, Hpre. cbn [run]. rewrite Hs. reflexivity. }
  assert (Hstd : forall saved', (forall q, In (Outgoing, q) (g_saved (g s1)) -> In q saved') -> scan_sbs saved' es = true).
  { intros saved' Hinc'. eapply IH; eassumption. }
  assert (Hkeep : (forall q, e <> ESave Outgoing q Ok) -> forall q, In (Outgoing, q) (g_saved (g s1)) -> In q saved).
  { intros Hne q Hq. destruct (saved_step _ _ _ Hs q Hq) as [X|X]; [apply Hinc, X|exfalso; eapply Hne, X]. }
  destruct e; cbn [scan_sbs]; try (apply Hstd, Hkeep; intros q X; discriminate X).
  - (* ETx *)
    destruct p; try (apply Hstd, Hkeep; intros q X; discriminate X).
    apply andb_true_iff. split; [|apply Hstd, Hkeep; intros q X; discriminate X].
    destruct (m_qos m =? 0) eqn:Eq; [reflexivity|]. cbn [orb].
    destruct (tx_step _ _ _ _ _ Hs) as [Hin Hsv].
    pose proof (store_before_send _ _ Hpre' _ _ _ Hin dup m id eq_refl) as Hsaved.
    assert (Hq : m_qos m <> 0) by (apply N.eqb_neq; exact Eq).
    specialize (Hsaved Hq). rewrite Hsv in Hsaved. apply Hinc in Hsaved.
    apply existsb_exists. exists (Publish false m id). split; [exact Hsaved|apply packet_eqb_refl].
  - (* ESave *)
    destruct d; [apply Hstd, Hkeep; intros q X; discriminate X|].
    destruct r; [|apply Hstd, Hkeep; intros q X; discriminate X].
    apply Hstd. intros q Hq. destruct (saved_step _ _ _ Hs q Hq) as [X|X]; [right; apply Hinc, X|].
    injection X as ->. left. reflexivity.
Qed.

Theorem scan_sbs_accepted es s : run step init es = Some s -> scan_sbs [] es = true.
Proof.
  intros H. eapply (scan_sbs_gen es [] init s []); [reflexivity|exact H|].
  intros q Hq. cbn in Hq. contradiction.
Qed.



(* ---- scan_pubrec: the scanner's expectation is a function of the processor's control point *)

Definition pexp_of (p : ppc) : pexp :=
  match p with PRecSave id => XSave id | PRecSend id => XTx id | PNone | PRecv true => XInit | _ => XNone end.

Lemma pubrec_sim s e s' : InvCtl s -> InvOwed s -> step s e = Some s' ->
  pubrec_step (pexp_of (k_ppc (k s))) e = Some (pexp_of (k_ppc (k s'))).
Proof.
  intros (_ & _ & C3 & _) (_ & O2) H.
  destruct e.
  all: step_leaves H.
  all: simp_proj; clean_eqs.
  all: repeat match goal with
       | E : (?a =? ?b) = true |- _ => apply N.eqb_eq in E; subst
       | E : negb ?a = false |- _ => destruct a; [clear E|discriminate E]
       end.
  all: cbn [pubrec_step proc_obs pexp_of].
  all: rewrite ?N.eqb_refl.
  all: try reflexivity.
  all: try solve [specialize (O2 _ eq_refl); rewrite (C3 eq_refl);
                  destruct after; cbn [after_pc] in O2; try contradiction;
                  try (match goal with b : bool |- _ => destruct b end; try contradiction); reflexivity].
  all: try solve [destruct first; reflexivity].
Qed.

Lemma scan_pubrec_gen es : forall pre s0 s,
  run step init pre = Some s0 -> run step s0 es = Some s ->
  scan_pubrec (pexp_of (k_ppc (k s0))) es = Some (pexp_of (k_ppc (k s))).
Proof.
  induction es as [|e es IH]; intros pre s0 s Hpre Hrun.
  - cbn in Hrun. injection Hrun as <-. reflexivity.
  - cbn [run] in Hrun. destruct (step s0 e) as [s1|] eqn:Hs; [|discriminate Hrun].
    assert (Hpre' : run step init (pre ++ [e]) = Some s1).
    { rewrite run_app, Hpre. cbn [run]. rewrite Hs. reflexivity. }
    destruct (InvG_reach _ _ Hpre) as (((((_ & HC & HO & _) & _) & _) & _) & _).
    cbn [scan_pubrec]. rewrite (pubrec_sim _ _ _ HC HO Hs). eapply IH; eassumption.
Qed.

(* every accepted trace passes the PUBREC scanner; its final expectation is the one of the final state *)
Theorem scan_pubrec_accepted es s : run step init es = Some s ->
  scan_pubrec XInit es = Some (pexp_of (k_ppc (k s))).
Proof. intros H. exact (scan_pubrec_gen es [] init s eq_refl H). Qed.

