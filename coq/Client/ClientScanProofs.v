(* ClientScanProofs.v — every accepted trace passes the trace scanners of TraceScan.v. *)
From Coq Require Import List NArith Bool Lia.
From GM Require Import Base.Lts Codec.Packet Session.Ids Session.Store
  Client.Future Client.Client Client.ClientSpec Client.TraceScan
  Client.ClientTactics Client.AMap Client.PacketEq Client.ClientInvCtl Client.ClientInvOwed Client.ClientInvWf
  Client.ClientInvHs Client.ClientInvSbs Client.ClientC10 Client.ClientInvRx Client.ClientKept Client.ClientTotal.
Import ListNotations.
Open Scope N_scope.

(* ---- scan_sbs *)

Lemma saved_step s e s' : step s e = Some s' ->
  forall q, In (Outgoing, q) (g_saved (g s')) -> In (Outgoing, q) (g_saved (g s)) \/ e = ESave Outgoing q Ok.
Proof.
  intros H.
  destruct e.
  all: step_leaves H.
  all: simp_proj; clean_eqs.
  all: try solve [intros q Hq; left; exact Hq].
  all: repeat match goal with E : packet_eqb _ _ = true |- _ => apply packet_eqb_eq in E; subst end.
  all: try solve [intros q [Hq|Hq]; [injection Hq as <-; right; reflexivity|left; exact Hq]].
  all: try solve [intros q [Hq|Hq]; [discriminate Hq|left; exact Hq]].
Qed.

Lemma tx_step s p a r s' : step s (ETx p a r) = Some s' ->
  In (p, a, r) (g_tx (g s')) /\ g_saved (g s') = g_saved (g s).
Proof.
  intros H.
  step_leaves H.
  all: simp_proj; clean_eqs.
  all: try solve [split; [left; reflexivity|reflexivity]].
Qed.

Lemma scan_sbs_gen es : forall pre s0 s saved,
  run step init pre = Some s0 -> run step s0 es = Some s ->
  (forall q, In (Outgoing, q) (g_saved (g s0)) -> In q saved) ->
  scan_sbs saved es = true.
Proof.
  induction es as [|e es IH]; intros pre s0 s saved Hpre Hrun Hinc; [reflexivity|].
  cbn [run] in Hrun. destruct (step s0 e) as [s1|] eqn:Hs; [|discriminate Hrun].
  assert (Hpre' : run step init (pre ++ [e]) = Some s1).
  { rewrite run_app, Hpre. cbn [run]. rewrite Hs. reflexivity. }
  assert (Hstd : forall saved', (forall q, In (Outgoing, q) (g_saved (g s1)) -> In q saved') -> scan_sbs saved' es = true).
  { intros saved' Hinc'. eapply IH; eassumption. }
  assert (Hkeep : (forall q, e <> ESave Outgoing q Ok) -> forall q, In (Outgoing, q) (g_saved (g s1)) -> In q saved).
  { intros Hne q Hq. destruct (saved_step _ _ _ Hs q Hq) as [X|X]; [apply Hinc, X|exfalso; eapply Hne, X]. }
  destruct e; cbn [scan_sbs]; try (apply Hstd, Hkeep; intros q X; discriminate X).
  - (* ETx *)
    destruct p; try (apply Hstd, Hkeep; intros q X; discriminate X).
    apply andb_true_iff. split; [|apply Hstd, Hkeep; intros q X; discriminate X].
    destruct (m_qos m =? 0) eqn:Eq; [reflexivity|]. cbn [orb].
    destruct (tx_step _ _ _ _ _ Hs) as [Hin Hsv].
    pose proof (store_before_send _ _ Hpre' _ _ _ Hin dup m id eq_refl) as Hsaved.
    assert (Hq : m_qos m <> 0) by (apply N.eqb_neq; exact Eq).
    specialize (Hsaved Hq). rewrite Hsv in Hsaved. apply Hinc in Hsaved.
    apply existsb_exists. exists (Publish false m id). split; [exact Hsaved|apply packet_eqb_refl].
  - (* ESave *)
    destruct d; [apply Hstd, Hkeep; intros q X; discriminate X|].
    destruct r; [|apply Hstd, Hkeep; intros q X; discriminate X].
    apply Hstd. intros q Hq. destruct (saved_step _ _ _ Hs q Hq) as [X|X]; [right; apply Hinc, X|].
    injection X as ->. left. reflexivity.
Qed.

Theorem scan_sbs_accepted es s : run step init es = Some s -> scan_sbs [] es = true.
Proof.
  intros H. eapply (scan_sbs_gen es [] init s []); [reflexivity|exact H|].
  intros q Hq. cbn in Hq. contradiction.
Qed.



(* ---- scan_pubrec: the scanner's expectation is a function of the processor's control point *)

Definition pexp_of (p : ppc) : pexp :=
  match p with PRecSave id => XSave id | PRecSend id => XTx id | PNone | PRecv true => XInit | _ => XNone end.

Lemma pubrec_sim s e s' : InvCtl s -> InvOwed s -> step s e = Some s' ->
  pubrec_step (pexp_of (k_ppc (k s))) e = Some (pexp_of (k_ppc (k s'))).
Proof.
  intros (_ & _ & C3 & _) (_ & O2) H.
  destruct e.
  all: step_leaves H.
  all: simp_proj; clean_eqs.
  all: repeat match goal with
       | E : (?a =? ?b) = true |- _ => apply N.eqb_eq in E; subst
       | E : negb ?a = false |- _ => destruct a; [clear E|discriminate E]
       end.
  all: cbn [pubrec_step proc_obs pexp_of].
  all: rewrite ?N.eqb_refl.
  all: try reflexivity.
  all: try solve [specialize (O2 _ eq_refl); rewrite (C3 eq_refl);
                  destruct after; cbn [after_pc] in O2; try contradiction;
                  try (match goal with b : bool |- _ => destruct b end; try contradiction); reflexivity].
  all: try solve [destruct first; reflexivity].
Qed.

Lemma scan_pubrec_gen es : forall pre s0 s,
  run step init pre = Some s0 -> run step s0 es = Some s ->
  scan_pubrec (pexp_of (k_ppc (k s0))) es = Some (pexp_of (k_ppc (k s))).
Proof.
  induction es as [|e es IH]; intros pre s0 s Hpre Hrun.
  - cbn in Hrun. injection Hrun as <-. reflexivity.
  - cbn [run] in Hrun. destruct (step s0 e) as [s1|] eqn:Hs; [|discriminate Hrun].
    assert (Hpre' : run step init (pre ++ [e]) = Some s1).
    { rewrite run_app, Hpre. cbn [run]. rewrite Hs. reflexivity. }
    destruct (InvG_reach _ _ Hpre) as (((((_ & HC & HO & _) & _) & _) & _) & _).
    cbn [scan_pubrec]. rewrite (pubrec_sim _ _ _ HC HO Hs). eapply IH; eassumption.
Qed.

(* every accepted trace passes the PUBREC scanner; its final expectation is the one of the final state *)
Theorem scan_pubrec_accepted es s : run step init es = Some s ->
  scan_pubrec XInit es = Some (pexp_of (k_ppc (k s))).
Proof. intros H. exact (scan_pubrec_gen es [] init s eq_refl H). Qed.


(* ---- scan_noack *)

Lemma cbfail_step s e s' : step s e = Some s' ->
  g_cbfail (g s') = match e with
                    | ENew _ => false
                    | ECb _ Fail => true
                    | _ => g_cbfail (g s)
                    end.
Proof.
  intros H.
  destruct e.
  all: step_leaves H.
  all: simp_proj; clean_eqs.
  all: try reflexivity.
Qed.

Lemma scan_noack_gen es : forall pre s0 s,
  run step init pre = Some s0 -> run step s0 es = Some s ->
  scan_noack (g_cbfail (g s0)) es = true.
Proof.
  induction es as [|e es IH]; intros pre s0 s Hpre Hrun; [reflexivity|].
  cbn [run] in Hrun. destruct (step s0 e) as [s1|] eqn:Hs; [|discriminate Hrun].
  assert (Hpre' : run step init (pre ++ [e]) = Some s1).
  { rewrite run_app, Hpre. cbn [run]. rewrite Hs. reflexivity. }
  pose proof (IH _ _ _ Hpre' Hrun) as Hrec. rewrite (cbfail_step _ _ _ Hs) in Hrec.
  destruct e; cbn [scan_noack]; try exact Hrec.
  - (* ETx *)
    destruct p; try exact Hrec.
    all: apply andb_true_iff; split; [|exact Hrec].
    all: destruct (g_cbfail (g s0)) eqn:Ef; [exfalso|reflexivity].
    all: destruct (no_ack_on_error _ _ Hpre Ef) as [Hno _]; specialize (Hno _ _ _ _ Hs); discriminate Hno.
  - (* ECb *)
    destruct r; exact Hrec.
Qed.

Theorem scan_noack_accepted es s : run step init es = Some s -> scan_noack false es = true.
Proof. intros H. exact (scan_noack_gen es [] init s eq_refl H). Qed.

(* ---- scan_hs: the scanner's table IS the ghost table of open handshakes *)

Definition cur_ok (cur : option N) (p : ppc) : Prop :=
  match p with
  | PRelCb _ _ id => cur = Some id
  | PRelComp _ id => cur = None \/ cur = Some id
  | _ => cur = None
  end.

Definition hs_rel (x : hscan) (s : st) : Prop :=
  hs_tab x = g_hs (g s) /\ cur_ok (hs_cur x) (k_ppc (k s)).

Lemma hs_sim s e s' x : InvCtl s -> InvOwed s -> hs_rel x s -> step s e = Some s' -> hs_rel (hs_step x e) s'.
Proof.
  intros (_ & _ & C3 & _) (_ & O2) [Ht Hc] H.
  destruct x as [tab cur]. cbn [hs_tab hs_cur] in *. subst tab.
  destruct e.
  all: step_leaves H.
  all: unfold hs_rel; simp_proj; clean_eqs.
  all: repeat match goal with
       | E : (?a =? ?b) = true |- _ => apply N.eqb_eq in E; subst
       | E : packet_eqb _ _ = true |- _ => apply packet_eqb_eq in E; subst
       | E : opt_packet_eqb _ _ = true |- _ => apply opt_packet_eqb_eq in E
       end.
  all: cbn [cur_ok hs_step hs_tab hs_cur get_id] in *.
  all: try solve [split; first [reflexivity | assumption | (left; reflexivity) | (right; reflexivity)]].
  all: try solve [match goal with E : get_id _ = Some _ |- _ => rewrite E end; cbn [hs_tab hs_cur]; split; reflexivity].
  all: try solve [subst cur; cbn [hs_tab hs_cur]; split; first [reflexivity | (left; reflexivity)]].
  all: try solve [specialize (O2 _ eq_refl); rewrite (C3 eq_refl) in Hc; cbn [cur_ok] in Hc;
                  destruct after; cbn [after_pc] in O2; try contradiction;
                  try (match goal with |- context [cur_ok _ (PRecv ?b)] => destruct b end; try contradiction);
                  (split; [reflexivity|exact Hc])].
Qed.

Lemma scan_hs_gen es : forall pre s0 s x,
  run step init pre = Some s0 -> run step s0 es = Some s -> hs_rel x s0 ->
  hs_rel (fold_left hs_step es x) s.
Proof.
  induction es as [|e es IH]; intros pre s0 s x Hpre Hrun Hrel.
  - cbn in Hrun. injection Hrun as <-. exact Hrel.
  - cbn [run] in Hrun. destruct (step s0 e) as [s1|] eqn:Hs; [|discriminate Hrun].
    assert (Hpre' : run step init (pre ++ [e]) = Some s1).
    { rewrite run_app, Hpre. cbn [run]. rewrite Hs. reflexivity. }
    destruct (InvG_reach _ _ Hpre) as (((((_ & HC & HO & _) & _) & _) & _) & _).
    cbn [fold_left]. eapply IH; [exact Hpre'|exact Hrun|]. eapply hs_sim; eassumption.
Qed.

(* on an accepted trace the scanner's table equals the ghost table of the model: what
   C10_exactly_once_partial says about the ghost table holds of the scanner's *)
Theorem scan_hs_accepted es s : run step init es = Some s -> hs_tab (scan_hs es) = g_hs (g s).
Proof.
  intros H. refine (proj1 (scan_hs_gen es [] init s (HScan [] None) eq_refl H _)).
  split; reflexivity.
Qed.

Corollary scan_hs_once es s : run step init es = Some s ->
  g_compfail (g s) = false -> g_delfail (g s) = false -> hs_twice (scan_hs es) = None.
Proof.
  intros H F1 F2. unfold hs_twice. rewrite (scan_hs_accepted _ _ H).
  destruct (exactly_once_partial _ _ H F1 F2) as [Hle _].
  destruct (filter (fun y => 1 <? snd y) (g_hs (g s))) as [|[id n] l] eqn:E; [reflexivity|exfalso].
  assert (Hin : In (id, n) (filter (fun y => 1 <? snd y) (g_hs (g s)))) by (rewrite E; left; reflexivity).
  apply filter_In in Hin as [Hin Hn]. cbn in Hn. apply N.ltb_lt in Hn.
  destruct (InvG_reach _ _ H) as ((((((_ & _ & W3 & _) & _) & _) & _) & _) & _).
  apply (in_aget _ _ _ W3) in Hin. apply Hle in Hin. lia.
Qed.


(* ---- scan_ack: the scanner's expectation is determined by the processor's control point *)

Definition yrel (y : yexp) (p : ppc) : Prop :=
  match y, p with
  | YInit, (PNone | PRecv true) => True
  | YInit, _ => False
  | YNone, (PNone | PRecv true | PPubAck _ | PPubSave _ | PPubRec _ | PRelLookup _ | PRelCb _ _ _
           | PRelComp _ _ | PRelDel _) => False
  | YNone, PPubCb _ => False
  | YNone, _ => True
  | YPub q, _ =>
    (exists d m id, q = Publish d m id) /\
    (p = PPubCb q \/
     match after_cb_exp q with
     | YAck id => p = PPubAck id
     | YSave q' => p = PPubSave q'
     | _ => p = PRecv false
     end)
  | YAck id, PPubAck id' => id = id'
  | YSave q, PPubSave q' => q = q'
  | YRec id, PPubRec id' => id = id'
  | YRel id, PRelLookup id' => id = id'
  | YRelCb m pid id, PRelCb m' pid' id' => m = m' /\ pid = pid' /\ id = id'
  | YRelCb m pid id, PRelComp pid' id' => pid = pid' /\ id = id'
  | YComp pid id, PRelComp pid' id' => pid = pid' /\ id = id'
  | YDel id, PRelDel id' => id = id'
  | _, _ => False
  end.

Lemma message_eqb_refl m : message_eqb m m = true.
Proof.
  pose proof (packet_eqb_refl (Publish false m 0)) as H. cbn [packet_eqb] in H.
  apply andb_true_iff in H as [H _]. apply andb_true_iff in H as [_ H]. exact H.
Qed.

Ltac ack_fin :=
  eexists; split;
  [ cbn [ack_step proc_obs get_id]; unfold after_cb_exp;
    repeat match goal with
           | E : (_ =? _) = _ |- _ => rewrite E
           | E : m_qos _ = _ |- _ => rewrite E
           end;
    rewrite ?N.eqb_refl, ?message_eqb_refl, ?packet_eqb_refl;
    repeat match goal with
           | E : (_ =? _) = _ |- _ => rewrite E
           | E : get_id _ = _ |- _ => rewrite E
           end; cbn [N.eqb Pos.eqb]; reflexivity
  | cbn [yrel]; unfold after_cb_exp;
    repeat match goal with
           | E : (_ =? _) = _ |- _ => rewrite E
           | E : m_qos _ = _ |- _ => rewrite E
           end; cbn [N.eqb Pos.eqb];
    first [ exact I | reflexivity | assumption | (split; [reflexivity|split; reflexivity]) | (split; reflexivity)
          | (apply N.eqb_eq; assumption)
          | (split; [do 3 eexists; reflexivity
                    | first [left; reflexivity | right; reflexivity]]) ] ].

Lemma ack_sim s e s' y : InvCtl s -> InvOwed s -> yrel y (k_ppc (k s)) -> step s e = Some s' ->
  exists y', ack_step y e = Some y' /\ yrel y' (k_ppc (k s')).
Proof.
  intros (_ & _ & C3 & _) (_ & O2) HR H.
  destruct e.
  all: step_leaves H.
  all: simp_proj; clean_eqs.
  all: repeat match goal with
       | E : (?a =? ?b) = true |- _ => apply N.eqb_eq in E; subst
       | E : packet_eqb _ _ = true |- _ => apply packet_eqb_eq in E; subst
       | E : message_eqb _ _ = true |- _ => apply message_eqb_eq in E; subst
       | E : opt_packet_eqb _ _ = true |- _ => apply opt_packet_eqb_eq in E
       | E : negb ?a = false |- _ => destruct a; [clear E|discriminate E]
       end.
  (* events of other threads: nothing is expected of them, the control point stays *)
  all: try solve [eexists; split; [reflexivity|first [exact HR | exact I]]].
  all: try (rewrite (C3 eq_refl) in HR).
  all: destruct y; cbn [yrel] in HR; try contradiction.
  all: try solve [eexists; split; [reflexivity|first [exact HR | exact I]]].
  (* y = YPub q: make q and the disjunction explicit *)
  all: try (match type of HR with (exists _, _) /\ _ =>
         let d0 := fresh "d" in let m0 := fresh "m" in let i0 := fresh "i" in
         destruct HR as [(d0 & m0 & i0 & ->) HR]; unfold after_cb_exp in HR;
         destruct (m_qos m0 =? 1) eqn:?; [|destruct (m_qos m0 =? 2) eqn:?];
         destruct HR as [HR|HR]; try discriminate HR; try contradiction end).
  all: repeat match goal with
       | X : _ /\ _ |- _ => destruct X
       | X : PPubCb _ = PPubCb _ |- _ => injection X as ?; subst
       | X : PPubAck _ = PPubAck _ |- _ => injection X as ?; subst
       | X : PPubSave _ = PPubSave _ |- _ => injection X as ?; subst
       | X : PRecv _ = PRecv _ |- _ => injection X as ?; subst
       | X : Publish _ _ _ = Publish _ _ _ |- _ => injection X as ? ? ?; subst
       end; subst.
  all: try solve [exfalso; congruence].
  all: try solve [specialize (O2 _ eq_refl); destruct after; cbn [after_pc] in O2; try contradiction;
                  try (match goal with |- context [yrel _ (PRecv ?b)] => destruct b end; try contradiction);
                  (eexists; split; [reflexivity|exact I])].
  all: try solve [ack_fin].
  all: try solve [unfold after_cb_exp in HR; repeat match goal with E : m_qos _ = _ |- _ => rewrite E in HR end;
                  cbn in HR; discriminate HR].
  all: try solve [exfalso; repeat match goal with E : m_qos _ = _ |- _ => rewrite E in * end; discriminate].

Qed.

Lemma scan_ack_gen es : forall pre s0 s y,
  run step init pre = Some s0 -> run step s0 es = Some s -> yrel y (k_ppc (k s0)) ->
  exists y', scan_ack y es = Some y' /\ yrel y' (k_ppc (k s)).
Proof.
  induction es as [|e es IH]; intros pre s0 s y Hpre Hrun Hrel.
  - cbn in Hrun. injection Hrun as <-. exists y. split; [reflexivity|exact Hrel].
  - cbn [run] in Hrun. destruct (step s0 e) as [s1|] eqn:Hs; [|discriminate Hrun].
    assert (Hpre' : run step init (pre ++ [e]) = Some s1).
    { rewrite run_app, Hpre. cbn [run]. rewrite Hs. reflexivity. }
    destruct (InvG_reach _ _ Hpre) as (((((_ & HC & HO & _) & _) & _) & _) & _).
    destruct (ack_sim _ _ _ _ HC HO Hrel Hs) as (y1 & Hy1 & Hrel1).
    cbn [scan_ack]. rewrite Hy1. eapply IH; eassumption.
Qed.

(* every accepted trace passes the acknowledgement scanner *)
Theorem scan_ack_accepted es s : run step init es = Some s ->
  exists y, scan_ack YInit es = Some y /\ yrel y (k_ppc (k s)).
Proof. intros H. exact (scan_ack_gen es [] init s YInit eq_refl H I). Qed.

