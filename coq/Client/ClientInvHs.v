(* ClientInvHs.v — inbound QoS 2 handshakes; C10_exactly_once_partial. *)
From Coq Require Import List NArith Bool Lia.
From GM Require Import Base.Lts Codec.Packet Session.Ids Session.Store Client.Future Client.Client Client.ClientSpec
  Client.ClientTactics Client.AMap Client.ClientInvWf Client.PacketEq.
Import ListNotations.
Open Scope N_scope.

Definition hs_pc (id : N) (p : ppc) : Prop :=
  match p with PRelComp _ i | PRelDel i => i = id | _ => False end.

Definition nofail (s : st) : Prop := g_compfail (g s) = false /\ g_delfail (g s) = false.

Definition hs_ctl (s : st) : Prop :=
  match k_ppc (k s) with
  | PRelComp pid id => default_mode s -> amap_get (g_hs (g s)) id = Some 1
  | PRelCb m pid id => amap_get (g_hs (g s)) id = Some 0
  | _ => True
  end.

Definition InvHs (s : st) : Prop :=
  (nofail s ->
     (forall id n, amap_get (g_hs (g s)) id = Some n -> n = 0 \/ (n = 1 /\ hs_pc id (k_ppc (k s)))) /\ hs_ctl s) /\
  (forall id, store_lookup (s_in (sess s)) id <> None -> amap_get (g_hs (g s)) id <> None).

Lemma InvHs_init : InvHs init.
Proof. split; [intros _; split; [intros id n H; discriminate H|exact I]|intros id H; exact H]. Qed.

Lemma InvHs_step s e s' : InvWf s -> InvHs s -> step s e = Some s' -> InvHs s'.
Proof.
  intros (W1 & _ & W3 & _) (IA & IC) H.
  destruct e.
  all: step_leaves H.
  all: unfold InvHs, nofail, hs_ctl, default_mode in *; simp_proj; clean_eqs.
  all: cbn [hs_pc] in *.
  all: try solve [split; [intros NF; destruct (IA NF) as [A1 A2]; split;
                           [intros id0 n0 G0; destruct (A1 id0 n0 G0) as [->|[-> X]]; [left; reflexivity|first [contradiction|right; split; [reflexivity|exact X]]]
                           |first [exact I|assumption]]
                         |assumption]].
  Show.
Admitted.
