(* ClientInvHs.v — inbound QoS 2 handshakes; C10_exactly_once_partial. *)
From Coq Require Import List NArith Bool Lia.
From GM Require Import Base.Lts Codec.Packet Session.Ids Session.Store Client.Future Client.Client Client.ClientSpec
  Client.ClientTactics Client.AMap Client.ClientInvWf Client.PacketEq Client.ClientInvCtl Client.ClientInvOwed.
Import ListNotations.
Open Scope N_scope.

Definition hs_pc (id : N) (p : ppc) : Prop :=
  match p with PRelComp _ i | PRelDel i => i = id | _ => False end.

Definition nofail (s : st) : Prop := g_compfail (g s) = false /\ g_delfail (g s) = false.

Definition hs_ctl (s : st) : Prop :=
  match k_ppc (k s) with
  | PRelComp pid id => default_mode s -> amap_get (g_hs (g s)) id <> Some 0
  | PRelCb m pid id => amap_get (g_hs (g s)) id <> Some 1
  | _ => True
  end.

Definition InvHs (s : st) : Prop :=
  nofail s ->
  (forall id n, amap_get (g_hs (g s)) id = Some n -> n = 0 \/ (n = 1 /\ hs_pc id (k_ppc (k s)))) /\ hs_ctl s.

Lemma InvHs_init : InvHs init.
Proof. intros _; split; [intros id n H; discriminate H|exact I]. Qed.

Definition zeros (h : list (N * N)) : Prop := forall i n, amap_get h i = Some n -> n = 0.

Lemma zeros_of h : (forall i n, amap_get h i = Some n -> n = 0 \/ (n = 1 /\ False)) -> zeros h.
Proof. intros H i n G. destruct (H i n G) as [X|[_ []]]. exact X. Qed.

Lemma zeros_std (P : N -> Prop) h : zeros h -> forall i n, amap_get h i = Some n -> n = 0 \/ (n = 1 /\ P i).
Proof. intros H i n G. left. eapply H; eassumption. Qed.

Lemma zeros_open h k : zeros h -> zeros (hs_open h k).
Proof.
  intros H i n G. unfold hs_open in G. destruct (amap_get h k) eqn:E; [eapply H; eassumption|].
  rewrite aget_put in G. destruct (i =? k); [injection G as <-; reflexivity|eapply H; eassumption].
Qed.

Lemma zeros_del_one h k : NoDup (akeys h) ->
  (forall i n, amap_get h i = Some n -> n = 0 \/ (n = 1 /\ k = i)) -> zeros (amap_del h k).
Proof.
  intros Hnd H i n G. rewrite aget_del in G by exact Hnd.
  destruct (N.eqb_spec i k) as [->|Hne]; [discriminate G|].
  destruct (H i n G) as [X|[_ X]]; [exact X|]. congruence.
Qed.

Lemma incr_spec h k : zeros h ->
  (forall i n, amap_get (hs_incr h k) i = Some n -> n = 0 \/ (n = 1 /\ k = i)) /\
  amap_get (hs_incr h k) k <> Some 0.
Proof.
  intros H. unfold hs_incr. destruct (amap_get h k) as [n0|] eqn:E.
  - apply H in E. subst n0. split.
    + intros i n G. rewrite aget_put in G. destruct (N.eqb_spec i k) as [->|].
      * injection G as <-. right. split; reflexivity.
      * left. eapply H; eassumption.
    + rewrite aget_put, N.eqb_refl. discriminate.
  - split.
    + intros i n G. rewrite aget_put in G. destruct (N.eqb_spec i k) as [->|].
      * injection G as <-. right. split; reflexivity.
      * left. eapply H; eassumption.
    + rewrite aget_put, N.eqb_refl. discriminate.
Qed.

Ltac hs_std IA :=
  let NF := fresh "NF" in let A1 := fresh "A1" in let A2 := fresh "A2" in
  intros NF; destruct (IA NF) as [A1 A2]; split;
  [ let i := fresh "i" in let n := fresh "n" in let G0 := fresh "G" in let X := fresh "X" in
    intros i n G0; destruct (A1 i n G0) as [->|[-> X]];
    [left; reflexivity|first [contradiction|right; split; [reflexivity|exact X]]]
  | first [exact I|assumption] ].

Lemma InvHs_step s e s' : InvWf s -> InvCtl s -> InvOwed s -> InvHs s -> step s e = Some s' -> InvHs s'.
Proof.
  intros (_ & _ & W3 & _) (_ & _ & C3 & _) (_ & O2) IA H.
  destruct e.
  all: step_leaves H.
  all: unfold InvHs, nofail, hs_ctl, default_mode in *; simp_proj; clean_eqs.
  all: cbn [hs_pc] in *.
  all: try (intros [X1 X2]; discriminate).
  all: repeat match goal with E : (?a =? ?b) = true |- _ => apply N.eqb_eq in E; subst end.
  all: try solve [hs_std IA].
  (* ENew *)
  all: try solve [unfold ctl_idle in E; destruct (k_api (k s)); try discriminate E;
                  destruct (k_pending (k s)); try discriminate E;
                  destruct (k_ppc (k s)); try discriminate E; cbn [hs_pc] in IA; hs_std IA].
  (* session reset: no handshake is open any more *)
  all: try solve [intros NF; split; [let G := fresh "G" in intros ? ? G; discriminate G
                 |destruct (k_ppc (k s)); cbn [amap_get]; first [exact I|discriminate|intros _; discriminate]]].
  (* die body finished: the processor resumes at `after` *)
  all: try solve [specialize (O2 _ eq_refl); rewrite (C3 eq_refl) in IA; cbn [hs_pc] in IA;
                  destruct after; cbn [after_pc] in O2; try contradiction;
                  try (match goal with b : bool |- _ => destruct b end; try contradiction);
                  cbn [hs_pc]; intros NF; destruct (IA NF) as [A1 _]; (split; [|exact I]);
                  apply zeros_std, zeros_of; exact A1].
  (* the handshake bookkeeping itself *)
  all: try solve [intros NF; destruct (IA NF) as [A1 A2]; split;
                  [apply zeros_std, zeros_open, zeros_of; exact A1|exact I]].
  all: try solve [intros NF; destruct (IA NF) as [A1 A2]; split;
                  [apply zeros_std, zeros_of; exact A1
                  |let Hc := fresh "Hc" in intros Hc; apply (zeros_of _ A1) in Hc; discriminate Hc]].
  all: try solve [intros NF; destruct (IA NF) as [A1 A2]; split;
                  [apply zeros_std, zeros_of; exact A1
                  |let Hcb := fresh in let He := fresh in intros [Hcb He];
                   match goal with E : _ && negb _ = false |- _ => rewrite Hcb, He in E; discriminate E end]].
  all: try solve [intros NF; destruct (IA NF) as [A1 A2]; split;
                  [apply zeros_std, zeros_del_one; [exact W3|exact A1]|exact I]].
  all: try solve [intros NF; destruct (IA NF) as [A1 A2];
                  destruct (incr_spec (g_hs (g s)) id (zeros_of _ A1)) as [S1 S2];
                  split; [exact S1|intros _; exact S2]].
Qed.

(* all invariants so far, together *)
Definition InvC (s : st) : Prop := InvWf s /\ InvCtl s /\ InvOwed s /\ InvHs s.

Lemma InvC_reach es s : run step init es = Some s -> InvC s.
Proof.
  apply reach_inv.
  - split; [apply InvWf_init|split; [apply InvCtl_init|split; [apply InvOwed_init|apply InvHs_init]]].
  - intros s0 e s1 (HW & HC & HO & HH) Hs.
    split; [eapply InvWf_step; eassumption|].
    split; [eapply InvCtl_step; eassumption|].
    split; [eapply InvOwed_step; eassumption|].
    eapply InvHs_step; eassumption.
Qed.

Definition C10_exactly_once_partial_statement : Prop :=
  forall es s, run step init es = Some s ->
  g_compfail (g s) = false -> g_delfail (g s) = false ->
  (forall id n, amap_get (g_hs (g s)) id = Some n -> n <= 1) /\
  (forall pid id, k_ppc (k s) = PRelComp pid id -> default_mode s -> amap_get (g_hs (g s)) id <> Some 0).

Theorem exactly_once_partial : C10_exactly_once_partial_statement.
Proof.
  intros es s Hr F1 F2. destruct (InvC_reach _ _ Hr) as (_ & _ & _ & HH).
  destruct (HH (conj F1 F2)) as [A1 A2]. split.
  - intros id n G. destruct (A1 id n G) as [->|[-> _]]; lia.
  - intros pid id Hpc Hd. unfold hs_ctl in A2. rewrite Hpc in A2. apply A2. exact Hd.
Qed.

