(* ClientTotal.v — C09_future_total. *)
From Coq Require Import List NArith Bool Lia.
From GM Require Import Base.Lts Codec.Packet Session.Ids Session.Store
  Client.Future Client.Client Client.ClientSpec
  Client.ClientTactics Client.AMap Client.PacketEq Client.ClientInvCtl Client.ClientInvOwed Client.ClientInvWf
  Client.ClientInvHs Client.ClientInvSbs Client.ClientC10 Client.ClientInvRx Client.ClientKept.
Import ListNotations.
Open Scope N_scope.

(* an entry of the future store whose future is still pending *)
Definition pend (s : st) (j c : N) : Prop :=
  amap_get (t_store (t s)) j = Some c /\
  exists f, amap_get (t_futs (t s)) c = Some f /\ f_done (cf_fut f) = false.
Definition has_pending (s : st) : Prop := exists j c, pend s j c.

Lemma pend_ext s1 s2 j c : t s1 = t s2 -> pend s1 j c -> pend s2 j c.
Proof. unfold pend. intros ->. auto. Qed.

Lemma resolve1_done stt f v : stt <> Pending -> f_done (fst (resolve1 stt f v)) = true.
Proof. intros Hs. unfold resolve1. destruct (f_done f) eqn:E; cbn; [exact E|destruct stt; try reflexivity; contradiction]. Qed.

Lemma pend_fut_resolve stt x c v j c' : stt <> Pending -> pend (fut_resolve stt x c v) j c' -> pend x j c' /\ c' <> c.
Proof.
  intros Hstt.
  unfold pend, fut_resolve, fut_get. destruct (amap_get (t_futs (t x)) c) as [f0|] eqn:E.
  - cbn [t t_store t_futs set_t t_set_futs]. intros [Hs (f & Hf & Hd)]. rewrite aget_put in Hf.
    destruct (N.eqb_spec c' c) as [->|Hne].
    + injection Hf as <-. cbn [cf_fut] in Hd. rewrite resolve1_done in Hd by exact Hstt. discriminate Hd.
    + split; [|exact Hne]. split; [exact Hs|]. exists f. auto.
  - intros [Hs (f & Hf & Hd)]. split; [split; [exact Hs|exists f; auto]|]. intros ->. rewrite E in Hf. discriminate Hf.
Qed.

Lemma pend_store_del x id j c' : NoDup (akeys (t_store (t x))) ->
  pend (store_del_f x id) j c' -> pend x j c' /\ j <> id.
Proof.
  unfold pend, store_del_f. cbn [t t_store t_futs set_t t_set_store]. intros Hnd [Hs Hf].
  rewrite aget_del in Hs by exact Hnd. destruct (N.eqb_spec j id) as [->|Hne]; [discriminate Hs|].
  split; [split; assumption|exact Hne].
Qed.

Lemma pend_store_put x id c j c' :
  pend (store_put_f x id c) j c' -> (j = id /\ c' = c) \/ (j <> id /\ pend x j c').
Proof.
  unfold store_put_f.
  assert (G : forall y, t_futs (t y) = t_futs (t y) -> True) by auto. clear G.
  destruct (amap_get (t_store (t x)) id) as [c0|] eqn:E0; [destruct (N.eqb_spec c0 c) as [->|Hc0]|].
  - unfold pend. cbn [t t_store t_futs set_t t_set_store]. intros [Hs Hf]. rewrite aget_put in Hs.
    destruct (N.eqb_spec j id) as [->|Hne]; [injection Hs as <-; left; auto|right; split; [exact Hne|split; assumption]].
  - intros H.
    assert (H' : (j = id /\ c' = c) \/ (j <> id /\ pend (fut_cancel x c0 VNil) j c')).
    { revert H. unfold pend at 1. cbn [t t_store t_futs set_t t_set_store]. intros [Hs Hf]. rewrite aget_put in Hs.
      destruct (N.eqb_spec j id) as [->|Hne]; [injection Hs as <-; left; auto|right; split; [exact Hne|split; assumption]]. }
    destruct H' as [H'|[Hne H']]; [left; exact H'|right]. split; [exact Hne|].
    apply pend_fut_resolve in H'; [|discriminate]. exact (proj1 H').
  - unfold pend. cbn [t t_store t_futs set_t t_set_store]. intros [Hs Hf]. rewrite aget_put in Hs.
    destruct (N.eqb_spec j id) as [->|Hne]; [injection Hs as <-; left; auto|right; split; [exact Hne|split; assumption]].
Qed.

Lemma pend_fut_new x c id kd j c' : pend (fut_new x c id kd) j c' -> c' = c \/ pend x j c'.
Proof.
  unfold pend, fut_new. cbn [t t_store t_futs set_t t_set_futs]. intros [Hs (f & Hf & Hd)].
  rewrite aget_put in Hf. destruct (N.eqb_spec c' c) as [->|]; [left; reflexivity|right].
  split; [exact Hs|exists f; auto].
Qed.

Lemma hp_ext s1 s2 : t s1 = t s2 -> has_pending s1 -> has_pending s2.
Proof. intros E (j & c & H). exists j, c. eapply pend_ext; eassumption. Qed.

Lemma hp_resolve stt x c v : stt <> Pending -> has_pending (fut_resolve stt x c v) -> has_pending x.
Proof. intros Hs (j & c' & H). apply pend_fut_resolve in H; [|exact Hs]. exists j, c'. exact (proj1 H). Qed.
Lemma hp_complete x c v : has_pending (fut_complete x c v) -> has_pending x. Proof. apply hp_resolve. discriminate. Qed.
Lemma hp_cancel x c v : has_pending (fut_cancel x c v) -> has_pending x. Proof. apply hp_resolve. discriminate. Qed.

Lemma hp_del x id : NoDup (akeys (t_store (t x))) -> has_pending (store_del_f x id) -> has_pending x.
Proof. intros Hnd (j & c' & H). apply pend_store_del in H; [|exact Hnd]. exists j, c'. exact (proj1 H). Qed.

Lemma hp_clear x : t_protected (t x) = false -> has_pending (store_clear_f x) -> False.
Proof.
  intros Hp (j & c & [Hs _]). rewrite t_store_store_clear_f, Hp in Hs. discriminate Hs.
Qed.

Lemma hp_connfut x v : has_pending (set_t x (t_set_connfut (t x) v)) -> has_pending x.
Proof. intros (j & c & [Hs Hf]). exists j, c. split; assumption. Qed.

(* the request whose re-check failed leaves nothing behind *)
Lemma hp_reqput_fail s c id kd : NoDup (akeys (t_store (t s))) ->
  has_pending (fut_cancel (store_del_f (store_put_f (fut_new s c id kd) id c) id) c VNil) -> has_pending s.
Proof.
  intros Hnd (j & c' & H).
  apply pend_fut_resolve in H as [H Hc]; [|discriminate].
  apply pend_store_del in H as [H Hj].
  - apply pend_store_put in H as [[Hj' _]|[_ H]]; [contradiction|].
    apply pend_fut_new in H as [->|H]; [contradiction|]. exists j, c'. exact H.
  - rewrite t_store_store_put_f. apply anodup_put. exact Hnd.
Qed.

Definition cu_late (cu : cupc) : bool := match cu with CU3 | CU4 | CU5 => true | _ => false end.
Definition api_clearing (a : option (N * apc)) : bool :=
  match a with Some (_, ACu cu _ _ _ _) => cu_late cu | _ => false end.
Definition dpc_clearing (d : dpc) : bool :=
  match d with DCu cu _ _ => cu_late cu | _ => false end.
Definition clearing (s : st) : Prop := api_clearing (k_api (k s)) || dpc_clearing (k_dpc (k s)) = true.

Definition api_connecting (a : option (N * apc)) : bool :=
  match a with Some (_, AConnDial) | Some (_, AConnReset) | Some (_, AConnSend) => true | _ => false end.
Definition api_connecting2 (a : option (N * apc)) : bool :=
  match a with Some (_, AConnReset) | Some (_, AConnSend) => true | _ => false end.

Definition InvTot (s : st) : Prop :=
  (t_protected (t s) = false -> k_cs (k s) = StDisconnected -> has_pending s -> clearing s) /\
  (api_connecting (k_api (k s)) = true -> k_ppc (k s) = PNone) /\
  (api_connecting2 (k_api (k s)) = true -> k_cs (k s) = StConnecting).

Lemma InvTot_init : InvTot init.
Proof. split; [intros _ H; discriminate H|split; intros H; discriminate H]. Qed.

Ltac simp_in H :=
  repeat (autorewrite with proj in H; cbn [k g t sess set_k set_t set_g set_sess set_cs set_api set_ppc set_dpc set_kpc
     k_cs k_cfg k_api k_pending k_returning k_ppc k_dpc k_kpc k_started
     k_set_cs k_set_cfg k_set_api k_set_pending k_set_returning k_set_ppc k_set_dpc k_set_kpc k_set_started
     mark_dead set_owed finish_call log_tx drop_owed sess_reset fut_new
     t_protected t_store t_futs t_connfut t_set_store t_set_futs t_set_connfut store_del_f] in H).

Ltac peel_hp HP W4 P :=
  repeat first
  [ match type of HP with
    | has_pending (fut_cancel (store_del_f (store_put_f (fut_new _ _ _ _) _ _) _) _ VNil) =>
      apply hp_reqput_fail in HP; [|exact W4]
    | has_pending (fut_cancel _ _ _) => apply hp_cancel in HP
    | has_pending (fut_complete _ _ _) => apply hp_complete in HP
    | has_pending (store_clear_f _) => exfalso; apply hp_clear in HP; [exact HP|simp_in P; exact P]
    | has_pending (store_del_f _ _) => apply hp_del in HP; [|autorewrite with proj; exact W4]
    | has_pending (set_t ?x (t_set_connfut _ _)) => apply hp_connfut in HP
    | has_pending (?f ?x) => apply (hp_ext _ x) in HP; [|reflexivity]
    | has_pending (?f ?x _) => apply (hp_ext _ x) in HP; [|reflexivity]
    | has_pending (?f ?x _ _) => apply (hp_ext _ x) in HP; [|reflexivity]
    | has_pending (?f ?x _ _ _) => apply (hp_ext _ x) in HP; [|reflexivity]
    end ].

Lemma conn2_conn a : api_connecting2 a = true -> api_connecting a = true.
Proof. destruct a as [[? []]|]; cbn; auto. Qed.

Ltac bool_fin :=
  repeat match goal with
  | H : context [api_clearing (k_api (k ?s))] |- _ => destruct (api_clearing (k_api (k s)))
  | H : context [dpc_clearing (k_dpc (k ?s))] |- _ => destruct (dpc_clearing (k_dpc (k s)))
  | |- context [api_clearing (k_api (k ?s))] => destruct (api_clearing (k_api (k s)))
  | |- context [dpc_clearing (k_dpc (k ?s))] => destruct (dpc_clearing (k_dpc (k s)))
  end;
  cbn [orb] in *; first [reflexivity | assumption | discriminate].

Lemma InvTot_step s e s' : InvWf s -> InvCl s -> InvTot s -> step s e = Some s' -> InvTot s'.
Proof.
  intros (_ & _ & _ & W4 & _) (_ & _ & L3) (I1 & I2 & I3) H.
  destruct e.
  all: step_cases H.
  all: try (destruct cu; cbn [cu_hidden] in *; try discriminate;
            match goal with E : Some _ = Some _ |- _ => injection E as E; subst end).
  all: unfold_ctl; dgoal.
  all: unfold InvTot, clearing.
  all: split; [|split].
  (* the two small clauses *)
  all: try solve [simp_proj; clean_eqs; cbn [api_connecting api_connecting2] in *;
                  first [ assumption | intros X; discriminate X
                        | intros X; first [apply I2 in X|apply I3 in X]; first [assumption | discriminate X | reflexivity]
                        | intros _; reflexivity ]].
  all: try solve [simp_proj; clean_eqs; cbn [api_connecting api_connecting2] in *;
                  intros X; first [apply I2 in X|apply I3 in X; apply I2 in X];
                  destruct (L3 X) as [Y1 Y2]; first [discriminate Y1|discriminate Y2]].
  all: try solve [simp_proj; clean_eqs; intros X; apply conn2_conn in X; apply I2 in X;
                  first [discriminate X | destruct (L3 X) as [Y1 Y2]; first [discriminate Y1|discriminate Y2]]].
  (* the main clause *)
  all: try solve [
    let P := fresh "P" in let C := fresh "C" in let HP := fresh "HP" in
    intros P C HP; peel_hp HP W4 P; simp_in P; simp_in C;
    first [ discriminate C
          | rewrite (I3 eq_refl) in C; discriminate C
          | match goal with E : negb (is_connected _) = false |- _ => simp_in E; rewrite C in E; discriminate E end
          | simp_proj; cbn [api_clearing dpc_clearing cu_late orb]; reflexivity
          | simp_proj; clean_eqs; cbn [api_clearing dpc_clearing cu_late orb]; first [reflexivity|apply orb_true_r]
          | specialize (I1 P C HP); unfold clearing in I1; simp_proj;
            repeat match goal with E : _ = _ |- _ => progress simp_in E end; clean_eqs;
            cbn [api_clearing dpc_clearing cu_late orb] in *; bool_fin ] ].
Qed.

Definition InvG (s : st) : Prop := InvF s /\ InvTot s.

Lemma InvG_reach es s : run step init es = Some s -> InvG s.
Proof.
  apply reach_inv.
  - split; [|exact InvTot_init]. split; [|exact InvCl_init]. split; [|exact InvRx_init]. split; [|exact InvSbs_init].
    split; [apply InvWf_init|split; [apply InvCtl_init|split; [apply InvOwed_init|apply InvHs_init]]].
  - intros s0 e s1 (((((HW & HC & HO & HH) & HS) & HR) & HL) & HT) Hs. split; [split; [split; [split|]|]|].
    + split; [eapply InvWf_step; eassumption|].
      split; [eapply InvCtl_step; eassumption|].
      split; [eapply InvOwed_step; eassumption|].
      eapply InvHs_step; eassumption.
    + eapply InvSbs_step; eassumption.
    + eapply InvRx_step; eassumption.
    + eapply InvCl_step; eassumption.
    + eapply InvTot_step; eassumption.
Qed.

Theorem future_total : C09_future_total_statement.
Proof.
  intros es s Hr. destruct (InvG_reach _ _ Hr) as (_ & (I1 & _)). split.
  - intros (Hapi & _ & Hd & _) Hcs Hprot id c f Hs Hf.
    destruct (f_done (cf_fut f)) eqn:Ed; [reflexivity|exfalso].
    assert (HP : has_pending s) by (exists id, c; split; [exact Hs|exists f; split; [exact Hf|exact Ed]]).
    specialize (I1 Hprot Hcs HP). unfold clearing in I1. rewrite Hapi in I1. cbn [api_clearing orb] in I1.
    destruct Hd as [Hd|Hd]; rewrite Hd in I1; discriminate I1.
  - intros c err Hapi Hst. cbv beta iota zeta delta [step api_hidden]. rewrite Hapi, Hst. cbn. eexists. reflexivity.
Qed.

