(* ServiceTheorems.v — the statements of C17 / C15_service_fifo, over every accepted trace of
   the service monitor, assembled from the invariants. *)
From Coq Require Import List NArith Bool Lia Sorted.
From GM Require Import Base.Lts Codec.Packet Client.Service Client.ServiceSpec Client.ServiceLemmas Client.ServiceProofs
  Client.ServiceTags Client.ServiceStop Client.ServiceFutures Client.ServiceSet.
Import ListNotations.
Open Scope N_scope.

Record inv_all (s : state) : Prop := {
  ia_ctl  : inv_ctl s;
  ia_fifo : inv_fifo s;
  ia_tags : inv_tags s;
  ia_pend : inv_pend s
}.

Lemma inv_all_reach c s : reach c s -> inv_all s.
Proof.
  apply reach_inv.
  - constructor; [apply inv_ctl_init|apply inv_fifo_init|apply inv_tags_init|apply inv_pend_init].
  - intros s0 e s1 [I1 I2 I3 I4] H. constructor.
    + eapply inv_ctl_step; eauto.
    + eapply inv_fifo_step; eauto.
    + eapply inv_tags_step; eauto.
    + eapply inv_pend_step; eauto.
Qed.

(* each invariant by itself (keeps the dependency cone of a theorem small) *)
Lemma reach_ctl c s : reach c s -> inv_ctl s.
Proof. apply reach_inv; [apply inv_ctl_init|]. intros; eapply inv_ctl_step; eauto. Qed.

Lemma reach_fifo c s : reach c s -> inv_fifo s.
Proof. apply reach_inv; [apply inv_fifo_init|]. intros; eapply inv_fifo_step; eauto. Qed.

Lemma reach_tags c s : reach c s -> inv_fifo s /\ inv_tags s.
Proof.
  apply (reach_inv (fun s => inv_fifo s /\ inv_tags s)); [split; [apply inv_fifo_init|apply inv_tags_init]|].
  intros s0 e s1 [I J] H. split; [eapply inv_fifo_step; eauto|eapply inv_tags_step; eauto].
Qed.

Lemma reach_pend c s : reach c s -> inv_ctl s /\ inv_pend s.
Proof.
  apply (reach_inv (fun s => inv_ctl s /\ inv_pend s)); [split; [apply inv_ctl_init|apply inv_pend_init]|].
  intros s0 e s1 [C P] H. split; [eapply inv_ctl_step; eauto|eapply inv_pend_step; eauto].
Qed.

Lemma run_reach c es s : run step (init c) es = Some s -> reach c s.
Proof. intros H; exists es; exact H. Qed.

(* ---------------------------------------------------------------- resubscribe set *)

Lemma resub_list_spec c s : reach c s -> resub_list (subs s) = spec_resub (map snd (dispatched s)).
Proof.
  intros R. pose proof (reach_fifo c s R) as I. unfold resub_list, spec_resub. rewrite (if_subs s I). reflexivity.
Qed.

Theorem resub_set_thm c es s id l ok s' :
  run step (init c) es = Some s -> step s (EResubSend id l ok) = Some s' ->
  l = spec_resub (map snd (dispatched s)) /\ is_resub_of (map snd (dispatched s)) l.
Proof.
  intros R H. apply run_reach in R. pose proof (resub_list_spec c s R) as Hs.
  assert (Hl : l = resub_list (subs s)).
  { unfold step in H. destruct (sp s); try discriminate.
    destruct (list_eqb sub_eqb l (resub_list (subs s))) eqn:E; [|discriminate]. apply subs_eqb_eq; exact E. }
  split; [congruence|]. rewrite Hl, Hs. apply spec_resub_is_resub.
Qed.

(* once the queue has drained (and no Stop(true) removed commands from it) the set is the one that results
   from ALL subscribe/unsubscribe calls accepted into the queue, in the order they were accepted *)
Theorem resub_set_drained_thm c es s :
  run step (init c) es = Some s ->
  resub_list (subs s) = spec_resub (map snd (dispatched s)) /\
  (drained s = [] -> queue s = [] ->
   resub_list (subs s) = spec_resub (map snd (issued s)) /\ is_resub_of (map snd (issued s)) (resub_list (subs s))).
Proof.
  intros R. apply run_reach in R. pose proof (resub_list_spec c s R) as Hs. split; [exact Hs|].
  intros Hd Hq. pose proof (reach_fifo c s R) as I.
  pose proof (if_all s I Hd) as Ha. rewrite Hq, app_nil_r in Ha. rewrite Ha.
  split; [exact Hs|]. rewrite Hs. apply spec_resub_is_resub.
Qed.

(* ---------------------------------------------------------------- order *)

Definition fifo_order (s : state) : Prop :=
  Subseq (dispatched s ++ queue s) (issued s) /\
  StronglySorted N.lt (map fst (issued s)) /\
  (drained s = [] -> issued s = dispatched s ++ queue s).

Theorem fifo_order_thm c es s : run step (init c) es = Some s -> fifo_order s.
Proof.
  intros R. apply run_reach in R. pose proof (reach_fifo c s R) as I.
  split; [exact (if_sub s I)|]. split; [exact (if_sorted s I)|exact (if_all s I)].
Qed.

(* every dispatched command was dispatched by a dispatcher entered after >= 1 successful connect(+resubscribe);
   one that was queued while no dispatcher was running, by a dispatcher entered strictly later *)
Definition offline_waits (s : state) : Prop :=
  forall n r, In (n, r) (dtags s) ->
  1 <= r /\ r <= ready s /\
  forall t, In (n, t) (itags s) -> i_ready t <= r /\ (i_online t = false -> i_ready t < r).

Theorem offline_waits_thm c es s : run step (init c) es = Some s -> offline_waits s.
Proof.
  intros R. apply run_reach in R. destruct (reach_tags c s R) as [_ J]. exact (it_disp s J).
Qed.

(* the tags name the commands of the ghost history *)
Theorem tags_name_commands c es s :
  run step (init c) es = Some s ->
  map fst (itags s) = map fst (issued s) /\ map fst (dtags s) = map fst (dispatched s).
Proof.
  intros R. apply run_reach in R. pose proof (reach_fifo c s R) as I. split; [exact (if_itags s I)|exact (if_dtags s I)].
Qed.

(* ---------------------------------------------------------------- stop *)

Theorem stop_thm c es s s' :
  run step (init c) es = Some s -> step s (EStopRet true) = Some s' ->
  (* Stop returns only when the supervisor has ended; afterwards there is none *)
  sp s = SEnded /\ sp s' = SIdle /\ ap s' = ANone /\ started s' = false /\ dying s' = false /\
  (* clear = true: no command future is pending, nothing is queued, the store is empty *)
  (ap s = AStop true true ->
     (forall n st, fut_get n (futs s') = Some st -> st <> FPending) /\ queue s' = [] /\ store s' = []) /\
  (* clear = false: futures, queue and store are untouched *)
  (ap s = AStop false true -> futs s' = futs s /\ queue s' = queue s /\ store s' = store s) /\
  (* Start is enabled and yields a fresh supervisor *)
  (exists s'', step s' EStartCall = Some s'' /\ sp s'' = STop true /\ started s'' = true /\ ap s'' = AStart true /\
               kill s'' = false /\ dying s'' = false /\ gen s'' = gen s' + 1).
Proof.
  intros R H. apply run_reach in R. destruct (reach_pend c s R) as [C P].
  unfold step in H.
  destruct (ap s) as [| |cl ok'|] eqn:Eap; try discriminate.
  destruct (negb (eqb true ok')) eqn:Eok; [discriminate|].
  assert (ok' = true) by (destruct ok'; [reflexivity|discriminate]). subst ok'.
  destruct (sp s) eqn:Esp; try discriminate.
  pose proof (ic_stop s C cl true Eap) as Hst.
  set (s1 := St (cap s) (started s) false (kill s) (protected s) SIdle ANone (subs s) (queue s) (store s) (futs s) (nextn s)
                (issued s) (itags s) (dispatched s) (dtags s) (drained s) (resubs s) (ready s) (gen s)) in *.
  assert (P1 : inv_pend s1).
  { apply (px_frame [] s); [reflexivity| |exact P]. unfold holders; cbn. rewrite Eap, Esp. cbn. intros m Hm. exact Hm. }
  destruct cl; injection H as <-.
  - split; [reflexivity|]. cbn. repeat (split; [first [reflexivity|exact Hst]|]).
    split; [|split].
    + intros _. split; [|split; reflexivity].
      intros n st Hg. exact (stop_clear_none s1 P1 eq_refl eq_refl n st Hg).
    + intros Hc; discriminate Hc.
    + eexists. unfold step. cbn. rewrite Hst. split; [reflexivity|]. cbn. repeat split.
  - split; [reflexivity|]. cbn. repeat (split; [first [reflexivity|exact Hst]|]).
    split; [|split].
    + intros Hc; discriminate Hc.
    + intros _. repeat split.
    + eexists. unfold step. cbn. rewrite Hst. split; [reflexivity|]. cbn. repeat split.
Qed.

(* no supervisor exists while the service is stopped (and no Stop is in progress) *)
Theorem no_supervisor_when_stopped c es s :
  run step (init c) es = Some s -> (sp s = SIdle <-> (started s = false /\ stopping s = false)).
Proof. intros R. apply run_reach in R. exact (ic_idle s (reach_ctl c s R)). Qed.

(* the accounting behind the Stop theorem: a pending future always has a holder Stop(true) reaches *)
Theorem pending_held c es s n :
  run step (init c) es = Some s -> fut_get n (futs s) = Some FPending -> In n (holders s).
Proof.
  intros R Hp. apply run_reach in R. destruct (reach_pend c s R) as [_ P]. destruct (P n Hp) as [H|[]]. exact H.
Qed.

(* ---------------------------------------------------------------- combined statements for Props/C17.v *)

Theorem fifo_thm c es s : run step (init c) es = Some s -> fifo_order s /\ offline_waits s.
Proof. intros R. split; [eapply fifo_order_thm; eauto|eapply offline_waits_thm; eauto]. Qed.

(* the dispatcher is entered (ready + 1) only by a connect with nothing to resubscribe or by the acknowledgement
   of the pending resubscribe request; commands are handed out by a running dispatcher only *)
Theorem dispatcher_thm c es s e s' :
  run step (init c) es = Some s -> step s e = Some s' ->
  (ready s' = ready s \/
   (ready s' = ready s + 1 /\ sp s' = SDispatch /\
    ((exists b, e = EOnline b /\ sp s = SConnecting /\ resub_list (subs s) = []) \/
     (exists id, e = EAck id /\ sp s = SResubWait id /\ store_get id (store s) = Some SResub)))) /\
  (forall id b ok, e = EDispSend id b ok -> sp s = SDispatch) /\
  (forall k, e = EDispErr k -> sp s = SDispatch \/ exists n, sp s = SDispFailing n k).
Proof.
  intros _ H. split; [exact (ready_step s e s' H)|exact (dispatch_needs_dispatcher s e s' H)].
Qed.

Theorem futures_thm c es s e s' n :
  run step (init c) es = Some s -> step s e = Some s' ->
  (* a pending future is resolved only in the ways listed by `explains` *)
  (forall st, fut_get n (futs s) = Some FPending -> fut_get n (futs s') = Some st -> st <> FPending -> explains s e n st) /\
  (* a resolved future never changes *)
  (forall st, fut_get n (futs s) = Some st -> st <> FPending -> fut_get n (futs s') = Some st) /\
  (* a future is never forgotten *)
  (fut_get n (futs s) <> None -> fut_get n (futs s') <> None) /\
  (* it is attached, under packet id `id`, only to the client future of its own request *)
  (forall id, store_get id (store s') = Some (SCmd n) ->
     store_get id (store s) = Some (SCmd n) \/
     exists b b', e = EDispSend id b true /\ dispatching s n b' /\ body_eqb b b' = true /\ is_qos0 b' = false).
Proof.
  intros _ H. split; [|split; [|split]].
  - intros st H1 H2 H3. eapply futures_step; eauto.
  - intros st H1 H2. eapply futures_stable; eauto.
  - eapply futures_kept; eauto.
  - intros id Hg. eapply attach_step; eauto.
Qed.

(* while a supervisor exists (so a client may exist and run its cleanup), the shared store is protected:
   a connection loss cannot cancel the futures kept in it *)
Theorem store_protected c es s : run step (init c) es = Some s -> sp s <> SIdle -> protected s = true.
Proof. intros R. apply run_reach in R. exact (ic_prot s (reach_ctl c s R)). Qed.
