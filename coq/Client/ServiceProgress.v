(* ServiceProgress.v — no control point traps the supervisor: from every one, a finite sequence of events (the
   backoff elapses, the connect succeeds, the resubscribe request is sent and acknowledged) leads into the dispatcher.
   ("the service reconnects": the possibility; that the timers fire and the peer answers is the environment's part.) *)
From Coq Require Import List NArith Bool Lia.
From GM Require Import Base.Lts Codec.Packet Client.Service Client.ServiceSpec Client.ServiceLemmas Client.ServiceSet.
Import ListNotations.
Open Scope N_scope.

Definition reaches_dispatch (s : state) : Prop := exists es s', run step s es = Some s' /\ sp s' = SDispatch.

Lemma rd_step s e s1 : step s e = Some s1 -> reaches_dispatch s1 -> reaches_dispatch s.
Proof. intros H (es & s' & Hr & Hs). exists (e :: es), s'. cbn [run]. rewrite H. auto. Qed.

Lemma rd_here s : sp s = SDispatch -> reaches_dispatch s.
Proof. intros H. exists [], s. auto. Qed.

Lemma rd_resubcall s : sp s = SResubCall -> reaches_dispatch s.
Proof.
  intros H.
  eapply (rd_step s (EResubSend 1 (resub_list (subs s)) true)).
  { unfold step. rewrite H, subs_eqb_refl. reflexivity. }
  eapply (rd_step _ (EAck 1)).
  { unfold step. cbn. unfold put_entry; cbn. rewrite store_get_put, N.eqb_refl. reflexivity. }
  apply rd_here. reflexivity.
Qed.

Lemma rd_connecting s : sp s = SConnecting -> reaches_dispatch s.
Proof.
  intros H. destruct (resub_list (subs s)) eqn:E.
  - eapply (rd_step s (EOnline false)); [unfold step; rewrite H, E; reflexivity|]. apply rd_here. reflexivity.
  - eapply (rd_step s (EOnline false)); [unfold step; rewrite H, E; reflexivity|]. apply rd_resubcall. reflexivity.
Qed.

Lemma rd_backoff s : sp s = SBackoff -> reaches_dispatch s.
Proof.
  intros H. eapply (rd_step s ENext); [unfold step; rewrite H; reflexivity|]. apply rd_connecting. reflexivity.
Qed.

Lemma rd_top s b : sp s = STop b -> reaches_dispatch s.
Proof.
  intros H. destruct b.
  - eapply (rd_step s ENext); [unfold step; rewrite H; reflexivity|]. apply rd_connecting. reflexivity.
  - eapply (rd_step s EBackoff); [unfold step; rewrite H; reflexivity|]. apply rd_backoff. reflexivity.
Qed.

Theorem reconnect_possible s :
  sp s <> SIdle -> sp s <> SEnded -> sp s <> SClosing true -> reaches_dispatch s.
Proof.
  intros H1 H2 H3. destruct (sp s) as [|b| | | | |id| | |n k|d|] eqn:E; try contradiction.
  - eapply rd_top; eauto.
  - apply rd_backoff; auto.
  - apply rd_connecting; auto.
  - apply rd_resubcall; auto.
  - eapply (rd_step s (EResubFail CErr)); [unfold step; rewrite E; reflexivity|]. eapply rd_top; reflexivity.
  - eapply (rd_step s (EResubFail CTimeout)); [unfold step; rewrite E; reflexivity|]. eapply rd_top; reflexivity.
  - eapply (rd_step s (EResubFail CCancelled)); [unfold step; rewrite E; reflexivity|]. eapply rd_top; reflexivity.
  - apply rd_here; auto.
  - eapply (rd_step s (EDispErr k)).
    { unfold step. rewrite E. assert (Hk : kind_eqb k k = true) by (destruct k; reflexivity). rewrite Hk. reflexivity. }
    eapply (rd_step _ EOffline); [reflexivity|]. eapply rd_top; reflexivity.
  - destruct d; [contradiction H3; reflexivity|].
    eapply (rd_step s EOffline); [unfold step; rewrite E; reflexivity|]. eapply rd_top; reflexivity.
Qed.
