(* ClientInvWf.v — the association lists of the state have distinct keys. *)
From Coq Require Import List NArith Bool Lia.
From GM Require Import Base.Lts Codec.Packet Session.Ids Session.Store Client.Future Client.Client
  Client.ClientTactics Client.AMap.
Import ListNotations.
Open Scope N_scope.

(* what the future helpers do to the tables *)
Lemma t_store_fut_resolve stt s c v : t_store (t (fut_resolve stt s c v)) = t_store (t s).
Proof. unfold fut_resolve. destruct (fut_get s c); reflexivity. Qed.
Lemma t_protected_fut_resolve stt s c v : t_protected (t (fut_resolve stt s c v)) = t_protected (t s).
Proof. unfold fut_resolve. destruct (fut_get s c); reflexivity. Qed.
Lemma t_connfut_fut_resolve stt s c v : t_connfut (t (fut_resolve stt s c v)) = t_connfut (t s).
Proof. unfold fut_resolve. destruct (fut_get s c); reflexivity. Qed.
Lemma fkeys_fut_resolve stt s c v : akeys (t_futs (t (fut_resolve stt s c v))) = akeys (t_futs (t s)).
Proof.
  unfold fut_resolve. destruct (fut_get s c) eqn:E; [|reflexivity]. cbn [t t_futs set_t t_set_futs].
  rewrite akeys_put. unfold fut_get in E. rewrite E. reflexivity.
Qed.

Lemma fold_cancel_store l s :
  t_store (t (fold_left (fun acc (ic : N * N) => fut_cancel acc (snd ic) VNil) l s)) = t_store (t s).
Proof. revert s; induction l as [|x l IH]; intros s; cbn; [reflexivity|]. rewrite IH. apply t_store_fut_resolve. Qed.
Lemma fold_cancel_protected l s :
  t_protected (t (fold_left (fun acc (ic : N * N) => fut_cancel acc (snd ic) VNil) l s)) = t_protected (t s).
Proof. revert s; induction l as [|x l IH]; intros s; cbn; [reflexivity|]. rewrite IH. apply t_protected_fut_resolve. Qed.
Lemma fold_cancel_connfut l s :
  t_connfut (t (fold_left (fun acc (ic : N * N) => fut_cancel acc (snd ic) VNil) l s)) = t_connfut (t s).
Proof. revert s; induction l as [|x l IH]; intros s; cbn; [reflexivity|]. rewrite IH. apply t_connfut_fut_resolve. Qed.
Lemma fold_cancel_fkeys l s :
  akeys (t_futs (t (fold_left (fun acc (ic : N * N) => fut_cancel acc (snd ic) VNil) l s))) = akeys (t_futs (t s)).
Proof. revert s; induction l as [|x l IH]; intros s; cbn; [reflexivity|]. rewrite IH. apply fkeys_fut_resolve. Qed.

Lemma fkeys_store_clear_f s : akeys (t_futs (t (store_clear_f s))) = akeys (t_futs (t s)).
Proof. unfold store_clear_f. destruct (t_protected (t s)); [reflexivity|]. cbn. apply fold_cancel_fkeys. Qed.
Lemma t_store_store_clear_f s :
  t_store (t (store_clear_f s)) = if t_protected (t s) then t_store (t s) else [].
Proof. unfold store_clear_f. destruct (t_protected (t s)); reflexivity. Qed.
Lemma t_protected_store_clear_f s : t_protected (t (store_clear_f s)) = t_protected (t s).
Proof. unfold store_clear_f. destruct (t_protected (t s)) eqn:E; [exact E|]. cbn. rewrite fold_cancel_protected. exact E. Qed.
Lemma t_connfut_store_clear_f s : t_connfut (t (store_clear_f s)) = t_connfut (t s).
Proof. unfold store_clear_f. destruct (t_protected (t s)); [reflexivity|]. cbn. apply fold_cancel_connfut. Qed.

Lemma fkeys_store_put_f s id c : akeys (t_futs (t (store_put_f s id c))) = akeys (t_futs (t s)).
Proof.
  unfold store_put_f, fut_cancel. destruct (amap_get (t_store (t s)) id) as [c'|]; [destruct (c' =? c)|]; cbn [t t_futs t_store t_protected t_connfut set_t t_set_store]; try reflexivity.
  apply fkeys_fut_resolve.
Qed.
Lemma t_store_store_put_f s id c : t_store (t (store_put_f s id c)) = amap_put (t_store (t s)) id c.
Proof.
  unfold store_put_f, fut_cancel. destruct (amap_get (t_store (t s)) id) as [c'|]; [destruct (c' =? c)|]; cbn [t t_futs t_store t_protected t_connfut set_t t_set_store]; try reflexivity.
  rewrite t_store_fut_resolve. reflexivity.
Qed.
Lemma t_protected_store_put_f s id c : t_protected (t (store_put_f s id c)) = t_protected (t s).
Proof.
  unfold store_put_f, fut_cancel. destruct (amap_get (t_store (t s)) id) as [c'|]; [destruct (c' =? c)|]; cbn [t t_futs t_store t_protected t_connfut set_t t_set_store]; try reflexivity.
  apply t_protected_fut_resolve.
Qed.
Lemma t_connfut_store_put_f s id c : t_connfut (t (store_put_f s id c)) = t_connfut (t s).
Proof.
  unfold store_put_f, fut_cancel. destruct (amap_get (t_store (t s)) id) as [c'|]; [destruct (c' =? c)|]; cbn [t t_futs t_store t_protected t_connfut set_t t_set_store]; try reflexivity.
  apply t_connfut_fut_resolve.
Qed.

Global Hint Rewrite t_store_fut_resolve t_protected_fut_resolve t_connfut_fut_resolve fkeys_fut_resolve
  fkeys_store_clear_f t_store_store_clear_f t_protected_store_clear_f t_connfut_store_clear_f
  fkeys_store_put_f t_store_store_put_f t_protected_store_put_f t_connfut_store_put_f : proj.

Lemma t_store_fut_complete s c v : t_store (t (fut_complete s c v)) = t_store (t s). Proof. apply t_store_fut_resolve. Qed.
Lemma t_store_fut_cancel s c v : t_store (t (fut_cancel s c v)) = t_store (t s). Proof. apply t_store_fut_resolve. Qed.
Lemma t_protected_fut_complete s c v : t_protected (t (fut_complete s c v)) = t_protected (t s). Proof. apply t_protected_fut_resolve. Qed.
Lemma t_protected_fut_cancel s c v : t_protected (t (fut_cancel s c v)) = t_protected (t s). Proof. apply t_protected_fut_resolve. Qed.
Lemma t_connfut_fut_complete s c v : t_connfut (t (fut_complete s c v)) = t_connfut (t s). Proof. apply t_connfut_fut_resolve. Qed.
Lemma t_connfut_fut_cancel s c v : t_connfut (t (fut_cancel s c v)) = t_connfut (t s). Proof. apply t_connfut_fut_resolve. Qed.
Lemma fkeys_fut_complete s c v : akeys (t_futs (t (fut_complete s c v))) = akeys (t_futs (t s)). Proof. apply fkeys_fut_resolve. Qed.
Lemma fkeys_fut_cancel s c v : akeys (t_futs (t (fut_cancel s c v))) = akeys (t_futs (t s)). Proof. apply fkeys_fut_resolve. Qed.
Global Hint Rewrite t_store_fut_complete t_store_fut_cancel t_protected_fut_complete t_protected_fut_cancel
  t_connfut_fut_complete t_connfut_fut_cancel fkeys_fut_complete fkeys_fut_cancel : proj.

Definition InvWf (s : st) : Prop :=
  NoDup (akeys (s_in (sess s))) /\ NoDup (akeys (s_out (sess s))) /\
  NoDup (akeys (g_hs (g s))) /\ NoDup (akeys (t_store (t s))) /\ NoDup (akeys (t_futs (t s))).

Lemma InvWf_init : InvWf init.
Proof. repeat split; constructor. Qed.

Lemma nodup_store_save st p : NoDup (akeys st) -> NoDup (akeys (store_save st p)).
Proof. unfold store_save. destruct (get_id p); [|auto]. rewrite store_put_amap. apply anodup_put. Qed.
Lemma nodup_store_delete st i : NoDup (akeys st) -> NoDup (akeys (store_delete st i)).
Proof. rewrite store_delete_amap. apply anodup_del. Qed.
Lemma nodup_store_setdup st p : NoDup (akeys st) -> NoDup (akeys (store_setdup st p)).
Proof.
  unfold store_setdup. destruct p; auto. destruct (store_lookup st id) as [[]|]; auto.
  rewrite store_put_amap. apply anodup_put.
Qed.
Lemma nodup_hs_open h id : NoDup (akeys h) -> NoDup (akeys (hs_open h id)).
Proof. unfold hs_open. destruct (amap_get h id); [auto|apply anodup_put]. Qed.
Lemma nodup_hs_incr h id : NoDup (akeys h) -> NoDup (akeys (hs_incr h id)).
Proof. unfold hs_incr. destruct (amap_get h id); apply anodup_put. Qed.

Lemma InvWf_step s e s' : InvWf s -> step s e = Some s' -> InvWf s'.
Proof.
  intros (W1 & W2 & W3 & W4 & W5) H.
  destruct e.
  all: step_cases H.
  all: try (destruct cu; cbn [cu_hidden] in *; try discriminate;
            match goal with E : Some _ = Some _ |- _ => injection E as E; subst end).
  all: unfold_ctl; simp_proj; dgoal; simp_proj.
  all: unfold InvWf; simp_proj.
  all: repeat split;
       first [ assumption | constructor
             | apply nodup_store_save; assumption | apply nodup_store_delete; assumption
             | apply nodup_store_setdup; assumption | apply nodup_hs_open; assumption
             | apply nodup_hs_incr; assumption | apply anodup_put; assumption | apply anodup_del; assumption
             | apply anodup_del; apply anodup_put; assumption
             | destruct (t_protected (t s)); [assumption|constructor] ].
Qed.

Lemma InvWf_reach es s : run step init es = Some s -> InvWf s.
Proof. apply reach_inv; [exact InvWf_init|exact InvWf_step]. Qed.
