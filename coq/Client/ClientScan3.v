(* ClientScan3.v — soundness of scan_kept (TraceScan.v) on accepted traces. *)
From Coq Require Import List NArith Bool Lia.
From GM Require Import Base.Lts Codec.Packet Session.Ids Session.Store
  Client.Future Client.Client Client.ClientSpec Client.TraceScan
  Client.ClientTactics Client.AMap Client.PacketEq Client.ClientInvCtl Client.ClientInvOwed Client.ClientInvWf
  Client.ClientInvHs Client.ClientInvSbs Client.ClientC10 Client.ClientInvRx Client.ClientKept Client.ClientTotal.
Import ListNotations.
Open Scope N_scope.

Definition krel (x : option packet) (p : ppc) : Prop :=
  match p with
  | PAckDel q => x = Some q
  | PRecSave id => x = Some (Pubrec id)
  | _ => True
  end.

Lemma kept_sim s e s' x : InvCtl s -> InvOwed s -> InvRx s -> krel x (k_ppc (k s)) -> step s e = Some s' ->
  exists x', kept_step x e = Some x' /\ krel x' (k_ppc (k s')).
Proof.
  intros (_ & _ & C3 & _) (_ & O2) R HR H. unfold InvRx in R.
  destruct e.
  all: step_leaves H.
  all: simp_proj; clean_eqs.
  all: repeat match goal with
       | E : (?a =? ?b) = true |- _ => apply N.eqb_eq in E; subst
       | E : option_eqb N.eqb _ _ = true |- _ => apply option_N_eqb_eq in E
       end.
  all: cbn [krel rx_pc] in *.
  all: try solve [eexists; split; [reflexivity|first [exact HR | exact I | reflexivity]]].
  all: try solve [subst x; cbn [kept_step]; rewrite ?N.eqb_refl;
                  try (destruct R as [_ Hack]; erewrite is_ack_for_of by eassumption);
                  eexists; split; [reflexivity|exact I]].
  all: try solve [specialize (O2 _ eq_refl); destruct after; cbn [after_pc] in O2; try contradiction;
                  (eexists; split; [reflexivity|exact I])].
Qed.

Lemma scan_kept_gen es : forall pre s0 s x,
  run step init pre = Some s0 -> run step s0 es = Some s -> krel x (k_ppc (k s0)) ->
  exists x', scan_kept x es = Some x' /\ krel x' (k_ppc (k s)).
Proof.
  induction es as [|e es IH]; intros pre s0 s x Hpre Hrun Hrel.
  - cbn in Hrun. injection Hrun as <-. exists x. split; [reflexivity|exact Hrel].
  - cbn [run] in Hrun. destruct (step s0 e) as [s1|] eqn:Hs; [|discriminate Hrun].
    assert (Hpre' : run step init (pre ++ [e]) = Some s1).
    { rewrite run_app, Hpre. cbn [run]. rewrite Hs. reflexivity. }
    destruct (InvF_reach _ _ Hpre) as ((((_ & HC & HO & _) & _) & HR) & _).
    destruct (kept_sim _ _ _ _ HC HO HR Hrel Hs) as (x1 & Hx1 & Hrel1).
    cbn [scan_kept]. rewrite Hx1. eapply IH; eassumption.
Qed.

(* every accepted trace passes: an outgoing entry is deleted only on an acknowledgement carrying its id,
   replaced by the PUBREL only on PUBREC *)
Theorem scan_kept_accepted es s : run step init es = Some s ->
  exists x, scan_kept None es = Some x /\ krel x (k_ppc (k s)).
Proof. intros H. exact (scan_kept_gen es [] init s None eq_refl H I). Qed.

