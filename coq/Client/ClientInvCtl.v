(* ClientInvCtl.v — control invariant of the die body; C10_no_ack_on_error. *)
From Coq Require Import List NArith Bool Lia.
From GM Require Import Base.Lts Codec.Packet Session.Ids Session.Store Client.Future Client.Client Client.ClientSpec Client.ClientTactics.
Import ListNotations.
Open Scope N_scope.

Definition dead_ppc (p : ppc) : Prop := p = PInDie \/ p = PExited.
Definition dead_after (d : dpc) : Prop :=
  match d with DCu _ _ (DAProc a) | DCb (DAProc a) => a = PExited | _ => True end.
Definition proc_owned (d : dpc) : bool :=
  match d with DCu _ _ (DAProc _) | DCb (DAProc _) => true | _ => false end.
Definition after_ok (d : dpc) : Prop :=
  match d with DCu _ _ (DAProc a) | DCb (DAProc a) => a <> PNone | _ => True end.
(* the die body is still going to call conn.Close *)
Definition closing (d : dpc) : Prop :=
  match d with DCu CU1 true _ | DCu CU2 true _ | DCu CU3 true _ => True | _ => False end.

Definition InvCtl (s : st) : Prop :=
  (g_cbfail (g s) = true -> dead_ppc (k_ppc (k s)) /\ dead_after (k_dpc (k s))) /\
  (k_dpc (k s) = DNone \/ g_dead (g s) = true \/ closing (k_dpc (k s))) /\
  (proc_owned (k_dpc (k s)) = true -> k_ppc (k s) = PInDie) /\
  (k_ppc (k s) = PNone -> g_cbfail (g s) = false) /\
  after_ok (k_dpc (k s)) /\
  (k_ppc (k s) = PErrChk -> g_dead (g s) = true) /\
  (forall sp, k_ppc (k s) = PConnDone sp (Some false) -> g_dead (g s) = true).

Lemma InvCtl_init : InvCtl init.
Proof. repeat split; cbn; try discriminate; auto. Qed.

Lemma InvCtl_step s e s' : InvCtl s -> step s e = Some s' -> InvCtl s'.
Proof.
  intros (I1 & I2 & I3 & I4 & I5 & I6 & I7) H.
  destruct e.
  all: step_leaves H.
  all: unfold InvCtl, dead_ppc in *; simp_proj; clean_eqs.
  all: cbn [dead_after proc_owned closing after_ok] in *.
  all: try solve [intuition (try discriminate; try congruence)].
  all: destruct (k_dpc (k s)) as [|cu0 cc0 [a0|]|[a1|]|] eqn:D; cbn [dead_after proc_owned closing after_ok] in *.
  all: try solve [intuition (try discriminate; try congruence)].
  all: try solve [repeat split; intros; try discriminate; try congruence; eauto].
  all: autorewrite with proj in *; try congruence.
  all: match goal with H : k_ppc _ = PConnDone _ (Some ?b) |- _ => destruct b end; cbn [closing] in *.
  all: try solve [intuition (try discriminate; try congruence; eauto)].
Qed.

Lemma InvCtl_reach es s : run step init es = Some s -> InvCtl s.
Proof. apply reach_inv; [exact InvCtl_init|exact InvCtl_step]. Qed.

(* no PUBACK/PUBREC/PUBCOMP can be written from a dead processor *)
Lemma dead_no_ack s p a r s' :
  dead_ppc (k_ppc (k s)) -> step s (ETx p a r) = Some s' -> is_inbound_ack p = false.
Proof.
  intros Hd H. destruct p; cbn [is_inbound_ack]; try reflexivity; exfalso.
  all: cbv beta iota zeta delta [step step_tx] in H.
  all: destruct a; cbn [negb] in H; try discriminate H.
  all: destruct Hd as [Hd|Hd]; rewrite Hd in H; discriminate H.
Qed.

Theorem no_ack_on_error : C10_no_ack_on_error_statement.
Proof.
  intros es s Hr Hcb. destruct (InvCtl_reach _ _ Hr) as (I1 & I2 & _).
  destruct (I1 Hcb) as [Hd _]. split.
  - intros p a r s' H. eapply dead_no_ack; eassumption.
  - intros Hdone. rewrite Hdone in I2. cbn in I2. intuition discriminate.
Qed.
