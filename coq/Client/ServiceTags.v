(* ServiceTags.v — a command queued while offline is dispatched only after a later successful
   connect + resubscribe: invariant over the issue / dispatch tags of the ghost history. *)
From Coq Require Import List NArith Bool Lia Sorted.
From GM Require Import Base.Lts Codec.Packet Client.Service Client.ServiceSpec Client.ServiceLemmas Client.ServiceProofs.
Import ListNotations.
Open Scope N_scope.

(* ---------------------------------------------------------------- offline commands wait for a connection *)

Record inv_tags (s : state) : Prop := {
  it_issue  : forall n t, In (n, t) (itags s) ->
              i_ready t <= ready s /\ (i_online t = false -> online_now s = true -> i_ready t < ready s);
  it_online : online_now s = true -> 1 <= ready s;
  it_disp   : forall n r, In (n, r) (dtags s) ->
              1 <= r /\ r <= ready s /\
              forall t, In (n, t) (itags s) -> i_ready t <= r /\ (i_online t = false -> i_ready t < r)
}.

Lemma inv_tags_init c : inv_tags (init c).
Proof. constructor; cbn; try tauto; discriminate. Qed.

Lemma tags_frame s s' :
  itags s' = itags s -> dtags s' = dtags s -> ready s' = ready s ->
  (online_now s' = true -> online_now s = true) ->
  inv_tags s -> inv_tags s'.
Proof.
  intros Hi Hd Hr Ho [J1 J2 J3]. constructor; rewrite ?Hi, ?Hd, ?Hr.
  - intros n t Hin. destruct (J1 n t Hin) as [Ha Hb]. split; auto.
  - auto.
  - exact J3.
Qed.

Lemma tags_enter s : inv_tags s -> inv_tags (enter_dispatch s).
Proof.
  intros [J1 J2 J3]. constructor; cbn.
  - intros n t Hin. destruct (J1 n t Hin) as [Ha Hb]. split; intros; lia.
  - intros _. lia.
  - intros n r Hin. destruct (J3 n r Hin) as (Ha & Hb & Hc). split; [exact Ha|]. split; [lia|exact Hc].
Qed.

Lemma disp_in_issued s n : inv_fifo s -> In n (map fst (dtags s)) -> In n (map fst (issued s)).
Proof.
  intros I Hin. rewrite (if_dtags s I) in Hin.
  apply in_map_iff in Hin. destruct Hin as ([m b] & Hm & Hin). cbn in Hm; subst m.
  apply in_map_iff. exists (n, b). split; [reflexivity|].
  eapply Subseq_in; [exact (if_sub s I)|]. apply in_or_app; left; exact Hin.
Qed.

Lemma queue_in_issued s n b : inv_fifo s -> In (n, b) (queue s) -> In n (map fst (issued s)).
Proof.
  intros I Hin. apply in_map_iff. exists (n, b). split; [reflexivity|].
  eapply Subseq_in; [exact (if_sub s I)|]. apply in_or_app; right; exact Hin.
Qed.

(* a new issue tag for a number that is not yet issued *)
Lemma tags_enqueue s n b :
  ~ In n (map fst (issued s)) -> inv_fifo s -> inv_tags s -> inv_tags (enqueue s n b).
Proof.
  intros Hfresh I [J1 J2 J3]. constructor; cbn.
  - intros m t Hin. apply in_app_or in Hin. destruct Hin as [Hin|[Heq|[]]].
    + exact (J1 m t Hin).
    + injection Heq as <- <-. cbn. split; [lia|]. intros H1 H2. change (online_now s = true) in H2. congruence.
  - exact J2.
  - intros m r Hin. destruct (J3 m r Hin) as (Ha & Hb & Hc). split; [exact Ha|]. split; [exact Hb|].
    intros t Hin'. apply in_app_or in Hin'. destruct Hin' as [Hin'|[Heq|[]]]; [auto|].
    injection Heq as <- <-. exfalso. apply Hfresh. apply disp_in_issued; auto.
    apply in_map_iff. exists (n, r); auto.
Qed.

Lemma online_now_enqueue s n b : online_now (enqueue s n b) = online_now s.
Proof. reflexivity. Qed.

Definition pop0 (s : state) (n : N) (b : body) (q : list cmd) : state :=
  St (cap s) (started s) (dying s) (kill s) (protected s) (sp s) (ap s) (apply_body b (subs s)) q (store s) (futs s) (nextn s)
     (issued s) (itags s) (dispatched s ++ [(n, b)]) (dtags s ++ [(n, ready s)]) (drained s) (resubs s)
     (ready s) (gen s).

Lemma pop_cmd_eq s n b q : pop_cmd s n b q = handover (pop0 s n b q).
Proof. reflexivity. Qed.

Lemma tags_enqueue' s n b :
  ~ In n (map fst (issued s)) ->
  (forall k, In k (map fst (dtags s)) -> In k (map fst (issued s))) ->
  inv_tags s -> inv_tags (enqueue s n b).
Proof.
  intros Hfresh Hdi [J1 J2 J3]. constructor; cbn.
  - intros m t Hin. apply in_app_or in Hin. destruct Hin as [Hin|[Heq|[]]].
    + exact (J1 m t Hin).
    + injection Heq as <- <-. cbn. split; [lia|]. intros H1 H2. change (online_now s = true) in H2. congruence.
  - exact J2.
  - intros m r Hin. destruct (J3 m r Hin) as (Ha & Hb & Hc). split; [exact Ha|]. split; [exact Hb|].
    intros t Hin'. apply in_app_or in Hin'. destruct Hin' as [Hin'|[Heq|[]]]; [auto|].
    injection Heq as <- <-. exfalso. apply Hfresh. apply Hdi.
    apply in_map_iff. exists (n, r); auto.
Qed.

Lemma tags_pop0 s n b q :
  inv_tags s -> sp s = SDispatch -> inv_tags (pop0 s n b q).
Proof.
  intros [J1 J2 J3] Hsp.
  assert (Ho : online_now s = true) by (unfold online_now; rewrite Hsp; reflexivity).
  constructor; cbn.
  - exact J1.
  - exact J2.
  - intros m r Hin. apply in_app_or in Hin. destruct Hin as [Hin|[Heq|[]]]; [exact (J3 m r Hin)|].
    injection Heq as <- <-. split; [exact (J2 Ho)|]. split; [lia|].
    intros t Hin. destruct (J1 n t Hin) as [Ha Hb]. split; auto.
Qed.

Lemma tags_pop s n b q :
  inv_fifo s -> inv_tags s -> sp s = SDispatch -> queue s = (n, b) :: q -> inv_tags (pop_cmd s n b q).
Proof.
  intros I J Hsp Hq. rewrite pop_cmd_eq. pose proof (tags_pop0 s n b q J Hsp) as J0.
  unfold handover. cbn [ap pop0].
  destruct (ap s) as [| | |m b' [|]] eqn:Eap; try exact J0.
  apply tags_enqueue'; [| |exact J0]; cbn [issued dtags pop0].
  - pose proof (if_blk s I m b' Eap) as Hf. intros Hin. rewrite Forall_forall in Hf. specialize (Hf m Hin). lia.
  - intros k Hin. rewrite map_app in Hin. apply in_app_or in Hin. destruct Hin as [Hin|[<-|[]]].
    + apply disp_in_issued; auto.
    + cbn. apply (queue_in_issued s n b I). rewrite Hq. left; reflexivity.
Qed.

Lemma inv_tags_step s e s' : inv_fifo s -> inv_tags s -> step s e = Some s' -> inv_tags s'.
Proof.
  intros I J H. destruct e; step_inv H.
  all: try assumption.
  all: try (apply (tags_frame s); [reflexivity|reflexivity|reflexivity| |exact J];
            unfold online_now; cbn; rw_ctl; first [discriminate | tauto | intros; congruence]).
  (* Stop returned *)
  all: try (match goal with |- context [if ?c then _ else _] => destruct c end; apply (tags_frame s); [reflexivity|reflexivity|reflexivity| |exact J]; unfold online_now; cbn; intros; discriminate).
  (* a command enters the queue *)
  all: try (apply tags_enqueue'; cbn [issued dtags];
            [ pose proof (if_lt s I) as Hf; rewrite Forall_forall in Hf; intros Hin; specialize (Hf _ Hin); lia
            | intros k Hk; apply disp_in_issued; auto
            | apply (tags_frame s); [reflexivity|reflexivity|reflexivity|cbn; auto|exact J] ]).
  (* the dispatcher is entered *)
  all: try (apply tags_enter; first [exact J | apply (tags_frame s); [reflexivity|reflexivity|reflexivity|unfold online_now; cbn; rw_ctl; first [discriminate|tauto]|exact J]]).
  (* the dispatcher takes a command *)
  all: try (apply (tags_frame (pop_cmd s n b0 l)); [reflexivity|reflexivity|reflexivity| |apply tags_pop; auto];
            unfold online_now; cbn; first [discriminate | tauto | intros; congruence]).
  all: try (apply (tags_frame (pop_cmd s n b l)); [reflexivity|reflexivity|reflexivity| |apply tags_pop; auto];
            unfold online_now; cbn; first [discriminate | tauto | intros; congruence]).
  match goal with |- context [if ?c then _ else _] => destruct c end.
  - apply (tags_frame s); [reflexivity|reflexivity|reflexivity| |exact J]; unfold online_now; cbn; intros; discriminate.
  - apply (tags_frame s); [reflexivity|reflexivity|reflexivity| |exact J]; unfold online_now; cbn; intros; discriminate.
Qed.
