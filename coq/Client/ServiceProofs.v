(* ServiceProofs.v — invariants of the service monitor (Client/Service.v). *)
From Coq Require Import List NArith Bool Lia.
From GM Require Import Base.Lts Codec.Packet Client.Service Client.ServiceSpec.
Import ListNotations.
Open Scope N_scope.

Definition reach (c : N) (s : state) : Prop := exists es, run step (init c) es = Some s.

Lemma reach_init c : reach c (init c).
Proof. exists []; reflexivity. Qed.
