(* ServiceProofs.v — invariants of the service monitor (Client/Service.v) over all accepted traces. *)
From Coq Require Import List NArith Bool Lia Sorted.
From GM Require Import Base.Lts Codec.Packet Client.Service Client.ServiceSpec Client.ServiceLemmas.
Import ListNotations.
Open Scope N_scope.

Definition reach (c : N) (s : state) : Prop := exists es, run step (init c) es = Some s.

Lemma reach_init c : reach c (init c).
Proof. exists []; reflexivity. Qed.

(* the one induction (Base/Lts.v), specialised *)
Lemma reach_inv (Inv : state -> Prop) c :
  Inv (init c) ->
  (forall s e s', Inv s -> step s e = Some s' -> Inv s') ->
  forall s, reach c s -> Inv s.
Proof.
  intros H0 Hs s (es & Hrun).
  exact (invariant_all_traces state event step Inv (init c) H0 Hs es s Hrun).
Qed.

(* ---------------------------------------------------------------- control invariant *)

Definition stopping (s : state) : bool := match ap s with AStop _ true => true | _ => false end.

Record inv_ctl (s : state) : Prop := {
  ic_idle  : sp s = SIdle <-> (started s = false /\ stopping s = false);
  ic_dying : dying s = stopping s;
  ic_start : forall ok, ap s = AStart ok -> started s = true;
  ic_stop  : forall c ok, ap s = AStop c ok -> started s = false;
  ic_store : NoDup (map fst (store s));
  ic_prot  : sp s <> SIdle -> protected s = true
}.

Lemma inv_ctl_init c : inv_ctl (init c).
Proof. constructor; cbn; try tauto; try discriminate; try constructor. Qed.

Ltac rw_ctl :=
  repeat match goal with
  | E : ap _ = _ |- _ => rewrite E in *; clear E
  | E : sp _ = _ |- _ => rewrite E in *; clear E
  | E : started _ = _ |- _ => rewrite E in *; clear E
  | E : dying _ = _ |- _ => rewrite E in *; clear E
  end.

Lemma store_del_nodup id st : NoDup (map fst st) -> NoDup (map fst (store_del id st)).
Proof. intros H; exact (proj1 (store_del_keys id st H)). Qed.

Ltac split_ap :=
  repeat match goal with
  | |- context [match ap ?s with _ => _ end] =>
    let Eap := fresh "Eap" in destruct (ap s) as [| | |? ? []] eqn:Eap; cbn in *
  end.

Lemma inv_ctl_step s e s' : inv_ctl s -> step s e = Some s' -> inv_ctl s'.
Proof.
  intros I H. destruct e; step_inv H.
  all: destruct I as [I1 I2 I3 I4 I5 I6];
       unfold stopping, stop_clear, pop_cmd, handover, put_entry, enqueue in *;
       repeat match goal with |- context [if ?c then _ else _] => destruct c end;
       cbn in *; split_ap; constructor; cbn in *; rw_ctl;
       auto using store_put_keys, store_del_nodup, NoDup_nil;
       try solve [intuition (try congruence; try discriminate)].
  all: try specialize (I4 _ _ eq_refl);
       repeat match goal with b : bool |- _ => destruct b end; cbn in *;
       try solve [intuition (try congruence; try discriminate)].
Qed.

(* ---------------------------------------------------------------- order of commands *)

Record inv_fifo (s : state) : Prop := {
  if_sub    : Subseq (dispatched s ++ queue s) (issued s);
  if_all    : drained s = [] -> issued s = dispatched s ++ queue s;
  if_sorted : StronglySorted N.lt (map fst (issued s));
  if_lt     : Forall (fun n => n < nextn s) (map fst (issued s));
  if_api    : forall n b bl, ap s = ACmd n b bl -> n < nextn s;
  if_blk    : forall n b, ap s = ACmd n b true -> Forall (fun m => m < n) (map fst (issued s));
  if_itags  : map fst (itags s) = map fst (issued s);
  if_dtags  : map fst (dtags s) = map fst (dispatched s);
  if_subs   : subs s = fold_left (fun m b => apply_body b m) (map snd (dispatched s)) []
}.

Lemma inv_fifo_init c : inv_fifo (init c).
Proof. constructor; cbn; try constructor; try reflexivity; try discriminate. Qed.

Lemma sorted_snoc l x : StronglySorted N.lt l -> Forall (fun m => m < x) l -> StronglySorted N.lt (l ++ [x]).
Proof.
  induction 1 as [|y l Hs IH Hy]; intros Hf; cbn [app].
  - constructor; constructor.
  - inversion Hf; subst. constructor; auto.
    apply Forall_app; split; auto.
Qed.

Lemma forall_lt_weaken l a b : a <= b -> Forall (fun m => m < a) l -> Forall (fun m => m < b) l.
Proof. intros H. apply Forall_impl. intros; lia. Qed.

Lemma forall_snoc (P : N -> Prop) l x : Forall P l -> P x -> Forall P (l ++ [x]).
Proof. intros; apply Forall_app; split; auto. Qed.

Lemma subseq_enq {A} (d q i : list A) c : Subseq (d ++ q) i -> Subseq (d ++ q ++ [c]) (i ++ [c]).
Proof. intros H. rewrite app_assoc. apply Subseq_app_both; exact H. Qed.

Lemma subseq_pop {A} (d q i : list A) c : Subseq (d ++ c :: q) i -> Subseq ((d ++ [c]) ++ q) i.
Proof. rewrite <- app_assoc. cbn [app]. auto. Qed.

Lemma subseq_pop_enq {A} (d q i : list A) c c' : Subseq (d ++ c :: q) i -> Subseq ((d ++ [c]) ++ q ++ [c']) (i ++ [c']).
Proof. intros H. apply subseq_enq. apply subseq_pop. exact H. Qed.

Lemma subseq_drain {A} (d q i : list A) : Subseq (d ++ q) i -> Subseq (d ++ []) i.
Proof. rewrite app_nil_r. apply Subseq_drop_tail. Qed.

Lemma fold_apply_snoc l b :
  fold_left (fun m b => apply_body b m) (l ++ [b]) [] = apply_body b (fold_left (fun m b => apply_body b m) l []).
Proof. rewrite fold_left_app. reflexivity. Qed.

Ltac open_step e H :=
  destruct e; step_inv H;
  unfold stop_clear, pop_cmd, handover, put_entry, enqueue, enter_dispatch, set_sp, set_ap, set_kill, set_futs, set_store in *;
  repeat match goal with |- context [if ?c then _ else _] => destruct c end;
  cbn in *; split_ap.

Lemma inv_fifo_step s e s' : inv_fifo s -> step s e = Some s' -> inv_fifo s'.
Proof.
  intros I H. open_step e H.
  all: destruct I as [I1 I2 I3 I4 I5 I6 I7 I8 I9]; constructor; cbn in *;
       repeat rewrite map_app; cbn [map fst snd]; rw_ctl;
       try match goal with E : queue _ = _ |- _ => rewrite E in * end;
       try assumption; try discriminate.
  all: try (rewrite I8; reflexivity).
  all: try (rewrite I7; reflexivity).
  all: try (apply subseq_pop; assumption).
  all: try (apply subseq_pop_enq; assumption).
  all: try (apply subseq_enq; assumption).
  all: try (eapply subseq_drain; eassumption).
  all: try (intros Hd; rewrite (I2 Hd); repeat rewrite <- app_assoc; reflexivity).
  all: try (intros Hd; apply app_eq_nil in Hd; destruct Hd as [Hd Hq]; rewrite (I2 Hd), Hq; reflexivity).
  all: try (intros ? ? ? Heq; injection Heq as <- <- <-; first [eapply I5; reflexivity | lia]).
  all: try (intros ? ? Heq; injection Heq as <- <-; first [eapply I6; reflexivity | assumption]).
  all: try (apply sorted_snoc; [assumption| first [eapply I6; reflexivity | assumption]]).
  all: try (apply forall_snoc; [first [assumption | eapply forall_lt_weaken; [|eassumption]; lia] | first [lia | eapply I5; reflexivity]]).
  all: try (eapply forall_lt_weaken; [|eassumption]; lia).
  all: rewrite fold_apply_snoc; f_equal; exact I9.
Qed.

