(* ClientSpec.v — the statements of C09 / C10 over the traces accepted by the CL monitor.
   Every statement quantifies over ALL accepted traces: every interleaving of API callers,
   processor, pinger and die body, every broker behaviour, every failure position. *)
From Coq Require Import List NArith Bool.
From GM Require Import Base.Lts Codec.Packet Session.Ids Session.Store Client.Future Client.Client.
Import ListNotations.
Open Scope N_scope.

Definition reach (s : st) : Prop := exists es, run step init es = Some s.

(* ------------------------------------------------------------------ C09 *)

(* Save(Outgoing, PUBLISH id) precedes every Send of that PUBLISH (first or repeated, successful or not) *)
Definition C09_store_before_send_statement : Prop :=
  forall es s, run step init es = Some s ->
  forall p a r, In (p, a, r) (g_tx (g s)) ->
  forall d m id, p = Publish d m id -> m_qos m <> 0 ->
  In (Outgoing, Publish false m id) (g_saved (g s)).

(* the acknowledgement that is being processed *)
Definition acking (s : st) (id : N) : Prop :=
  exists p rest, g_rx (g s) = p :: rest /\ is_ack_for id p = true /\ k_ppc (k s) = PAckDel p.

(* what may happen to an entry of the outgoing store in one step *)
Definition C09_kept_until_acked_statement : Prop :=
  forall es s e s', run step init es = Some s -> step s e = Some s' ->
  forall id p, store_lookup (s_out (sess s)) id = Some p ->
     (* unchanged (the resend loop may set the DUP flag of the stored PUBLISH) *)
     store_lookup (s_out (sess s')) id = Some p
  \/ store_lookup (s_out (sess s')) id = Some (set_dup p)
     (* removed: only by DeletePacket while an acknowledgement carrying this id is processed *)
  \/ (store_lookup (s_out (sess s')) id = None /\ e = EDelete Outgoing id Ok /\ acking s id)
     (* replaced by the PUBREL: only on PUBREC id *)
  \/ (store_lookup (s_out (sess s')) id = Some (Pubrel id) /\ e = ESave Outgoing (Pubrel id) Ok /\
      exists rest, g_rx (g s) = Pubrec id :: rest)
     (* the whole session is reset: clean session only *)
  \/ (exists w, e = EReset w Ok /\ cf_clean (k_cfg (k s)) = true)
     (* a new request is stored under the same id (the id counter wrapped around or was reset) *)
  \/ (exists c rq, k_api (k s) = Some (c, AReqSave rq id) /\ e = ESave Outgoing (req_packet rq id) Ok).

(* after an accepted CONNACK the processor retransmits exactly the outgoing store, in store
   order, PUBLISH with DUP, PUBREL as such, before it does anything else *)
Definition proc_event (e : event) : bool :=
  match e with
  | ERx _ | ERxErr | ELookup _ _ _ | EDelete _ _ _ | EAll _ _ | ECb _ _ | EHid HProc => true
  | ESave Incoming _ _ => true
  | ESave Outgoing (Pubrel _) _ => true
  | ETx (Puback _ | Pubrec _ | Pubrel _ | Pubcomp _ | Publish true _ _) _ _ => true
  | _ => false
  end.

Definition C09_resend_on_connect_statement : Prop :=
  forall es s, run step init es = Some s ->
  (* an accepted CONNACK only moves the state to Connacked; the processor turns to the store *)
  (forall sp rc s', k_ppc (k s) = PConnack sp rc -> step s (EHid HProc) = Some s' ->
     k_cs (k s) = StConnecting -> rc = 0 -> k_ppc (k s') = PAll sp /\ k_cs (k s') = StConnacked) /\
  (* AllPackets: the list is the outgoing store in first-save order, all of it is due *)
  (forall sp e s', k_ppc (k s) = PAll sp -> proc_event e = true -> step s e = Some s' ->
     exists r, e = EAll Outgoing r /\
       (forall l, r = Some l -> l = store_all (s_out (sess s)) /\
          k_ppc (k s') = match l with [] => PConnDone sp None | _ => PResend sp l end)) /\
  (* while packets are due the processor's only move is to send the next one, DUP set on a PUBLISH *)
  (forall sp q rest e s', k_ppc (k s) = PResend sp (q :: rest) -> proc_event e = true -> step s e = Some s' ->
     exists r, e = ETx (set_dup q) true r /\
       (r = Ok -> k_ppc (k s') = match rest with [] => PConnDone sp None | _ => PResend sp rest end)) /\
  (* only after the last of them: Connacked -> Connected, and the connect future completes *)
  (forall sp s', k_ppc (k s) = PConnDone sp None -> step s (EHid HProc) = Some s' ->
     k_ppc (k s') = PRecv false /\
     (k_cs (k s) = StConnacked -> k_cs (k s') = StConnected)).

(* resend_before_new: from the accepted CONNACK until the last listed packet has been handed to the
   connection the client is not Connected; whatever anybody does in that window, nothing is written to
   the connection but the due retransmission (and the pinger's PINGREQ), and nothing is saved into the
   outgoing store — so no new request overtakes a retransmission and none can be listed a second time *)
Definition resend_window (p : ppc) : bool :=
  match p with PAll _ | PResend _ _ => true | _ => false end.

Definition C09_resend_before_new_statement : Prop :=
  forall es s, run step init es = Some s -> resend_window (k_ppc (k s)) = true ->
  k_cs (k s) <> StConnected /\
  forall e s', step s e = Some s' ->
    (forall p a r, e = ETx p a r ->
       p = Pingreq \/ exists sp q rest, k_ppc (k s) = PResend sp (q :: rest) /\ p = set_dup q) /\
    (forall p r, e <> ESave Outgoing p r) /\
    (* a Publish / Subscribe / Unsubscribe / Disconnect call that gets the mutex now is refused *)
    (forall c, e = EHid (HAcq c) ->
       match amap_get (k_pending (k s)) c with
       | Some (CReq _) | Some (CDisconnect _) => k_api (k s') = None
       | _ => True
       end).

(* a future completes successfully only on an acknowledgement carrying its packet id that was
   received after the request was stored (or was the packet being processed at that moment);
   a connect future on CONNACK accepted; a QoS 0 publish after conn.Send returned nil *)
Definition rx_window (s : st) (f : cfut) : list packet :=
  firstn (S (length (g_rx (g s)) - cf_rxmark f)) (g_rx (g s)).

Definition C09_future_truthful_statement : Prop :=
  forall es s, run step init es = Some s ->
  forall c f, fut_get s c = Some f -> f_status (cf_fut f) = Completed ->
  match cf_kind f with
  | KConnect => exists sp, In (Connack sp 0) (rx_window s f)
  | KPub 0 => exists m id, In (Publish false m id, true, Ok) (tx_since s f) /\ m_qos m = 0
  | _ => exists p, In p (rx_window s f) /\ is_ack_for (cf_id f) p = true
  end.

(* quiescence: the client has ended (state disconnected) and nothing internal is left to run:
   no future of an unprotected store is pending; and a Close/Disconnect that reached its wait
   can return (it does not wait for goroutines that were never started) *)
Definition settled (s : st) : Prop :=
  k_api (k s) = None /\ k_pending (k s) = [] /\
  (k_dpc (k s) = DNone \/ k_dpc (k s) = DDone) /\
  forall h, step s (EHid h) = None \/ h = HPingMissing.

Definition C09_future_total_statement : Prop :=
  forall es s, run step init es = Some s ->
  (settled s -> k_cs (k s) = StDisconnected -> t_protected (t s) = false ->
     forall id c f, store_get_f s id = Some c -> fut_get s c = Some f -> f_done (cf_fut f) = true) /\
  (forall c err, k_api (k s) = Some (c, AEndWait err) -> k_started (k s) = false ->
     exists s', step s (EHid HApi) = Some s').

(* the accessors return a value in every state of the future *)
Definition C09_accessors_total_statement : Prop :=
  forall v : value,
    session_present v <> APanic /\ return_code v <> APanic /\ return_codes v <> APanic.

(* ------------------------------------------------------------------ C10 *)

Definition is_inbound_ack (p : packet) : bool :=
  match p with Puback _ | Pubrec _ | Pubcomp _ => true | _ => false end.

(* every QoS 2 PUBLISH the callback policy accepts is stored, then answered by PUBREC *)
Definition C10_pubrec_always_statement : Prop :=
  forall es s, run step init es = Some s ->
  (forall first id, k_ppc (k s) = PRecv first -> ~ In (Pubrec id) (g_owed (g s))) /\
  (forall p e s', k_ppc (k s) = PPubSave p -> proc_event e = true -> step s e = Some s' ->
     exists r, e = ESave Incoming p r /\
       (r = Ok -> exists id, get_id p = Some id /\ k_ppc (k s') = PPubRec id /\
                  store_lookup (s_in (sess s')) id = Some p)) /\
  (forall id e s', k_ppc (k s) = PPubRec id -> proc_event e = true -> step s e = Some s' ->
     exists r, e = ETx (Pubrec id) true r).

(* a callback error: no acknowledgement is written afterwards, the connection gets closed *)
Definition C10_no_ack_on_error_statement : Prop :=
  forall es s, run step init es = Some s -> g_cbfail (g s) = true ->
  (forall p a r s', step s (ETx p a r) = Some s' -> is_inbound_ack p = false) /\
  (k_dpc (k s) = DDone -> g_dead (g s) = true).

(* QoS 0/1: the callback is the processor's next move after the PUBLISH arrived, QoS 1 then PUBACK *)
Definition C10_qos01_statement : Prop :=
  forall es s, run step init es = Some s ->
  (forall first d m id s', k_ppc (k s) = PRecv first -> first = false -> m_qos m <= 1 ->
     cf_callback (k_cfg (k s)) = true -> step s (ERx (Publish d m id)) = Some s' ->
     k_ppc (k s') = PPubCb (Publish d m id)) /\
  (forall p e s', k_ppc (k s) = PPubCb p -> proc_event e = true -> step s e = Some s' ->
     exists m r, e = ECb m r /\ (forall d id, p = Publish d m id -> r = Ok -> m_qos m = 1 -> k_ppc (k s') = PPubAck id)) /\
  (forall id e s', k_ppc (k s) = PPubAck id -> proc_event e = true -> step s e = Some s' ->
     exists r, e = ETx (Puback id) true r) /\
  (forall first id, k_ppc (k s) = PRecv first -> ~ In (Puback id) (g_owed (g s))).

(* exactly once (default mode): no open handshake has seen more than one accepted delivery,
   and PUBCOMP is never written for an open handshake without one (a concurrent clean-session
   Reset may have closed the handshake meanwhile) *)
Definition default_mode (s : st) : Prop :=
  cf_callback (k_cfg (k s)) = true /\ cf_early (k_cfg (k s)) = false.

Definition C10_exactly_once_statement : Prop :=
  forall es s, run step init es = Some s ->
  (forall id n, amap_get (g_hs (g s)) id = Some n -> n <= 1) /\
  (forall pid id, k_ppc (k s) = PRelComp pid id -> default_mode s -> amap_get (g_hs (g s)) id <> Some 0).

(* every PUBREL is answered by PUBCOMP: whenever the processor is back in Receive no PUBCOMP is owed *)
Definition C10_pubrel_answered_statement : Prop :=
  forall es s, run step init es = Some s ->
  forall first id, k_ppc (k s) = PRecv first -> ~ In (Pubcomp id) (g_owed (g s)).
