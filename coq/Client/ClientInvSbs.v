(* ClientInvSbs.v — C09_store_before_send. *)
From Coq Require Import List NArith Bool Lia.
From GM Require Import Base.Lts Codec.Packet Session.Ids Session.Store Client.Future Client.Client Client.ClientSpec
  Client.ClientTactics Client.AMap Client.PacketEq Client.ClientInvCtl Client.ClientInvOwed Client.ClientInvWf Client.ClientInvHs.
Import ListNotations.
Open Scope N_scope.

Definition pub_saved (sv : list (direction * packet)) (p : packet) : Prop :=
  match p with
  | Publish _ m id => m_qos m = 0 \/ In (Outgoing, Publish false m id) sv
  | _ => True
  end.

Definition all_tx sv (tx : list (packet * bool * res)) : Prop := forall e, In e tx -> pub_saved sv (fst (fst e)).
Definition all_store sv (st : store) : Prop := forall i q, In (i, q) st -> pub_saved sv q.
Definition all_list sv (l : list packet) : Prop := forall q, In q l -> pub_saved sv q.

Lemma pub_saved_cons x sv p : pub_saved sv p -> pub_saved (x :: sv) p.
Proof. destruct p; cbn; auto. intros [H|H]; [left|right; right]; assumption. Qed.
Lemma all_tx_sv x sv tx : all_tx sv tx -> all_tx (x :: sv) tx.
Proof. intros H e He. apply pub_saved_cons, H, He. Qed.
Lemma all_store_sv x sv st : all_store sv st -> all_store (x :: sv) st.
Proof. intros H i q Hq. eapply pub_saved_cons, H, Hq. Qed.
Lemma all_list_sv x sv l : all_list sv l -> all_list (x :: sv) l.
Proof. intros H q Hq. apply pub_saved_cons, H, Hq. Qed.

Lemma all_tx_cons sv tx p a r : all_tx sv tx -> pub_saved sv p -> all_tx sv ((p, a, r) :: tx).
Proof. intros H Hp e [<-|He]; [exact Hp|apply H, He]. Qed.

Lemma in_amap_put {A} (m : list (N * A)) k v i q : In (i, q) (amap_put m k v) -> (i, q) = (k, v) \/ In (i, q) m.
Proof.
  induction m as [|[k' v'] m IH]; cbn [amap_put].
  - intros [H|[]]. left. symmetry. exact H.
  - destruct (N.eqb_spec k k') as [->|].
    + intros [H|H]; [left; symmetry; exact H|right; right; exact H].
    + intros [H|H]; [right; left; exact H|]. destruct (IH H); [left|right; right]; assumption.
Qed.
Lemma in_amap_del {A} (m : list (N * A)) k i q : In (i, q) (amap_del m k) -> In (i, q) m.
Proof.
  induction m as [|[k' v'] m IH]; cbn [amap_del]; [auto|].
  destruct (k =? k'); [intros H; right; exact H|]. intros [H|H]; [left; exact H|right; apply IH, H].
Qed.

Lemma all_store_save sv st p : all_store sv st -> pub_saved sv p -> all_store sv (store_save st p).
Proof.
  intros H Hp i q Hq. unfold store_save in Hq. destruct (get_id p); [|eapply H, Hq].
  rewrite store_put_amap in Hq. apply in_amap_put in Hq as [E|Hq]; [injection E as -> ->; exact Hp|eapply H, Hq].
Qed.
Lemma all_store_delete sv st k : all_store sv st -> all_store sv (store_delete st k).
Proof. intros H i q Hq. rewrite store_delete_amap in Hq. apply in_amap_del in Hq. eapply H, Hq. Qed.
Lemma all_store_setdup sv st p : all_store sv st -> all_store sv (store_setdup st p).
Proof.
  intros H. unfold store_setdup. destruct p; try exact H.
  destruct (store_lookup st id) as [[]|] eqn:E; try exact H.
  intros i q Hq. rewrite store_put_amap in Hq. apply in_amap_put in Hq as [E'|Hq]; [|eapply H, Hq].
  injection E' as -> ->. rewrite store_lookup_amap in E. apply aget_in in E. apply H in E. exact E.
Qed.
Lemma all_list_store sv st : all_store sv st -> all_list sv (store_all st).
Proof.
  intros H q Hq. unfold store_all in Hq. apply in_map_iff in Hq as [[i q'] [<- Hin]]. eapply H, Hin.
Qed.
Lemma all_store_nil sv : all_store sv [].
Proof. intros i q []. Qed.
Lemma all_list_tl sv q l : all_list sv (q :: l) -> all_list sv l.
Proof. intros H x Hx. apply H. right. exact Hx. Qed.
Lemma all_list_hd_dup sv q l : all_list sv (q :: l) -> pub_saved sv (set_dup q).
Proof. intros H. specialize (H q (or_introl eq_refl)). destruct q; exact H. Qed.

Lemma list_packet_eqb_eq a b : list_eqb packet_eqb a b = true -> a = b.
Proof. apply list_eqb_eq. exact packet_eqb_eq. Qed.

Definition api_saved (s : st) : Prop :=
  match k_api (k s) with
  | Some (_, AReqSend rq id) => pub_saved (g_saved (g s)) (req_packet rq id)
  | _ => True
  end.
Definition resend_saved (s : st) : Prop :=
  match k_ppc (k s) with
  | PResend _ l => all_list (g_saved (g s)) l
  | _ => True
  end.

Definition InvSbs (s : st) : Prop :=
  all_tx (g_saved (g s)) (g_tx (g s)) /\ all_store (g_saved (g s)) (s_out (sess s)) /\
  api_saved s /\ resend_saved s.

Lemma InvSbs_init : InvSbs init.
Proof. split; [intros ? []|split; [intros ? ? []|split; exact I]]. Qed.

Global Hint Resolve all_tx_sv all_store_sv all_list_sv all_tx_cons all_store_save all_store_delete
  all_store_setdup all_list_store all_store_nil all_list_tl all_list_hd_dup pub_saved_cons : sbs.

Global Hint Extern 1 (pub_saved _ _) => cbn [pub_saved req_packet set_dup In]; first [exact I | assumption | (right; left; reflexivity) | tauto] : sbs.

Lemma InvSbs_step s e s' : InvOwed s -> InvSbs s -> step s e = Some s' -> InvSbs s'.
Proof.
  intros (_ & O2) (S1 & S2 & S3 & S4) H.
  destruct e.
  all: step_leaves H.
  all: unfold InvSbs, api_saved, resend_saved in *; simp_proj; clean_eqs.
  all: repeat match goal with
       | E : _ && _ = true |- _ => apply andb_true_iff in E; destruct E
       | E : packet_eqb _ _ = true |- _ => apply packet_eqb_eq in E; subst
       | E : list_eqb packet_eqb _ _ = true |- _ => apply list_packet_eqb_eq in E; subst
       end.
  all: repeat match goal with
       | E : _ = set_dup ?q |- _ => rewrite E in *; clear E
       | E : _ :: _ = store_all _ |- _ => rewrite E in *; clear E
       end.
  all: repeat match goal with
       | E : _ = req_packet ?r _ |- _ => destruct r; cbn [req_packet] in E; try discriminate E; inversion E; subst; clear E
       end.
  all: cbn [req_packet fst] in *.
  all: try solve [repeat split; first [assumption | exact I | eauto 6 with sbs]].
  all: repeat match goal with
       | |- context [match k_api (k ?s) with _ => _ end] => destruct (k_api (k s)) as [[? []]|]
       | |- context [match k_ppc (k ?s) with _ => _ end] => destruct (k_ppc (k s))
       end.
  all: try solve [repeat split; first [assumption | exact I | eauto 6 with sbs]].
  all: try solve [repeat split; first [assumption | exact I | eauto 6 with sbs]].
  all: try solve [specialize (O2 _ eq_refl); destruct after; cbn [after_pc] in O2; try contradiction;
                  repeat split; first [assumption | exact I]].
  all: try solve [match goal with E : req_qos0 ?r = true |- _ =>
                    destruct r; cbn [req_qos0] in E; try discriminate E; apply N.eqb_eq in E end;
                  cbn [req_packet pub_saved]; repeat split; first [assumption | exact I | left; assumption]].
Qed.

Definition InvD (s : st) : Prop := InvC s /\ InvSbs s.

Lemma InvD_reach es s : run step init es = Some s -> InvD s.
Proof.
  apply reach_inv.
  - split; [|exact InvSbs_init].
    split; [apply InvWf_init|split; [apply InvCtl_init|split; [apply InvOwed_init|apply InvHs_init]]].
  - intros s0 e s1 ((HW & HC & HO & HH) & HS) Hs. split.
    + split; [eapply InvWf_step; eassumption|].
      split; [eapply InvCtl_step; eassumption|].
      split; [eapply InvOwed_step; eassumption|].
      eapply InvHs_step; eassumption.
    + eapply InvSbs_step; eassumption.
Qed.

Lemma InvSbs_reach es s : run step init es = Some s -> InvSbs s.
Proof. intros H. exact (proj2 (InvD_reach _ _ H)). Qed.

Theorem store_before_send : C09_store_before_send_statement.
Proof.
  intros es s Hr p a r Hin d m id -> Hq.
  destruct (InvSbs_reach _ _ Hr) as (S1 & _).
  specialize (S1 _ Hin). cbn in S1. destruct S1 as [X|X]; [contradiction|exact X].
Qed.

(* the boolean checker run on observed traces agrees with the statement *)
Lemma saved_out_In h m id : saved_out h m id = true -> In (Outgoing, Publish false m id) (g_saved h).
Proof.
  unfold saved_out. intros H. apply existsb_exists in H as [[d q] [Hin Hq]].
  destruct d; [discriminate Hq|]. apply packet_eqb_eq in Hq. subst q. exact Hin.
Qed.

Lemma store_before_send_ok_sound s : store_before_send_ok s = true ->
  forall p a r, In (p, a, r) (g_tx (g s)) -> forall d m id, p = Publish d m id -> m_qos m <> 0 ->
  In (Outgoing, Publish false m id) (g_saved (g s)).
Proof.
  unfold store_before_send_ok. intros H p a r Hin d m id -> Hq.
  rewrite forallb_forall in H. specialize (H _ Hin). cbn in H.
  apply orb_true_iff in H as [H|H]; [apply N.eqb_eq in H; contradiction|]. apply saved_out_In. exact H.
Qed.

