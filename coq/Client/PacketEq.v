(* PacketEq.v — packet_eqb decides equality. *)
From Coq Require Import List NArith Bool.
From Coq.Strings Require Import Byte.
From GM Require Import Codec.Packet.
Import ListNotations.
Open Scope N_scope.

Lemma list_eqb_eq {A} (eqb : A -> A -> bool) (Heq : forall x y, eqb x y = true -> x = y) :
  forall a b, list_eqb eqb a b = true -> a = b.
Proof.
  induction a as [|x a IH]; destruct b as [|y b]; cbn; intros H; try discriminate; [reflexivity|].
  apply andb_true_iff in H as [H1 H2]. f_equal; [apply Heq; exact H1|apply IH; exact H2].
Qed.

Lemma bytes_eqb_eq a b : bytes_eqb a b = true -> a = b.
Proof.
  revert b; induction a as [|x a IH]; destruct b as [|y b]; cbn; intros H; try discriminate; [reflexivity|].
  apply andb_true_iff in H as [H1 H2]. f_equal; [apply Byte.byte_dec_bl; exact H1|apply IH; exact H2].
Qed.

Lemma bool_eqb_eq a b : Bool.eqb a b = true -> a = b.
Proof. apply Bool.eqb_prop. Qed.

Lemma message_eqb_eq a b : message_eqb a b = true -> a = b.
Proof.
  destruct a, b; unfold message_eqb; cbn. intros H.
  repeat (apply andb_true_iff in H as [H ?]).
  f_equal; [apply bytes_eqb_eq|apply bytes_eqb_eq|apply N.eqb_eq|apply bool_eqb_eq]; assumption.
Qed.

Lemma option_eqb_eq {A} (eqb : A -> A -> bool) (Heq : forall x y, eqb x y = true -> x = y) a b :
  option_eqb eqb a b = true -> a = b.
Proof. destruct a, b; cbn; intros H; try discriminate; [f_equal; apply Heq; exact H|reflexivity]. Qed.

Lemma connect_eqb_eq a b : connect_eqb a b = true -> a = b.
Proof.
  destruct a, b; unfold connect_eqb; cbn. intros H.
  repeat (apply andb_true_iff in H as [H ?]).
  f_equal; first [apply bytes_eqb_eq|apply N.eqb_eq|apply bool_eqb_eq|apply (option_eqb_eq _ message_eqb_eq)]; assumption.
Qed.

Lemma packet_eqb_eq a b : packet_eqb a b = true -> a = b.
Proof.
  destruct a, b; cbn [packet_eqb]; intros H; try discriminate; try reflexivity.
  - f_equal. apply connect_eqb_eq; exact H.
  - apply andb_true_iff in H as [H1 H2]. f_equal; [apply bool_eqb_eq|apply N.eqb_eq]; assumption.
  - apply andb_true_iff in H as [H H3]. apply andb_true_iff in H as [H1 H2].
    f_equal; [apply bool_eqb_eq|apply message_eqb_eq|apply N.eqb_eq]; assumption.
  - f_equal; apply N.eqb_eq; exact H.
  - f_equal; apply N.eqb_eq; exact H.
  - f_equal; apply N.eqb_eq; exact H.
  - f_equal; apply N.eqb_eq; exact H.
  - apply andb_true_iff in H as [H1 H2]. f_equal; [apply N.eqb_eq; exact H1|].
    revert H2. apply list_eqb_eq. intros [t1 q1] [t2 q2]; cbn. intros H.
    apply andb_true_iff in H as [Ha Hb]. f_equal; [apply bytes_eqb_eq|apply N.eqb_eq]; assumption.
  - apply andb_true_iff in H as [H1 H2]. f_equal; [apply N.eqb_eq; exact H1|].
    revert H2. apply list_eqb_eq. intros x y; apply N.eqb_eq.
  - apply andb_true_iff in H as [H1 H2]. f_equal; [apply N.eqb_eq; exact H1|].
    revert H2. apply list_eqb_eq. exact bytes_eqb_eq.
  - f_equal; apply N.eqb_eq; exact H.
Qed.

Lemma packet_eqb_refl a : packet_eqb a a = true.
Proof.
  assert (Hb : forall l, bytes_eqb l l = true).
  { induction l as [|x l IH]; cbn; [reflexivity|]. rewrite IH, andb_true_r. destruct x; reflexivity. }
  assert (Hm : forall m, message_eqb m m = true).
  { intros [t p q r]; unfold message_eqb; cbn. rewrite !Hb, N.eqb_refl, Bool.eqb_reflx. reflexivity. }
  assert (Hl : forall A (e : A -> A -> bool), (forall x, e x x = true) -> forall l, list_eqb e l l = true).
  { intros A e He; induction l as [|x l IH]; cbn; [reflexivity|]. rewrite He, IH. reflexivity. }
  destruct a; cbn [packet_eqb]; rewrite ?N.eqb_refl, ?Bool.eqb_reflx, ?Hm; try reflexivity.
  - destruct c; unfold connect_eqb; cbn. rewrite !Hb, !N.eqb_refl, Bool.eqb_reflx.
    destruct c_will; cbn; rewrite ?Hm; reflexivity.
  - cbn. apply Hl. intros [t q]; cbn. rewrite Hb, N.eqb_refl. reflexivity.
  - cbn. apply Hl. intros x; apply N.eqb_refl.
  - cbn. apply Hl. exact Hb.
Qed.
