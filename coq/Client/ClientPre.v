(* ClientPre.v — until processConnack has listed and re-sent the stored packets the client is not
   connected and no request call is under way; C09_resend_before_new. *)
From Coq Require Import List NArith Bool Lia.
From GM Require Import Base.Lts Codec.Packet Session.Ids Session.Store
  Client.Future Client.Client Client.ClientSpec
  Client.ClientTactics Client.AMap Client.PacketEq Client.ClientInvCtl Client.ClientInvOwed.
Import ListNotations.
Open Scope N_scope.

(* no call that passed the "connected" check is under way *)
Definition noreq (s : st) : Prop :=
  match k_api (k s) with
  | Some (_, (AReqNext _ | AReqPut _ _ | AReqSave _ _ | AReqSend _ _ | AReqFin | ADiscSet | ADiscSend)) => False
  | _ => True
  end.
Definition quiet (s : st) : Prop := k_cs (k s) <> StConnected /\ noreq s.
(* the state has left initialized / connecting for good *)
Definition hi (s : st) : Prop := (2 <=? cst_n (k_cs (k s))) = true.
Definition late_after (s : st) : Prop :=
  forall a, after_of (k_dpc (k s)) = Some a -> a = PExited \/ hi s.

Definition pre_pc (s : st) : Prop :=
  match k_ppc (k s) with
  | PNone => quiet s
  | PRecv true => quiet s /\ k_cs (k s) <> StInit
  | PAll _ | PResend _ _ => quiet s /\ hi s
  | PConnack _ _ => (quiet s /\ k_cs (k s) <> StInit) \/ hi s
  | PInDie | PExited | PErrChk => True
  | _ => hi s
  end.

(* while Connect holds the mutex no processor has been started *)
Definition conn_pc (s : st) : Prop :=
  match k_api (k s) with
  | Some (_, AConnDial) => k_ppc (k s) = PNone
  | Some (_, (AConnReset | AConnSend)) => k_ppc (k s) = PNone /\ k_cs (k s) <> StInit
  | _ => True
  end.

Definition init_pc (s : st) : Prop := k_cs (k s) = StInit -> k_ppc (k s) = PNone.

Definition InvPre (s : st) : Prop := late_after s /\ pre_pc s /\ conn_pc s /\ init_pc s.

Lemma InvPre_init : InvPre init.
Proof. split; [intros a Ha; discriminate Ha|]. split; [split; [discriminate|exact I]|split; [exact I|intros _; reflexivity]]. Qed.

Lemma cu_hidden_cs cu s s0 : cu_hidden cu s = Some s0 ->
  k_cs (k s0) = k_cs (k s) \/ k_cs (k s0) = StDisconnected.
Proof.
  destruct cu; cbn [cu_hidden]; intros H; try discriminate; injection H as <-.
  - left. destruct (cst_n (k_cs (k s)) <? 2); [destruct (t_connfut (t s))|]; autorewrite with proj; reflexivity.
  - right. reflexivity.
  - left. autorewrite with proj. reflexivity.
Qed.

Lemma InvPre_step s e s' : InvCtl s -> InvOwed s -> InvPre s -> step s e = Some s' -> InvPre s'.
Proof.
  intros (_ & _ & C3 & _) (_ & O2) (L & R & K & K0) H.
  unfold late_after, pre_pc, conn_pc, init_pc, quiet, noreq, hi in L, R, K, K0.
  destruct e.
  all: step_cases H.
  all: try match goal with E : cu_hidden _ _ = Some _ |- _ => pose proof (cu_hidden_cs _ _ _ E) as CS end.
  all: use_cu; unfold_ctl; simp_proj; dgoal; simp_proj.
  all: unfold InvPre, late_after, pre_pc, conn_pc, init_pc, quiet, noreq, hi; simp_proj; cbn [after_of cst_n].
  all: clean_eqs; simp_proj.
  all: repeat match goal with
       | E : k_ppc (k ?s) = _ |- _ => rewrite E in *
       | E : k_api (k ?s) = _ |- _ => rewrite E in *
       | E : k_dpc (k ?s) = _ |- _ => rewrite E in *
       end.
  all: cbn [after_of cst_n] in *.
  all: split; [|split; [|split]].
  (* late_after *)
  all: try solve [first
       [ exact L
       | intros a Ha; discriminate Ha
       | intros a Ha; apply after_owned in Ha; apply C3 in Ha; discriminate Ha
       | intros a Ha; injection Ha as <-; first [left; reflexivity | right; first [reflexivity|assumption|exact R|apply R] ]
       | intros a Ha; destruct (L a Ha) as [->|X]; [left; reflexivity|right; first [reflexivity|exact X]] ]].
  (* conn_pc *)
  all: try solve [first
       [ exact K | exact I | reflexivity
       | destruct (k_api (k s)) as [[? []]|]; first [exact I | exact K | discriminate K | apply proj1 in K; discriminate K | congruence]
       | split; [reflexivity|]; first [discriminate | apply K | apply R] ]].
  (* init_pc *)
  all: try solve [first [exact K0 | intros X; discriminate X | intros _; reflexivity]].
  (* pre_pc *)
  all: try solve [first [exact R | exact I | assumption | reflexivity]].
  all: try solve [repeat split; intros; try discriminate; try congruence; auto].
  all: try solve [apply R].
  all: try solve [split; [exact R|apply K]].
  all: try solve [destruct (k_ppc (k s)) as [| [|] | | | | | | | | | | | | | | | | | | | |]; tauto].
  (* the die body hands control back to the processor *)
  all: try solve [specialize (O2 _ eq_refl); destruct (L _ eq_refl) as [->|X]; [exact I|];
                  destruct after as [| [|] | | | | | | | | | | | | | | | | | | | |]; cbn [after_pc] in O2; try contradiction; first [exact I|exact X]].
  all: try solve [pose proof (C3 eq_refl) as X; rewrite X in K;
                  destruct (k_api (k s)) as [[? []]|]; first [exact I | discriminate K | apply proj1 in K; discriminate K]].
  all: try solve [destruct (k_cs (k s)) eqn:?; cbn in *; try discriminate;
                  destruct (k_ppc (k s)) as [| [|] | | | | | | | | | | | | | | | | | | | |];
                  intuition (try discriminate; try congruence)].
  all: try solve [destruct CS as [CS|CS]; rewrite CS in *; clear CS;
                  first [ assumption | exact L | exact R
                        | intros a Ha; destruct (L a Ha) as [->|X]; [left; reflexivity|right; first [reflexivity|exact X]]
                        | destruct (k_ppc (k s)) as [| [|] | | | | | | | | | | | | | | | | | | | |];
                          cbn; intuition (try discriminate; try congruence) ]].
  all: try solve [destruct (k_cs (k s)) eqn:?; cbn in *; try discriminate;
                  destruct (k_ppc (k s)) as [| [|] | | | | | | | | | | | | | | | | | | | |]; try reflexivity; exfalso;
                  intuition (try discriminate; try congruence)].
  all: try solve [intros a0 Ha; destruct (L a0 Ha) as [->|X]; [left; reflexivity|right];
                  destruct CS as [CS|CS]; rewrite CS; [exact X|reflexivity]].
  all: try solve [destruct CS as [CS|CS]; rewrite CS; [exact K|];
                  destruct (k_api (k s)) as [[? []]|]; first [exact I | exact K | split; [apply K|discriminate]]].
  all: try solve [specialize (O2 _ eq_refl); destruct (L _ eq_refl) as [->|X]; [exact I|];
                  assert (X' : (2 <=? cst_n (k_cs (k s0))) = true) by (destruct CS as [CS|CS]; rewrite CS; [exact X|reflexivity]);
                  destruct after as [| [|] | | | | | | | | | | | | | | | | | | | |]; cbn [after_pc] in O2; try contradiction;
                  first [exact I|exact X']].
Qed.

Lemma InvPre_reach es s : run step init es = Some s -> InvPre s.
Proof.
  intros Hr.
  assert (X : InvB s /\ InvPre s); [|exact (proj2 X)].
  revert es s Hr. apply reach_inv.
  - split; [split; [exact InvCtl_init|exact InvOwed_init]|exact InvPre_init].
  - intros s0 e s1 [[HC HO] HP] Hs. split; [split|].
    + eapply InvCtl_step; eassumption.
    + eapply InvOwed_step; eassumption.
    + eapply InvPre_step; eassumption.
Qed.


(* ---- C09_resend_before_new *)
Theorem resend_before_new : C09_resend_before_new_statement.
Proof.
  intros es s Hr Hw. destruct (InvPre_reach _ _ Hr) as (_ & R & _).
  unfold pre_pc, quiet, noreq in R.
  destruct (k_ppc (k s)) as [| [|] | | | | sp | sp l | | | | | | | | | | | | | | |] eqn:Ep; try discriminate Hw.
  all: destruct R as [[Rc Rn] _]; split; [exact Rc|].
  all: intros e s' H; split; [|split].
  all: try (intros p a r ->).
  all: try (intros p r ->).
  all: try (intros c ->).
  all: step_cases H.
  all: try discriminate Ep.
  all: try (rewrite Ep in *).
  all: repeat match goal with E : k_api (k _) = _ |- _ => rewrite E in Rn end; try contradiction.
  all: try solve [left; reflexivity].
  all: try exact I.
  all: try solve [right; do 3 eexists; split; [reflexivity|]; apply packet_eqb_eq; assumption].
  all: cbn [k set_k k_cs k_api k_set_pending] in *.
  all: try solve [simp_proj; assumption].
  all: try solve [exfalso; unfold is_connected in *; destruct (k_cs (k s)); cbn in *; try discriminate; congruence].
  all: try solve [injection Ep as <- <-; right; do 3 eexists; split; [reflexivity|]; apply packet_eqb_eq; assumption].
  all: try reflexivity.
Qed.
