(* ClientLedger.v — C09 "keeps it until the broker's PUBACK or PUBCOMP (replacing it by the PUBREL once
   PUBREC arrived), and on the next connect ... retransmits everything still recorded", HISTORY form:
   conservation of the outgoing store over whole accepted traces — any number of Client incarnations
   and connections on one session, every interleaving, every broker behaviour, every failure.

   Definitions and statements only; the proofs are in ClientLedgerProofs.v.

   ClientSpec.C09_kept_until_acked_statement says what ONE step may do to an entry of the outgoing
   store.  Here the same is said about the observable history: a request that was saved is, at the end
   of the trace, still recorded, or the events after the save show why it is not.

   Everything below is phrased over events (calls the client made on its Session and Conn, packets it
   received); no control point of the model occurs in a statement. *)
From Coq Require Import List NArith Bool.
From GM Require Import Base.Lts Codec.Packet Session.Ids Session.Store Client.Future Client.Client
  Client.ClientSpec Client.TraceScan.
Import ListNotations.
Open Scope N_scope.

(* ------------------------------------------------------------------ vocabulary *)

(* the packet the client has most recently received (conn.Receive returned it) in es *)
Definition last_rx (es : list event) : option packet :=
  fold_left (fun x e => match e with ERx p => Some p | _ => x end) es None.

Definition is_pubrec (id : N) (p : packet) : bool :=
  match p with Pubrec i => i =? id | _ => false end.

(* "`what` happened in es2, and the packet most recently received at that moment, a packet satisfying
   `on`, had been received within es2": the client did `what` in reaction to a packet that arrived in es2 *)
Definition answered (es2 : list event) (what : event) (on : packet -> bool) : Prop :=
  exists pre post p, es2 = pre ++ what :: post /\ last_rx pre = Some p /\ on p = true.

(* the race: `what` happened in es2 before any packet was received in es2; the packet satisfying `on`
   that the client reacted to was the last one received in es1 — it was in the processor's hands
   already when es2 began *)
Definition answered_in_flight (es1 es2 : list event) (what : event) (on : packet -> bool) : Prop :=
  exists pre post p, es2 = pre ++ what :: post /\ last_rx pre = None /\ last_rx es1 = Some p /\ on p = true.

(* ------------------------------------------------------------------ conservation *)

(* For every accepted trace and every request PUBLISH (QoS 1 or 2: nothing else is ever saved by an API
   call) that SavePacket(Outgoing) accepted at some point of it — es1 is the history before the save,
   es2 the history after it —, at the end of the trace:

     (1) the session still records it under its id (DUP possibly set by a retransmission): it will be
         listed and retransmitted on the next connect (C09_recorded_is_resent_statement); or
     (2) the session records PUBREL id in its place, saved as the client's reaction to a PUBREC id that
         arrived after the request was saved; or
     (3) DeletePacket(Outgoing, id) succeeded after the save as the client's reaction to an
         acknowledgement carrying id that arrived after the request was saved; or
     (4) Session.Reset succeeded after the save (clean session only: C09_reset_only_clean_statement); or
     (5) a later request was saved under the same id (the id counter wrapped around); or

   two further cases that the model forces (FINDING, see ledger_race_* in Props/C09_ledger.v): the
   processor does not take the client mutex, so the reaction to a packet that arrived BEFORE the save
   can hit the entry saved meanwhile —
     (6) as (2), but the PUBREC id had been received before the request was saved and was still being
         processed (no other packet was received in between);
     (7) as (3), but the acknowledgement had been received before the request was saved.
   The accepted trace  … NextID=1, Rx PUBACK 1, SavePacket(PUBLISH 1), DeletePacket(1), Send(PUBLISH 1) …
   forces (7): the request is on the wire and nothing records it.  It needs a broker that acknowledges
   an id it has not been sent (or, after an id wrap-around, a late duplicate acknowledgement).

   "acknowledgement carrying id" is ClientSpec/Client.is_ack_for: PUBACK id, PUBCOMP id — and SUBACK id,
   UNSUBACK id: processSuback/processUnsuback call DeletePacket(Outgoing, id) like
   processPubackAndPubcomp does, whatever is stored under id (second FINDING, ledger_suback_deletes_publish:
   a SUBACK carrying the id of a pending PUBLISH removes it; also PUBACK for a QoS 2 / PUBCOMP for a
   QoS 1 publish, PUBCOMP without PUBREC).  Neither is excluded by the property's text ("until the
   broker's PUBACK or PUBCOMP"), both are broker misbehaviour. *)
Definition C09_nothing_dropped_statement : Prop :=
  forall es1 m id es2 s,
  run step init (es1 ++ ESave Outgoing (Publish false m id) Ok :: es2) = Some s ->
     (exists d, store_lookup (s_out (sess s)) id = Some (Publish d m id))
  \/ (store_lookup (s_out (sess s)) id = Some (Pubrel id) /\
      answered es2 (ESave Outgoing (Pubrel id) Ok) (is_pubrec id))
  \/ answered es2 (EDelete Outgoing id Ok) (is_ack_for id)
  \/ (exists w, In (EReset w Ok) es2)
  \/ (exists m', In (ESave Outgoing (Publish false m' id) Ok) es2)
  \/ (store_lookup (s_out (sess s)) id = Some (Pubrel id) /\
      answered_in_flight es1 es2 (ESave Outgoing (Pubrel id) Ok) (is_pubrec id))
  \/ answered_in_flight es1 es2 (EDelete Outgoing id Ok) (is_ack_for id).

(* case (4) is the clean-session case only: Session.Reset is called (successfully or not) only on a
   Client object on which a Connect call with CleanSession on was made before — observably: since the
   last ENew there has been an EApiCall _ (CConnect cfg) with cf_clean cfg = true.  With clean-session
   off throughout, (4) never applies. *)
Definition clean_step (b : bool) (e : event) : bool :=
  match e with
  | ENew _ => false
  | EApiCall _ (CConnect cfg) => b || cf_clean cfg
  | _ => b
  end.

Definition clean_requested (es : list event) : bool := fold_left clean_step es false.

Definition C09_reset_only_clean_statement : Prop :=
  forall es1 w r es2 s,
  run step init (es1 ++ EReset w r :: es2) = Some s -> clean_requested es1 = true.

(* ------------------------------------------------------------------ the ledger *)

(* The outgoing store as the observable history determines it: the successful SavePacket /
   DeletePacket / Reset calls, and the DUP flag the resend loop sets on the stored PUBLISH object
   before it hands it to Send (the MemorySession holds the same object; PUBLISH with DUP set is
   written by the resend loop only). *)
Definition ledger_step (st : store) (e : event) : store :=
  match e with
  | ESave Outgoing p Ok => store_save st p
  | EDelete Outgoing id Ok => store_delete st id
  | EReset _ Ok => []
  | ETx (Publish true m id) _ _ => store_setdup st (Publish true m id)
  | _ => st
  end.

Definition ledger (es : list event) : store := fold_left ledger_step es [].

(* the session's outgoing store IS the ledger of the history: nothing leaves or enters it but by the
   four kinds of event above *)
Definition C09_ledger_exact_statement : Prop :=
  forall es s, run step init es = Some s -> s_out (sess s) = ledger es.

(* ------------------------------------------------------------------ the trace scanner *)

(* scan_ledger runs over the OBSERVED event sequence alone (house style of TraceScan.v) and fails at
   the first event that breaks conservation:
     - DeletePacket(Outgoing, id) or SavePacket(Outgoing, PUBREL id) that is not the processor's first
       move after an acknowledgement carrying id / after PUBREC id — this part IS TraceScan.kept_step,
       run in lockstep, not duplicated;
     - NEW: AllPackets(Outgoing) returning a list that differs from the ledger of the history so far
       (in content or order): it misses an entry that was saved and not acknowledged since, or lists
       something that was never saved / was acknowledged / carries a wrong DUP flag.  This ties the
       listing of a LATER connection (another Client object) to the saves and acknowledgements of the
       earlier ones, which no scanner of TraceScan.v does.
   With strict = true it also fails at the race (6)/(7) above: a DeletePacket(Outgoing, id) /
   SavePacket(Outgoing, PUBREL id) hitting an id that a request was saved under after the last packet
   was received.  The strict scanner is NOT sound for the model (ledger_race_*: an accepted trace it
   rejects); it is the detector for that finding on observed traces. *)
Record lscan := LScan {
  lg_store : store;             (* the ledger *)
  lg_last : option packet;      (* kept_step's state: the packet just received, if the processor has not moved since *)
  lg_fresh : list N }.          (* ids saved by a request since the last packet was received *)

Definition lscan0 : lscan := LScan [] None [].

Definition ledger_ok (strict : bool) (x : lscan) (e : event) : bool :=
  match e with
  | EAll Outgoing (Some l) => list_eqb packet_eqb l (store_all (lg_store x))
  | EDelete Outgoing id Ok | ESave Outgoing (Pubrel id) Ok =>
    negb (strict && existsb (N.eqb id) (lg_fresh x))
  | _ => true
  end.

Definition fresh_step (f : list N) (e : event) : list N :=
  match e with
  | ERx _ | EReset _ Ok => []
  | ESave Outgoing (Publish _ _ id) Ok => id :: f
  | _ => f
  end.

Definition lscan_step (strict : bool) (x : lscan) (e : event) : option lscan :=
  if ledger_ok strict x e then
    match kept_step (lg_last x) e with
    | Some y => Some (LScan (ledger_step (lg_store x) e) y (fresh_step (lg_fresh x) e))
    | None => None
    end
  else None.

Fixpoint scan_ledger_from (strict : bool) (x : lscan) (es : list event) : option lscan :=
  match es with
  | [] => Some x
  | e :: es' => match lscan_step strict x e with Some x' => scan_ledger_from strict x' es' | None => None end
  end.

Definition scan_ledger (es : list event) : bool :=
  match scan_ledger_from false lscan0 es with Some _ => true | None => false end.

Definition scan_ledger_strict (es : list event) : bool :=
  match scan_ledger_from true lscan0 es with Some _ => true | None => false end.

(* every accepted trace passes; the scanner's ledger at the end is the session's outgoing store *)
Definition C09_scan_ledger_sound_statement : Prop :=
  forall es s, run step init es = Some s ->
  scan_ledger es = true /\
  exists x, scan_ledger_from false lscan0 es = Some x /\ lg_store x = s_out (sess s).

(* ------------------------------------------------------------------ retransmission *)

(* the Send calls of the processor (TraceScan.tx_proc: everything but the requests of API calls,
   CONNECT, DISCONNECT and the pinger's PINGREQ) on this Client object, in order, with their results *)
Fixpoint proc_sends (es : list event) : list (packet * res) :=
  match es with
  | [] => []
  | ENew _ :: _ => []
  | ETx p _ r :: es' => if tx_proc p then (p, r) :: proc_sends es' else proc_sends es'
  | _ :: es' => proc_sends es'
  end.

(* l is re-sent by `sends`: the sends are, in order, the packets of l, DUP set on PUBLISH; a Send that
   fails ends the obligation (the client dies, the packets stay recorded); if the sends end early the
   rest is still due (the trace ends inside the loop) *)
Fixpoint resent (l : list packet) (sends : list (packet * res)) : bool :=
  match l, sends with
  | [], _ => true
  | _ :: _, [] => true
  | q :: rest, (p, r) :: sends' =>
    packet_eqb p (set_dup q) && match r with Ok => resent rest sends' | Fail => true end
  end.

(* the same, complete: every packet of l was handed to Send, all but possibly the last successfully *)
Fixpoint resent_all (l : list packet) (sends : list (packet * res)) : bool :=
  match l, sends with
  | [], _ => true
  | _ :: _, [] => false
  | q :: rest, (p, r) :: sends' =>
    packet_eqb p (set_dup q) && match r with Ok => resent_all rest sends' | Fail => true end
  end.

(* Whatever is recorded when a connection is accepted is listed and re-sent: the list AllPackets(Outgoing)
   returns after the accepted CONNACK is exactly the ledger of the history (of all earlier incarnations
   and connections, in first-save order), and the processor's Send calls that follow are exactly the
   listed packets in that order, DUP set on PUBLISH, PUBREL as it is.  (With clean session on the ledger
   is empty at that point: Connect reset the session.) *)
Definition C09_recorded_is_resent_statement : Prop :=
  forall es1 l es2 s,
  run step init (es1 ++ EAll Outgoing (Some l) :: es2) = Some s ->
  l = store_all (ledger es1) /\ resent l (proc_sends es2) = true.

(* ... and the rest of the processor's life on this Client: once it does anything else than the
   re-sends (receives the next packet, say), the list has been handed to Send completely *)
Definition C09_resent_before_anything_else_statement : Prop :=
  forall es1 l es2 p es3 s,
  run step init (es1 ++ EAll Outgoing (Some l) :: es2 ++ ERx p :: es3) = Some s ->
  (forall b, ~ In (ENew b) es2) ->
  resent_all l (proc_sends es2) = true.

(* conservation up to the listing: a request that was saved is listed on a later connect — as the
   PUBLISH or as its PUBREL — unless the history between the save and the listing shows why not
   (the cases of C09_nothing_dropped_statement) *)
Definition C09_saved_is_listed_statement : Prop :=
  forall es1 m id es2 l es3 s,
  run step init (es1 ++ ESave Outgoing (Publish false m id) Ok :: es2 ++ EAll Outgoing (Some l) :: es3) = Some s ->
     (exists d, In (Publish d m id) l)
  \/ (In (Pubrel id) l /\ answered es2 (ESave Outgoing (Pubrel id) Ok) (is_pubrec id))
  \/ answered es2 (EDelete Outgoing id Ok) (is_ack_for id)
  \/ (exists w, In (EReset w Ok) es2)
  \/ (exists m', In (ESave Outgoing (Publish false m' id) Ok) es2)
  \/ (In (Pubrel id) l /\ answered_in_flight es1 es2 (ESave Outgoing (Pubrel id) Ok) (is_pubrec id))
  \/ answered_in_flight es1 es2 (EDelete Outgoing id Ok) (is_ack_for id).
