(* ClientOrder.v — C15, client side: callbacks follow the arrival order (scan_order). *)
From Coq Require Import List NArith Bool Lia.
From GM Require Import Base.Lts Codec.Packet Session.Ids Session.Store
  Client.Future Client.Client Client.ClientSpec Client.TraceScan
  Client.ClientTactics Client.AMap Client.PacketEq Client.ClientInvCtl Client.ClientInvOwed Client.ClientInvWf
  Client.ClientInvHs Client.ClientInvSbs Client.ClientC10 Client.ClientInvRx Client.ClientKept Client.ClientTotal.
Import ListNotations.
Open Scope N_scope.

Definition orel (last : option message) (p : ppc) : Prop :=
  match p with
  | PPubCb (Publish _ m _) => last = Some m
  | PRelCb m _ _ => last = Some m
  | _ => True
  end.

Lemma message_eqb_refl' m : message_eqb m m = true.
Proof.
  pose proof (packet_eqb_refl (Publish false m 0)) as H. cbn [packet_eqb] in H.
  apply andb_true_iff in H as [H _]. apply andb_true_iff in H as [_ H]. exact H.
Qed.

Lemma order_sim s e s' last : InvCtl s -> InvOwed s -> orel last (k_ppc (k s)) -> step s e = Some s' ->
  exists last', order_step last e = Some last' /\ orel last' (k_ppc (k s')).
Proof.
  intros (_ & _ & C3 & _) (_ & O2) HR H.
  destruct e.
  all: step_leaves H.
  all: simp_proj; clean_eqs.
  all: repeat match goal with
       | E : message_eqb _ _ = true |- _ => apply message_eqb_eq in E; subst
       | E : opt_packet_eqb _ _ = true |- _ => apply opt_packet_eqb_eq in E
       end.
  all: cbn [orel] in HR.
  all: try solve [eexists; split; [reflexivity|first [exact HR | exact I | reflexivity]]].
  all: try solve [subst last; eexists; split; [cbn [order_step]; rewrite message_eqb_refl'; reflexivity|exact I]].
  all: try solve [specialize (O2 _ eq_refl); destruct after; cbn [after_pc] in O2; try contradiction;
                  (eexists; split; [reflexivity|exact I])].
Qed.

Lemma scan_order_gen es : forall pre s0 s last,
  run step init pre = Some s0 -> run step s0 es = Some s -> orel last (k_ppc (k s0)) ->
  exists last', scan_order last es = Some last' /\ orel last' (k_ppc (k s)).
Proof.
  induction es as [|e es IH]; intros pre s0 s last Hpre Hrun Hrel.
  - cbn in Hrun. injection Hrun as <-. exists last. split; [reflexivity|exact Hrel].
  - cbn [run] in Hrun. destruct (step s0 e) as [s1|] eqn:Hs; [|discriminate Hrun].
    assert (Hpre' : run step init (pre ++ [e]) = Some s1).
    { rewrite run_app, Hpre. cbn [run]. rewrite Hs. reflexivity. }
    destruct (InvG_reach _ _ Hpre) as (((((_ & HC & HO & _) & _) & _) & _) & _).
    destruct (order_sim _ _ _ _ HC HO Hrel Hs) as (l1 & Hl1 & Hrel1).
    cbn [scan_order]. rewrite Hl1. eapply IH; eassumption.
Qed.

(* every accepted trace passes the arrival-order scanner *)
Theorem scan_order_accepted es s : run step init es = Some s ->
  exists last, scan_order None es = Some last /\ orel last (k_ppc (k s)).
Proof. intros H. exact (scan_order_gen es [] init s None eq_refl H I). Qed.

(* what passing the scanner means, spelled out: split an accepted trace at any message callback;
   the last observable processor event before it is the arrival of that very message — Rx of a
   PUBLISH carrying it, or the lookup of the stored PUBLISH carrying it (for the PUBREL just
   received) *)
Fixpoint last_proc_obs (es : list event) : option event :=
  match es with
  | [] => None
  | e :: es' => match last_proc_obs es' with
                | Some x => Some x
                | None => if proc_obs e then Some e else match e with ENew _ => Some e | _ => None end
                end
  end.

Lemma scan_order_app last es1 es2 :
  scan_order last (es1 ++ es2) = match scan_order last es1 with Some l => scan_order l es2 | None => None end.
Proof.
  revert last; induction es1 as [|e es1 IH]; intros last; cbn [app scan_order]; [reflexivity|].
  destruct (order_step last e); [apply IH|reflexivity].
Qed.

Lemma order_step_some last e m : order_step last e = Some (Some m) ->
  (proc_obs e = false /\ (forall b, e <> ENew b) /\ last = Some m) \/
  (exists d id, e = ERx (Publish d m id)) \/
  (exists d id pid, e = ELookup Incoming id (Some (Some (Publish d m pid)))).
Proof.
  destruct e; cbn [order_step proc_obs];
    repeat match goal with |- context [match ?x with _ => _ end] => destruct x end;
    intros H; try discriminate H; injection H as H; try discriminate H; subst;
    first [ left; split; [reflexivity|split; [intros b X; discriminate X|reflexivity]]
          | solve [right; left; eauto]
          | solve [right; right; eauto] ].
Qed.

Lemma scan_order_last es : forall last l m, scan_order last es = Some l -> l = Some m ->
  (last_proc_obs es = None /\ last = Some m) \/
  (exists d id, last_proc_obs es = Some (ERx (Publish d m id))) \/
  (exists d id pid, last_proc_obs es = Some (ELookup Incoming id (Some (Some (Publish d m pid))))).
Proof.
  induction es as [|e es IH]; intros last l m Hs Hl; cbn [scan_order] in Hs.
  - injection Hs as <-. left. split; [reflexivity|exact Hl].
  - destruct (order_step last e) as [l1|] eqn:E1; [|discriminate Hs].
    destruct (IH _ _ _ Hs Hl) as [[Hnone Hl1]|[H|H]].
    + cbn [last_proc_obs]. rewrite Hnone. subst l1.
      destruct (order_step_some _ _ _ E1) as [(Hp & Hn & Hlast)|[(d & id & ->)|(d & id & pid & ->)]].
      * rewrite Hp. left. split; [|exact Hlast]. destruct e; try reflexivity. exfalso. eapply Hn. reflexivity.
      * right. left. cbn. eauto.
      * right. right. cbn. eauto.
    + right. left. destruct H as (d & id & H). cbn [last_proc_obs]. rewrite H. eauto.
    + right. right. destruct H as (d & id & pid & H). cbn [last_proc_obs]. rewrite H. eauto.
Qed.

Theorem callback_follows_its_arrival es1 m r es2 s :
  run step init (es1 ++ ECb m r :: es2) = Some s ->
  (exists d id, last_proc_obs es1 = Some (ERx (Publish d m id))) \/
  (exists d id pid, last_proc_obs es1 = Some (ELookup Incoming id (Some (Some (Publish d m pid))))).
Proof.
  intros H. destruct (scan_order_accepted _ _ H) as (l & Hs & _).
  rewrite scan_order_app in Hs. destruct (scan_order None es1) as [l1|] eqn:E1; [|discriminate Hs].
  cbn [scan_order order_step] in Hs. destruct l1 as [m'|]; [|discriminate Hs].
  destruct (message_eqb m m') eqn:Em; [|discriminate Hs]. apply message_eqb_eq in Em. subst m'.
  destruct (scan_order_last _ _ _ _ E1 eq_refl) as [[_ X]|X]; [discriminate X|exact X].
Qed.

