(* ClientLedgerProofs.v — proofs of the statements of ClientLedger.v: conservation of the outgoing
   store over whole accepted traces (nothing_dropped), the ledger (ledger_exact), the ledger scanner
   (scan_ledger_accepted) and the retransmission companions (recorded_is_resent,
   resent_before_anything_else, saved_is_listed).

   Built on ClientKept.kept_until_acked (one step of an outgoing entry), ClientScan3.kept_sim
   (scan_kept), ClientResend.scan_resend_gen (the retransmission scanner); nothing of these is
   re-proved.  New here: the two frame lemmas rx_step / sout_step (what one step does to the log of
   received packets and to the outgoing store, as a function of the event alone), a small invariant
   (only PUBLISH requests reach SavePacket), and the inductions over the trace. *)
From Coq Require Import List NArith Bool Lia.
From GM Require Import Base.Lts Codec.Packet Session.Ids Session.Store Session.StoreProofs
  Client.Future Client.Client Client.ClientSpec Client.TraceScan
  Client.ClientTactics Client.AMap Client.PacketEq Client.ClientInvCtl Client.ClientInvOwed Client.ClientInvWf
  Client.ClientInvHs Client.ClientInvSbs Client.ClientC10 Client.ClientInvRx Client.ClientKept Client.ClientTotal
  Client.ClientPre Client.ClientResend Client.ClientScan3 Client.ClientLedger.
Import ListNotations.
Open Scope N_scope.

(* ------------------------------------------------------------------ one step, read off the event *)

(* the log of received packets grows by Rx events and by nothing else *)
Lemma rx_step s e s' : step s e = Some s' ->
  g_rx (g s') = match e with ERx p => p :: g_rx (g s) | _ => g_rx (g s) end.
Proof.
  intros H.
  destruct e.
  all: step_leaves H.
  all: simp_proj; clean_eqs.
  all: try reflexivity.
Qed.

(* the outgoing store changes as the ledger says *)
Lemma sout_step s e s' : step s e = Some s' -> s_out (sess s') = ledger_step (s_out (sess s)) e.
Proof.
  intros H.
  destruct e.
  all: step_leaves H.
  all: simp_proj; clean_eqs.
  all: cbn [ledger_step].
  all: try reflexivity.
  all: try solve [match goal with E : packet_eqb _ (set_dup ?q) = true |- _ =>
                    apply packet_eqb_eq in E; destruct q; cbn [set_dup] in E; try discriminate E;
                    try (injection E; intros; subst); reflexivity end].
  all: try solve [match goal with F : sess _ = sess _ |- _ => rewrite F end; reflexivity].
Qed.

(* only PUBLISH requests get to SavePacket *)
Definition InvSv (s : st) : Prop :=
  forall c rq id, k_api (k s) = Some (c, AReqSave rq id) -> exists m, rq = RPub m.

Lemma InvSv_init : InvSv init.
Proof. intros c rq id H. discriminate H. Qed.

Lemma InvSv_step s e s' : InvSv s -> step s e = Some s' -> InvSv s'.
Proof.
  intros I H.
  destruct e.
  all: step_leaves H.
  all: unfold InvSv in *; simp_proj; clean_eqs.
  all: intros cq rqq idq X.
  all: try discriminate X.
  all: try solve [eapply I; exact X].
  all: try solve [injection X as ? ? ?; subst; eexists; reflexivity].
  all: try solve [eapply I; match goal with E : k_api (k _) = _ |- _ => rewrite E end; exact X].
Qed.

Lemma InvSv_reach es s : run step init es = Some s -> InvSv s.
Proof. apply reach_inv; [exact InvSv_init|exact InvSv_step]. Qed.

(* ------------------------------------------------------------------ last_rx *)

Definition rx_upd (x : option packet) (e : event) : option packet :=
  match e with ERx p => Some p | _ => x end.

Lemma last_rx_fold es : last_rx es = fold_left rx_upd es None.
Proof. reflexivity. Qed.

Lemma fold_rx_from b : forall x,
  fold_left rx_upd b x = match fold_left rx_upd b None with Some p => Some p | None => x end.
Proof.
  induction b as [|e b IH]; intros x; cbn [fold_left]; [reflexivity|].
  destruct e; cbn [rx_upd]; try apply IH.
  rewrite (IH (Some p)). destruct (fold_left rx_upd b None); reflexivity.
Qed.

Lemma last_rx_app a b :
  last_rx (a ++ b) = match last_rx b with Some p => Some p | None => last_rx a end.
Proof. rewrite !last_rx_fold, fold_left_app. apply fold_rx_from. Qed.

(* splitting at a Session call: the last packet received came after it, or nothing came after it *)
Lemma last_rx_split es1 e0 es2 p : (forall q, e0 <> ERx q) ->
  last_rx (es1 ++ e0 :: es2) = Some p ->
  last_rx es2 = Some p \/ (last_rx es2 = None /\ last_rx es1 = Some p).
Proof.
  intros Hne H. rewrite last_rx_app in H.
  change (e0 :: es2) with ([e0] ++ es2) in H. rewrite last_rx_app in H.
  destruct (last_rx es2) as [q|]; [left; exact H|right].
  assert (E0 : last_rx [e0] = None).
  { destruct e0; try reflexivity. exfalso. eapply Hne. reflexivity. }
  rewrite E0 in H. split; [reflexivity|exact H].
Qed.

Lemma hd_rx_run es : forall s0 s, run step s0 es = Some s ->
  hd_error (g_rx (g s)) = fold_left rx_upd es (hd_error (g_rx (g s0))).
Proof.
  induction es as [|e es IH]; intros s0 s Hr; cbn [run] in Hr.
  - injection Hr as <-. reflexivity.
  - destruct (step s0 e) as [s1|] eqn:Hs; [|discriminate Hr].
    cbn [fold_left]. rewrite (IH _ _ Hr), (rx_step _ _ _ Hs).
    destruct e; reflexivity.
Qed.

(* the head of the model's log is the packet most recently received in the observable history *)
Lemma hd_rx es s : run step init es = Some s -> hd_error (g_rx (g s)) = last_rx es.
Proof. intros Hr. exact (hd_rx_run es init s Hr). Qed.

(* ------------------------------------------------------------------ answered: monotone in the history *)

Lemma answered_snoc es2 e what on : answered es2 what on -> answered (es2 ++ [e]) what on.
Proof.
  intros (pre & post & p & -> & Hl & Hon).
  exists pre, (post ++ [e]), p. split; [|split; assumption].
  rewrite <- app_assoc. reflexivity.
Qed.

Lemma in_flight_snoc es1 es2 e what on :
  answered_in_flight es1 es2 what on -> answered_in_flight es1 (es2 ++ [e]) what on.
Proof.
  intros (pre & post & p & -> & Hl & Hl1 & Hon).
  exists pre, (post ++ [e]), p. split; [|split; [|split]; assumption].
  rewrite <- app_assoc. reflexivity.
Qed.

(* the reaction that has just happened *)
Lemma answered_now es1 e0 es2 what on p : (forall q, e0 <> ERx q) ->
  last_rx (es1 ++ e0 :: es2) = Some p -> on p = true ->
  answered (es2 ++ [what]) what on \/ answered_in_flight es1 (es2 ++ [what]) what on.
Proof.
  intros Hne Hl Hon. destruct (last_rx_split _ _ _ _ Hne Hl) as [H2|[H2 H1]].
  - left. exists es2, [], p. split; [reflexivity|split; assumption].
  - right. exists es2, [], p. split; [reflexivity|split; [|split]; assumption].
Qed.

(* ------------------------------------------------------------------ conservation *)

Definition save_ev (m : message) (id : N) : event := ESave Outgoing (Publish false m id) Ok.

Lemma save_ev_not_rx m id q : save_ev m id <> ERx q.
Proof. discriminate. Qed.

Lemma save_step s m id s' : step s (save_ev m id) = Some s' ->
  store_lookup (s_out (sess s')) id = Some (Publish false m id).
Proof.
  intros H. rewrite (sout_step _ _ _ H). unfold save_ev. cbn [ledger_step].
  unfold store_save. cbn [get_id]. rewrite lookup_put, N.eqb_refl. reflexivity.
Qed.

Lemma is_pubrec_refl id : is_pubrec id (Pubrec id) = true.
Proof. cbn. apply N.eqb_refl. Qed.

(* what the next event of an accepted history does to a recorded entry — kept_until_acked with its
   control-point clauses translated into the observable history *)
Lemma entry_step es1 m0 id0 es2 s1 e s2 id p :
  run step init (es1 ++ save_ev m0 id0 :: es2) = Some s1 -> step s1 e = Some s2 ->
  store_lookup (s_out (sess s1)) id = Some p ->
     store_lookup (s_out (sess s2)) id = Some p
  \/ store_lookup (s_out (sess s2)) id = Some (set_dup p)
  \/ (answered (es2 ++ [e]) (EDelete Outgoing id Ok) (is_ack_for id) \/
      answered_in_flight es1 (es2 ++ [e]) (EDelete Outgoing id Ok) (is_ack_for id))
  \/ (store_lookup (s_out (sess s2)) id = Some (Pubrel id) /\
      (answered (es2 ++ [e]) (ESave Outgoing (Pubrel id) Ok) (is_pubrec id) \/
       answered_in_flight es1 (es2 ++ [e]) (ESave Outgoing (Pubrel id) Ok) (is_pubrec id)))
  \/ (exists w, e = EReset w Ok)
  \/ (exists m', e = ESave Outgoing (Publish false m' id) Ok).
Proof.
  intros Hr Hs Hl.
  pose proof (hd_rx _ _ Hr) as Hhd.
  destruct (kept_until_acked _ _ _ _ Hr Hs id p Hl)
    as [K|[K|[(K & -> & (q & rest & Hrx & Hack & _))|[(K & -> & (rest & Hrx))|[(w & -> & _)|(c & rq & Hapi & ->)]]]]].
  - left. exact K.
  - right. left. exact K.
  - right. right. left.
    rewrite Hrx in Hhd. cbn [hd_error] in Hhd. symmetry in Hhd.
    exact (answered_now _ _ _ _ _ _ (save_ev_not_rx m0 id0) Hhd Hack).
  - right. right. right. left. split; [exact K|].
    rewrite Hrx in Hhd. cbn [hd_error] in Hhd. symmetry in Hhd.
    exact (answered_now _ _ _ _ _ _ (save_ev_not_rx m0 id0) Hhd (is_pubrec_refl id)).
  - right. right. right. right. left. exists w. reflexivity.
  - right. right. right. right. right.
    destruct (InvSv_reach _ _ Hr _ _ _ Hapi) as [m' ->]. exists m'. reflexivity.
Qed.

Lemma snoc_split (es1 : list event) e0 es2 e : es1 ++ e0 :: es2 ++ [e] = (es1 ++ e0 :: es2) ++ [e].
Proof. rewrite <- app_assoc. reflexivity. Qed.

Lemma run_snoc es e s : run step init (es ++ [e]) = Some s ->
  exists s1, run step init es = Some s1 /\ step s1 e = Some s.
Proof.
  intros Hr. apply run_prefix in Hr as (s1 & H1 & H2). exists s1. split; [exact H1|].
  cbn [run] in H2. destruct (step s1 e) as [s2|]; [|discriminate H2]. exact H2.
Qed.

Theorem nothing_dropped : C09_nothing_dropped_statement.
Proof.
  intros es1 m id es2. fold (save_ev m id).
  induction es2 as [|e es2 IH] using rev_ind; intros s Hr.
  - destruct (run_snoc _ _ _ Hr) as (s0 & _ & Hs).
    left. exists false. exact (save_step _ _ _ _ Hs).
  - rewrite snoc_split in Hr. destruct (run_snoc _ _ _ Hr) as (s1 & Hr1 & Hs).
    specialize (IH s1 Hr1).
    assert (Hgo : forall p, store_lookup (s_out (sess s1)) id = Some p ->
              store_lookup (s_out (sess s)) id = Some p
           \/ store_lookup (s_out (sess s)) id = Some (set_dup p)
           \/ (answered (es2 ++ [e]) (EDelete Outgoing id Ok) (is_ack_for id) \/
               answered_in_flight es1 (es2 ++ [e]) (EDelete Outgoing id Ok) (is_ack_for id))
           \/ (store_lookup (s_out (sess s)) id = Some (Pubrel id) /\
               (answered (es2 ++ [e]) (ESave Outgoing (Pubrel id) Ok) (is_pubrec id) \/
                answered_in_flight es1 (es2 ++ [e]) (ESave Outgoing (Pubrel id) Ok) (is_pubrec id)))
           \/ (exists w, In (EReset w Ok) (es2 ++ [e]))
           \/ (exists m', In (ESave Outgoing (Publish false m' id) Ok) (es2 ++ [e]))).
    { intros p Hl.
      destruct (entry_step _ _ _ _ _ _ _ _ _ Hr1 Hs Hl) as [K|[K|[K|[K|[(w & ->)|(m' & ->)]]]]].
      - left. exact K.
      - right. left. exact K.
      - right. right. left. exact K.
      - right. right. right. left. exact K.
      - right. right. right. right. left. exists w. apply in_or_app. right. left. reflexivity.
      - right. right. right. right. right. exists m'. apply in_or_app. right. left. reflexivity. }
    destruct IH as [(d & Hl)|[(Hl & A)|[A|[(w & A)|[(m' & A)|[(Hl & A)|A]]]]]].
    + (* still recorded *)
      destruct (Hgo _ Hl) as [K|[K|[[K|K]|[(K & [A|A])|[K|K]]]]].
      * left. exists d. exact K.
      * left. exists true. exact K.
      * right. right. left. exact K.
      * do 6 right. exact K.
      * right. left. split; assumption.
      * do 5 right. left. split; assumption.
      * right. right. right. left. exact K.
      * right. right. right. right. left. exact K.
    + (* replaced by the PUBREL *)
      destruct (Hgo _ Hl) as [K|[K|[[K|K]|[(K & _)|[K|K]]]]].
      * right. left. split; [exact K|apply answered_snoc; exact A].
      * right. left. split; [exact K|apply answered_snoc; exact A].
      * right. right. left. exact K.
      * do 6 right. exact K.
      * right. left. split; [exact K|apply answered_snoc; exact A].
      * right. right. right. left. exact K.
      * right. right. right. right. left. exact K.
    + right. right. left. apply answered_snoc. exact A.
    + right. right. right. left. exists w. apply in_or_app. left. exact A.
    + right. right. right. right. left. exists m'. apply in_or_app. left. exact A.
    + (* replaced by the PUBREL, PUBREC in flight *)
      destruct (Hgo _ Hl) as [K|[K|[[K|K]|[(K & _)|[K|K]]]]].
      * do 5 right. left. split; [exact K|apply in_flight_snoc; exact A].
      * do 5 right. left. split; [exact K|apply in_flight_snoc; exact A].
      * right. right. left. exact K.
      * do 6 right. exact K.
      * do 5 right. left. split; [exact K|apply in_flight_snoc; exact A].
      * right. right. right. left. exact K.
      * right. right. right. right. left. exact K.
    + do 6 right. apply in_flight_snoc. exact A.
Qed.

(* ------------------------------------------------------------------ the ledger *)

Lemma ledger_run es : forall s0 s, run step s0 es = Some s ->
  s_out (sess s) = fold_left ledger_step es (s_out (sess s0)).
Proof.
  induction es as [|e es IH]; intros s0 s Hr; cbn [run] in Hr.
  - injection Hr as <-. reflexivity.
  - destruct (step s0 e) as [s1|] eqn:Hs; [|discriminate Hr].
    cbn [fold_left]. rewrite (IH _ _ Hr), (sout_step _ _ _ Hs). reflexivity.
Qed.

Theorem ledger_exact : C09_ledger_exact_statement.
Proof. intros es s Hr. exact (ledger_run es init s Hr). Qed.

(* ------------------------------------------------------------------ the scanner *)

Lemma all_step s l s' : step s (EAll Outgoing (Some l)) = Some s' ->
  list_eqb packet_eqb l (store_all (s_out (sess s))) = true /\
  exists sp, k_ppc (k s') = match l with [] => PConnDone sp None | _ => PResend sp l end.
Proof.
  intros H. cbv beta iota zeta delta [step] in H.
  destruct (k_ppc (k s)) eqn:Ep; try discriminate H.
  destruct (list_eqb packet_eqb l (store_all (s_out (sess s)))) eqn:E; [|discriminate H].
  injection H as <-. split; [reflexivity|]. exists sp. simp_proj. reflexivity.
Qed.

Lemma ledger_ok_accepted s e s' x : lg_store x = s_out (sess s) -> step s e = Some s' ->
  ledger_ok false x e = true.
Proof.
  intros Hst H.
  destruct e; try reflexivity.
  - destruct d; try reflexivity. destruct p; try reflexivity. destruct r; reflexivity.
  - destruct d, r; reflexivity.
  - destruct d; try reflexivity. destruct r as [l|]; [|reflexivity].
    cbn [ledger_ok]. rewrite Hst. exact (proj1 (all_step _ _ _ H)).
Qed.

Definition lrel (x : lscan) (s : st) : Prop :=
  lg_store x = s_out (sess s) /\ krel (lg_last x) (k_ppc (k s)).

Lemma lscan_sim s e s' x : InvCtl s -> InvOwed s -> InvRx s -> lrel x s -> step s e = Some s' ->
  exists x', lscan_step false x e = Some x' /\ lrel x' s'.
Proof.
  intros HC HO HR [Hst Hk] Hs.
  destruct (kept_sim _ _ _ _ HC HO HR Hk Hs) as (y & Hy & Hk').
  unfold lscan_step. rewrite (ledger_ok_accepted _ _ _ _ Hst Hs), Hy.
  eexists. split; [reflexivity|]. split; [|exact Hk'].
  cbn [lg_store]. rewrite Hst. symmetry. exact (sout_step _ _ _ Hs).
Qed.

Lemma scan_ledger_gen es : forall pre s0 s x,
  run step init pre = Some s0 -> run step s0 es = Some s -> lrel x s0 ->
  exists x', scan_ledger_from false x es = Some x' /\ lrel x' s.
Proof.
  induction es as [|e es IH]; intros pre s0 s x Hpre Hrun Hrel.
  - cbn in Hrun. injection Hrun as <-. exists x. split; [reflexivity|exact Hrel].
  - cbn [run] in Hrun. destruct (step s0 e) as [s1|] eqn:Hs; [|discriminate Hrun].
    assert (Hpre' : run step init (pre ++ [e]) = Some s1).
    { rewrite run_app, Hpre. cbn [run]. rewrite Hs. reflexivity. }
    destruct (InvF_reach _ _ Hpre) as ((((_ & HC & HO & _) & _) & HR) & _).
    destruct (lscan_sim _ _ _ _ HC HO HR Hrel Hs) as (x1 & Hx1 & Hrel1).
    cbn [scan_ledger_from]. rewrite Hx1. eapply IH; eassumption.
Qed.

Theorem scan_ledger_sound : C09_scan_ledger_sound_statement.
Proof.
  intros es s Hr.
  destruct (scan_ledger_gen es [] init s lscan0 eq_refl Hr) as (x & Hx & Hst & _).
  { split; [reflexivity|exact I]. }
  split.
  - unfold scan_ledger. rewrite Hx. reflexivity.
  - exists x. split; [exact Hx|exact Hst].
Qed.

Theorem scan_ledger_accepted : forall es s, run step init es = Some s -> scan_ledger es = true.
Proof. intros es s Hr. exact (proj1 (scan_ledger_sound es s Hr)). Qed.

(* ------------------------------------------------------------------ retransmission *)

Lemma scan_resend_due_other q rest e x : (forall b, e <> ENew b) -> (forall p a r, e <> ETx p a r) ->
  resend_step (RDue (q :: rest)) e = Some x ->
  x = RDue (q :: rest) /\ forall es, proc_sends (e :: es) = proc_sends es.
Proof.
  intros Hn Ht H.
  destruct e; try (exfalso; eapply Hn; reflexivity); try (exfalso; eapply Ht; reflexivity).
  all: cbn in H; try discriminate H.
  all: try (injection H as <-; split; [reflexivity|intros es; reflexivity]).
  (* ESave *)
  destruct d; [discriminate H|]. destruct p; cbn in H; discriminate H.
Qed.

(* pure list fact: the retransmission scanner, started with l due, accepts only if the processor's
   Send calls re-send l *)
Lemma scan_resend_resent es : forall l x, l <> [] ->
  scan_resend (RDue l) es = Some x -> resent l (proc_sends es) = true.
Proof.
  induction es as [|e es IH]; intros l x Hl H.
  - destruct l; reflexivity.
  - destruct l as [|q rest]; [contradiction|]. cbn [scan_resend] in H.
    destruct (resend_step (RDue (q :: rest)) e) as [x1|] eqn:E1; [|discriminate H].
    destruct e.
    1: reflexivity.
    6: { (* ETx *)
      cbn [resend_step] in E1. cbn [proc_sends]. destruct (tx_proc p) eqn:Etp.
      - destruct (async && packet_eqb p (set_dup q)) eqn:Ea; [|discriminate E1].
        apply andb_true_iff in Ea as [_ Ea]. injection E1 as <-.
        cbn [resent]. rewrite Ea. cbn [andb]. destruct r; [|reflexivity].
        destruct rest as [|q' rest']; [reflexivity|].
        cbn [rdue] in H. eapply IH; [discriminate|exact H].
      - destruct (api_send p); [cbn in E1; discriminate E1|]. injection E1 as <-.
        eapply IH; [discriminate|exact H]. }
    all: match goal with |- context [proc_sends (?ev :: _)] =>
           destruct (scan_resend_due_other q rest ev x1) as [-> Hps];
           [intros b X; discriminate X|intros p0 a0 r0 X; discriminate X|exact E1|];
           rewrite Hps; eapply IH; [discriminate|exact H] end.
Qed.

(* ... and it cannot get past a packet being received unless all of l has been handed to Send *)
Lemma scan_resend_resent_all es2 : forall l p es3 x, l <> [] -> (forall b, ~ In (ENew b) es2) ->
  scan_resend (RDue l) (es2 ++ ERx p :: es3) = Some x -> resent_all l (proc_sends es2) = true.
Proof.
  induction es2 as [|e es2 IH]; intros l p es3 x Hl Hnew H.
  - destruct l as [|q rest]; [contradiction|]. cbn in H. discriminate H.
  - destruct l as [|q rest]; [contradiction|]. cbn [app scan_resend] in H.
    destruct (resend_step (RDue (q :: rest)) e) as [x1|] eqn:E1; [|discriminate H].
    assert (Hnew' : forall b, ~ In (ENew b) es2).
    { intros b X. apply (Hnew b). right. exact X. }
    destruct e.
    1: { exfalso. apply (Hnew protected). left. reflexivity. }
    6: { (* ETx *)
      cbn [resend_step] in E1. cbn [proc_sends]. destruct (tx_proc p0) eqn:Etp.
      - destruct (async && packet_eqb p0 (set_dup q)) eqn:Ea; [|discriminate E1].
        apply andb_true_iff in Ea as [_ Ea]. injection E1 as <-.
        cbn [resent_all]. rewrite Ea. cbn [andb]. destruct r; [|reflexivity].
        destruct rest as [|q' rest']; [reflexivity|].
        cbn [rdue] in H. eapply IH; [discriminate|exact Hnew'|exact H].
      - destruct (api_send p0); [cbn in E1; discriminate E1|]. injection E1 as <-.
        eapply IH; [discriminate|exact Hnew'|exact H]. }
    all: match goal with |- context [proc_sends (?ev :: _)] =>
           destruct (scan_resend_due_other q rest ev x1) as [-> Hps];
           [intros b X; discriminate X|intros p1 a1 r1 X; discriminate X|exact E1|];
           rewrite Hps; eapply IH; [discriminate|exact Hnew'|exact H] end.
Qed.

(* the state right after the listing, as the retransmission scanner sees it *)
Lemma listing_due es1 l s1 : run step init (es1 ++ [EAll Outgoing (Some l)]) = Some s1 ->
  l = store_all (ledger es1) /\ (l <> [] -> rr (RDue l) s1).
Proof.
  intros Hr. destruct (run_snoc _ _ _ Hr) as (s0 & Hr0 & Hs).
  destruct (all_step _ _ _ Hs) as [Heq (sp & Hpc)]. apply list_packet_eqb_eq in Heq.
  split.
  - rewrite Heq, (ledger_exact _ _ Hr0). reflexivity.
  - intros Hl. split; [exact Hl|]. exists sp. rewrite Hpc. destruct l; [contradiction|reflexivity].
Qed.

Lemma cons_split (es1 : list event) e es2 : es1 ++ e :: es2 = (es1 ++ [e]) ++ es2.
Proof. rewrite <- app_assoc. reflexivity. Qed.

Theorem recorded_is_resent : C09_recorded_is_resent_statement.
Proof.
  intros es1 l es2 s Hr. rewrite cons_split in Hr.
  apply run_prefix in Hr as (s1 & Hr1 & Hr2).
  destruct (listing_due _ _ _ Hr1) as [Heq Hdue]. split; [exact Heq|].
  destruct l as [|q rest]; [reflexivity|].
  assert (Hl : q :: rest <> []) by discriminate.
  destruct (scan_resend_gen es2 _ _ _ (RDue (q :: rest)) Hr1 (Hdue Hl) Hr2) as (x & Hx & _).
  exact (scan_resend_resent _ _ _ Hl Hx).
Qed.

Theorem resent_before_anything_else : C09_resent_before_anything_else_statement.
Proof.
  intros es1 l es2 p es3 s Hr Hnew. rewrite cons_split in Hr.
  apply run_prefix in Hr as (s1 & Hr1 & Hr2).
  destruct (listing_due _ _ _ Hr1) as [_ Hdue].
  destruct l as [|q rest]; [reflexivity|].
  assert (Hl : q :: rest <> []) by discriminate.
  destruct (scan_resend_gen _ _ _ _ (RDue (q :: rest)) Hr1 (Hdue Hl) Hr2) as (x & Hx & _).
  exact (scan_resend_resent_all _ _ _ _ _ Hl Hnew Hx).
Qed.

Lemma lookup_in_all st id p : store_lookup st id = Some p -> In p (store_all st).
Proof.
  induction st as [|[j q] st IH]; cbn [store_lookup store_all map]; [discriminate|].
  destruct (id =? j); [intros H; injection H as ->; left; reflexivity|intros H; right; exact (IH H)].
Qed.

Theorem saved_is_listed : C09_saved_is_listed_statement.
Proof.
  intros es1 m id es2 l es3 s Hr.
  assert (Hre : es1 ++ ESave Outgoing (Publish false m id) Ok :: es2 ++ EAll Outgoing (Some l) :: es3 =
                ((es1 ++ ESave Outgoing (Publish false m id) Ok :: es2) ++ [EAll Outgoing (Some l)]) ++ es3).
  { rewrite <- !app_assoc. reflexivity. }
  rewrite Hre in Hr. apply run_prefix in Hr as (s2 & Hr2 & _).
  destruct (run_snoc _ _ _ Hr2) as (s1 & Hr1 & Hs).
  destruct (all_step _ _ _ Hs) as [Heq _]. apply list_packet_eqb_eq in Heq.
  assert (Hin : forall p, store_lookup (s_out (sess s1)) id = Some p -> In p l).
  { intros p Hl. rewrite Heq. exact (lookup_in_all _ _ _ Hl). }
  destruct (nothing_dropped _ _ _ _ _ Hr1) as [(d & Hl)|[(Hl & A)|[A|[A|[A|[(Hl & A)|A]]]]]].
  - left. exists d. exact (Hin _ Hl).
  - right. left. split; [exact (Hin _ Hl)|exact A].
  - right. right. left. exact A.
  - right. right. right. left. exact A.
  - right. right. right. right. left. exact A.
  - do 5 right. left. split; [exact (Hin _ Hl)|exact A].
  - do 6 right. exact A.
Qed.

(* ------------------------------------------------------------------ Session.Reset: clean session only *)

(* the flag the observable history computes covers every pending Connect call and the configuration
   the Client runs under *)
Definition InvCr (b : bool) (s : st) : Prop :=
  (forall c cfg, In (c, CConnect cfg) (k_pending (k s)) -> cf_clean cfg = true -> b = true) /\
  (cf_clean (k_cfg (k s)) = true -> b = true).

Lemma in_aput {A} (m : list (N * A)) k v x : In x (amap_put m k v) -> x = (k, v) \/ In x m.
Proof.
  induction m as [|[k' v'] m IH]; cbn [amap_put].
  - intros [H|H]; [left; symmetry; exact H|contradiction].
  - destruct (N.eqb_spec k k') as [->|Hne].
    + intros [H|H]; [left; symmetry; exact H|right; right; exact H].
    + intros [H|H]; [right; left; exact H|]. destruct (IH H) as [X|X]; [left; exact X|right; right; exact X].
Qed.

Lemma in_adel {A} (m : list (N * A)) k x : In x (amap_del m k) -> In x m.
Proof.
  induction m as [|[k' v'] m IH]; cbn [amap_del]; [intros H; exact H|].
  destruct (k =? k'); [intros H; right; exact H|].
  intros [H|H]; [left; exact H|right; exact (IH H)].
Qed.

Lemma clean_step_mono b e : b = true -> (forall p, e <> ENew p) -> clean_step b e = true.
Proof.
  intros -> Hn. destruct e; try reflexivity.
  - exfalso. eapply Hn. reflexivity.
  - destruct k; reflexivity.
Qed.

Lemma InvCr_step b s e s' : InvCr b s -> step s e = Some s' -> InvCr (clean_step b e) s'.
Proof.
  intros [I1 I2] H.
  destruct e.
  all: step_leaves H.
  all: unfold InvCr; simp_proj; clean_eqs.
  all: (split; [intros cq cfgq Hin Hcl | intros Hcl]).
  all: try solve [apply clean_step_mono; [|intros pp X; discriminate X];
                  first [exact (I2 Hcl) | eapply I1; eassumption
                        | eapply I1; [eapply in_adel; eassumption|eassumption] ]].
  all: try solve [cbn in Hin; contradiction].
  all: try solve [cbn in Hcl; discriminate Hcl].
  all: cbn [clean_step].
  all: try solve [exact (I2 eq_refl)].
  all: try solve [eapply I1; [eapply aget_in; eassumption|exact Hcl]].
  all: try solve [destruct (in_aput _ _ _ _ Hin) as [X|X];
                  [ injection X as ? ?; subst; rewrite Hcl; apply orb_true_r
                  | match goal with |- match ?cl with _ => _ end = true =>
                      rewrite (I1 _ _ X Hcl); destruct cl; reflexivity end ]].
  all: try solve [exfalso; congruence].
Qed.

Lemma InvCr_run es : forall b s0 s, InvCr b s0 -> run step s0 es = Some s -> InvCr (fold_left clean_step es b) s.
Proof.
  induction es as [|e es IH]; intros b s0 s Hi Hr; cbn [run] in Hr.
  - injection Hr as <-. exact Hi.
  - destruct (step s0 e) as [s1|] eqn:Hs; [|discriminate Hr].
    cbn [fold_left]. eapply IH; [eapply InvCr_step; eassumption|exact Hr].
Qed.

Lemma reset_clean s w r s' : InvCl s -> step s (EReset w r) = Some s' -> cf_clean (k_cfg (k s)) = true.
Proof.
  intros (L1 & L2 & _) H. cbv beta iota zeta delta [step] in H.
  destruct w.
  - destruct (k_api (k s)) as [[c a]|]; [|discriminate H].
    destruct a; try discriminate H; try exact L1.
    destruct cu; try discriminate H. exact L1.
  - destruct (k_dpc (k s)); try discriminate H. destruct cu; try discriminate H. exact L2.
Qed.

Theorem reset_only_clean : C09_reset_only_clean_statement.
Proof.
  intros es1 w r es2 s Hr. rewrite cons_split in Hr. apply run_prefix in Hr as (s1 & Hr1 & _).
  destruct (run_snoc _ _ _ Hr1) as (s0 & Hr0 & Hs).
  destruct (InvF_reach _ _ Hr0) as [_ HL].
  assert (Hi : InvCr false init). { split; [intros c cfg X; contradiction|intros X; discriminate X]. }
  destruct (InvCr_run _ _ _ _ Hi Hr0) as [_ I2]. apply I2. eapply reset_clean; eassumption.
Qed.
