(* AMap.v — facts about the association lists of Future.v (amap_put/get/del) and their
   agreement with the packet store of Session/Store.v. *)
From Coq Require Import List NArith Bool Lia.
From GM Require Import Codec.Packet Session.Store Client.Future.
Import ListNotations.
Open Scope N_scope.

Section AMap.
  Context {A : Type}.
  Implicit Types (m : list (N * A)).

  Definition akeys m : list N := map fst m.

  Lemma aget_put m k v j : amap_get (amap_put m k v) j = if j =? k then Some v else amap_get m j.
  Proof.
    induction m as [|[k' v'] m IH]; cbn [amap_put amap_get].
    - destruct (j =? k); reflexivity.
    - destruct (N.eqb_spec k k') as [->|Hk]; cbn [amap_get].
      + destruct (N.eqb_spec j k'); reflexivity.
      + rewrite IH. destruct (N.eqb_spec j k') as [->|]; [|reflexivity].
        destruct (N.eqb_spec k' k); [congruence|reflexivity].
  Qed.

  Lemma aget_none_notin m k : amap_get m k = None <-> ~ In k (akeys m).
  Proof.
    induction m as [|[k' v'] m IH]; cbn [amap_get akeys map fst In]; [tauto|].
    destruct (N.eqb_spec k k') as [->|Hk].
    - split; [discriminate|intros H; exfalso; apply H; now left].
    - rewrite IH. unfold akeys. split; [intros H [E|E]; [congruence|tauto]|tauto].
  Qed.

  Lemma akeys_put m k v :
    akeys (amap_put m k v) = match amap_get m k with Some _ => akeys m | None => akeys m ++ [k] end.
  Proof.
    induction m as [|[k' v'] m IH]; cbn [amap_put amap_get akeys map fst app]; [reflexivity|].
    destruct (N.eqb_spec k k') as [->|Hk]; cbn [map fst]; [reflexivity|].
    fold (akeys (amap_put m k v)). rewrite IH. fold (akeys m).
    destruct (amap_get m k); reflexivity.
  Qed.

  Lemma nodup_snoc (l : list N) x : NoDup l -> ~ In x l -> NoDup (l ++ [x]).
  Proof.
    induction l as [|y l IH]; cbn; intros Hnd Hx; [constructor; [tauto|constructor]|].
    inversion Hnd as [|? ? Hy Hnd']; subst. constructor.
    - rewrite in_app_iff. cbn. intros [H|[H|[]]]; [tauto|]. subst. tauto.
    - apply IH; tauto.
  Qed.

  Lemma anodup_put m k v : NoDup (akeys m) -> NoDup (akeys (amap_put m k v)).
  Proof.
    intros H. rewrite akeys_put. destruct (amap_get m k) eqn:E; [exact H|].
    apply nodup_snoc; [exact H|]. apply aget_none_notin. exact E.
  Qed.

  Lemma aget_del m k j : NoDup (akeys m) ->
    amap_get (amap_del m k) j = if j =? k then None else amap_get m j.
  Proof.
    induction m as [|[k' v'] m IH]; intros Hnd; cbn [amap_del amap_get].
    - destruct (j =? k); reflexivity.
    - inversion Hnd as [|? ? Hnotin Hnd' Heq]. clear Heq.
      destruct (N.eqb_spec k k') as [Ek|Hk].
      + destruct (N.eqb_spec j k) as [Ej|Hj].
        * apply aget_none_notin. rewrite Ej, Ek. exact Hnotin.
        * destruct (N.eqb_spec j k') as [Ejk|]; [congruence|reflexivity].
      + cbn [amap_get]. rewrite IH by assumption.
        destruct (N.eqb_spec j k') as [Ejk|]; [|reflexivity].
        destruct (N.eqb_spec j k); [congruence|reflexivity].
  Qed.

  Lemma akeys_del_incl m k : incl (akeys (amap_del m k)) (akeys m).
  Proof.
    induction m as [|[k' v'] m IH]; cbn [amap_del akeys map fst]; [apply incl_refl|].
    destruct (k =? k'); [apply incl_tl, incl_refl|].
    cbn [map fst]. intros x [H|H]; [now left|right; apply IH; exact H].
  Qed.

  Lemma anodup_del m k : NoDup (akeys m) -> NoDup (akeys (amap_del m k)).
  Proof.
    induction m as [|[k' v'] m IH]; intros Hnd; cbn [amap_del akeys map fst]; [constructor|].
    inversion Hnd as [|? ? Hnotin Hnd']; subst.
    destruct (k =? k'); [exact Hnd'|]. cbn [map fst]. constructor; [|apply IH; exact Hnd'].
    intros H. apply Hnotin. apply (akeys_del_incl m k). exact H.
  Qed.

  Lemma aget_in m k v : amap_get m k = Some v -> In (k, v) m.
  Proof.
    induction m as [|[k' v'] m IH]; cbn [amap_get]; [discriminate|].
    destruct (N.eqb_spec k k') as [->|]; [intros H; injection H as ->; now left|intros H; right; auto].
  Qed.

  Lemma in_aget m k v : NoDup (akeys m) -> In (k, v) m -> amap_get m k = Some v.
  Proof.
    induction m as [|[k' v'] m IH]; intros Hnd Hin; [contradiction|].
    inversion Hnd as [|? ? Hnotin Hnd']; subst. cbn [amap_get].
    destruct Hin as [E|Hin].
    - injection E as -> ->. rewrite N.eqb_refl. reflexivity.
    - destruct (N.eqb_spec k k') as [->|]; [|auto].
      exfalso. apply Hnotin. change k' with (fst (k', v)). apply in_map. exact Hin.
  Qed.
End AMap.

(* the packet store is the same association list *)
Lemma store_put_amap st i p : store_put st i p = amap_put st i p.
Proof. induction st as [|[j q] st IH]; cbn; [reflexivity|]. destruct (i =? j); [reflexivity|]. rewrite IH. reflexivity. Qed.
Lemma store_lookup_amap st i : store_lookup st i = amap_get st i.
Proof. induction st as [|[j q] st IH]; cbn; [reflexivity|]. destruct (i =? j); [reflexivity|]. exact IH. Qed.
Lemma store_delete_amap st i : store_delete st i = amap_del st i.
Proof. induction st as [|[j q] st IH]; cbn; [reflexivity|]. destruct (i =? j); [reflexivity|]. rewrite IH. reflexivity. Qed.
