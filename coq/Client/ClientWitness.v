(* ClientWitness.v — concrete accepted traces: the two open C10 findings (refutations of the
   full statements), non-vacuity examples, and the accessor theorem. *)
From Coq Require Import List NArith Bool.
From Coq.Strings Require Import Byte.
From GM Require Import Base.Lts Codec.Packet Session.Ids Session.Store Client.Future Client.Client Client.ClientSpec.
Import ListNotations.
Open Scope N_scope.

Definition cfg_persist : config := Cfg false false true false true.
Definition conn_pkt : packet := Connect (Conn [x63; x6c] 0 [] [] false None 4).
Definition msg7 : message := Msg [x69; x6e] [x07; x02] 2 false.

Definition opening (c : N) (sp : bool) : list event :=
  [ ENew false; EApiCall c (CConnect cfg_persist); EHid (HAcq c); EDial Ok; ETx conn_pkt false Ok;
    EApiRet c RetFut; ERx (Connack sp 0); EHid HProc; EAll Outgoing (Some []); EHid HProc; EFut c true sp 0 [] ].

(* (a) PUBREL for an id that is not in the incoming store: the processor returns to Receive,
   no PUBCOMP was written *)
Definition witness_pubrel_unknown : list event :=
  opening 1 false ++ [ ERx (Pubrel 9); ELookup Incoming 9 (Some None) ].

Lemma pubrel_answered_refuted : ~ C10_pubrel_answered_statement.
Proof.
  intros H.
  destruct (run step init witness_pubrel_unknown) as [s|] eqn:E; [|vm_compute in E; discriminate].
  refine (H _ s E false 9 _ _).
  - vm_compute in E. injection E as <-. reflexivity.
  - vm_compute in E. injection E as <-. left. reflexivity.
Qed.

(* (b) PUBLISH(7, QoS 2), PUBREC, PUBREL: callback accepted, PUBCOMP write fails (the stored
   message is still there), Close; resume on the same session; PUBREL again: second callback *)
Definition witness_callback_twice : list event :=
  opening 1 false ++
  [ ERx (Publish false msg7 7); ESave Incoming (Publish false msg7 7) Ok; ETx (Pubrec 7) true Ok;
    ERx (Pubrel 7); ELookup Incoming 7 (Some (Some (Publish false msg7 7))); ECb msg7 Ok;
    ETx (Pubcomp 7) true Fail; EHid HDie; EHid HDie; EHid HDie; ECbErr;
    EApiCall 2 CClose; EHid (HAcq 2); EHid HApi; EHid HApi; EConnClose WApi Ok; EHid HApi; EHid HApi; EApiRet 2 RetNil ] ++
  opening 3 true ++
  [ ERx (Pubrel 7); ELookup Incoming 7 (Some (Some (Publish false msg7 7))); ECb msg7 Ok ].

Lemma exactly_once_refuted : ~ C10_exactly_once_statement.
Proof.
  intros H.
  destruct (run step init witness_callback_twice) as [s|] eqn:E; [|vm_compute in E; discriminate].
  destruct (H _ s E) as [H1 _].
  assert (G : amap_get (g_hs (g s)) 7 = Some 2) by (vm_compute in E; injection E as <-; reflexivity).
  specialize (H1 7 2 G). vm_compute in H1. apply H1. reflexivity.
Qed.

(* accessors *)
Lemma accessors_total : C09_accessors_total_statement.
Proof.
  intros v. unfold session_present, return_code, return_codes.
  repeat split; destruct v; cbn; discriminate.
Qed.

(* the unchecked assertion the code had before the fix does panic on a nil result *)
Example accessor_unchecked_panics : session_present_unchecked VNil = APanic.
Proof. reflexivity. Qed.

(* non-vacuity: a QoS 1 publish completed by its PUBACK, a subscribe by its SUBACK, then Disconnect *)
Definition msg1 : message := Msg [x74] [x02] 1 false.
Definition witness_roundtrip : list event :=
  opening 1 false ++
  [ EApiCall 2 (CReq (RPub msg1)); EHid (HAcq 2); ENextId 1; EHid HApi;
    ESave Outgoing (Publish false msg1 1) Ok; ETx (Publish false msg1 1) true Ok; EApiRet 2 RetFut;
    ERx (Puback 1); EDelete Outgoing 1 Ok; EHid HProc; EFut 2 true false 0 [];
    EApiCall 3 (CDisconnect false); EHid (HAcq 3); EHid HApi; ETx Disconnect false Ok;
    EHid HApi; EHid HApi; EConnClose WApi Ok; EHid HApi; ERxErr; EHid HProc; EHid HApi; EApiRet 3 RetNil ].

Example roundtrip_accepted : exists s, run step init witness_roundtrip = Some s /\
  store_before_send_ok s = true /\ truthful_ok s = true /\ quiescent s = true /\ pending_futures s = [].
Proof. eexists; split; [vm_compute; reflexivity|]. vm_compute. repeat split. Qed.
