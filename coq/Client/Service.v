(* Service.v — SV: model of client/service.go (client.Service) as a deterministic
   monitor.  Definitions only (extractable); proofs are in ServiceProofs*.v.

   The client (client.Client) appears through its interface only:
     connect result, call results (error | future for packet id), acknowledgements
     arriving at the shared future store, the error callback (kill), Disconnect/Close.

   Go                                   model
   Service.mutex (API calls, Stop)      the api slot `ap`: one API call at a time
   Service.started                      started
   Service.tomb (Kill/Dying)            dying
   kill channel of one connect attempt  kill
   supervisor goroutine                 control point `sp`
   Service.subscriptions (topic.Tree)   smap: association list topic -> qos (by C05 the tree is a map)
   Service.commandQueue (chan, cap c)   queue: bounded FIFO list of (future number, body)
   command.future                       futs: future number -> status (with the cause, ghost)
   Service.futureStore (shared)         store: packet id -> entry (what is attached to the client future)
   futureStore.Protect                  protected
   timers (backoff, timeouts)           events
   ghost                                issued, dispatched, drained, resubs, ready, tags
*)
From Coq Require Import List NArith Bool.
From Coq.Strings Require Import Byte.
From GM Require Import Codec.Packet.
Import ListNotations.
Open Scope N_scope.

(* ---------------------------------------------------------------- commands *)

Definition topic := bytes.
Definition sub := (topic * N)%type.          (* packet.Subscription {Topic, QOS} *)

Inductive body :=
| BSub (l : list sub)                         (* SubscribeMultiple *)
| BUnsub (ts : list topic)                    (* UnsubscribeMultiple *)
| BPub (m : message).                         (* PublishMessage *)

Inductive kind := KSub | KUnsub | KPub.

Definition kind_of (b : body) : kind :=
  match b with BSub _ => KSub | BUnsub _ => KUnsub | BPub _ => KPub end.

Definition kind_eqb (a b : kind) : bool :=
  match a, b with KSub, KSub | KUnsub, KUnsub | KPub, KPub => true | _, _ => false end.

Definition sub_eqb (a b : sub) : bool := bytes_eqb (fst a) (fst b) && N.eqb (snd a) (snd b).

Definition body_eqb (a b : body) : bool :=
  match a, b with
  | BSub l, BSub l' => list_eqb sub_eqb l l'
  | BUnsub l, BUnsub l' => list_eqb bytes_eqb l l'
  | BPub m, BPub m' => message_eqb m m'
  | _, _ => false
  end.

Definition cmd := (N * body)%type.            (* future number, body *)

(* ---------------------------------------------------------------- subscription set *)

(* topic.Tree used through Set / Empty / All only: a map topic -> subscription *)
Definition smap := list sub.

Definition smap_del (t : topic) (m : smap) : smap :=
  filter (fun e => negb (bytes_eqb (fst e) t)) m.

Definition smap_set (t : topic) (q : N) (m : smap) : smap := (t, q) :: smap_del t m.

(* dispatcher: `for v in cmd.subscriptions { Set(v.Topic, v) }`, `for t in topics { Empty(t) }` *)
Definition apply_body (b : body) (m : smap) : smap :=
  match b with
  | BSub l => fold_left (fun m e => smap_set (fst e) (snd e) m) l m
  | BUnsub ts => fold_left (fun m t => smap_del t m) ts m
  | BPub _ => m
  end.

(* Go string order: bytewise, unsigned, shorter prefix first *)
Fixpoint bytes_leb (a b : bytes) : bool :=
  match a, b with
  | [], _ => true
  | _ :: _, [] => false
  | x :: a', y :: b' =>
    if Byte.to_N x <? Byte.to_N y then true
    else if Byte.to_N y <? Byte.to_N x then false
    else bytes_leb a' b'
  end.

(* Tree.All: values in map order, de-duplicated by `clean` *)
Fixpoint dedup (l : list sub) : list sub :=
  match l with
  | [] => []
  | x :: l' => if existsb (sub_eqb x) l' then dedup l' else x :: dedup l'
  end.

Fixpoint insert_sub (x : sub) (l : list sub) : list sub :=
  match l with
  | [] => [x]
  | y :: l' => if bytes_leb (fst x) (fst y) then x :: l else y :: insert_sub x l'
  end.

Fixpoint sort_subs (l : list sub) : list sub :=
  match l with
  | [] => []
  | x :: l' => insert_sub x (sort_subs l')
  end.

(* resubscribe(): All, sort.Slice by Topic *)
Definition resub_list (m : smap) : list sub := sort_subs (dedup m).

(* ---------------------------------------------------------------- futures *)

Inductive cause :=
| CDispatchFail      (* the client call of the dispatcher returned an error *)
| CQueueTimeout      (* QueueTimeout expired while the queue was full *)
| CClientCancel      (* the client future it was attached to got cancelled (rejected SUBACK) *)
| CStopClear         (* Stop(true) *)
| CReplaced.         (* its client future was replaced in the store by a newer request with the same packet id
                        (future.Store.Put cancels the future it replaces) *)

Inductive fstatus :=
| FPending
| FCompleted (id : N)     (* by the acknowledgement for packet id `id` (QoS 0 publish: id 0, on send) *)
| FCancelled (c : cause).

Definition futs_t := list (N * fstatus).

Fixpoint fut_get (n : N) (fs : futs_t) : option fstatus :=
  match fs with
  | [] => None
  | (k, st) :: fs' => if k =? n then Some st else fut_get n fs'
  end.

(* Complete / Cancel: first one wins (the `done` flag) *)
Fixpoint fut_resolve (n : N) (st : fstatus) (fs : futs_t) : futs_t :=
  match fs with
  | [] => []
  | (k, old) :: fs' =>
    if k =? n then (k, match old with FPending => st | _ => old end) :: fs'
    else (k, old) :: fut_resolve n st fs'
  end.

Definition fut_resolve_all (ns : list N) (st : fstatus) (fs : futs_t) : futs_t :=
  fold_left (fun fs n => fut_resolve n st fs) ns fs.

(* what a client future sitting in the shared store is linked to *)
Inductive sentry :=
| SResub               (* the future resubscribe() waits on *)
| SCmd (n : N)         (* command future n was attached to it *)
| SNone.               (* nothing attached: the request could not be sent (the client leaves its future in the store) *)

Definition store_t := list (N * sentry).

Fixpoint store_get (id : N) (st : store_t) : option sentry :=
  match st with
  | [] => None
  | (k, e) :: st' => if k =? id then Some e else store_get id st'
  end.

Definition store_del (id : N) (st : store_t) : store_t :=
  filter (fun e => negb (fst e =? id)) st.

Definition store_put (id : N) (e : sentry) (st : store_t) : store_t := (id, e) :: store_del id st.

Definition store_cmds (st : store_t) : list N :=
  flat_map (fun e => match snd e with SCmd n => [n] | _ => [] end) st.

(* ---------------------------------------------------------------- control *)

Inductive cfail := CErr | CCancelled | CTimeout.

Inductive sup :=
| SIdle                       (* no supervisor goroutine *)
| STop (first : bool)         (* top of the loop *)
| SBackoff                    (* sleeping: time.After(d) | tomb.Dying *)
| SConnecting                 (* in connect(): Connect + Wait(ConnectTimeout) *)
| SResubCall                  (* OnlineCallback returned, set non-empty: about to call SubscribeMultiple *)
| SResubFailing               (* the resubscribe request could not be sent; error not reported yet *)
| SResubWait (id : N)         (* Wait(ResubscribeTimeout) on the future for packet id *)
| SResubCancelled             (* that future was cancelled; error not reported yet *)
| SDispatch                   (* in dispatcher(): select commandQueue | Dying | kill *)
| SDispFailing (n : N) (k : kind)   (* command n popped, its send failed; error not reported yet *)
| SClosing (dying : bool)     (* dispatcher returned: Close, OfflineCallback *)
| SEnded.                     (* supervisor returned, Stop has not returned yet *)

Inductive api :=
| ANone
| AStart (ok : bool)
| AStop (clear ok : bool)
| ACmd (n : N) (b : body) (blocked : bool).   (* blocked: in `select` with the queue full *)

(* tags of the ghost history *)
Record itag := ITag { i_ready : N; i_online : bool }.      (* at issue: successful (re)connects so far; dispatcher running? *)

Record state := St {
  cap        : N;                (* queue capacity (NewService(queueSize)) *)
  started    : bool;
  dying      : bool;
  kill       : bool;
  protected  : bool;
  sp         : sup;
  ap         : api;
  subs       : smap;
  queue      : list cmd;
  store      : store_t;
  futs       : futs_t;
  nextn      : N;
  (* ghost history *)
  issued     : list cmd;                 (* accepted into the queue, in order *)
  itags      : list (N * itag);
  dispatched : list cmd;                 (* taken by the dispatcher, in order (sent or failed) *)
  dtags      : list (N * N);             (* command number, `ready` at dispatch *)
  drained    : list cmd;                 (* removed from the queue by Stop(true) *)
  resubs     : list (list sub);          (* resubscribe requests handed to the client *)
  ready      : N;                        (* number of times the dispatcher was entered (connect + resubscribe ok) *)
  gen        : N                         (* supervisors started *)
}.

Definition init (c : N) : state :=
  St c false false false false SIdle ANone [] [] [] [] 0 [] [] [] [] [] [] 0 0.

Inductive obs := OCompleted | OCancelled.

Inductive event :=
(* API, from arbitrary goroutines; the service mutex lets one in at a time *)
| EStartCall | EStartRet (ok : bool)
| EStopCall (clear : bool) | EStopRet (ok : bool)
| ECmdCall (b : body) | ECmdRet | EQueueTimeout
(* supervisor *)
| EBackoff                            (* "Delay Reconnect" *)
| ENext                               (* "Next Reconnect": backoff elapsed (or first round) *)
| ESupExit                            (* backoff select took tomb.Dying *)
| EConnFail (r : cfail)               (* Connect returned an error | Wait: cancelled | timeout; client closed *)
| EOnline (sess : bool)               (* Wait ok; OnlineCallback(resumed) *)
| EResubSend (id : N) (l : list sub) (ok : bool)   (* resubscribe request handed to the connection *)
| EResubFail (r : cfail)              (* "Resubscribe Error" *)
| EDispSend (id : N) (b : body) (ok : bool)        (* head command handed to the connection *)
| EDispErr (k : kind)                 (* "<Kind> Error": the client call returned an error *)
| EDisconnect                         (* dispatcher took tomb.Dying: client.Disconnect returned *)
| EOffline                            (* dispatcher returned, client closed, OfflineCallback *)
(* client side *)
| EAck (id : N)                       (* SUBACK/UNSUBACK/PUBACK/PUBCOMP id processed by a client sharing the store *)
| EAckReject (id : N)                 (* SUBACK id with a failure code, ValidateSubs *)
| EKill                               (* the client's error callback fired (closes kill) *)
(* observation of a command future by a watcher *)
| EFut (n : N) (o : obs).

(* ---------------------------------------------------------------- helpers *)

Definition set_sp (s : state) (x : sup) : state :=
  St (cap s) (started s) (dying s) (kill s) (protected s) x (ap s) (subs s) (queue s) (store s) (futs s) (nextn s)
     (issued s) (itags s) (dispatched s) (dtags s) (drained s) (resubs s) (ready s) (gen s).

Definition set_ap (s : state) (x : api) : state :=
  St (cap s) (started s) (dying s) (kill s) (protected s) (sp s) x (subs s) (queue s) (store s) (futs s) (nextn s)
     (issued s) (itags s) (dispatched s) (dtags s) (drained s) (resubs s) (ready s) (gen s).

Definition set_kill (s : state) (x : bool) : state :=
  St (cap s) (started s) (dying s) x (protected s) (sp s) (ap s) (subs s) (queue s) (store s) (futs s) (nextn s)
     (issued s) (itags s) (dispatched s) (dtags s) (drained s) (resubs s) (ready s) (gen s).

Definition set_futs (s : state) (x : futs_t) : state :=
  St (cap s) (started s) (dying s) (kill s) (protected s) (sp s) (ap s) (subs s) (queue s) (store s) x (nextn s)
     (issued s) (itags s) (dispatched s) (dtags s) (drained s) (resubs s) (ready s) (gen s).

Definition set_store (s : state) (x : store_t) : state :=
  St (cap s) (started s) (dying s) (kill s) (protected s) (sp s) (ap s) (subs s) (queue s) x (futs s) (nextn s)
     (issued s) (itags s) (dispatched s) (dtags s) (drained s) (resubs s) (ready s) (gen s).

(* entering the dispatcher: connect and resubscribe succeeded *)
Definition enter_dispatch (s : state) : state :=
  St (cap s) (started s) (dying s) (kill s) (protected s) SDispatch (ap s) (subs s) (queue s) (store s) (futs s) (nextn s)
     (issued s) (itags s) (dispatched s) (dtags s) (drained s) (resubs s) (ready s + 1) (gen s).

Definition online_now (s : state) : bool :=
  match sp s with SDispatch => true | _ => false end.

(* the queue accepts command (n, b): channel send succeeded *)
Definition enqueue (s : state) (n : N) (b : body) : state :=
  St (cap s) (started s) (dying s) (kill s) (protected s) (sp s) (ACmd n b false) (subs s) (queue s ++ [(n, b)]) (store s)
     (futs s) (nextn s)
     (issued s ++ [(n, b)]) (itags s ++ [(n, ITag (ready s) (online_now s))]) (dispatched s) (dtags s) (drained s)
     (resubs s) (ready s) (gen s).

(* a receive on the full channel hands the slot to the blocked sender at once *)
Definition handover (s : state) : state :=
  match ap s with
  | ACmd n b true => enqueue s n b
  | _ => s
  end.

(* the dispatcher takes the head command (n, b): pop, Set/Empty on the tree *)
Definition pop_cmd (s : state) (n : N) (b : body) (q : list cmd) : state :=
  handover
  (St (cap s) (started s) (dying s) (kill s) (protected s) (sp s) (ap s) (apply_body b (subs s)) q (store s) (futs s) (nextn s)
      (issued s) (itags s) (dispatched s ++ [(n, b)]) (dtags s ++ [(n, ready s)]) (drained s) (resubs s)
      (ready s) (gen s)).

(* futureStore.Put(id, f2) [+ f2.Attach(cmd.future)]: Put cancels a different future it replaces,
   and with it the command future attached to that one *)
Definition put_entry (s : state) (id : N) (e : sentry) : state :=
  let fs := match store_get id (store s) with
            | Some (SCmd m) => fut_resolve m (FCancelled CReplaced) (futs s)
            | _ => futs s
            end in
  St (cap s) (started s) (dying s) (kill s) (protected s) (sp s) (ap s) (subs s) (queue s) (store_put id e (store s)) fs
     (nextn s)
     (issued s) (itags s) (dispatched s) (dtags s) (drained s) (resubs s) (ready s) (gen s).

Definition is_qos0 (b : body) : bool :=
  match b with BPub m => m_qos m =? 0 | _ => false end.

Definition client_alive (x : sup) : bool :=
  match x with
  | SIdle | STop true | SBackoff | SEnded => false
  | _ => true
  end.

Definition obs_matches (o : obs) (st : fstatus) : bool :=
  match o, st with
  | OCompleted, FCompleted _ => true
  | OCancelled, FCancelled _ => true
  | _, _ => false
  end.

(* Stop(true): Protect(false); Clear(); drain the queue *)
Definition stop_clear (s : state) : state :=
  let fs1 := fut_resolve_all (store_cmds (store s)) (FCancelled CStopClear) (futs s) in
  let fs2 := fut_resolve_all (map fst (queue s)) (FCancelled CStopClear) fs1 in
  St (cap s) (started s) (dying s) (kill s) false (sp s) (ap s) (subs s) [] [] fs2 (nextn s)
     (issued s) (itags s) (dispatched s) (dtags s) (drained s ++ queue s) (resubs s) (ready s) (gen s).

(* ---------------------------------------------------------------- step *)

Definition step (s : state) (e : event) : option state :=
  match e with
  (* ---- Start / Stop ---- *)
  | EStartCall =>
    match ap s with
    | ANone =>
      if started s then Some (set_ap s (AStart false))
      else
        match sp s with
        | SIdle =>
          Some (St (cap s) true false false true (STop true) (AStart true) (subs s) (queue s) (store s) (futs s) (nextn s)
                   (issued s) (itags s) (dispatched s) (dtags s) (drained s) (resubs s) (ready s) (gen s + 1))
        | _ => None
        end
    | _ => None
    end
  | EStartRet ok =>
    match ap s with
    | AStart ok' => if Bool.eqb ok ok' then Some (set_ap s ANone) else None
    | _ => None
    end
  | EStopCall clear =>
    match ap s with
    | ANone =>
      if started s then
        Some (St (cap s) false true (kill s) (protected s) (sp s) (AStop clear true) (subs s) (queue s) (store s) (futs s)
                 (nextn s)
                 (issued s) (itags s) (dispatched s) (dtags s) (drained s) (resubs s) (ready s) (gen s))
      else Some (set_ap s (AStop clear false))
    | _ => None
    end
  | EStopRet ok =>
    match ap s with
    | AStop clear ok' =>
      if negb (Bool.eqb ok ok') then None
      else if ok then
        match sp s with
        | SEnded =>
          let s1 := St (cap s) (started s) false (kill s) (protected s) SIdle ANone (subs s) (queue s) (store s) (futs s)
                       (nextn s)
                       (issued s) (itags s) (dispatched s) (dtags s) (drained s) (resubs s) (ready s) (gen s) in
          Some (if clear then stop_clear s1 else s1)
        | _ => None
        end
      else Some (set_ap s ANone)
    | _ => None
    end
  (* ---- Subscribe / Unsubscribe / Publish ---- *)
  | ECmdCall b =>
    match ap s with
    | ANone =>
      let n := nextn s in
      let s1 := St (cap s) (started s) (dying s) (kill s) (protected s) (sp s) (ACmd n b true) (subs s) (queue s) (store s)
                   (futs s ++ [(n, FPending)]) (n + 1)
                   (issued s) (itags s) (dispatched s) (dtags s) (drained s) (resubs s) (ready s) (gen s) in
      if N.of_nat (length (queue s)) <? cap s then Some (enqueue s1 n b) else Some s1
    | _ => None
    end
  | ECmdRet =>
    match ap s with
    | ACmd _ _ false => Some (set_ap s ANone)
    | _ => None
    end
  | EQueueTimeout =>
    match ap s with
    | ACmd n _ true => Some (set_ap (set_futs s (fut_resolve n (FCancelled CQueueTimeout) (futs s))) ANone)
    | _ => None
    end
  (* ---- supervisor ---- *)
  | EBackoff =>
    match sp s with STop false => Some (set_sp s SBackoff) | _ => None end
  | ENext =>
    match sp s with
    | STop true | SBackoff => Some (set_kill (set_sp s SConnecting) false)
    | _ => None
    end
  | ESupExit =>
    match sp s with
    | SBackoff => if dying s then Some (set_sp s SEnded) else None
    | _ => None
    end
  | EConnFail _ =>
    match sp s with SConnecting => Some (set_sp s (STop false)) | _ => None end
  | EOnline _ =>
    match sp s with
    | SConnecting =>
      match resub_list (subs s) with
      | [] => Some (enter_dispatch s)
      | _ :: _ => Some (set_sp s SResubCall)
      end
    | _ => None
    end
  | EResubSend id l ok =>
    match sp s with
    | SResubCall =>
      if list_eqb sub_eqb l (resub_list (subs s)) then
        let s1 := St (cap s) (started s) (dying s) (kill s) (protected s) (sp s) (ap s) (subs s) (queue s) (store s) (futs s)
                     (nextn s)
                     (issued s) (itags s) (dispatched s) (dtags s) (drained s) (resubs s ++ [l]) (ready s) (gen s) in
        if ok then Some (set_sp (put_entry s1 id SResub) (SResubWait id))
        else Some (set_sp (put_entry s1 id SNone) SResubFailing)
      else None
    | _ => None
    end
  | EResubFail r =>
    match r, sp s with
    | CErr, SResubCall | CErr, SResubFailing
    | CTimeout, SResubWait _ | CTimeout, SResubCancelled
    | CCancelled, SResubCancelled => Some (set_sp s (STop false))
    | _, _ => None
    end
  | EDispSend id b ok =>
    match sp s, queue s with
    | SDispatch, (n, b') :: q =>
      if body_eqb b b' then
        let s1 := pop_cmd s n b' q in
        if ok then
          if is_qos0 b' then
            (* Put(id, f2); send; f2.Complete; Delete(id); Attach completes the command future at once *)
            let s2 := put_entry s1 id SNone in
            Some (set_store (set_futs s2 (fut_resolve n (FCompleted id) (futs s2))) (store_del id (store s2)))
          else Some (put_entry s1 id (SCmd n))
        else Some (set_sp (put_entry s1 id SNone) (SDispFailing n (kind_of b')))
      else None
    | _, _ => None
    end
  | EDispErr k =>
    match sp s with
    | SDispatch =>
      match queue s with
      | (n, b) :: q =>
        if kind_eqb k (kind_of b) then
          let s1 := pop_cmd s n b q in
          Some (set_sp (set_futs s1 (fut_resolve n (FCancelled CDispatchFail) (futs s1))) (SClosing false))
        else None
      | [] => None
      end
    | SDispFailing n k' =>
      if kind_eqb k k' then
        Some (set_sp (set_futs s (fut_resolve n (FCancelled CDispatchFail) (futs s))) (SClosing false))
      else None
    | _ => None
    end
  | EDisconnect =>
    match sp s with
    | SDispatch => if dying s then Some (set_sp s (SClosing true)) else None
    | _ => None
    end
  | EOffline =>
    match sp s with
    | SClosing true => Some (set_sp s SEnded)
    | SClosing false => Some (set_sp s (STop false))
    | SDispatch => if kill s then Some (set_sp s (STop false)) else None
    | _ => None
    end
  (* ---- client ---- *)
  | EAck id =>
    match store_get id (store s) with
    | None => Some s
    | Some SNone => Some (set_store s (store_del id (store s)))
    | Some (SCmd n) =>
      Some (set_store (set_futs s (fut_resolve n (FCompleted id) (futs s))) (store_del id (store s)))
    | Some SResub =>
      let s1 := set_store s (store_del id (store s)) in
      match sp s with
      | SResubWait id' => if id =? id' then Some (enter_dispatch s1) else Some s1
      | _ => Some s1
      end
    end
  | EAckReject id =>
    match store_get id (store s) with
    | None => Some s
    | Some SNone => Some (set_store s (store_del id (store s)))
    | Some (SCmd n) =>
      Some (set_store (set_futs s (fut_resolve n (FCancelled CClientCancel) (futs s))) (store_del id (store s)))
    | Some SResub =>
      let s1 := set_store s (store_del id (store s)) in
      match sp s with
      | SResubWait id' => if id =? id' then Some (set_sp s1 SResubCancelled) else Some s1
      | _ => Some s1
      end
    end
  | EKill =>
    if kill s then None
    else if client_alive (sp s) then Some (set_kill s true) else None
  (* ---- watcher ---- *)
  | EFut n o =>
    match fut_get n (futs s) with
    | Some st => if obs_matches o st then Some s else None
    | None => None
    end
  end.

(* the monitor: run (step) (init c) es; `Base/Lts.v` has `run` and the induction *)
