(* ClientScan2.v — soundness of scan_close and scan_rel (TraceScan.v) on accepted traces. *)
From Coq Require Import List NArith Bool Lia.
From GM Require Import Base.Lts Codec.Packet Session.Ids Session.Store
  Client.Future Client.Client Client.ClientSpec Client.TraceScan
  Client.ClientTactics Client.AMap Client.PacketEq Client.ClientInvCtl Client.ClientInvOwed Client.ClientInvWf
  Client.ClientInvHs Client.ClientInvSbs Client.ClientC10 Client.ClientInvRx Client.ClientKept Client.ClientTotal
  Client.ClientScanProofs.
Import ListNotations.
Open Scope N_scope.

(* ---- scan_close: the scanner's flags are the model's ghost flags *)

Lemma close_sim s e s' : step s e = Some s' ->
  close_step (CScan (g_cbfail (g s)) (g_dead (g s))) e = CScan (g_cbfail (g s')) (g_dead (g s')).
Proof.
  intros H.
  destruct e.
  all: step_leaves H.
  all: simp_proj; clean_eqs.
  all: cbn [close_step cs_failed cs_over].
  all: try reflexivity.
Qed.

Lemma scan_close_gen es : forall s0 s,
  run step s0 es = Some s ->
  fold_left close_step es (CScan (g_cbfail (g s0)) (g_dead (g s0))) = CScan (g_cbfail (g s)) (g_dead (g s)).
Proof.
  induction es as [|e es IH]; intros s0 s Hrun.
  - cbn in Hrun. injection Hrun as <-. reflexivity.
  - cbn [run] in Hrun. destruct (step s0 e) as [s1|] eqn:Hs; [|discriminate Hrun].
    cbn [fold_left]. rewrite (close_sim _ _ _ Hs). apply IH. exact Hrun.
Qed.

Theorem scan_close_accepted es s : run step init es = Some s ->
  scan_close es = CScan (g_cbfail (g s)) (g_dead (g s)).
Proof. intros H. exact (scan_close_gen es init s H). Qed.

(* once the die body is done, a callback error implies that the connection is over *)
Corollary scan_close_ok es s : run step init es = Some s -> k_dpc (k s) = DDone ->
  error_closes_ok (scan_close es) = true.
Proof.
  intros H Hd. rewrite (scan_close_accepted _ _ H). unfold error_closes_ok. cbn [cs_failed cs_over].
  destruct (g_cbfail (g s)) eqn:Ef; [|reflexivity]. cbn [negb orb].
  exact (proj2 (no_ack_on_error _ _ H Ef) Hd).
Qed.

(* ---- scan_rel *)

Lemma sin_step s e s' : step s e = Some s' ->
  s_in (sess s') =
  match e with
  | ESave Incoming p Ok => store_save (s_in (sess s)) p
  | EDelete Incoming id Ok => store_delete (s_in (sess s)) id
  | EReset _ Ok => []
  | _ => s_in (sess s)
  end.
Proof.
  intros H.
  destruct e.
  all: step_leaves H.
  all: simp_proj; clean_eqs.
  all: try reflexivity.
Qed.

Lemma lookup_sim s d id x s' : step s (ELookup d id (Some x)) = Some s' ->
  d = Incoming /\ option_eqb packet_eqb x (store_lookup (s_in (sess s)) id) = true.
Proof.
  intros H. step_leaves H.
  all: split; [reflexivity|]; assumption.
Qed.

Lemma delete_in_sim s id s' y : yrel y (k_ppc (k s)) -> step s (EDelete Incoming id Ok) = Some s' -> y = YDel id.
Proof.
  intros HR H. step_leaves H.
  all: clean_eqs.
  all: repeat match goal with E : (?a =? ?b) = true |- _ => apply N.eqb_eq in E; subst end.
  all: destruct y; cbn [yrel] in HR; try contradiction; try (destruct HR as [_ [X|X]]; try discriminate X).
  all: try (subst; reflexivity).
  all: try (exfalso; destruct (after_cb_exp p); discriminate X).
Qed.

Lemma rel_sim s e s' y : yrel y (k_ppc (k s)) -> step s e = Some s' ->
  rel_ok (s_in (sess s)) e = true /\ rel_step (s_in (sess s)) y e = s_in (sess s').
Proof.
  intros HR H. split.
  - destruct e; try reflexivity. destruct r as [x|]; [|destruct d; reflexivity].
    destruct (lookup_sim _ _ _ _ _ H) as [-> Hx]. exact Hx.
  - rewrite (sin_step _ _ _ H). destruct e; try reflexivity.
    destruct d; [|reflexivity]. destruct r; [|reflexivity].
    cbn [rel_step]. rewrite (delete_in_sim _ _ _ _ HR H). rewrite N.eqb_refl. reflexivity.
Qed.

Lemma scan_rel_gen es : forall pre s0 s y,
  run step init pre = Some s0 -> run step s0 es = Some s -> yrel y (k_ppc (k s0)) ->
  exists y', scan_rel (s_in (sess s0)) y es = Some (s_in (sess s), y') /\ yrel y' (k_ppc (k s)).
Proof.
  induction es as [|e es IH]; intros pre s0 s y Hpre Hrun Hrel.
  - cbn in Hrun. injection Hrun as <-. exists y. split; [reflexivity|exact Hrel].
  - cbn [run] in Hrun. destruct (step s0 e) as [s1|] eqn:Hs; [|discriminate Hrun].
    assert (Hpre' : run step init (pre ++ [e]) = Some s1).
    { rewrite run_app, Hpre. cbn [run]. rewrite Hs. reflexivity. }
    destruct (InvG_reach _ _ Hpre) as (((((_ & HC & HO & _) & _) & _) & _) & _).
    destruct (ack_sim _ _ _ _ HC HO Hrel Hs) as (y1 & Hy1 & Hrel1).
    destruct (rel_sim _ _ _ _ Hrel Hs) as [Hok Hst].
    cbn [scan_rel]. rewrite Hok, Hy1, Hst. eapply IH; eassumption.
Qed.

(* on an accepted trace the lockstep scanner never fails and its store is the model's incoming store *)
Theorem scan_rel_accepted es s : run step init es = Some s ->
  exists y, scan_rel [] YInit es = Some (s_in (sess s), y) /\ yrel y (k_ppc (k s)).
Proof. intros H. exact (scan_rel_gen es [] init s YInit eq_refl H I). Qed.



