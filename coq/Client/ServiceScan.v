(* ServiceScan.v — the trace scanners of ServiceSpec.v hold of every trace the service monitor accepts. *)
From Coq Require Import List NArith Bool Lia.
From GM Require Import Base.Lts Codec.Packet Client.Service Client.ServiceSpec Client.ServiceLemmas Client.ServiceProofs Client.ServiceStop.
Import ListNotations.
Open Scope N_scope.

(* simulation: if related states stay related along every monitor step, the scanner accepts what the monitor accepts *)
Lemma scan_sim {S : Type} (f : S -> event -> option S) (R : S -> state -> Prop) :
  (forall g s e s', R g s -> step s e = Some s' -> exists g', f g e = Some g' /\ R g' s') ->
  forall es g s s', R g s -> run step s es = Some s' -> scan f g es = true.
Proof.
  intros Hstep. induction es as [|e es IH]; intros g s s' HR Hrun; cbn [scan]; [reflexivity|].
  cbn [run] in Hrun. destruct (step s e) as [s1|] eqn:E; [|discriminate].
  destruct (Hstep g s e s1 HR E) as (g' & Hg & HR'). rewrite Hg. eapply IH; eauto.
Qed.

(* ---------------------------------------------------------------- dispatch gate *)

Definition gate_rel (g : gstate) (s : state) : Prop :=
  (sp s = SDispatch -> g = G1 \/ g = G3) /\
  (forall n k, sp s = SDispFailing n k -> g = G4) /\
  (sp s = SResubCall -> g = G1) /\
  (forall id, sp s = SResubWait id -> g = G2 id /\ store_get id (store s) = Some SResub).

Ltac gate_rel_tac :=
  unfold gate_rel; cbn; rewrite ?pop_sp, ?pop_store; cbn; rw_ctl; cbn;
  repeat split; intros; try discriminate; try tauto; try congruence.

Lemma gate_sim g s e s' : gate_rel g s -> step s e = Some s' -> exists g', gate_step g e = Some g' /\ gate_rel g' s'.
Proof.
  intros (R1 & R2 & R3 & R4) H. destruct e; step_inv H.
  all: try (subst; eexists; split; [reflexivity|]; unfold gate_rel; tauto).
  all: cbn [gate_step].
  (* what the relation says about g at this control point *)
  all: try (destruct (R1 eq_refl); subst g).
  all: try (rewrite (R2 _ _ eq_refl) in * ).
  all: try (rewrite (R3 eq_refl) in * ).
  all: try (destruct (R4 _ eq_refl) as [-> Hst]).
  all: try (match goal with |- context [if ?c then _ else _] => destruct c eqn:?; try discriminate end).
  all: try (eexists; split; [reflexivity|]; gate_rel_tac; fail).
  all: try (destruct g as [| |i| | |]; cbn; try (destruct (id =? i) eqn:Ei; [apply N.eqb_eq in Ei; subst i|]);
            eexists; (split; [reflexivity|]); unfold gate_rel; cbn;
            (split; [intros H0; try (destruct (R1 H0)); try discriminate; auto|]);
            (split; [intros n0 k0 H0; try (pose proof (R2 _ _ H0)); try discriminate; auto|]);
            (split; [intros H0; try (pose proof (R3 H0)); try discriminate; auto|]);
            intros i0 H0; try (destruct (R4 _ H0) as [Hg Hs]); try discriminate; try congruence;
            try (injection Hg as <-); try (split; [reflexivity|]);
            rewrite ?store_get_del; try rewrite N.eqb_sym, Ei; try assumption; try congruence; fail).
  - eexists; split; [reflexivity|]. unfold gate_rel; cbn. repeat split; intros; try discriminate.
    + congruence.
    + injection H as <-. unfold put_entry; cbn. rewrite store_get_put, N.eqb_refl. reflexivity.
  - eexists; split; [reflexivity|]. unfold gate_rel; cbn. rewrite E1. repeat split; intros; try discriminate.
    + congruence.
    + injection H as <-. rewrite store_get_del. rewrite N.eqb_sym in Heqb. rewrite Heqb. exact Hst.
  - eexists; split; [reflexivity|]. unfold gate_rel; cbn. rewrite E1. repeat split; intros; try discriminate.
    + congruence.
    + injection H as <-. rewrite store_get_del. rewrite N.eqb_sym in Heqb. rewrite Heqb. exact Hst.
Qed.

Theorem gate_ok_accepted c es s : run step (init c) es = Some s -> gate_ok es = true.
Proof.
  intros H. unfold gate_ok. apply (scan_sim gate_step gate_rel gate_sim es G0 (init c) s); [|exact H].
  unfold gate_rel; cbn. repeat split; intros; discriminate.
Qed.

(* ---------------------------------------------------------------- lifecycle *)

Definition life_rel (l : lstate) (s : state) : Prop :=
  inv_ctl s /\
  l_call l = match ap s with AStart ok => Some (LStart ok) | AStop _ ok => Some (LStop ok) | _ => None end /\
  (l_run l = true <-> (started s = true \/ stopping s = true)).

Lemma life_running l s : life_rel l s -> sp s <> SIdle -> l_run l = true.
Proof.
  intros (C & _ & Hr) Hsp. apply Hr. destruct (started s) eqn:Es; [left; reflexivity|].
  destruct (stopping s) eqn:Et; [right; reflexivity|]. exfalso. apply Hsp. apply (ic_idle s C). auto.
Qed.

Lemma life_sim l s e s' : life_rel l s -> step s e = Some s' -> exists l', life_step l e = Some l' /\ life_rel l' s'.
Proof.
  intros R H. pose proof R as (C & Hc & Hr). pose proof (inv_ctl_step s e s' C H) as C'.
  destruct e; cbn [life_step is_sup_event].
  all: try (rewrite (life_running l s R)
              by (intros Hs; unfold step in H; rewrite Hs in H; try discriminate H; destruct (queue s); discriminate H)).
  all: try (eexists; split; [reflexivity|]; split; [exact C'|]; revert Hc Hr; clear C C' R; step_inv H;
            unfold stopping, pop_cmd, handover, put_entry, enqueue, enter_dispatch in *; cbn; split_ap; cbn; rw_ctl; cbn;
            intros Hc Hr; (split; [exact Hc|exact Hr]); fail).
  5-7: (eexists; split; [reflexivity|]; split; [exact C'|]; revert Hc Hr; clear C C' R; step_inv H;
        unfold stopping, pop_cmd, handover, put_entry, enqueue, enter_dispatch in *; cbn; split_ap; cbn; rw_ctl; cbn;
        intros Hc Hr; try discriminate; try (split; [exact Hc|exact Hr])).
  - (* Start called *)
    unfold step in H. destruct (ap s) eqn:Ea; try discriminate. rewrite Hc. cbn.
    assert (Hrs : l_run l = started s).
    { destruct (l_run l) eqn:El, (started s) eqn:Es; try reflexivity.
      - destruct (proj1 Hr eq_refl) as [Hx|Hx]; [discriminate|]. unfold stopping in Hx. rewrite Ea in Hx. discriminate.
      - exfalso. assert (Hx : false = true) by (apply Hr; left; reflexivity). discriminate. }
    rewrite Hrs. destruct (started s) eqn:Es.
    + injection H as <-. eexists; split; [reflexivity|]. split; [exact C'|]. cbn. rewrite Es. unfold stopping; cbn. split; [reflexivity|tauto].
    + destruct (sp s); try discriminate. injection H as <-. eexists; split; [reflexivity|]. split; [exact C'|]. cbn.
      unfold stopping; cbn. split; [reflexivity|tauto].
  - (* Start returned *)
    unfold step in H. destruct (ap s) eqn:Ea; try discriminate. rewrite Hc.
    destruct (eqb ok ok0) eqn:Eo; [|discriminate]. injection H as <-. eexists; split; [reflexivity|]. split; [exact C'|]. cbn.
    split; [reflexivity|]. unfold stopping in *; cbn. rewrite Ea in Hr. exact Hr.
  - (* Stop called *)
    unfold step in H. destruct (ap s) eqn:Ea; try discriminate. rewrite Hc.
    assert (Hrs : l_run l = started s).
    { destruct (l_run l) eqn:El, (started s) eqn:Es; try reflexivity.
      - destruct (proj1 Hr eq_refl) as [Hx|Hx]; [discriminate|]. unfold stopping in Hx. rewrite Ea in Hx. discriminate.
      - exfalso. assert (Hx : false = true) by (apply Hr; left; reflexivity). discriminate. }
    destruct (started s) eqn:Es; injection H as <-; eexists; (split; [reflexivity|]); (split; [exact C'|]); cbn;
      unfold stopping; cbn; rewrite Hrs; (split; [reflexivity|]); try rewrite Es; tauto.
  - (* Stop returned *)
    unfold step in H. destruct (ap s) as [| |c ok0|] eqn:Ea; try discriminate. rewrite Hc.
    pose proof (ic_stop s C c ok0 Ea) as Hst.
    destruct (eqb ok ok0) eqn:Eo; cbn [negb] in H; [|discriminate]. apply eqb_prop in Eo. subst ok0.
    unfold stopping in Hr. rewrite Ea in Hr.
    destruct ok.
    + destruct (sp s); try discriminate. injection H as <-. eexists; split; [reflexivity|]. split; [exact C'|].
      destruct c; cbn; unfold stopping; cbn; rewrite ?Hst; (split; [reflexivity|]); split; intros Hx; try discriminate;
        destruct Hx; discriminate.
    + injection H as <-. eexists; split; [reflexivity|]. split; [exact C'|]. cbn. unfold stopping; cbn.
      split; [reflexivity|]. exact Hr.
  - (* "Resubscribe Error" *)
    rewrite (life_running l s R) by (intros Hs; unfold step in H; rewrite Hs in H; destruct r; discriminate H).
    eexists; split; [reflexivity|]. split; [exact C'|]. unfold step in H.
    destruct r, (sp s); try discriminate H; injection H as <-; cbn; unfold stopping in *; cbn; (split; [exact Hc|exact Hr]).
Qed.

Theorem life_ok_accepted c es s : run step (init c) es = Some s -> life_ok es = true.
Proof.
  intros H. unfold life_ok. apply (scan_sim life_step life_rel life_sim es (LS false None) (init c) s); [|exact H].
  split; [apply inv_ctl_init|]. cbn. split; [reflexivity|]. unfold stopping; cbn. split; [discriminate|intros [Hx|Hx]; discriminate].
Qed.
