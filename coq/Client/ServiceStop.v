(* ServiceStop.v — every pending command future is held somewhere Stop(true) reaches:
   by a caller blocked on the full queue, in the queue, by the dispatcher between a failed
   send and its error report, or attached to a client future in the shared store. *)
From Coq Require Import List NArith Bool Lia Sorted.
From GM Require Import Base.Lts Codec.Packet Client.Service Client.ServiceSpec Client.ServiceLemmas Client.ServiceProofs.
Import ListNotations.
Open Scope N_scope.

Definition holders (s : state) : list N :=
  (match ap s with ACmd n _ true => [n] | _ => [] end) ++ map fst (queue s) ++
  (match sp s with SDispFailing n _ => [n] | _ => [] end) ++ store_cmds (store s).

Definition pending (s : state) (n : N) : Prop := fut_get n (futs s) = Some FPending.

(* x: futures in transit inside one step *)
Definition inv_pend_x (x : list N) (s : state) : Prop := forall m, pending s m -> In m (holders s) \/ In m x.
Definition inv_pend := inv_pend_x [].

Lemma inv_pend_init c : inv_pend (init c).
Proof. intros m H. cbv in H. discriminate. Qed.

(* ---- projections of the helpers *)

Lemma pop_store s n b q : store (pop_cmd s n b q) = store s.
Proof. unfold pop_cmd, handover; cbn. destruct (ap s) as [| | |? ? []]; reflexivity. Qed.
Lemma pop_futs s n b q : futs (pop_cmd s n b q) = futs s.
Proof. unfold pop_cmd, handover; cbn. destruct (ap s) as [| | |? ? []]; reflexivity. Qed.
Lemma pop_sp s n b q : sp (pop_cmd s n b q) = sp s.
Proof. unfold pop_cmd, handover; cbn. destruct (ap s) as [| | |? ? []]; reflexivity. Qed.

Lemma pop_holders s n b q m :
  queue s = (n, b) :: q -> In m (holders s) -> m = n \/ In m (holders (pop_cmd s n b q)).
Proof.
  intros Hq. unfold holders. rewrite pop_store, pop_sp. rewrite Hq.
  unfold pop_cmd, handover; cbn.
  destruct (ap s) as [| | |k b' []]; cbn; rewrite ?map_app; cbn; rewrite ?in_app_iff; cbn; intuition.
Qed.

(* ---- store_cmds under Put / Delete *)

Lemma in_cmds_del id st m :
  NoDup (map fst st) -> In m (store_cmds st) -> store_get id st <> Some (SCmd m) -> In m (store_cmds (store_del id st)).
Proof.
  intros Hnd Hin Hne. apply in_store_cmds in Hin. destruct Hin as (id' & Hin).
  apply in_store_cmds. exists id'. apply in_store_del. split; [exact Hin|]. cbn.
  intros ->. apply Hne. apply in_store_get; auto.
Qed.

Lemma in_cmds_put id e st m : In m (store_cmds (store_del id st)) -> In m (store_cmds (store_put id e st)).
Proof.
  intros Hin. apply in_store_cmds in Hin. destruct Hin as (id' & Hin).
  apply in_store_cmds. exists id'. unfold store_put. right; exact Hin.
Qed.

Lemma in_cmds_put_new id n st : In n (store_cmds (store_put id (SCmd n) st)).
Proof. apply in_store_cmds. exists id. unfold store_put. left; reflexivity. Qed.

(* ---- the helpers preserve the accounting *)

Lemma px_frame x s s' :
  futs s' = futs s -> (forall m, In m (holders s) -> In m (holders s')) -> inv_pend_x x s -> inv_pend_x x s'.
Proof.
  intros Hf Hh P m Hm. unfold pending in Hm. rewrite Hf in Hm. destruct (P m Hm) as [H|H]; auto.
Qed.

Lemma px_weaken x y s : incl x y -> inv_pend_x x s -> inv_pend_x y s.
Proof. intros Hi P m Hm. destruct (P m Hm); auto. Qed.

Lemma px_pop s n b q : queue s = (n, b) :: q -> inv_pend s -> inv_pend_x [n] (pop_cmd s n b q).
Proof.
  intros Hq P m Hm. unfold pending in Hm. rewrite pop_futs in Hm.
  destruct (P m Hm) as [H|[]]. destruct (pop_holders s n b q m Hq H) as [->|H']; [right; left; reflexivity|left; exact H'].
Qed.

Lemma put_futs_cases s id e m :
  pending (put_entry s id e) m -> pending s m /\ store_get id (store s) <> Some (SCmd m).
Proof.
  unfold pending, put_entry; cbn. destruct (store_get id (store s)) as [[| k |]|] eqn:E; intros H; try (split; [exact H|discriminate]).
  pose proof H as H0. apply fut_resolve_cases in H. destruct H as [H|(H & Hy & _)]; [|discriminate].
  split; [exact H|]. intros Heq; injection Heq as ->.
  rewrite fut_get_resolve_same, H in H0. discriminate.
Qed.

Lemma put_holders s id e m :
  NoDup (map fst (store s)) -> store_get id (store s) <> Some (SCmd m) ->
  In m (holders s) -> In m (holders (put_entry s id e)).
Proof.
  intros Hnd Hne. unfold holders, put_entry; cbn. rewrite !in_app_iff. intros [H|[H|[H|H]]]; auto.
  right; right; right. apply in_cmds_put. apply in_cmds_del; auto.
Qed.

Lemma px_put x s id e : NoDup (map fst (store s)) -> inv_pend_x x s -> inv_pend_x x (put_entry s id e).
Proof.
  intros Hnd P m Hm. apply put_futs_cases in Hm. destruct Hm as [Hm Hne].
  destruct (P m Hm) as [H|H]; [left|right; exact H]. apply put_holders; auto.
Qed.

Lemma px_put_cmd s id n : NoDup (map fst (store s)) -> inv_pend_x [n] s -> inv_pend (put_entry s id (SCmd n)).
Proof.
  intros Hnd P m Hm. left. apply put_futs_cases in Hm. destruct Hm as [Hm Hne].
  destruct (P m Hm) as [H|[<-|[]]]; [apply put_holders; auto|].
  unfold holders, put_entry; cbn. rewrite !in_app_iff. right; right; right. apply in_cmds_put_new.
Qed.

(* future n is resolved: it needs no holder any more *)
Lemma px_resolve s n st : st <> FPending -> inv_pend_x [n] s -> inv_pend (set_futs s (fut_resolve n st (futs s))).
Proof.
  intros Hst P m Hm. unfold pending in Hm; cbn in Hm. pose proof Hm as Hm0.
  apply fut_resolve_cases in Hm. destruct Hm as [Hm|(_ & Hy & _)]; [|congruence].
  destruct (N.eq_dec m n) as [->|Hne].
  - exfalso. pose proof Hm0 as Hx. rewrite fut_get_resolve_same, Hm in Hx. destruct st; congruence.
  - destruct (P m Hm) as [H|[<-|[]]]; [left; exact H|contradiction Hne; reflexivity].
Qed.

Lemma px_failing s n k : sp s = SDispatch -> inv_pend_x [n] s -> inv_pend (set_sp s (SDispFailing n k)).
Proof.
  intros Hsp P m Hm. left. destruct (P m Hm) as [H|[<-|[]]].
  - unfold holders in *; cbn. rewrite !in_app_iff in *. destruct H as [H|[H|[H|H]]]; auto.
    + rewrite Hsp in H. destruct H.
    + right; right. right; exact H.
  - unfold holders; cbn. rewrite !in_app_iff. right; right. left; reflexivity.
Qed.

Lemma px_del x s id :
  NoDup (map fst (store s)) ->
  (forall m, store_get id (store s) = Some (SCmd m) -> ~ pending s m) ->
  inv_pend_x x s -> inv_pend_x x (set_store s (store_del id (store s))).
Proof.
  intros Hnd Hnp P m Hm. change (pending s m) in Hm. destruct (P m Hm) as [H|H]; [left|right; exact H].
  unfold holders in *; cbn. rewrite !in_app_iff in *. destruct H as [H|[H|[H|H]]]; auto.
  right; right; right. apply in_cmds_del; auto. intros Heq. exact (Hnp m Heq Hm).
Qed.

Lemma resolved_not_pending s n st : st <> FPending -> ~ pending (set_futs s (fut_resolve n st (futs s))) n.
Proof.
  intros Hst Hp. unfold pending in Hp; cbn in Hp. rewrite fut_get_resolve_same in Hp.
  destruct (fut_get n (futs s)) as [[| |]|]; try discriminate. congruence.
Qed.

(* an acknowledgement (or rejection) reaches the client future command n is attached to *)
Lemma px_ack s id n st :
  st <> FPending -> NoDup (map fst (store s)) -> store_get id (store s) = Some (SCmd n) ->
  inv_pend s -> inv_pend (set_store (set_futs s (fut_resolve n st (futs s))) (store_del id (store s))).
Proof.
  intros Hst Hnd Hg P.
  apply (px_del [] (set_futs s (fut_resolve n st (futs s))) id); cbn; auto.
  - intros m Hm. rewrite Hg in Hm. injection Hm as <-. apply resolved_not_pending; auto.
  - apply px_resolve; auto. apply (px_weaken []); auto. intros ? [].
Qed.

Lemma px_del_other s id :
  NoDup (map fst (store s)) -> (forall m, store_get id (store s) <> Some (SCmd m)) ->
  inv_pend s -> inv_pend (set_store s (store_del id (store s))).
Proof. intros Hnd Hne P. apply px_del; auto. intros m Hm. contradiction (Hne m). Qed.

Lemma fut_resolve_all_notin ns : forall n st fs, ~ In n ns -> fut_get n (fut_resolve_all ns st fs) = fut_get n fs.
Proof.
  unfold fut_resolve_all. induction ns as [|k ns IH]; intros n st fs Hn; cbn [fold_left]; [reflexivity|].
  rewrite IH by (intros H; apply Hn; right; exact H).
  apply fut_get_resolve_other. intros ->. apply Hn; left; reflexivity.
Qed.

(* Stop(true): nothing is left pending *)
Lemma stop_clear_none s :
  inv_pend s -> ap s = ANone -> sp s = SIdle ->
  forall m st, fut_get m (futs (stop_clear s)) = Some st -> st <> FPending.
Proof.
  intros P Hap Hsp m st Hg Hst. subst st. cbn in Hg.
  pose proof Hg as Hg0.
  apply fut_resolve_all_cases in Hg. destruct Hg as [Hg|(_ & Hy & _)]; [|discriminate].
  apply fut_resolve_all_cases in Hg. destruct Hg as [Hg|(_ & Hy & _)]; [|discriminate].
  destruct (P m Hg) as [H|[]]. unfold holders in H. rewrite Hap, Hsp in H. cbn in H. rewrite in_app_iff in H.
  destruct (in_dec N.eq_dec m (store_cmds (store s))) as [Hin|Hnin].
  - rewrite (fut_resolve_all_stable (map fst (queue s)) m (FCancelled CStopClear) _ (FCancelled CStopClear)) in Hg0; [discriminate| |discriminate].
    apply fut_resolve_all_in; auto. discriminate.
  - destruct H as [H|H]; [|contradiction].
    rewrite (fut_resolve_all_in (map fst (queue s)) m (FCancelled CStopClear)) in Hg0; [discriminate|discriminate|exact H|].
    rewrite fut_resolve_all_notin; auto.
Qed.

Lemma inv_pend_stop_clear s : inv_pend s -> ap s = ANone -> sp s = SIdle -> inv_pend (stop_clear s).
Proof.
  intros P Ha Hs m Hm. exfalso. exact (stop_clear_none s P Ha Hs m FPending Hm eq_refl).
Qed.

(* the dispatcher reports the failed send of command n *)
Lemma px_failing_done s n k st x :
  sp s = SDispFailing n k -> st <> FPending -> (forall a b, x <> SDispFailing a b) ->
  inv_pend s -> inv_pend (set_sp (set_futs s (fut_resolve n st (futs s))) x).
Proof.
  intros Hsp Hst Hx P m Hm. unfold pending in Hm; cbn in Hm. pose proof Hm as Hm0.
  apply fut_resolve_cases in Hm. destruct Hm as [Hm|(_ & Hy & _)]; [|congruence].
  assert (Hne : m <> n).
  { intros ->. rewrite fut_get_resolve_same, Hm in Hm0. destruct st; congruence. }
  left. destruct (P m Hm) as [H|[]]. unfold holders in *; cbn. rewrite Hsp in H. rewrite !in_app_iff in *.
  destruct H as [H|[H|[H|H]]]; auto.
  destruct H as [->|[]]. contradiction Hne; reflexivity.
Qed.

(* QueueTimeout: the blocked caller cancels its own future *)
Lemma px_qtimeout s n b :
  ap s = ACmd n b true -> inv_pend s ->
  inv_pend (set_ap (set_futs s (fut_resolve n (FCancelled CQueueTimeout) (futs s))) ANone).
Proof.
  intros Hap P m Hm. unfold pending in Hm; cbn in Hm. pose proof Hm as Hm0.
  apply fut_resolve_cases in Hm. destruct Hm as [Hm|(_ & Hy & _)]; [|congruence].
  assert (Hne : m <> n).
  { intros ->. rewrite fut_get_resolve_same, Hm in Hm0. congruence. }
  left. destruct (P m Hm) as [H|[]]. unfold holders in *; cbn. rewrite Hap in H. rewrite !in_app_iff in *.
  destruct H as [H|H]; [|exact H]. destruct H as [->|[]]. contradiction Hne; reflexivity.
Qed.

(* a new command: its future is pending and held by the caller or the queue *)
Lemma px_call s b s1 :
  ap s = ANone -> inv_pend s ->
  s1 = St (cap s) (started s) (dying s) (kill s) (protected s) (sp s) (ACmd (nextn s) b true) (subs s) (queue s) (store s)
          (futs s ++ [(nextn s, FPending)]) (nextn s + 1)
          (issued s) (itags s) (dispatched s) (dtags s) (drained s) (resubs s) (ready s) (gen s) ->
  inv_pend s1 /\ inv_pend (enqueue s1 (nextn s) b).
Proof.
  intros Hap P ->. split; intros m Hm; left; unfold pending in Hm; cbn in Hm; rewrite fut_get_app in Hm;
    unfold holders; cbn; rewrite ?map_app, !in_app_iff; cbn.
  - destruct (fut_get m (futs s)) as [x|] eqn:E.
    + injection Hm as ->. destruct (P m E) as [H|[]]. unfold holders in H. rewrite Hap in H. cbn in H. rewrite !in_app_iff in H. tauto.
    + destruct (nextn s =? m) eqn:En; [|discriminate]. apply N.eqb_eq in En. left; exact En.
  - destruct (fut_get m (futs s)) as [x|] eqn:E.
    + injection Hm as ->. destruct (P m E) as [H|[]]. unfold holders in H. rewrite Hap in H. cbn in H. rewrite !in_app_iff in H. tauto.
    + destruct (nextn s =? m) eqn:En; [|discriminate]. apply N.eqb_eq in En. tauto.
Qed.

Lemma holders_set_sp X y m :
  (forall a b, sp X <> SDispFailing a b) -> (forall a b, y <> SDispFailing a b) ->
  In m (holders X) -> In m (holders (set_sp X y)).
Proof.
  intros H1 H2. unfold holders; cbn. rewrite !in_app_iff. intros [H|[H|[H|H]]]; auto.
  destruct (sp X) eqn:E; try (destruct H; fail). exfalso. eapply H1; reflexivity.
Qed.

Ltac holders_frame s :=
  apply (px_frame [] s); [reflexivity| |assumption];
  unfold holders; cbn; rw_ctl; cbn; intros m; rewrite ?in_app_iff; cbn; tauto.

Lemma inv_pend_step s e s' : inv_ctl s -> inv_pend s -> step s e = Some s' -> inv_pend s'.
Proof.
  intros C P H. pose proof (ic_store s C) as Hnd. destruct e; step_inv H.
  all: try assumption.
  all: try (holders_frame s).
  (* acknowledgements *)
  all: try (apply px_ack; auto; discriminate).
  all: try (apply px_del_other; auto; intros m; match goal with E : store_get _ _ = _ |- _ => rewrite E end; discriminate).
  all: try (apply (px_frame [] (set_store s (store_del id (store s)))); [reflexivity| |
            apply px_del_other; auto; intros m; match goal with E : store_get _ _ = _ |- _ => rewrite E end; discriminate];
            unfold holders; cbn; rw_ctl; cbn; intros m; rewrite ?in_app_iff; cbn; tauto).
  (* dispatcher *)
  all: try (eapply px_failing_done; eauto; discriminate).
  all: try (apply px_put_cmd; [rewrite pop_store; exact Hnd|apply px_pop; auto]).
  all: try (apply px_failing; [cbn; rewrite pop_sp; assumption| apply px_put; [rewrite pop_store; exact Hnd|apply px_pop; auto]]).
  all: try (apply px_qtimeout with (b := b); auto).
  (* Stop returned *)
  all: try (match goal with |- context [if ?c then _ else _] => destruct c end;
            [ apply inv_pend_stop_clear; [holders_frame s|reflexivity|reflexivity] | holders_frame s ]).
  (* a command is issued *)
  all: try (match goal with Ea : ap ?s0 = ANone, P0 : inv_pend ?s0 |- _ => exact (proj2 (px_call s0 _ _ Ea P0 eq_refl)) end).
  all: try (match goal with Ea : ap ?s0 = ANone, P0 : inv_pend ?s0 |- _ => exact (proj1 (px_call s0 _ _ Ea P0 eq_refl)) end).
  (* resubscribe request *)
  all: try (match goal with |- inv_pend (set_sp (put_entry ?X ?i ?en) ?y) =>
            apply (px_frame [] (put_entry X i en)); [reflexivity| |apply px_put; [exact Hnd|holders_frame s]];
            intros m; apply holders_set_sp; cbn; discriminate end).
  (* QoS 0 publish: stored, sent, completed, removed *)
  all: try (match goal with |- inv_pend (set_store (set_futs ?S2 ?F) _) =>
            apply (px_del [] (set_futs S2 F) id);
            [ cbn; apply store_put_keys; rewrite pop_store; exact Hnd
            | cbn; intros m; rewrite store_get_put, N.eqb_refl; discriminate
            | apply px_resolve; [discriminate| apply px_put; [rewrite pop_store; exact Hnd|apply px_pop; auto]] ] end).
  (* the client call failed without sending *)
  all: try (match goal with |- inv_pend (set_sp ?X ?y) =>
            apply (px_frame [] X); [reflexivity| |apply px_resolve; [discriminate|apply px_pop; auto]];
            intros m; apply holders_set_sp; cbn; [rewrite pop_sp; rw_ctl; discriminate|discriminate] end).
Qed.
