(* ServiceFutures.v — what can resolve a command future: one step of the monitor changes the
   status of a pending future only in the ways listed by `explains`; resolved futures never
   change; a command future gets attached to the client future of its own request only. *)
From Coq Require Import List NArith Bool Lia Sorted.
From GM Require Import Base.Lts Codec.Packet Client.Service Client.ServiceSpec Client.ServiceLemmas Client.ServiceProofs
  Client.ServiceStop.
Import ListNotations.
Open Scope N_scope.

(* command n's request is being handed to the client: it is the head of the queue of a running dispatcher *)
Definition dispatching (s : state) (n : N) (b : body) : Prop :=
  sp s = SDispatch /\ exists q, queue s = (n, b) :: q.

Inductive explains (s : state) (e : event) (n : N) : fstatus -> Prop :=
(* completed: the acknowledgement for packet id reaches the client future n is attached to *)
| ExAck id : e = EAck id -> store_get id (store s) = Some (SCmd n) -> explains s e n (FCompleted id)
(* completed: a QoS 0 publish, when its send succeeded *)
| ExQos0 id b b' : e = EDispSend id b true -> dispatching s n b' -> is_qos0 b' = true -> explains s e n (FCompleted id)
(* cancelled: failed dispatch *)
| ExDispErr k b : e = EDispErr k -> dispatching s n b -> explains s e n (FCancelled CDispatchFail)
| ExDispErr' k : e = EDispErr k -> sp s = SDispFailing n k -> explains s e n (FCancelled CDispatchFail)
(* cancelled: queue timeout of the caller *)
| ExQueueTimeout b : e = EQueueTimeout -> ap s = ACmd n b true -> explains s e n (FCancelled CQueueTimeout)
(* cancelled: the client future it is attached to was cancelled (subscription rejected) *)
| ExReject id : e = EAckReject id -> store_get id (store s) = Some (SCmd n) -> explains s e n (FCancelled CClientCancel)
(* cancelled: Stop(true) returns; n was attached in the store or still queued *)
| ExStop : e = EStopRet true -> ap s = AStop true true ->
           In n (store_cmds (store s)) \/ In n (map fst (queue s)) -> explains s e n (FCancelled CStopClear)
(* cancelled: a newer request with the same packet id replaces its client future in the store *)
| ExReplacedR id l ok : e = EResubSend id l ok -> store_get id (store s) = Some (SCmd n) -> explains s e n (FCancelled CReplaced)
| ExReplacedD id b ok : e = EDispSend id b ok -> store_get id (store s) = Some (SCmd n) -> explains s e n (FCancelled CReplaced).

Lemma kind_eqb_eq a b : kind_eqb a b = true -> a = b.
Proof. destruct a, b; cbn; intros H; try reflexivity; discriminate. Qed.

Ltac fut_cases H :=
  repeat match type of H with
  | fut_get _ (fut_resolve _ _ _) = Some _ =>
    let H1 := fresh "Hy" in let H2 := fresh "Hn" in
    apply fut_resolve_cases in H; destruct H as [H|(H & H1 & H2)]
  | fut_get _ (fut_resolve_all _ _ _) = Some _ =>
    let H1 := fresh "Hy" in let H2 := fresh "Hn" in
    apply fut_resolve_all_cases in H; destruct H as [H|(H & H1 & H2)]
  end.

Theorem futures_step s e s' n st :
  step s e = Some s' ->
  fut_get n (futs s) = Some FPending -> fut_get n (futs s') = Some st -> st <> FPending ->
  explains s e n st.
Proof.
  intros H Hp Hs Hst. destruct e; step_inv H.
  all: cbn in Hs; rewrite ?pop_futs, ?pop_store in Hs.
  all: try (rewrite Hp in Hs; injection Hs as <-; contradiction Hst; reflexivity).
  all: try (rewrite fut_get_app, Hp in Hs; injection Hs as <-; contradiction Hst; reflexivity).
  all: try match type of Hs with context [match store_get ?i ?t with _ => _ end] =>
             let Eg := fresh "Eg" in destruct (store_get i t) as [[| m |]|] eqn:Eg end.
  all: try (destruct clear).
  all: cbn in Hs; fut_cases Hs.
  all: try (rewrite Hp in Hs; injection Hs as <-; contradiction Hst; reflexivity).
  all: subst.
  all: try (eapply ExAck; eauto; fail).
  all: try (eapply ExReject; eauto; fail).
  all: try (eapply ExQueueTimeout; eauto; fail).
  all: try (eapply ExReplacedR; eauto; fail).
  all: try (eapply ExReplacedD; eauto; fail).
  all: try (eapply ExDispErr'; eauto; fail).
  all: try (eapply ExDispErr; [reflexivity|split; eauto]; fail).
  all: try (eapply ExQos0; [reflexivity|split; eauto|assumption]; fail).
  all: try (match goal with Ek : kind_eqb ?a ?b = true |- _ => apply kind_eqb_eq in Ek; subst end; eapply ExDispErr'; eauto; fail).
  all: try (match goal with Eo : negb (eqb true ?o) = false |- _ => destruct o; [|discriminate Eo] end;
            eapply ExStop; eauto; fail).
Qed.

(* a resolved future never changes again (the `done` flag of future.Future) *)
Theorem futures_stable s e s' n st :
  step s e = Some s' -> fut_get n (futs s) = Some st -> st <> FPending -> fut_get n (futs s') = Some st.
Proof.
  intros H Hp Hst. destruct e; step_inv H.
  all: cbn; rewrite ?pop_futs, ?pop_store.
  all: try exact Hp.
  all: try (rewrite fut_get_app, Hp; reflexivity).
  all: try match goal with |- context [match store_get ?i ?t with _ => _ end] =>
             let Eg := fresh "Eg" in destruct (store_get i t) as [[| m |]|] eqn:Eg end.
  all: try (destruct clear).
  all: cbn; repeat first [apply fut_resolve_stable; [|exact Hst] | apply fut_resolve_all_stable; [|exact Hst]]; try exact Hp.
Qed.

Lemma known_resolve n m st fs : fut_get n fs <> None -> fut_get n (fut_resolve m st fs) <> None.
Proof. intros H H'. apply fut_resolve_dom in H'. contradiction. Qed.

Lemma known_resolve_all ns : forall n st fs, fut_get n fs <> None -> fut_get n (fut_resolve_all ns st fs) <> None.
Proof.
  unfold fut_resolve_all. induction ns as [|k ns IH]; intros n st fs H; cbn [fold_left]; [exact H|].
  apply IH. apply known_resolve. exact H.
Qed.

Lemma known_app n fs k st : fut_get n fs <> None -> fut_get n (fs ++ [(k, st)]) <> None.
Proof. intros H. rewrite fut_get_app. destruct (fut_get n fs); [discriminate|contradiction H; reflexivity]. Qed.

(* futures are never forgotten: a known future stays known *)
Theorem futures_kept s e s' n :
  step s e = Some s' -> fut_get n (futs s) <> None -> fut_get n (futs s') <> None.
Proof.
  intros H Hp. destruct e; step_inv H.
  all: cbn; rewrite ?pop_futs, ?pop_store.
  all: try exact Hp.
  all: try match goal with |- context [match store_get ?i ?t with _ => _ end] =>
             let Eg := fresh "Eg" in destruct (store_get i t) as [[| m |]|] eqn:Eg end.
  all: try (destruct clear).
  all: cbn; repeat first [apply known_resolve | apply known_resolve_all | apply known_app]; try exact Hp.
Qed.

(* a command future gets attached (in the shared store, under packet id `id`) only when the
   dispatcher hands that command's own request, with that id, to the connection *)
Theorem attach_step s e s' id n :
  step s e = Some s' -> store_get id (store s') = Some (SCmd n) ->
  store_get id (store s) = Some (SCmd n) \/
  (exists b b', e = EDispSend id b true /\ dispatching s n b' /\ body_eqb b b' = true /\ is_qos0 b' = false).
Proof.
  intros H Hg. destruct e; step_inv H.
  all: cbn in Hg; rewrite ?pop_store in Hg.
  all: try (left; exact Hg).
  all: try (destruct clear; cbn in Hg; first [left; exact Hg | discriminate Hg]).
  all: repeat match type of Hg with
       | context [store_get _ (store_del _ _)] => rewrite store_get_del in Hg
       | context [store_get _ (store_put _ _ _)] => rewrite store_get_put in Hg
       end.
  all: repeat match type of Hg with context [if ?c then _ else _] => let Ec := fresh "Ec" in destruct c eqn:Ec end.
  all: try discriminate Hg.
  all: try (left; exact Hg).
  all: try (injection Hg as <-; apply N.eqb_eq in Ec; subst; right; do 2 eexists; split; [reflexivity|];
            split; [split; eauto|]; split; assumption).
Qed.

(* ---- how the dispatcher is entered, and that only a running dispatcher hands requests out *)

Theorem ready_step s e s' :
  step s e = Some s' ->
  ready s' = ready s \/
  (ready s' = ready s + 1 /\ sp s' = SDispatch /\
   ((exists b, e = EOnline b /\ sp s = SConnecting /\ resub_list (subs s) = []) \/
    (exists id, e = EAck id /\ sp s = SResubWait id /\ store_get id (store s) = Some SResub))).
Proof.
  intros H. destruct e; step_inv H.
  all: try (left; reflexivity).
  all: try (destruct clear; left; reflexivity).
  all: try (left; cbn; unfold pop_cmd, handover; cbn; destruct (ap s) as [| | |? ? []]; reflexivity).
  - right. cbn. split; [reflexivity|]. split; [reflexivity|]. left. eexists; split; [reflexivity|]. split; first [assumption|reflexivity].
  - right. cbn. split; [reflexivity|]. split; [reflexivity|]. right. apply N.eqb_eq in E2; subst. eexists; split; [reflexivity|]. split; first [assumption|reflexivity].
Qed.

Theorem dispatch_needs_dispatcher s e s' :
  step s e = Some s' ->
  (forall id b ok, e = EDispSend id b ok -> sp s = SDispatch) /\
  (forall k, e = EDispErr k -> sp s = SDispatch \/ exists n, sp s = SDispFailing n k).
Proof.
  intros H. split.
  - intros id b ok ->. step_inv H; reflexivity.
  - intros k ->. step_inv H; [left; reflexivity|right]. apply kind_eqb_eq in E0; subst. eexists; reflexivity.
Qed.
