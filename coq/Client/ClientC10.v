(* ClientC10.v — C10_pubrec_always, C10_qos01, C10_pubrel_answered_partial. *)
From Coq Require Import List NArith Bool Lia.
From GM Require Import Base.Lts Codec.Packet Session.Ids Session.Store Session.StoreProofs
  Client.Future Client.Client Client.ClientSpec Client.ClientTactics Client.PacketEq
  Client.ClientInvCtl Client.ClientInvOwed.
Import ListNotations.
Open Scope N_scope.

(* the processor's possible moves at a given control point *)
Ltac proc_moves e Hpc Hproc H :=
  destruct e; cbn [proc_event] in Hproc; try discriminate Hproc;
  cbv beta iota zeta delta [step step_tx proc_hidden] in H; rewrite ?Hpc in H; cbv beta iota zeta in H.

Lemma only_comp_no (l : list packet) p : forallb is_pubcomp l = true -> In p l -> is_pubcomp p = true.
Proof. intros H Hin. rewrite forallb_forall in H. apply H; exact Hin. Qed.

Lemma recv_owed es s first p :
  run step init es = Some s -> k_ppc (k s) = PRecv first -> In p (g_owed (g s)) -> is_pubcomp p = true.
Proof.
  intros Hr Hpc Hin. destruct (InvB_reach _ _ Hr) as [_ [HO _]]. rewrite Hpc in HO.
  destruct first; cbn [owed_pc] in HO.
  - rewrite HO in Hin. contradiction.
  - eapply only_comp_no; eassumption.
Qed.

Ltac moves e Hpc Hproc H :=
  proc_moves e Hpc Hproc H; dhead H; try discriminate Hproc;
  repeat match goal with
  | E : packet_eqb _ _ = true |- _ => apply packet_eqb_eq in E; subst
  | E : message_eqb _ _ = true |- _ => apply message_eqb_eq in E; subst
  | E : (?a =? ?b) = true |- _ => apply N.eqb_eq in E; subst
  | E : negb ?a = false |- _ => destruct a; [clear E|discriminate E]
  end.

Theorem pubrec_always : C10_pubrec_always_statement.
Proof.
  intros es s Hr. split; [|split].
  - intros first id Hpc Hin. pose proof (recv_owed _ _ _ _ Hr Hpc Hin) as X. discriminate X.
  - intros p e s' Hpc Hproc H.
    moves e Hpc Hproc H.
    + injection H as <-. exists Ok. split; [reflexivity|]. intros _.
      eexists; split; [reflexivity|]. split; [reflexivity|].
      simp_proj. unfold store_save. rewrite E2. rewrite lookup_put, N.eqb_refl. reflexivity.
    + exists Fail. split; [reflexivity|]. discriminate.
  - intros id e s' Hpc Hproc H.
    moves e Hpc Hproc H.
    all: eexists; reflexivity.
Qed.

Theorem qos01 : C10_qos01_statement.
Proof.
  intros es s Hr. split; [|split; [|split]].
  - intros first d m id s' Hpc -> Hq Hcb H.
    cbv beta iota zeta delta [step] in H. rewrite Hpc in H. cbv beta iota in H. injection H; intros <-.
    unfold proc_rx. cbv beta zeta. simp_proj.
    apply N.leb_le in Hq. rewrite Hq, Hcb. reflexivity.
  - intros p e s' Hpc Hproc H.
    moves e Hpc Hproc H.
    all: injection H as <-; do 2 eexists; (split; [reflexivity|]); intros d0 id0 Hp Hr' Hq.
    all: first [discriminate Hr' | injection Hp as ? ?; subst; rewrite Hq; reflexivity].
  - intros id e s' Hpc Hproc H.
    moves e Hpc Hproc H.
    all: eexists; reflexivity.
  - intros first id Hpc Hin. pose proof (recv_owed _ _ _ _ Hr Hpc Hin) as X. discriminate X.
Qed.

(* C10_pubrel_answered_partial: a PUBREL whose id IS in the incoming store is answered:
   the processor's only moves are (the callback in default mode, then) the PUBCOMP write,
   then the removal from the store *)
Definition C10_pubrel_answered_partial_statement : Prop :=
  forall es s, run step init es = Some s ->
  (forall id x s', k_ppc (k s) = PRelLookup id -> step s (ELookup Incoming id (Some x)) = Some s' ->
     x = store_lookup (s_in (sess s)) id /\
     forall d m pid, x = Some (Publish d m pid) ->
       k_ppc (k s') = (if cf_callback (k_cfg (k s)) && negb (cf_early (k_cfg (k s)))
                       then PRelCb m pid id else PRelComp pid id)) /\
  (forall m pid id e s', k_ppc (k s) = PRelCb m pid id -> proc_event e = true -> step s e = Some s' ->
     exists r, e = ECb m r /\ (r = Ok -> k_ppc (k s') = PRelComp pid id)) /\
  (forall pid id e s', k_ppc (k s) = PRelComp pid id -> proc_event e = true -> step s e = Some s' ->
     exists r, e = ETx (Pubcomp pid) true r /\ (r = Ok -> k_ppc (k s') = PRelDel id)) /\
  (forall id e s', k_ppc (k s) = PRelDel id -> proc_event e = true -> step s e = Some s' ->
     exists r, e = EDelete Incoming id r).

Lemma opt_packet_eqb_eq a b : opt_packet_eqb a b = true -> a = b.
Proof. unfold opt_packet_eqb. apply option_eqb_eq. exact packet_eqb_eq. Qed.

Theorem pubrel_answered_partial : C10_pubrel_answered_partial_statement.
Proof.
  intros es s Hr. split; [|split; [|split]].
  - intros id x s' Hpc H.
    cbv beta iota zeta delta [step] in H. rewrite Hpc, N.eqb_refl in H.
    destruct (opt_packet_eqb x (store_lookup (s_in (sess s)) id)) eqn:E; [|discriminate H].
    apply opt_packet_eqb_eq in E. split; [exact E|].
    intros d m pid ->. destruct (cf_callback (k_cfg (k s)) && negb (cf_early (k_cfg (k s)))); injection H as <-; reflexivity.
  - intros m pid id e s' Hpc Hproc H.
    moves e Hpc Hproc H.
    all: injection H as <-; eexists; (split; [reflexivity|]); intros Hr'; first [discriminate Hr'|reflexivity].
  - intros pid id e s' Hpc Hproc H.
    moves e Hpc Hproc H.
    all: try (injection H as <-); eexists; (split; [reflexivity|]); intros Hr'; first [discriminate Hr'|reflexivity].
  - intros id e s' Hpc Hproc H.
    moves e Hpc Hproc H.
    all: eexists; reflexivity.
Qed.
