(* ServiceSpec.v — what C17 is stated against, independent of the structure of
   client/service.go: the subscription set as a function of the subscribe /
   unsubscribe history, "sorted", "in issue order".  Short; no proofs here. *)
From Coq Require Import List NArith Bool Sorted.
From Coq.Strings Require Import Byte.
From GM Require Import Codec.Packet Client.Service.
Import ListNotations.
Open Scope N_scope.

(* ---- the subscription set that results from a history of commands ---------- *)

(* the qos under which topic t is subscribed after the commands bs (None: not subscribed):
   the last subscribe entry for t, unless an unsubscribe of t came after it *)
Definition upd_body (t : topic) (acc : option N) (b : body) : option N :=
  match b with
  | BSub l => fold_left (fun acc e => if bytes_eqb (fst e) t then Some (snd e) else acc) l acc
  | BUnsub ts => fold_left (fun acc t' => if bytes_eqb t' t then None else acc) ts acc
  | BPub _ => acc
  end.

Definition sub_lookup (bs : list body) (t : topic) : option N := fold_left (upd_body t) bs None.

(* strict order on topics: Go's `<` on strings *)
Definition bytes_ltb (a b : bytes) : bool := bytes_leb a b && negb (bytes_eqb a b).
Definition sub_lt (x y : sub) : Prop := bytes_ltb (fst x) (fst y) = true.

(* r is THE resubscribe request for history bs: strictly sorted by topic and holding exactly the subscribed topics *)
Definition is_resub_of (bs : list body) (r : list sub) : Prop :=
  StronglySorted sub_lt r /\ forall t q, In (t, q) r <-> sub_lookup bs t = Some q.

(* executable form, for the correspondence check *)
Definition spec_resub (bs : list body) : list sub :=
  sort_subs (dedup (fold_left (fun m b => apply_body b m) bs [])).

Definition resub_ok (bs : list body) (r : list sub) : bool := list_eqb sub_eqb r (spec_resub bs).

(* ---- order ---------------------------------------------------------------- *)

(* l1 is a subsequence of l2 (order preserved) *)
Inductive Subseq {A} : list A -> list A -> Prop :=
| SubNil : Subseq [] []
| SubSkip x l1 l2 : Subseq l1 l2 -> Subseq l1 (x :: l2)
| SubKeep x l1 l2 : Subseq l1 l2 -> Subseq (x :: l1) (x :: l2).

Fixpoint subseq_b {A} (eqb : A -> A -> bool) (l1 l2 : list A) : bool :=
  match l1, l2 with
  | [], _ => true
  | _ :: _, [] => false
  | x :: l1', y :: l2' => if eqb x y then subseq_b eqb l1' l2' else subseq_b eqb l1 l2'
  end.

(* the requests the peers saw, in order, are a subsequence of the commands in issue order *)
Definition fifo_ok (seen issued : list body) : bool := subseq_b body_eqb seen issued.

(* ---- clauses judged on an observed event sequence alone (trace scanners) --------------------
   Each is a small automaton over the monitor's event alphabet, independent of the monitor's
   state; `… _ok es = true` is proved for every trace the monitor accepts (Client/ServiceScan.v),
   and the extracted scanners are run by the model runner on the implementation's traces. *)

Fixpoint scan {S : Type} (f : S -> event -> option S) (s : S) (es : list event) : bool :=
  match es with
  | [] => true
  | e :: es' => match f s e with Some s' => scan f s' es' | None => false end
  end.

(* events produced by the supervisor goroutine *)
Definition is_sup_event (e : event) : bool :=
  match e with
  | EBackoff | ENext | ESupExit | EConnFail _ | EOnline _ | EResubSend _ _ _ | EResubFail _
  | EDispSend _ _ _ | EDispErr _ | EDisconnect | EOffline => true
  | _ => false
  end.

(* lifecycle: Start returns true exactly when no supervisor is running and none is being stopped, Stop returns true
   exactly when one is running; one Start/Stop at a time; the supervisor is active only between a Start that
   returned (or will return) true and the return of the Stop that ends it: "after Stop the supervisor has ended" *)
Inductive lcall := LStart (ok : bool) | LStop (ok : bool).
Record lstate := LS { l_run : bool; l_call : option lcall }.

Definition life_step (l : lstate) (e : event) : option lstate :=
  match e with
  | EStartCall =>
    match l_call l with
    | None => if l_run l then Some (LS true (Some (LStart false))) else Some (LS true (Some (LStart true)))
    | Some _ => None
    end
  | EStartRet ok =>
    match l_call l with
    | Some (LStart ok') => if Bool.eqb ok ok' then Some (LS (l_run l) None) else None
    | _ => None
    end
  | EStopCall _ =>
    match l_call l with
    | None => Some (LS (l_run l) (Some (LStop (l_run l))))
    | Some _ => None
    end
  | EStopRet ok =>
    match l_call l with
    | Some (LStop ok') => if Bool.eqb ok ok' then Some (LS (if ok then false else l_run l) None) else None
    | _ => None
    end
  | _ => if is_sup_event e then (if l_run l then Some l else None) else Some l
  end.

Definition life_ok (es : list event) : bool := scan life_step (LS false None) es.

(* dispatch gate: a command is handed to the client only by a dispatcher that runs on a connection that came
   online and whose resubscribe request (if one was made) has been acknowledged; after a failed dispatch, a
   Disconnect, or the end of the connection nothing is dispatched until the next connection is online *)
Inductive gstate :=
| G0                (* no connection online *)
| G1                (* online, no resubscribe request made (yet) *)
| G2 (id : N)       (* resubscribe request id handed to the connection, not acknowledged *)
| G3                (* dispatcher running *)
| G4                (* a command's send failed, error report pending *)
| G5.               (* dispatcher over on this connection *)

Definition gate_step (g : gstate) (e : event) : option gstate :=
  match e with
  | EOnline _ => Some G1
  | EResubSend id _ ok => Some (if ok then G2 id else G5)
  | EAck id => Some (match g with G2 id' => if id =? id' then G3 else g | _ => g end)
  | EAckReject id => Some (match g with G2 id' => if id =? id' then G5 else g | _ => g end)
  | EDispSend _ _ ok => match g with G1 | G3 => Some (if ok then G3 else G4) | _ => None end
  | EDispErr _ => match g with G1 | G3 | G4 => Some G5 | _ => None end
  | EDisconnect => Some G5
  | EOffline | EConnFail _ | EResubFail _ | ENext | EBackoff | ESupExit => Some G0
  | _ => Some g
  end.

Definition gate_ok (es : list event) : bool := scan gate_step G0 es.
