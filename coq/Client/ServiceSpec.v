(* ServiceSpec.v — what C17 is stated against, independent of the structure of
   client/service.go: the subscription set as a function of the subscribe /
   unsubscribe history, "sorted", "in issue order".  Short; no proofs here. *)
From Coq Require Import List NArith Bool Sorted.
From Coq.Strings Require Import Byte.
From GM Require Import Codec.Packet Client.Service.
Import ListNotations.
Open Scope N_scope.

(* ---- the subscription set that results from a history of commands ---------- *)

(* the qos under which topic t is subscribed after the commands bs (None: not subscribed):
   the last subscribe entry for t, unless an unsubscribe of t came after it *)
Definition upd_body (t : topic) (acc : option N) (b : body) : option N :=
  match b with
  | BSub l => fold_left (fun acc e => if bytes_eqb (fst e) t then Some (snd e) else acc) l acc
  | BUnsub ts => fold_left (fun acc t' => if bytes_eqb t' t then None else acc) ts acc
  | BPub _ => acc
  end.

Definition sub_lookup (bs : list body) (t : topic) : option N := fold_left (upd_body t) bs None.

(* strict order on topics: Go's `<` on strings *)
Definition bytes_ltb (a b : bytes) : bool := bytes_leb a b && negb (bytes_eqb a b).
Definition sub_lt (x y : sub) : Prop := bytes_ltb (fst x) (fst y) = true.

(* r is THE resubscribe request for history bs: strictly sorted by topic and holding exactly the subscribed topics *)
Definition is_resub_of (bs : list body) (r : list sub) : Prop :=
  StronglySorted sub_lt r /\ forall t q, In (t, q) r <-> sub_lookup bs t = Some q.

(* executable form, for the correspondence check *)
Definition spec_resub (bs : list body) : list sub :=
  sort_subs (dedup (fold_left (fun m b => apply_body b m) bs [])).

Definition resub_ok (bs : list body) (r : list sub) : bool := list_eqb sub_eqb r (spec_resub bs).

(* ---- order ---------------------------------------------------------------- *)

(* l1 is a subsequence of l2 (order preserved) *)
Inductive Subseq {A} : list A -> list A -> Prop :=
| SubNil : Subseq [] []
| SubSkip x l1 l2 : Subseq l1 l2 -> Subseq l1 (x :: l2)
| SubKeep x l1 l2 : Subseq l1 l2 -> Subseq (x :: l1) (x :: l2).

Fixpoint subseq_b {A} (eqb : A -> A -> bool) (l1 l2 : list A) : bool :=
  match l1, l2 with
  | [], _ => true
  | _ :: _, [] => false
  | x :: l1', y :: l2' => if eqb x y then subseq_b eqb l1' l2' else subseq_b eqb l1 l2'
  end.

(* the requests the peers saw, in order, are a subsequence of the commands in issue order *)
Definition fifo_ok (seen issued : list body) : bool := subseq_b body_eqb seen issued.
