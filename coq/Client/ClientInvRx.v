(* ClientInvRx.v — the packet the processor is working on is the last one received;
   C09_kept_until_acked, C09_resend_on_connect. *)
From Coq Require Import List NArith Bool Lia.
From GM Require Import Base.Lts Codec.Packet Session.Ids Session.Store Session.StoreProofs
  Client.Future Client.Client Client.ClientSpec
  Client.ClientTactics Client.AMap Client.PacketEq Client.ClientInvCtl Client.ClientInvOwed Client.ClientInvWf
  Client.ClientInvHs Client.ClientInvSbs Client.ClientC10.
Import ListNotations.
Open Scope N_scope.

Definition is_ackp (p : packet) : bool :=
  match p with Suback _ _ | Unsuback _ | Puback _ | Pubcomp _ => true | _ => false end.

Definition rx_pc (p : ppc) (rx : list packet) : Prop :=
  match p with
  | PAckDel q | PAckFut q => (exists rest, rx = q :: rest) /\ is_ackp q = true
  | PConnack sp rc => exists rest, rx = Connack sp rc :: rest
  | PRecSave id => exists rest, rx = Pubrec id :: rest
  | PAll sp | PResend sp _ | PConnDone sp _ => exists rest, rx = Connack sp 0 :: rest
  | _ => True
  end.

Definition InvRx (s : st) : Prop := rx_pc (k_ppc (k s)) (g_rx (g s)).

Lemma InvRx_init : InvRx init.
Proof. exact I. Qed.

Lemma InvRx_step s e s' : InvOwed s -> InvRx s -> step s e = Some s' -> InvRx s'.
Proof.
  intros (_ & O2) R H.
  destruct e.
  all: step_leaves H.
  all: unfold InvRx in *; simp_proj; clean_eqs.
  all: cbn [rx_pc is_ackp] in *.
  all: try solve [first [exact I | assumption | eexists; reflexivity | split; [eexists; reflexivity|reflexivity]]].
  all: try solve [specialize (O2 _ eq_refl); destruct after; cbn [after_pc] in O2; try contradiction; exact I].
  all: try solve [match goal with E : negb (?rc =? 0) = false |- _ =>
         apply negb_false_iff in E; apply N.eqb_eq in E; subst rc; assumption end].
Qed.

Definition InvE (s : st) : Prop := InvD s /\ InvRx s.

Lemma InvE_reach es s : run step init es = Some s -> InvE s.
Proof.
  apply reach_inv.
  - split; [|exact InvRx_init]. split; [|exact InvSbs_init].
    split; [apply InvWf_init|split; [apply InvCtl_init|split; [apply InvOwed_init|apply InvHs_init]]].
  - intros s0 e s1 (((HW & HC & HO & HH) & HS) & HR) Hs. split; [split|].
    + split; [eapply InvWf_step; eassumption|].
      split; [eapply InvCtl_step; eassumption|].
      split; [eapply InvOwed_step; eassumption|].
      eapply InvHs_step; eassumption.
    + eapply InvSbs_step; eassumption.
    + eapply InvRx_step; eassumption.
Qed.

(* ---- C09_resend_on_connect: pure control flow *)
Theorem resend_on_connect : C09_resend_on_connect_statement.
Proof.
  intros es s Hr. split; [|split; [|split]].
  - intros sp rc s' Hpc H Hcs ->.
    cbv beta iota zeta delta [step proc_hidden] in H. rewrite Hpc, Hcs in H. cbn in H.
    injection H as <-. simp_proj. split; reflexivity.
  - intros sp e s' Hpc Hproc H.
    moves e Hpc Hproc H.
    + eexists. split; [reflexivity|]. intros l0 Hl. injection Hl as <-.
      apply list_packet_eqb_eq in E1. subst. injection H as <-. split; [reflexivity|]. reflexivity.
    + eexists. split; [reflexivity|]. intros l0 Hl. discriminate Hl.
  - intros sp q rest e s' Hpc Hproc H.
    moves e Hpc Hproc H.
    all: try match goal with E : _ = set_dup _ |- _ => rewrite E in * end.
    all: try (injection H as <-); eexists; (split; [reflexivity|]); intros Hr'; try discriminate Hr'; simp_proj; reflexivity.
  - intros sp s' Hpc H.
    cbv beta iota zeta delta [step proc_hidden] in H. rewrite Hpc in H.
    injection H as <-. split.
    + simp_proj. reflexivity.
    + intros Hcs. rewrite Hcs. cbn. destruct (t_connfut (t s)); simp_proj; reflexivity.
Qed.
