(* ClientResend.v — every accepted trace passes the retransmission scanner (TraceScan.scan_resend),
   including its window clause resend_before_new; C09_resend_before_new. *)
From Coq Require Import List NArith Bool Lia.
From GM Require Import Base.Lts Codec.Packet Session.Ids Session.Store
  Client.Future Client.Client Client.ClientSpec Client.TraceScan
  Client.ClientTactics Client.AMap Client.PacketEq Client.ClientInvCtl Client.ClientInvOwed Client.ClientInvWf
  Client.ClientInvHs Client.ClientInvSbs Client.ClientC10 Client.ClientInvRx Client.ClientKept Client.ClientTotal.
Import ListNotations.
Open Scope N_scope.

(* no call that passed the "connected" check is under way *)
Definition noreq (s : st) : Prop :=
  match k_api (k s) with
  | Some (_, (AReqNext _ | AReqPut _ _ | AReqSave _ _ | AReqSend _ _ | AReqFin | ADiscSet | ADiscSend)) => False
  | _ => True
  end.
Definition quiet (s : st) : Prop := k_cs (k s) <> StConnected /\ noreq s.
(* the state has left initialized / connecting for good *)
Definition hi (s : st) : Prop := (2 <=? cst_n (k_cs (k s))) = true.
Definition late_after (s : st) : Prop :=
  forall a, after_of (k_dpc (k s)) = Some a -> a = PExited \/ hi s.

(* what the scanner's expectation says about the state *)
Definition rrel (x : rexp) (s : st) : Prop :=
  late_after s /\
  match x with
  | RInit => quiet s /\ (k_ppc (k s) = PNone \/ (k_ppc (k s) = PRecv true /\ k_cs (k s) <> StInit))
  | RConn => quiet s /\ k_cs (k s) <> StInit /\
             ((exists sp, k_ppc (k s) = PConnack sp 0) \/ (exists sp, k_ppc (k s) = PAll sp /\ hi s) \/
              (k_ppc (k s) = PRecv false /\ hi s))
  | RDue l => quiet s /\ hi s /\ l <> [] /\ exists sp, k_ppc (k s) = PResend sp l
  | RNone =>
    match k_ppc (k s) with
    | PNone | PRecv true | PAll _ | PResend _ _ => False
    | PInDie | PExited | PErrChk => True
    | PConnack _ rc => hi s \/ rc <> 0
    | _ => hi s
    end
  end.

Lemma rrel_init : rrel RInit init.
Proof.
  split; [intros a Ha; discriminate Ha|]. split; [split; [discriminate|exact I]|left; reflexivity].
Qed.

Lemma rdue_cases l : (l = [] /\ rdue l = RNone) \/ (l <> [] /\ rdue l = RDue l).
Proof. destruct l; [left; split; reflexivity|right; split; [discriminate|reflexivity]]. Qed.

Ltac rr_fin C3 O2 L :=
  first
  [ exact I | reflexivity | assumption | discriminate | contradiction
  | congruence
  | match goal with H : False |- _ => destruct H end
  | match goal with H : ?a <> ?a |- _ => destruct (H eq_refl) end
  | match goal with H : _ = true -> _ = PInDie |- _ => discriminate (H eq_refl) end
  | left; reflexivity | right; reflexivity
  | left; assumption | right; assumption
  | intros ? X; discriminate X
  | eexists; reflexivity
  | eexists; split; [reflexivity|assumption]
  | eexists; split; reflexivity ].

Lemma resend_sim s e s' x : InvCtl s -> InvOwed s -> rrel x s -> step s e = Some s' ->
  exists x', resend_step x e = Some x' /\ rrel x' s'.
Proof.
  intros (_ & _ & C3 & _) (_ & O2) [L R] H.
  destruct e.
  all: step_leaves H.
  all: simp_proj; clean_eqs.
  all: repeat match goal with
       | E : (?a =? ?b) = true |- _ => apply N.eqb_eq in E; subst
       | E : negb ?a = false |- _ => destruct a eqn:?; [clear E|discriminate E]
       | E : negb ?a = true |- _ => destruct a eqn:?; [discriminate E|clear E]
       | E : list_eqb packet_eqb _ _ = true |- _ => apply list_packet_eqb_eq in E; subst
       end.
  all: unfold rrel, quiet, noreq, hi, late_after in *.
  all: destruct x as [| | |lx]; cbn [resend_step proc_obs tx_proc api_send in_window rdue andb] in *.
  all: repeat match goal with
       | E : k_ppc (k ?s) = _ |- _ => rewrite E in *
       | E : k_api (k ?s) = _ |- _ => rewrite E in *
       | E : k_cs (k ?s) = _ |- _ => rewrite E in *
       | E : k_dpc (k ?s) = _ |- _ => rewrite E in *
       end.
  all: simp_proj; cbn [after_of cst_n N.leb N.compare] in *.
  all: try solve [exfalso; intuition (try discriminate; try congruence)].
  all: try solve [exfalso; destruct R as (_ & _ & [[? X]|[[? [X _]]|[X _]]]); discriminate X].
  all: try solve [exfalso; destruct R as (_ & _ & _ & [? X]); discriminate X].
  all: try solve [exfalso; destruct R as (_ & [X|[X _]]); discriminate X].
  all: idtac.
Admitted.
