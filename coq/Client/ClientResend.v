(* ClientResend.v — every accepted trace passes the retransmission scanner (TraceScan.scan_resend). *)
From Coq Require Import List NArith Bool Lia.
From GM Require Import Base.Lts Codec.Packet Session.Ids Session.Store
  Client.Future Client.Client Client.ClientSpec Client.TraceScan
  Client.ClientTactics Client.AMap Client.PacketEq Client.ClientInvCtl Client.ClientInvOwed Client.ClientInvWf
  Client.ClientInvHs Client.ClientInvSbs Client.ClientC10 Client.ClientInvRx Client.ClientKept Client.ClientTotal.
Import ListNotations.
Open Scope N_scope.

(* the scanner's expectation is a function of the processor's control point *)
Definition rexp_of (p : ppc) : rexp := match p with PResend l => rdue l | _ => RNone end.

Lemma resend_sim s e s' : InvCtl s -> InvOwed s -> step s e = Some s' ->
  resend_step (rexp_of (k_ppc (k s))) e = Some (rexp_of (k_ppc (k s'))).
Proof.
  intros (_ & _ & C3 & _) (_ & O2) H.
  destruct e.
  all: step_leaves H.
  all: simp_proj; clean_eqs.
  all: repeat match goal with
       | E : (?a =? ?b) = true |- _ => apply N.eqb_eq in E; subst
       | E : negb ?a = false |- _ => destruct a; [clear E|discriminate E]
       | E : list_eqb packet_eqb _ _ = true |- _ => apply list_packet_eqb_eq in E; subst
       end.
  all: cbn [resend_step proc_obs tx_proc rexp_of rdue andb].
  all: repeat match goal with E : packet_eqb _ _ = true |- _ => rewrite E end.
  all: try reflexivity.
  all: try solve [specialize (O2 _ eq_refl); rewrite (C3 eq_refl);
                  destruct after; cbn [after_pc] in O2; try contradiction; reflexivity].
Qed.

Lemma scan_resend_gen es : forall pre s0 s,
  run step init pre = Some s0 -> run step s0 es = Some s ->
  scan_resend (rexp_of (k_ppc (k s0))) es = Some (rexp_of (k_ppc (k s))).
Proof.
  induction es as [|e es IH]; intros pre s0 s Hpre Hrun.
  - cbn in Hrun. injection Hrun as <-. reflexivity.
  - cbn [run] in Hrun. destruct (step s0 e) as [s1|] eqn:Hs; [|discriminate Hrun].
    assert (Hpre' : run step init (pre ++ [e]) = Some s1).
    { rewrite run_app, Hpre. cbn [run]. rewrite Hs. reflexivity. }
    destruct (InvG_reach _ _ Hpre) as (((((_ & HC & HO & _) & _) & _) & _) & _).
    cbn [scan_resend]. rewrite (resend_sim _ _ _ HC HO Hs). eapply IH; eassumption.
Qed.

(* every accepted trace passes the retransmission scanner; what it still expects at the end is what the
   processor still has to resend in the final state (nothing, once the processor is back in Receive) *)
Theorem scan_resend_accepted es s : run step init es = Some s ->
  scan_resend RNone es = Some (rexp_of (k_ppc (k s))).
Proof. intros H. exact (scan_resend_gen es [] init s eq_refl H). Qed.

