(* ClientResend.v — every accepted trace passes the retransmission scanner (TraceScan.scan_resend),
   including its window clause resend_before_new. *)
From Coq Require Import List NArith Bool Lia.
From GM Require Import Base.Lts Codec.Packet Session.Ids Session.Store
  Client.Future Client.Client Client.ClientSpec Client.TraceScan
  Client.ClientTactics Client.AMap Client.PacketEq Client.ClientInvCtl Client.ClientInvOwed Client.ClientInvWf
  Client.ClientInvHs Client.ClientInvSbs Client.ClientPre.
Import ListNotations.
Open Scope N_scope.

(* what the scanner's expectation says about the state: RInit — no packet processed yet on this Client;
   RConn — an accepted CONNACK was the first packet: nobody is connected or past the "connected" check
   (quiet), the processor is about to list the store (or has ignored the CONNACK because the client was
   closed meanwhile); RDue l — l is what the processor still has to re-send *)
Definition rr (x : rexp) (s : st) : Prop :=
  match x with
  | RInit => k_ppc (k s) = PNone \/ k_ppc (k s) = PRecv true
  | RConn => quiet s /\ ((exists sp, k_ppc (k s) = PConnack sp 0) \/ (exists sp, k_ppc (k s) = PAll sp) \/ k_ppc (k s) = PRecv false)
  | RDue l => l <> [] /\ exists sp, k_ppc (k s) = PResend sp l
  | RNone =>
    match k_ppc (k s) with
    | PNone | PRecv true | PAll _ | PResend _ _ => False
    | PConnack _ rc => rc = 0 -> k_cs (k s) <> StConnecting
    | _ => True
    end
  end.

Ltac kill Hp :=
  first [ discriminate Hp
        | match type of Hp with ?c _ = ?c _ => injection Hp as ?; subst end
        | match type of Hp with ?c _ _ = ?c _ _ => injection Hp as ? ?; subst end
        | idtac ].

Ltac leaves H Hp :=
  step_cases H; kill Hp;
  try match goal with E : cu_hidden _ _ = Some _ |- _ => pose proof (cu_hidden_cs _ _ _ E) as CS end;
  use_cu; unfold_ctl; simp_proj; dgoal; simp_proj.

Lemma sim_due s e s' l : InvCtl s -> InvOwed s -> InvPre s -> rr (RDue l) s -> step s e = Some s' ->
  exists x', resend_step (RDue l) e = Some x' /\ rr x' s'.
Proof.
  intros (_ & _ & C3 & _) (_ & O2) (_ & P & _) (Hl & sp & Hp) H.
  unfold pre_pc in P. rewrite Hp in P. destruct P as [[Pc Pn] _]. unfold noreq in Pn.
  destruct e.
  all: leaves H Hp.
  all: try match goal with Hn : ?l0 <> [] |- _ => is_var l0; destruct l0 as [|q rest]; [destruct (Hn eq_refl)|] end.
  all: repeat match goal with E : k_api (k _) = _ |- _ => rewrite E in Pn end; try contradiction.
  all: cbn [resend_step proc_obs tx_proc api_send in_window rdue andb].
  all: try solve [eexists; split; [reflexivity|]; cbn [rr]; simp_proj; first [ left; reflexivity | split; [discriminate| eexists; eassumption] ]].
  all: repeat match goal with
       | E : negb ?a = false |- _ => destruct a; [clear E|discriminate E]
       | E : packet_eqb _ _ = true |- _ => rewrite E
       end; cbn [andb].
  all: try solve [eexists; split; [reflexivity|]; cbn [rr]; simp_proj;
                  first [ exact I | left; reflexivity | split; [discriminate| eexists; first [eassumption|reflexivity]] ]].
  all: try solve [exfalso; pose proof (C3 eq_refl) as X; rewrite Hp in X; discriminate X].
  all: try solve [eexists; split; [reflexivity|]; cbn [rr]; simp_proj;
                  repeat match goal with F : k_ppc (k ?a) = k_ppc (k ?b) |- _ => rewrite F end;
                  split; [discriminate| eexists; eassumption]].
  all: idtac.
Qed.

Ltac norm :=
  repeat match goal with
       | E : negb ?a = false |- _ => destruct a eqn:?; [clear E|discriminate E]
       | E : negb ?a = true |- _ => destruct a eqn:?; [discriminate E|clear E]
       | E : packet_eqb _ _ = true |- _ => rewrite E
       | E : (?a =? ?a) = false |- _ => rewrite N.eqb_refl in E; discriminate E
       | E : list_eqb packet_eqb _ _ = true |- _ => apply list_packet_eqb_eq in E; subst
       end; cbn [andb].

Lemma sim_init s e s' : InvCtl s -> InvOwed s -> InvPre s -> rr RInit s -> step s e = Some s' ->
  exists x', resend_step RInit e = Some x' /\ rr x' s'.
Proof.
  intros (_ & _ & C3 & _) (_ & O2) (_ & P & _) R H.
  unfold pre_pc, quiet, noreq in P.
  destruct R as [Hp|Hp]; rewrite Hp in P.
  all: destruct e.
  all: leaves H Hp.
  all: cbn [resend_step proc_obs tx_proc api_send in_window rdue andb].
  all: norm.
  all: try solve [exfalso; pose proof (C3 eq_refl) as X; rewrite Hp in X; discriminate X].
  all: try solve [eexists; split; [reflexivity|]; cbn [rr]; simp_proj;
                  repeat match goal with F : k_ppc (k ?a) = k_ppc (k ?b) |- _ => rewrite F end;
                  first [ exact I | left; first [reflexivity|assumption] | right; first [reflexivity|assumption] ]].
  all: destruct (N.eqb_spec rc 0) as [->|Hrc]; eexists; (split; [reflexivity|]); cbn [rr]; simp_proj.
  - split; [exact (proj1 P)|]. left. eexists. reflexivity.
  - intros X. destruct (Hrc X).
Qed.

Lemma sim_conn s e s' : InvCtl s -> InvOwed s -> InvPre s -> rr RConn s -> step s e = Some s' ->
  exists x', resend_step RConn e = Some x' /\ rr x' s'.
Proof.
  intros (_ & _ & C3 & _) (_ & O2) (_ & P & _) [[Qc Qn] R] H.
  unfold pre_pc, quiet, noreq, hi in P. unfold noreq in Qn.
  destruct R as [[sp Hp]|[[sp Hp]|Hp]]; rewrite Hp in P.
  all: destruct e.
  all: leaves H Hp.
  all: repeat match goal with E : k_api (k _) = _ |- _ => rewrite E in Qn end; try contradiction.
  all: cbn [resend_step proc_obs tx_proc api_send in_window rdue andb].
  all: norm.
  all: try solve [exfalso; pose proof (C3 eq_refl) as X; rewrite Hp in X; discriminate X].
  all: try solve [eexists; split; [reflexivity|]; cbn [rr]; unfold quiet, noreq; simp_proj;
                  repeat match goal with F : k_ppc (k ?a) = k_ppc (k ?b) |- _ => rewrite F end;
                  repeat match goal with E : k_api (k _) = _ |- _ => rewrite E in * end;
                  first [ exact I | left; first [reflexivity|assumption] | right; first [reflexivity|assumption]
                        | split; [split; first [assumption|discriminate|exact I]|];
                          first [ left; eexists; first [eassumption|reflexivity]
                                | right; left; eexists; first [eassumption|reflexivity]
                                | right; right; first [eassumption|reflexivity] ] ]].
  all: try solve [exfalso; unfold is_connected in *; cbn [k set_k k_cs k_set_pending] in *;
                  destruct (k_cs (k s)); try discriminate; congruence].
  all: try solve [eexists; split; [reflexivity|]; cbn [rr]; split; [discriminate|eexists; reflexivity]].
  all: try solve [eexists; split; [reflexivity|]; cbn [rr]; unfold quiet, noreq; simp_proj;
                  repeat match goal with
                         | F : k_ppc (k ?a) = k_ppc (k ?b) |- _ => rewrite F
                         | F : k_api (k ?a) = _ |- _ => rewrite F
                         end;
                  (split; [split; [destruct CS as [CS|CS]; rewrite CS; first [assumption|discriminate]|first [exact I|assumption]]|]);
                  first [ left; eexists; first [eassumption|reflexivity]
                        | right; left; eexists; first [eassumption|reflexivity]
                        | right; right; first [eassumption|reflexivity] ]].
  all: idtac.
Qed.

Lemma sim_none s e s' : InvCtl s -> InvOwed s -> InvPre s -> rr RNone s -> step s e = Some s' ->
  exists x', resend_step RNone e = Some x' /\ rr x' s'.
Proof.
  intros (_ & _ & C3 & _) (_ & O2) (_ & P & K & _) R H.
  unfold pre_pc, quiet, noreq, hi in P. unfold conn_pc in K. cbn [rr] in R. pose proof I as I0.
  destruct e.
  all: leaves H I0.
  all: try contradiction.
  all: cbn [resend_step proc_obs tx_proc api_send in_window rdue andb].
  all: norm.
  all: try solve [eexists; split; [reflexivity|]; cbn [rr]; simp_proj;
                  repeat match goal with F : k_ppc (k ?a) = k_ppc (k ?b) |- _ => rewrite F end;
                  first [ exact I | exact R | assumption
                        | intros _ X; rewrite X in P; discriminate P
                        | specialize (O2 _ eq_refl);
                          destruct after as [| [|] | | | | | | | | | | | | | | | | | | | |]; cbn [after_pc] in O2; try contradiction; exact I ]].
  all: try solve [eexists; split; [reflexivity|]; left; reflexivity].
  all: try solve [exfalso; first [rewrite K in R | rewrite (proj1 K) in R]; exact R].
  all: try solve [eexists; split; [reflexivity|]; cbn [rr]; simp_proj;
                  repeat match goal with F : k_ppc (k ?a) = k_ppc (k ?b) |- _ => rewrite F end;
                  destruct (k_ppc (k s)) as [| [|] | | | | | | | | | | | | | | | | | | | |];
                  first [ exact R | exact I | intros _; discriminate
                        | intros X; destruct CS as [CS|CS]; rewrite CS; [exact (R X)|discriminate] ]].
  all: try solve [exfalso;
                  repeat match goal with E : (_ =? _) = true |- _ => apply N.eqb_eq in E end;
                  subst; apply R; [reflexivity|]; destruct (k_cs (k s)); try discriminate; reflexivity].
  all: idtac.
Qed.

Lemma resend_sim s e s' x : InvCtl s -> InvOwed s -> InvPre s -> rr x s -> step s e = Some s' ->
  exists x', resend_step x e = Some x' /\ rr x' s'.
Proof.
  destruct x; [apply sim_init|apply sim_none|apply sim_conn|apply sim_due].
Qed.

Lemma scan_resend_gen es : forall pre s0 s x,
  run step init pre = Some s0 -> rr x s0 -> run step s0 es = Some s ->
  exists x', scan_resend x es = Some x' /\ rr x' s.
Proof.
  induction es as [|e es IH]; intros pre s0 s x Hpre Hx Hrun.
  - cbn in Hrun. injection Hrun as <-. exists x. split; [reflexivity|exact Hx].
  - cbn [run] in Hrun. destruct (step s0 e) as [s1|] eqn:Hs; [|discriminate Hrun].
    assert (Hpre' : run step init (pre ++ [e]) = Some s1).
    { rewrite run_app, Hpre. cbn [run]. rewrite Hs. reflexivity. }
    pose proof (InvPre_reach _ _ Hpre) as HP.
    destruct (InvB_reach _ _ Hpre) as [HC HO].
    destruct (resend_sim _ _ _ _ HC HO HP Hx Hs) as (x1 & Hx1 & Hr1).
    cbn [scan_resend]. rewrite Hx1. eapply IH; eassumption.
Qed.

(* every accepted trace passes the retransmission scanner (so: between an accepted first CONNACK and the
   last re-send no API request is sent or saved); what it still expects at the end describes the final
   state: RDue l only if the processor still has exactly l to re-send *)
Theorem scan_resend_accepted es s : run step init es = Some s ->
  exists x, scan_resend RInit es = Some x /\ rr x s.
Proof. intros H. refine (scan_resend_gen es [] init s RInit eq_refl _ H). left. reflexivity. Qed.

Corollary scan_resend_due es s l : run step init es = Some s -> scan_resend RInit es = Some (RDue l) ->
  exists sp, k_ppc (k s) = PResend sp l.
Proof.
  intros H Hs. destruct (scan_resend_accepted _ _ H) as (x & Hx & R). rewrite Hs in Hx. injection Hx as <-.
  exact (proj2 R).
Qed.
