(* TraceScan.v — clause checkers over the OBSERVED event sequence alone (no model state):
   they are run on every trace the harness records, also on traces the monitor rejects.
   Definitions only; ClientScanProofs.v proves that every accepted trace passes them. *)
From Coq Require Import List NArith Bool.
From GM Require Import Codec.Packet Session.Store Client.Future Client.Client.
Import ListNotations.
Open Scope N_scope.

(* C09 store-before-send: every Send of a PUBLISH with QoS >= 1 is preceded by a successful
   SavePacket(Outgoing, that PUBLISH) *)
Fixpoint scan_sbs (saved : list packet) (es : list event) : bool :=
  match es with
  | [] => true
  | ESave Outgoing p Ok :: es' => scan_sbs (p :: saved) es'
  | ETx (Publish _ m id) _ _ :: es' =>
    ((m_qos m =? 0) || existsb (packet_eqb (Publish false m id)) saved) && scan_sbs saved es'
  | _ :: es' => scan_sbs saved es'
  end.

(* observable events of the processor goroutine *)
Definition proc_obs (e : event) : bool :=
  match e with
  | ERx _ | ERxErr | ELookup _ _ _ | EDelete _ _ _ | EAll _ _ | ECb _ _ => true
  | ESave Incoming _ _ => true
  | ESave Outgoing (Pubrel _) _ => true
  | ETx (Puback _ | Pubrec _ | Pubrel _ | Pubcomp _ | Publish true _ _) _ _ => true
  | _ => false
  end.

(* C09 "replaced by the PUBREL once PUBREC arrived": after Rx PUBREC id the processor's next
   observable move is SavePacket(Outgoing, PUBREL id), then Send(PUBREL id) *)
Inductive pexp := XInit | XNone | XSave (id : N) | XTx (id : N).   (* XInit: no packet received yet on this Client *)

Definition pubrec_step (x : pexp) (e : event) : option pexp :=
  match e with
  | ENew _ => Some XInit
  | _ =>
    if proc_obs e then
      match x, e with
      | XInit, _ => Some XNone
      | XNone, ERx (Pubrec id) => Some (XSave id)
      | XNone, _ => Some XNone
      | XSave id, ESave Outgoing (Pubrel id') r =>
        if id =? id' then Some (match r with Ok => XTx id | Fail => XNone end) else None
      | XTx id, ETx (Pubrel id') true _ => if id =? id' then Some XNone else None
      | _, _ => None
      end
    else Some x
  end.

Fixpoint scan_pubrec (x : pexp) (es : list event) : option pexp :=
  match es with
  | [] => Some x
  | e :: es' => match pubrec_step x e with Some x' => scan_pubrec x' es' | None => None end
  end.

(* C09 future-total at the end of a finished scenario (every client closed, all calls returned):
   the futures handed out for which no watcher has reported a resolution *)
Fixpoint unresolved (pending : list N) (es : list event) : list N :=
  match es with
  | [] => pending
  | EApiRet c RetFut :: es' => unresolved (c :: pending) es'
  | EFut c _ _ _ _ :: es' => unresolved (filter (fun x => negb (x =? c)) pending) es'
  | _ :: es' => unresolved pending es'
  end.
