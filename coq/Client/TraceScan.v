(* TraceScan.v — clause checkers over the OBSERVED event sequence alone (no model state):
   they are run on every trace the harness records, also on traces the monitor rejects.
   Definitions only; ClientScanProofs.v proves that every accepted trace passes them. *)
From Coq Require Import List NArith Bool.
From GM Require Import Codec.Packet Session.Store Client.Future Client.Client.
Import ListNotations.
Open Scope N_scope.

(* C09 store-before-send: every Send of a PUBLISH with QoS >= 1 is preceded by a successful
   SavePacket(Outgoing, that PUBLISH) *)
Fixpoint scan_sbs (saved : list packet) (es : list event) : bool :=
  match es with
  | [] => true
  | ESave Outgoing p Ok :: es' => scan_sbs (p :: saved) es'
  | ETx (Publish _ m id) _ _ :: es' =>
    ((m_qos m =? 0) || existsb (packet_eqb (Publish false m id)) saved) && scan_sbs saved es'
  | _ :: es' => scan_sbs saved es'
  end.

(* observable events of the processor goroutine *)
Definition proc_obs (e : event) : bool :=
  match e with
  | ERx _ | ERxErr | ELookup _ _ _ | EDelete _ _ _ | EAll _ _ | ECb _ _ => true
  | ESave Incoming _ _ => true
  | ESave Outgoing (Pubrel _) _ => true
  | ETx (Puback _ | Pubrec _ | Pubrel _ | Pubcomp _ | Publish true _ _) _ _ => true
  | _ => false
  end.

(* C09 "replaced by the PUBREL once PUBREC arrived": after Rx PUBREC id the processor's next
   observable move is SavePacket(Outgoing, PUBREL id), then Send(PUBREL id) *)
Inductive pexp := XInit | XNone | XSave (id : N) | XTx (id : N).   (* XInit: no packet received yet on this Client *)

Definition pubrec_step (x : pexp) (e : event) : option pexp :=
  match e with
  | ENew _ => Some XInit
  | _ =>
    if proc_obs e then
      match x, e with
      | XInit, _ => Some XNone
      | XNone, ERx (Pubrec id) => Some (XSave id)
      | XNone, _ => Some XNone
      | XSave id, ESave Outgoing (Pubrel id') r =>
        if id =? id' then Some (match r with Ok => XTx id | Fail => XNone end) else None
      | XTx id, ETx (Pubrel id') true _ => if id =? id' then Some XNone else None
      | _, _ => None
      end
    else Some x
  end.

Fixpoint scan_pubrec (x : pexp) (es : list event) : option pexp :=
  match es with
  | [] => Some x
  | e :: es' => match pubrec_step x e with Some x' => scan_pubrec x' es' | None => None end
  end.

(* C09 future-total at the end of a finished scenario (every client closed, all calls returned):
   the futures handed out for which no watcher has reported a resolution *)
Fixpoint unresolved (pending : list N) (es : list event) : list N :=
  match es with
  | [] => pending
  | EApiRet c RetFut :: es' => unresolved (c :: pending) es'
  | EFut c _ _ _ _ :: es' => unresolved (filter (fun x => negb (x =? c)) pending) es'
  | _ :: es' => unresolved pending es'
  end.

(* ------------------------------------------------------------------ C10 *)

(* C10 exactly-once: accepted deliveries per open inbound QoS 2 handshake, read off the observed
   events alone.  A handshake is opened by SavePacket(Incoming, PUBLISH id), closed by
   DeletePacket(Incoming, id) (or a session Reset); a delivery counts when the callback returns
   nil right after LookupPacket(Incoming, id) found the stored message (default mode). *)
Record hscan := HScan { hs_tab : list (N * N); hs_cur : option N }.

Definition hs_step (x : hscan) (e : event) : hscan :=
  match e with
  | ENew _ | ERx _ | ERxErr => HScan (hs_tab x) None
  | ESave Incoming p Ok =>
    match get_id p with Some id => HScan (hs_open (hs_tab x) id) None | None => x end
  | ELookup Incoming id (Some (Some (Publish _ _ _))) => HScan (hs_tab x) (Some id)
  | ELookup _ _ _ => HScan (hs_tab x) None
  | ECb _ Ok =>
    match hs_cur x with Some id => HScan (hs_incr (hs_tab x) id) None | None => x end
  | ECb _ Fail => HScan (hs_tab x) None
  | ETx (Pubcomp _) _ _ => HScan (hs_tab x) None
  | EDelete Incoming id Ok => HScan (amap_del (hs_tab x) id) (hs_cur x)
  | EReset _ Ok => HScan [] (hs_cur x)
  | _ => x
  end.

Definition scan_hs (es : list event) : hscan := fold_left hs_step es (HScan [] None).

Definition hs_twice (x : hscan) : option N :=
  match filter (fun y => 1 <? snd y) (hs_tab x) with (id, _) :: _ => Some id | [] => None end.

(* C10 acknowledgements: after an inbound PUBLISH the processor's observable moves are
   (callback,) PUBACK for QoS 1; (callback in the announce-on-publish mode,) SavePacket(Incoming)
   then PUBREC for QoS 2; after a PUBREL whose id is stored: (callback in default mode,) PUBCOMP,
   DeletePacket(Incoming).  A callback error ends the sequence (the client dies). *)
Inductive yexp :=
| YInit                    (* no packet received yet on this Client *)
| YNone
| YPub (p : packet)        (* PUBLISH received: callback or, without callback, the first acknowledgement step *)
| YAck (id : N)            (* Send(PUBACK id) *)
| YSave (p : packet)       (* SavePacket(Incoming, p) *)
| YRec (id : N)            (* Send(PUBREC id) *)
| YRel (id : N)            (* LookupPacket(Incoming, id) *)
| YRelCb (m : message) (pid id : N)   (* callback or PUBCOMP *)
| YComp (pid id : N)       (* Send(PUBCOMP pid) *)
| YDel (id : N).           (* DeletePacket(Incoming, id) *)

Definition after_cb_exp (p : packet) : yexp :=
  match p with
  | Publish _ m id => if m_qos m =? 1 then YAck id else if m_qos m =? 2 then YSave p else YNone
  | _ => YNone
  end.

(* what the processor may do when nothing is expected of it: the callback is not among it — it is
   only ever invoked for the PUBLISH just received or the message just looked up *)
Definition ack_none (e : event) : option yexp :=
  match e with
  | ERx (Publish d m id) => Some (YPub (Publish d m id))
  | ERx (Pubrel id) => Some (YRel id)
  | ECb _ _ => None
  | ESave Incoming _ _ | ELookup _ _ _ | EDelete Incoming _ _ => None
      (* the incoming store is only touched inside the PUBLISH(QoS 2) / PUBREL sequences *)
  | _ => Some YNone
  end.

Definition ack_step (y : yexp) (e : event) : option yexp :=
  match e with
  | ENew _ => Some YInit
  | _ =>
    if proc_obs e then
      match y, e with
      | YInit, _ => Some YNone
      | YNone, _ => ack_none e
      | YPub p, ECb m r =>
        match p with
        | Publish _ m' _ => if message_eqb m m' then Some (match r with Ok => after_cb_exp p | Fail => YNone end) else None
        | _ => None
        end
      | YPub p, _ =>
        (* no callback (configured, or due in this mode): the step after it *)
        match after_cb_exp p, e with
        | YAck id, ETx (Puback id') true _ => if id =? id' then Some YNone else None
        | YAck _, _ => None
        | YSave q, ESave Incoming q' r =>
          if packet_eqb q q' then
            match r, get_id q with Ok, Some id => Some (YRec id) | Fail, _ => Some YNone | _, _ => None end
          else None
        | YSave _, _ => None
        | _, _ => ack_none e       (* QoS 0: nothing to acknowledge *)
        end
      | YAck id, ETx (Puback id') true _ => if id =? id' then Some YNone else None
      | YSave q, ESave Incoming q' r =>
        if packet_eqb q q' then
          match r, get_id q with Ok, Some id => Some (YRec id) | Fail, _ => Some YNone | _, _ => None end
        else None
      | YRec id, ETx (Pubrec id') true _ => if id =? id' then Some YNone else None
      | YRel id, ELookup Incoming id' r =>
        if id =? id' then
          match r with
          | Some (Some (Publish _ m pid)) => Some (YRelCb m pid id)
          | _ => Some YNone
          end
        else None
      | YRelCb m pid id, ECb m' r =>
        if message_eqb m' m then Some (match r with Ok => YComp pid id | Fail => YNone end) else None
      | YRelCb m pid id, ETx (Pubcomp pid') true r =>
        if pid =? pid' then Some (match r with Ok => YDel id | Fail => YNone end) else None
      | YComp pid id, ETx (Pubcomp pid') true r =>
        if pid =? pid' then Some (match r with Ok => YDel id | Fail => YNone end) else None
      | YDel id, EDelete Incoming id' _ => if id =? id' then Some YNone else None
      | _, _ => None
      end
    else Some y
  end.

Fixpoint scan_ack (y : yexp) (es : list event) : option yexp :=
  match es with
  | [] => Some y
  | e :: es' => match ack_step y e with Some y' => scan_ack y' es' | None => None end
  end.

(* C10 no-ack-on-error: after a callback error no PUBACK/PUBREC/PUBCOMP is written on this Client *)
Fixpoint scan_noack (failed : bool) (es : list event) : bool :=
  match es with
  | [] => true
  | ENew _ :: es' => scan_noack false es'
  | ECb _ Fail :: es' => scan_noack true es'
  | ETx (Puback _ | Pubrec _ | Pubcomp _) _ _ :: es' => negb failed && scan_noack failed es'
  | _ :: es' => scan_noack failed es'
  end.

(* ------------------------------------------------------------------ C15, client side *)

(* arrival order: a message callback is always for the PUBLISH the processor has just received
   (QoS 0/1, and QoS 2 in the announce-on-publish mode) or for the stored message it has just looked
   up for the PUBREL it has just received (QoS 2, default mode); no other packet is received, and
   no other processor step happens, between the arrival and its callback *)
Definition order_step (last : option message) (e : event) : option (option message) :=
  match e with
  | ENew _ => Some None
  | ECb m _ =>
    match last with
    | Some m' => if message_eqb m m' then Some None else None
    | None => None
    end
  | _ =>
    if proc_obs e then
      match e with
      | ERx (Publish _ m _) => Some (Some m)
      | ELookup Incoming _ (Some (Some (Publish _ m _))) => Some (Some m)
      | _ => Some None
      end
    else Some last
  end.

Fixpoint scan_order (last : option message) (es : list event) : option (option message) :=
  match es with
  | [] => Some last
  | e :: es' => match order_step last e with Some l => scan_order l es' | None => None end
  end.

(* ------------------------------------------------------------------ C09: retransmission on connect *)

(* "on the next connect with the same session the client retransmits everything still recorded":
   once the session has listed its outgoing packets (AllPackets(Outgoing) after the accepted CONNACK),
   the processor sends exactly these, in listing order, PUBLISH with DUP set and PUBREL as it is,
   before it does anything else; a Send that fails ends the obligation (the client dies). *)

(* Send calls that the processor (not an API call, not the pinger) makes, by packet kind *)
Definition tx_proc (p : packet) : bool :=
  match p with
  | Connect _ | Disconnect | Publish false _ _ | Subscribe _ _ | Unsubscribe _ _ | Pingreq => false
  | _ => true
  end.

(* RInit: no packet received yet on this Client; RConn: an accepted CONNACK was the first packet, the
   listing is due; RDue l: l still has to be re-sent.  RConn and RDue are the re-send window. *)
Inductive rexp := RInit | RNone | RConn | RDue (l : list packet).

Definition rdue (l : list packet) : rexp := match l with [] => RNone | _ => RDue l end.

(* Send calls of API requests *)
Definition api_send (p : packet) : bool :=
  match p with
  | Publish false _ _ | Subscribe _ _ | Unsubscribe _ _ | Disconnect => true
  | _ => false
  end.

Definition in_window (x : rexp) : bool := match x with RConn | RDue _ => true | _ => false end.

(* after an accepted CONNACK: the listing, then exactly the listed packets in order (DUP set on PUBLISH),
   and — clause resend_before_new — until the last of them has been handed to the connection no request
   of an API call is sent and none is saved into the outgoing store (so nothing can be listed that was
   saved after the CONNACK, and nothing new overtakes a retransmission) *)
Definition resend_step (x : rexp) (e : event) : option rexp :=
  match e with
  | ENew _ => Some RInit
  | ETx p a r =>
    if tx_proc p then
      match x with
      | RDue (q :: rest) =>
        if a && packet_eqb p (set_dup q)
        then Some (match r with Ok => rdue rest | Fail => RNone end)
        else None
      | RConn => None
      | _ => Some RNone
      end
    else if api_send p then (if in_window x then None else Some x)
    else Some x
  | _ =>
    if proc_obs e then
      match x with
      | RDue (_ :: _) => None
      | RInit => match e with ERx (Connack _ rc) => Some (if rc =? 0 then RConn else RNone) | _ => Some RNone end
      | _ => match e with EAll Outgoing (Some l) => Some (rdue l) | _ => Some RNone end
      end
    else
      match e with
      | ESave Outgoing _ _ => if in_window x then None else Some x      (* an API call saving its request *)
      | _ => Some x
      end
  end.

Fixpoint scan_resend (x : rexp) (es : list event) : option rexp :=
  match es with
  | [] => Some x
  | e :: es' => match resend_step x e with Some x' => scan_resend x' es' | None => None end
  end.


(* C10 no-ack-on-error, second half: after a callback error the connection gets closed.  The scanner
   keeps two flags per Client: a callback returned an error; the connection is over (conn.Close was
   called, a Send failed or Receive failed).  The driver requires failed -> over wherever the harness
   says that the client has come to rest. *)
Record cscan := CScan { cs_failed : bool; cs_over : bool }.

Definition close_step (x : cscan) (e : event) : cscan :=
  match e with
  | ENew _ => CScan false false
  | ECb _ Fail => CScan true (cs_over x)
  | EConnClose _ _ | ERxErr => CScan (cs_failed x) true
  | ETx _ _ Fail => CScan (cs_failed x) true
  | _ => x
  end.

Definition scan_close (es : list event) : cscan := fold_left close_step es (CScan false false).
Definition error_closes_ok (x : cscan) : bool := negb (cs_failed x) || cs_over x.

(* C10 exactly-once, lower bound: what LookupPacket(Incoming, id) returns for a PUBREL is what the
   observed SavePacket / DeletePacket / Reset calls leave there, where only the DeletePacket that ends a
   PUBREL sequence (acknowledgement scanner in state YDel id) counts: a stored QoS 2 message is released
   by its PUBREL and by nothing else. *)
Definition rel_step (st : store) (y : yexp) (e : event) : store :=
  match e with
  | ESave Incoming p Ok => store_save st p
  | EDelete Incoming id Ok =>
    match y with YDel id' => if id =? id' then store_delete st id else st | _ => st end
  | EReset _ Ok => []
  | _ => st
  end.

Definition rel_ok (st : store) (e : event) : bool :=
  match e with
  | ELookup Incoming id (Some x) => option_eqb packet_eqb x (store_lookup st id)
  | _ => true
  end.

(* both scanners in lockstep; None: the acknowledgement scanner or the lookup check failed *)
Fixpoint scan_rel (st : store) (y : yexp) (es : list event) : option (store * yexp) :=
  match es with
  | [] => Some (st, y)
  | e :: es' =>
    if rel_ok st e then
      match ack_step y e with
      | Some y' => scan_rel (rel_step st y e) y' es'
      | None => None
      end
    else None
  end.

(* C09 "keeps it until the broker's PUBACK or PUBCOMP (replacing it by the PUBREL once PUBREC arrived)":
   DeletePacket(Outgoing, id) happens only as the processor's first move after receiving an
   acknowledgement that carries id; SavePacket(Outgoing, PUBREL id) only as its first move after
   receiving PUBREC id.  (The API calls only ever save their own request.) *)
Definition kept_step (x : option packet) (e : event) : option (option packet) :=
  match e with
  | ENew _ => Some None
  | EDelete Outgoing id _ =>
    match x with
    | Some p => if is_ack_for id p then Some None else None
    | None => None
    end
  | ESave Outgoing (Pubrel id) _ =>
    match x with
    | Some (Pubrec id') => if id =? id' then Some None else None
    | _ => None
    end
  | _ => if proc_obs e then (match e with ERx p => Some (Some p) | _ => Some None end) else Some x
  end.

Fixpoint scan_kept (x : option packet) (es : list event) : option (option packet) :=
  match es with
  | [] => Some x
  | e :: es' => match kept_step x e with Some x' => scan_kept x' es' | None => None end
  end.
