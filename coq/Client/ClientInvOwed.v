(* ClientInvOwed.v — the acknowledgement owed for the packet being processed;
   C10_pubrec_always, C10_qos01, C10_pubrel_answered_partial. *)
From Coq Require Import List NArith Bool Lia.
From GM Require Import Base.Lts Codec.Packet Session.Ids Session.Store Client.Future Client.Client Client.ClientSpec Client.ClientTactics Client.ClientInvCtl.
Import ListNotations.
Open Scope N_scope.

Definition is_pubcomp (p : packet) : bool := match p with Pubcomp _ => true | _ => false end.

Definition owed_pc (p : ppc) (owed : list packet) : Prop :=
  match p with
  | PNone | PRecv true | PConnack _ _ | PConnackCancel _ _ | PAll _ | PResend _ _ | PConnDone _ _ => owed = []
  | PPubAck id => forallb (packet_eqb (Puback id)) owed = true
  | PPubRec id => forallb (packet_eqb (Pubrec id)) owed = true
  | PPubSave p => forall id, get_id p = Some id -> forallb (packet_eqb (Pubrec id)) owed = true
  | PPubCb (Publish _ m id) =>
    owed = (if m_qos m =? 1 then [Puback id] else if m_qos m =? 2 then [Pubrec id] else [])
  | PInDie | PExited | PPubCb _ => True
  | _ => forallb is_pubcomp owed = true
  end.

Definition after_of (d : dpc) : option ppc :=
  match d with DCu _ _ (DAProc a) | DCb (DAProc a) => Some a | _ => None end.

Definition after_pc (a : ppc) (owed : list packet) : Prop :=
  match a with
  | PExited => True
  | PRecv false | PConnackCancel _ _ => owed = []
  | _ => False
  end.

Definition InvOwed (s : st) : Prop :=
  owed_pc (k_ppc (k s)) (g_owed (g s)) /\
  (forall a, after_of (k_dpc (k s)) = Some a -> after_pc a (g_owed (g s))).

Lemma InvOwed_init : InvOwed init.
Proof. split; cbn; [reflexivity|discriminate]. Qed.

Lemma packet_eqb_refl_ack id :
  packet_eqb (Puback id) (Puback id) = true /\ packet_eqb (Pubrec id) (Pubrec id) = true /\
  packet_eqb (Pubcomp id) (Pubcomp id) = true.
Proof. cbn. rewrite N.eqb_refl. auto. Qed.

Lemma filter_all_eq p l : forallb (packet_eqb p) l = true ->
  filter (fun q => negb (packet_eqb p q)) l = [].
Proof.
  induction l as [|q l IH]; cbn; [reflexivity|]. intros H. apply andb_true_iff in H as [H1 H2].
  rewrite H1. cbn. auto.
Qed.

Lemma filter_keeps_forallb {A} (f g : A -> bool) l : forallb f l = true -> forallb f (filter g l) = true.
Proof.
  induction l as [|q l IH]; cbn; [reflexivity|]. intros H. apply andb_true_iff in H as [H1 H2].
  destruct (g q); cbn; [rewrite H1|]; auto.
Qed.

Lemma after_pc_owed a o : after_pc a o -> owed_pc a o.
Proof. destruct a as [| [|] | | | | | | | | | | | | | | | | | | | |]; cbn; auto; try contradiction. intros ->. reflexivity. Qed.

Lemma after_owned d a : after_of d = Some a -> ClientInvCtl.proc_owned d = true.
Proof. destruct d as [|cu cc [x|]|[x|]|]; cbn; intros H; try discriminate; reflexivity. Qed.

Ltac owed_fin I2 C3 :=
  repeat match goal with
         | E : (?a =? ?b) = true |- _ => first [is_var a; is_var b; apply N.eqb_eq in E; subst | rewrite ?E in *; clear E]
         | E : (_ =? _) = false |- _ => rewrite ?E in *; clear E
         | H : g_owed _ = _ |- _ => rewrite H in *; clear H
         end;
  try match goal with |- (forall id, get_id _ = Some id -> _) /\ _ =>
    split; [let i := fresh "i" in let Hi := fresh "Hi" in intros i Hi; cbn [get_id] in Hi; injection Hi as <- | ] end;
  cbn [forallb is_pubcomp andb];
  rewrite ?(proj1 (packet_eqb_refl_ack _)), ?(proj1 (proj2 (packet_eqb_refl_ack _))), ?(proj2 (proj2 (packet_eqb_refl_ack _)));
  first
  [ split;
    [ first [ assumption | reflexivity | exact I
            | apply filter_keeps_forallb; assumption
            | match goal with H : forallb (packet_eqb ?p) ?l = true |- _ => rewrite (filter_all_eq p l H); reflexivity end
            | match goal with H : ?l = [] |- _ => rewrite H; reflexivity end ]
    | first [ assumption
            | discriminate
            | let a := fresh "a" in let Ha := fresh "Ha" in
              intros a Ha; first [ injection Ha as <-; cbn [after_pc]; first [exact I | assumption | reflexivity
                                     | match goal with H : ?l = [] |- _ => rewrite H; reflexivity end ]
                                 | apply after_owned in Ha; apply C3 in Ha; discriminate Ha
                                 | apply I2 in Ha; exact Ha ] ] ]
  | idtac ].

Lemma InvOwed_step s e s' : ClientInvCtl.InvCtl s -> InvOwed s -> step s e = Some s' -> InvOwed s'.
Proof.
  intros (_ & _ & C3 & _) (I1 & I2) H.
  destruct e.
  all: step_leaves H.
  all: unfold InvOwed in *; simp_proj; clean_eqs.
  all: cbn [owed_pc after_of after_pc] in *.
  all: owed_fin I2 C3.
  all: try (destruct first; [rewrite I1|]; owed_fin I2 C3).
  all: try (split; [apply after_pc_owed; apply I2; reflexivity|discriminate]).
  all: try reflexivity.
  all: try (intros a0 Ha0; apply after_owned in Ha0; apply C3 in Ha0; discriminate Ha0).
  all: try (split; [apply I1; assumption|assumption]).
Qed.

Definition InvB (s : st) : Prop := ClientInvCtl.InvCtl s /\ InvOwed s.

Lemma InvB_reach es s : run step init es = Some s -> InvB s.
Proof.
  apply reach_inv.
  - split; [exact ClientInvCtl.InvCtl_init|exact InvOwed_init].
  - intros s0 e s1 [HC HO] Hs. split; [eapply ClientInvCtl.InvCtl_step; eassumption|eapply InvOwed_step; eassumption].
Qed.

