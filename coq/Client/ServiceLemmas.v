(* ServiceLemmas.v — list-level facts about the components of the service monitor's
   state (futures, store, subsequences) and the inversion tactic for `step`. *)
From Coq Require Import List NArith Bool Lia.
From GM Require Import Base.Lts Codec.Packet Client.Service Client.ServiceSpec.
Import ListNotations.
Open Scope N_scope.

(* ---------------------------------------------------------------- futures *)

Lemma fut_get_resolve n m st fs :
  fut_get n (fut_resolve m st fs) =
  if n =? m then match fut_get n fs with Some FPending => Some st | x => x end else fut_get n fs.
Proof.
  induction fs as [|[k old] fs IH]; cbn [fut_resolve fut_get].
  - destruct (n =? m); reflexivity.
  - destruct (k =? m) eqn:Ekm; cbn [fut_get].
    + apply N.eqb_eq in Ekm; subst k.
      destruct (m =? n) eqn:Emn.
      * apply N.eqb_eq in Emn; subst. rewrite N.eqb_refl. destruct old; reflexivity.
      * rewrite N.eqb_sym, Emn. reflexivity.
    + destruct (k =? n) eqn:Ekn.
      * apply N.eqb_eq in Ekn; subst k. rewrite Ekm. reflexivity.
      * exact IH.
Qed.

Lemma fut_get_resolve_other n m st fs : n <> m -> fut_get n (fut_resolve m st fs) = fut_get n fs.
Proof. intros H. rewrite fut_get_resolve. apply N.eqb_neq in H. rewrite H. reflexivity. Qed.

Lemma fut_get_resolve_same n st fs :
  fut_get n (fut_resolve n st fs) = match fut_get n fs with Some FPending => Some st | x => x end.
Proof. rewrite fut_get_resolve, N.eqb_refl. reflexivity. Qed.

(* what one Complete/Cancel can do to the status of future n *)
Lemma fut_resolve_cases n m st fs y :
  fut_get n (fut_resolve m st fs) = Some y ->
  fut_get n fs = Some y \/ (fut_get n fs = Some FPending /\ y = st /\ n = m).
Proof.
  rewrite fut_get_resolve. destruct (n =? m) eqn:E.
  - apply N.eqb_eq in E. destruct (fut_get n fs) as [[| |]|]; intros H; try (left; exact H).
    injection H as <-. right; auto.
  - auto.
Qed.

Lemma fut_resolve_none n m st fs : fut_get n fs = None -> fut_get n (fut_resolve m st fs) = None.
Proof. intros H. rewrite fut_get_resolve, H. destruct (n =? m); reflexivity. Qed.

Lemma fut_resolve_all_cases ns : forall n st fs y,
  fut_get n (fut_resolve_all ns st fs) = Some y ->
  fut_get n fs = Some y \/ (fut_get n fs = Some FPending /\ y = st /\ In n ns).
Proof.
  unfold fut_resolve_all.
  induction ns as [|m ns IH]; intros n st fs y H; cbn [fold_left] in H.
  - left; exact H.
  - apply IH in H. destruct H as [H|(H & -> & Hin)].
    + apply fut_resolve_cases in H. destruct H as [H|(H & -> & ->)]; [left; exact H|].
      right; repeat split; auto. left; reflexivity.
    + apply fut_resolve_cases in H. destruct H as [H|(H & Hy & ->)].
      * right; repeat split; auto. right; exact Hin.
      * right; repeat split; auto. left; reflexivity.
Qed.

Lemma fut_resolve_all_in ns : forall n st fs,
  st <> FPending -> In n ns -> fut_get n fs = Some FPending -> fut_get n (fut_resolve_all ns st fs) = Some st.
Proof.
  unfold fut_resolve_all.
  induction ns as [|m ns IH]; intros n st fs Hst Hin Hp; [destruct Hin|].
  cbn [fold_left].
  destruct (N.eq_dec m n) as [->|Hne].
  - assert (H1 : fut_get n (fut_resolve n st fs) = Some st) by (rewrite fut_get_resolve_same, Hp; reflexivity).
    clear IH Hin Hp. revert H1. generalize (fut_resolve n st fs). clear fs.
    induction ns as [|k ns IH]; intros fs H1; cbn [fold_left]; [exact H1|].
    apply IH. rewrite fut_get_resolve. destruct (n =? k); [|exact H1].
    rewrite H1. destruct st; reflexivity.
  - destruct Hin as [->|Hin]; [contradiction Hne; reflexivity|].
    apply IH; auto. rewrite fut_get_resolve_other; auto.
Qed.

Lemma fut_resolve_all_none ns : forall n st fs, fut_get n fs = None -> fut_get n (fut_resolve_all ns st fs) = None.
Proof.
  unfold fut_resolve_all. induction ns as [|m ns IH]; intros n st fs H; cbn [fold_left]; [exact H|].
  apply IH. apply fut_resolve_none; exact H.
Qed.

(* resolved futures never change: the `done` flag *)
Lemma fut_resolve_stable n m st fs x : fut_get n fs = Some x -> x <> FPending -> fut_get n (fut_resolve m st fs) = Some x.
Proof.
  intros H Hx. rewrite fut_get_resolve, H. destruct (n =? m); [|reflexivity].
  destruct x; try reflexivity. contradiction Hx; reflexivity.
Qed.

Lemma fut_resolve_all_stable ns : forall n st fs x,
  fut_get n fs = Some x -> x <> FPending -> fut_get n (fut_resolve_all ns st fs) = Some x.
Proof.
  unfold fut_resolve_all. induction ns as [|m ns IH]; intros n st fs x H Hx; cbn [fold_left]; [exact H|].
  apply IH; auto. apply fut_resolve_stable; auto.
Qed.

Lemma fut_get_app n fs k st :
  fut_get n (fs ++ [(k, st)]) = match fut_get n fs with Some x => Some x | None => if k =? n then Some st else None end.
Proof.
  induction fs as [|[k' o] fs IH]; cbn [app fut_get]; [reflexivity|].
  destruct (k' =? n); [reflexivity|exact IH].
Qed.

(* domain of the futures: exactly the numbers below nextn *)
Lemma fut_resolve_dom n m st fs : (fut_get n (fut_resolve m st fs) = None) <-> (fut_get n fs = None).
Proof.
  rewrite fut_get_resolve. destruct (n =? m); [|reflexivity].
  destruct (fut_get n fs) as [[| |]|]; split; intros H; try discriminate; auto.
Qed.

(* ---------------------------------------------------------------- store *)

Lemma store_get_del id id' st : store_get id (store_del id' st) = if id =? id' then None else store_get id st.
Proof.
  unfold store_del. induction st as [|[k e] st IH]; cbn [filter store_get fst].
  - destruct (id =? id'); reflexivity.
  - destruct (k =? id') eqn:Ek; cbn [negb].
    + apply N.eqb_eq in Ek; subst k. rewrite IH.
      destruct (id =? id') eqn:E; [reflexivity|]. rewrite N.eqb_sym, E. reflexivity.
    + cbn [store_get]. destruct (k =? id) eqn:Eki.
      * apply N.eqb_eq in Eki; subst k. rewrite Ek. reflexivity.
      * exact IH.
Qed.

Lemma store_get_put id id' e st : store_get id (store_put id' e st) = if id' =? id then Some e else store_get id st.
Proof.
  unfold store_put. cbn [store_get]. destruct (id' =? id) eqn:E; [reflexivity|].
  rewrite store_get_del, N.eqb_sym, E. reflexivity.
Qed.

Lemma in_store_cmds n st : In n (store_cmds st) <-> exists id, In (id, SCmd n) st.
Proof.
  unfold store_cmds. rewrite in_flat_map. split.
  - intros ([id e] & Hin & H). cbn [snd] in H. destruct e; cbn in H; try contradiction.
    destruct H as [->|[]]. exists id; exact Hin.
  - intros (id & Hin). exists (id, SCmd n). split; [exact Hin|left; reflexivity].
Qed.

Lemma in_store_del x id st : In x (store_del id st) <-> In x st /\ fst x <> id.
Proof.
  unfold store_del. rewrite filter_In. split; intros (H1 & H2); split; auto.
  - intros E. rewrite E, N.eqb_refl in H2. discriminate.
  - apply N.eqb_neq in H2. rewrite H2. reflexivity.
Qed.

Lemma store_get_in id e st : store_get id st = Some e -> In (id, e) st.
Proof.
  induction st as [|[k x] st IH]; cbn [store_get]; [discriminate|].
  destruct (k =? id) eqn:E.
  - apply N.eqb_eq in E; subst. intros H; injection H as ->. left; reflexivity.
  - intros H; right; auto.
Qed.

Lemma in_store_get id e st : NoDup (map fst st) -> In (id, e) st -> store_get id st = Some e.
Proof.
  induction st as [|[k x] st IH]; intros Hnd Hin; [destruct Hin|].
  cbn [map fst] in Hnd. inversion Hnd as [|? ? Hni Hnd']; subst.
  cbn [store_get]. destruct Hin as [H|Hin].
  - injection H as -> ->. rewrite N.eqb_refl. reflexivity.
  - destruct (k =? id) eqn:E.
    + apply N.eqb_eq in E; subst. exfalso; apply Hni. apply in_map_iff. exists (id, e); auto.
    + auto.
Qed.

Lemma store_del_keys id st : NoDup (map fst st) -> NoDup (map fst (store_del id st)) /\ ~ In id (map fst (store_del id st)).
Proof.
  intros Hnd. split.
  - unfold store_del. induction st as [|[k x] st IH]; cbn [filter map fst]; [constructor|].
    cbn [map fst] in Hnd. inversion Hnd as [|? ? Hni Hnd']; subst.
    destruct (negb (k =? id)); cbn [map fst]; auto.
    constructor; auto. intros Hin. apply Hni. apply in_map_iff in Hin. destruct Hin as (y & <- & Hy).
    apply filter_In in Hy. apply in_map. tauto.
  - intros Hin. apply in_map_iff in Hin. destruct Hin as (y & Hy & Hin). apply in_store_del in Hin. tauto.
Qed.

Lemma store_put_keys id e st : NoDup (map fst st) -> NoDup (map fst (store_put id e st)).
Proof.
  intros Hnd. unfold store_put. cbn [map fst]. destruct (store_del_keys id st Hnd). constructor; auto.
Qed.

(* ---------------------------------------------------------------- subsequences *)

Lemma Subseq_refl {A} (l : list A) : Subseq l l.
Proof. induction l; [apply SubNil|apply SubKeep; assumption]. Qed.

Lemma Subseq_app_both {A} (l1 l2 t : list A) : Subseq l1 l2 -> Subseq (l1 ++ t) (l2 ++ t).
Proof.
  induction 1; cbn [app]; [apply Subseq_refl|apply SubSkip; assumption|apply SubKeep; assumption].
Qed.

Lemma Subseq_app_skip {A} (l1 l2 t : list A) : Subseq l1 l2 -> Subseq l1 (l2 ++ t).
Proof.
  induction 1; cbn [app]; [|apply SubSkip; assumption|apply SubKeep; assumption].
  induction t; [apply SubNil|apply SubSkip; assumption].
Qed.

Lemma Subseq_drop_tail {A} (l1 t l2 : list A) : Subseq (l1 ++ t) l2 -> Subseq l1 l2.
Proof.
  revert l2. induction l1 as [|x l1 IH]; intros l2 H; cbn [app] in H.
  - clear H. induction l2; [apply SubNil|apply SubSkip; assumption].
  - induction l2 as [|y l2 IH2]; [inversion H|].
    inversion H; subst.
    + apply SubSkip. auto.
    + apply SubKeep. auto.
Qed.

Lemma Subseq_in {A} (l1 l2 : list A) x : Subseq l1 l2 -> In x l1 -> In x l2.
Proof. induction 1; intros Hin; [destruct Hin| right; auto|]. destruct Hin as [->|Hin]; [left; reflexivity|right; auto]. Qed.

(* ---------------------------------------------------------------- step inversion *)

(* case analysis of `H : step s e = Some s'` down to the leaves of the definition *)
Ltac dstep H :=
  lazymatch type of H with
  | Some _ = Some _ => injection H as H; try subst
  | None = Some _ => discriminate H
  | context [match ?x with _ => _ end] =>
    let E := fresh "E" in destruct x eqn:E; try discriminate H; dstep H
  | _ => idtac
  end.

Ltac step_inv H := unfold step in H; dstep H.

(* the list-level components stay folded when states are simplified *)
Global Arguments store_del : simpl never.
Global Arguments store_put : simpl never.
Global Arguments store_get : simpl never.
Global Arguments store_cmds : simpl never.
Global Arguments fut_get : simpl never.
Global Arguments fut_resolve : simpl never.
Global Arguments fut_resolve_all : simpl never.
Global Arguments resub_list : simpl never.
Global Arguments apply_body : simpl never.
Global Arguments body_eqb : simpl never.
Global Arguments kind_eqb : simpl never.
Global Arguments is_qos0 : simpl never.
Global Arguments N.add : simpl never.
Global Arguments N.ltb : simpl never.
Global Arguments N.eqb : simpl never.
Global Arguments N.of_nat : simpl never.
