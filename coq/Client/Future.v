(* Future.v — model of client/future/future.go (Future), client/future/store.go (Store)
   and of the typed accessors of client/futures.go.  Definitions only.

   Go                         model
   interface{} result         value  (VNil | VConnack | VSuback | VOther)
   *Future                    index into a heap (list future); attached futures are indices
   Store.store map id->*F     list (id * index), protected flag
   panic                      an explicit APanic value of the accessor result type
*)
From Coq Require Import List NArith Bool.
Import ListNotations.
Open Scope N_scope.

(* the values the client hands to Complete / Cancel *)
Inductive value :=
| VNil
| VConnack (sp : bool) (rc : N)
| VSuback (codes : list N)
| VOther.

Inductive fstatus := Pending | Completed | Cancelled.

Record future := Fut {
  f_status   : fstatus;
  f_result   : value;
  f_attached : list nat }.

Definition future_new : future := Fut Pending VNil [].

Definition f_done (f : future) : bool :=
  match f_status f with Pending => false | _ => true end.

Definition fstatus_eqb (a b : fstatus) : bool :=
  match a, b with
  | Pending, Pending | Completed, Completed | Cancelled, Cancelled => true
  | _, _ => false
  end.

(* ---- a single future (no attachments): Complete / Cancel ------------------- *)

(* Complete / Cancel: first call wins, later calls return false and change nothing *)
Definition resolve1 (st : fstatus) (f : future) (v : value) : future * bool :=
  if f_done f then (f, false) else (Fut st v (f_attached f), true).

Definition complete1 := resolve1 Completed.
Definition cancel1 := resolve1 Cancelled.

(* ---- heap of futures, with attachments -------------------------------------- *)

Definition heap := list future.

Definition hget (h : heap) (i : nat) : option future := nth_error h i.

Fixpoint hset (h : heap) (i : nat) (f : future) : heap :=
  match h, i with
  | [], _ => []
  | _ :: h', O => f :: h'
  | g :: h', S i' => g :: hset h' i' f
  end.

Definition halloc (h : heap) : heap * nat := (h ++ [future_new], length h).

(* Complete/Cancel of future i with the attached ones, depth-first as the Go loop does.
   fuel bounds the recursion (a cyclic attachment would deadlock the Go code on its
   own mutex; fuel exhaustion is reported as None) *)
Fixpoint resolve (fuel : nat) (st : fstatus) (h : heap) (i : nat) (v : value) : option (heap * bool) :=
  match fuel with
  | O => None
  | S fuel' =>
    match hget h i with
    | None => Some (h, false)
    | Some f =>
      if f_done f then Some (h, false)
      else
        let h1 := hset h i (Fut st v (f_attached f)) in
        (fix each (l : list nat) (h : heap) : option (heap * bool) :=
           match l with
           | [] => Some (h, true)
           | j :: l' => match resolve fuel' st h j v with
                        | None => None
                        | Some (h', _) => each l' h'
                        end
           end) (f_attached f) h1
    end
  end.

Definition complete (fuel : nat) := resolve fuel Completed.
Definition cancel (fuel : nat) := resolve fuel Cancelled.

(* Attach f2 to f: a done future resolves f2 at once the same way; f2 is appended in any case *)
Definition attach (fuel : nat) (h : heap) (i j : nat) : option heap :=
  match hget h i with
  | None => Some h
  | Some f =>
    let h1 :=
      match f_status f with
      | Pending => Some (h, false)
      | st => resolve fuel st h j (f_result f)
      end in
    match h1 with
    | None => None
    | Some (h', _) =>
      match hget h' i with
      | None => Some h'
      | Some f' => Some (hset h' i (Fut (f_status f') (f_result f') (f_attached f' ++ [j])))
      end
    end
  end.

(* Result() *)
Definition result (h : heap) (i : nat) : value :=
  match hget h i with Some f => f_result f | None => VNil end.

(* Wait(timeout): what a waiter observes when it looks at the future *)
Inductive wait_result := WaitNil | WaitCanceled | WaitTimeout.
Definition wait (h : heap) (i : nat) : wait_result :=
  match hget h i with
  | Some f => match f_status f with
              | Completed => WaitNil | Cancelled => WaitCanceled | Pending => WaitTimeout end
  | None => WaitTimeout
  end.

(* ---- Store -------------------------------------------------------------------- *)

Record fstore := FStore { fs_protected : bool; fs_map : list (N * nat) }.

Definition fstore_new : fstore := FStore false [].

Fixpoint amap_put {A} (m : list (N * A)) (k : N) (v : A) : list (N * A) :=
  match m with
  | [] => [(k, v)]
  | (k', v') :: m' => if k =? k' then (k', v) :: m' else (k', v') :: amap_put m' k v
  end.

Fixpoint amap_get {A} (m : list (N * A)) (k : N) : option A :=
  match m with
  | [] => None
  | (k', v') :: m' => if k =? k' then Some v' else amap_get m' k
  end.

Fixpoint amap_del {A} (m : list (N * A)) (k : N) : list (N * A) :=
  match m with
  | [] => []
  | (k', v') :: m' => if k =? k' then m' else (k', v') :: amap_del m' k
  end.

(* Put: a different future still stored under the id is cancelled first (nothing could resolve
   it once it is unreachable through the store) *)
Definition fs_put (fuel : nat) (s : fstore) (h : heap) (id : N) (i : nat) : option (fstore * heap) :=
  let h1 := match amap_get (fs_map s) id with
            | Some j => if Nat.eqb j i then Some h
                        else match cancel fuel h j VNil with Some (h', _) => Some h' | None => None end
            | None => Some h
            end in
  match h1 with
  | Some h' => Some (FStore (fs_protected s) (amap_put (fs_map s) id i), h')
  | None => None
  end.
Definition fs_get (s : fstore) (id : N) : option nat := amap_get (fs_map s) id.
Definition fs_delete (s : fstore) (id : N) : fstore := FStore (fs_protected s) (amap_del (fs_map s) id).
Definition fs_all (s : fstore) : list nat := map snd (fs_map s).
Definition fs_protect (s : fstore) (b : bool) : fstore := FStore b (fs_map s).

(* Clear: nothing when protected; otherwise Cancel(nil) every stored future, empty map *)
Fixpoint cancel_all (fuel : nat) (h : heap) (l : list nat) : option heap :=
  match l with
  | [] => Some h
  | i :: l' => match cancel fuel h i VNil with
               | None => None
               | Some (h', _) => cancel_all fuel h' l'
               end
  end.

Definition fs_clear (fuel : nat) (s : fstore) (h : heap) : option (fstore * heap) :=
  if fs_protected s then Some (s, h)
  else match cancel_all fuel h (fs_all s) with
       | None => None
       | Some h' => Some (FStore false [], h')
       end.

(* Await(timeout): nil when no future is stored; otherwise it waits on some stored future:
   cancelled -> ErrCanceled, pending until the deadline -> ErrTimeout, completed -> the
   caller removes it (the client deletes a future from the store when it resolves it) and
   Await looks again.  One look: *)
Inductive await_result := AwaitNil | AwaitCanceled | AwaitTimeout | AwaitAgain.
Definition await_look (s : fstore) (h : heap) : await_result :=
  match fs_all s with
  | [] => AwaitNil
  | i :: _ => match wait h i with
              | WaitNil => AwaitAgain | WaitCanceled => AwaitCanceled | WaitTimeout => AwaitTimeout end
  end.

(* ---- typed accessors of client/futures.go -------------------------------------- *)

(* result of calling an accessor: a value, or a run-time panic *)
Inductive acc (A : Type) := AVal (a : A) | APanic.
Arguments AVal {A} a.
Arguments APanic {A}.

(* `connack, _ := f.Result().(PTR packet.Connack)` — comma-ok: a failed assertion gives nil *)
Definition as_connack (v : value) : option (bool * N) :=
  match v with VConnack sp rc => Some (sp, rc) | _ => None end.
Definition as_suback (v : value) : option (list N) :=
  match v with VSuback c => Some c | _ => None end.

Definition session_present (v : value) : acc bool :=
  match as_connack v with None => AVal false | Some (sp, _) => AVal sp end.
Definition return_code (v : value) : acc N :=
  match as_connack v with None => AVal 0 | Some (_, rc) => AVal rc end.
Definition return_codes (v : value) : acc (list N) :=
  match as_suback v with None => AVal [] | Some c => AVal c end.

(* the same accessors with the unchecked assertion `f.Result().(PTR packet.Connack)` the code
   had before eea92ca: any other dynamic type, nil included, panics.  Kept for contrast. *)
Definition session_present_unchecked (v : value) : acc bool :=
  match v with VConnack sp _ => AVal sp | _ => APanic end.
