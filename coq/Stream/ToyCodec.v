(* ToyCodec.v — a four-packet codec that meets the codec interface of
   FramesProofs.v, used for the non-vacuity Examples of Props/C03.v and C19.v
   until the integrator instantiates the section with the real codec model
   (Codec/Enc.v, Dec.v).  The byte strings are the real MQTT encodings. *)
From Coq Require Import List NArith Bool Lia ZArith ZifyN ZifyNat ZifyBool.
From Coq.Strings Require Import Byte.
From GM Require Import Codec.Packet Stream.Stream Stream.StreamProofs Stream.FramesProofs.
Import ListNotations.
Open Scope N_scope.

Definition toy_big : packet := Publish false (Msg [x74] (repeat x00 128) 0 false) 0.

Definition toy_good (p : packet) : Prop :=
  p = Pingreq \/ p = Disconnect \/ p = Puback 7 \/ p = toy_big.

Definition toy_enc (p : packet) : list byte :=
  match p with
  | Pingreq => [xc0; x00]
  | Disconnect => [xe0; x00]
  | Puback _ => [x40; x02; x00; x07]
  | _ => [x30; x83; x01; x00; x01; x74] ++ repeat x00 128      (* 3-byte header, 131-byte body *)
  end.

Definition toy_decode (t : N) (bs : list byte) : option packet :=
  if (t =? 12) && (len bs =? 2) then Some Pingreq
  else if (t =? 14) && (len bs =? 2) then Some Disconnect
  else if (t =? 4) && (len bs =? 4) then Some (Puback 7)
  else if (t =? 3) && (len bs =? 134) then Some toy_big
  else None.

Lemma toy_detect_enc : forall p, toy_good p ->
  exists h, 2 <= h /\ h <= 5 /\ h <= len (toy_enc p) /\
    forall k, 2 <= k -> k <= h ->
      detect_impl (takeN k (toy_enc p)) =
      if k <? h then DetNeedMore else DetLen (len (toy_enc p)) (type_code (ptype_of p)).
Proof.
  assert (LE : forall a b : N, (a <=? b) = true -> a <= b) by (intros a b; apply N.leb_le).
  intros p [->|[->|[->| ->]]].
  1-3: exists 2; (split; [apply LE; reflexivity|]); (split; [apply LE; reflexivity|]); (split; [apply LE; reflexivity|]);
       intros k H1 H2; assert (k = 2) by lia; subst k; vm_compute; reflexivity.
  exists 3. split; [apply LE; reflexivity|]. split; [apply LE; reflexivity|]. split; [apply LE; vm_compute; reflexivity|].
  intros k H1 H2. assert (k = 2 \/ k = 3) as [-> | ->] by lia; vm_compute; reflexivity.
Qed.

Lemma toy_decode_enc : forall p, toy_good p -> toy_decode (type_code (ptype_of p)) (toy_enc p) = Some p.
Proof. intros p [->|[->|[->| ->]]]; vm_compute; reflexivity. Qed.

Lemma toy_all_good : Forall toy_good [toy_big; Pingreq; Puback 7; Disconnect].
Proof. unfold toy_good. constructor; [auto|]. constructor; [auto|]. constructor; [auto|]. constructor; [auto|constructor]. Qed.
