(* WsStream.v — model of wsStream.Read (transport/websocket_conn.go) over the
   messages a websocket.Conn delivers.  Definitions only.

   gorilla/websocket contract used: NextReader returns the next data message or,
   after the last one, an error (a *CloseError is turned into io.EOF by wsStream,
   any other error is passed on); a message reader's Read returns (n > 0, nil)
   while data remains and (0, io.EOF) afterwards.  wsStream keeps the exhausted
   reader until the following call, which then moves on to the next message. *)
From Coq Require Import List NArith Bool.
From Coq.Strings Require Import Byte.
From GM Require Import Stream.Stream.
Import ListNotations.
Open Scope N_scope.

Record wsmsg := WM { wm_binary : bool; wm_data : list byte }.

Record wstate := WS {
  w_cur  : option (list byte);   (* s.reader: remaining bytes of the current message *)
  w_msgs : list wsmsg;           (* messages the connection will still deliver *)
  w_end  : src_end }.            (* close frame = SEof; network error = SErr *)

Definition ws_init (ms : list wsmsg) (e : src_end) : wstate := WS None ms e.

Inductive wres := WData (bs : list byte) | WEof | WErr (code : N) | WNotBinary.

Definition ws_end_res (e : src_end) : wres := match e with SEof => WEof | SErr c => WErr c end.

(* the loop of wsStream.Read once s.reader is nil *)
Fixpoint ws_next (n : N) (ms : list wsmsg) (e : src_end) : wres * wstate :=
  match ms with
  | [] => (ws_end_res e, WS None [] e)
  | m :: ms' =>
      if wm_binary m then
        match wm_data m with
        | [] => ws_next n ms' e                      (* empty message: reader reports EOF at once *)
        | d => (WData (takeN n d), WS (Some (dropN n d)) ms' e)
        end
      else (WNotBinary, WS None ms' e)
  end.

(* wsStream.Read(buf) with len(buf) = n > 0 *)
Definition ws_read (n : N) (s : wstate) : wres * wstate :=
  match w_cur s with
  | Some ((_ :: _) as d) => (WData (takeN n d), WS (Some (dropN n d)) (w_msgs s) (w_end s))
  | _ => ws_next n (w_msgs s) (w_end s)
  end.

(* read with the given buffer sizes until the first non-data result; sizes of 0 count as 1 *)
Fixpoint ws_read_all (sizes : list N) (s : wstate) : list (list byte) * option wres :=
  match sizes with
  | [] => ([], None)
  | n :: sizes' =>
      match ws_read (N.max n 1) s with
      | (WData bs, s') => let '(cs, r) := ws_read_all sizes' s' in (bs :: cs, r)
      | (r, _) => ([], Some r)
      end
  end.

(* what the byte stream of a message sequence is: the data of the binary
   messages up to the first non-binary one *)
Fixpoint ws_bytes (ms : list wsmsg) : list byte :=
  match ms with
  | [] => []
  | m :: ms' => if wm_binary m then wm_data m ++ ws_bytes ms' else []
  end.

Fixpoint ws_final (ms : list wsmsg) (e : src_end) : wres :=
  match ms with
  | [] => ws_end_res e
  | m :: ms' => if wm_binary m then ws_final ms' e else WNotBinary
  end.
