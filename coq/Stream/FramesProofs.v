(* FramesProofs.v — what the decoder does on a concatenation of encodings:
   C03_frames, C03_truncation, the second half of C03_limit_first.
   Stated inside a section over the codec interface (enc / detect / decode and
   two hypotheses the codec theorems of C01/C02 discharge). *)
From Coq Require Import List NArith Bool Lia ZArith ZifyN ZifyNat ZifyBool.
From Coq.Strings Require Import Byte.
From GM Require Import Codec.Packet Stream.Stream Stream.StreamSpec Stream.StreamProofs.
Import ListNotations.
Open Scope N_scope.

Lemma type_of_code_type_code t : type_of_code (type_code t) = Some t.
Proof. destruct t; reflexivity. Qed.

Section Codec.
  Variable enc : packet -> list byte.                      (* the bytes Encode writes for a packet *)
  Variable detect : list byte -> detection.                (* DetectPacket *)
  Variable decode : N -> list byte -> option packet.       (* Type.New() + Decode on exactly the packet's bytes *)
  Variable good : packet -> Prop.                          (* well-formed packets (WF.wf p = true) *)

  (* H1: the fixed header of an encoding is h = 2..5 bytes long and lies within the
     encoding; DetectPacket on the first k <= h bytes answers "nothing yet" for k < h
     and (total length, type nibble) for k = h. *)
  Hypothesis detect_enc : forall p, good p ->
    exists h, 2 <= h /\ h <= 5 /\ h <= len (enc p) /\
      forall k, 2 <= k -> k <= h ->
        detect (takeN k (enc p)) =
        if k <? h then DetNeedMore else DetLen (len (enc p)) (type_code (ptype_of p)).

  (* H2: decoding an encoding gives the packet back (C01 round trip) *)
  Hypothesis decode_enc : forall p, good p -> decode (type_code (ptype_of p)) (enc p) = Some p.

  Definition fits (lim : N) (p : packet) : Prop := lim = 0 \/ len (enc p) <= lim.

  Definition frame_of (p : packet) : list byte * packet := (enc p, p).
  Definition alloc_of (p : packet) : N := len (enc p).

  (* the detection loop on a stream that starts with (a prefix of) enc p reaches the header length *)
  Lemma detect_loop_reaches p h bs lim e :
    2 <= h -> h <= 5 -> h <= len bs ->
    (forall k, 2 <= k -> k <= h ->
       detect (takeN k bs) = if k <? h then DetNeedMore else DetLen (len (enc p)) (type_code (ptype_of p))) ->
    len (enc p) <> 0 ->
    forall fuel dl, 2 <= dl -> dl <= h -> dl + N.of_nat fuel = 6 ->
      sdec_detect detect decode fuel lim dl bs e =
      sdec_body decode lim h (len (enc p)) (type_code (ptype_of p)) bs e.
  Proof.
    intros H2 H5 Hlen Hdet Hnz. induction fuel as [|f IH]; intros dl Hdl Hdh Hf; [lia|].
    cbn [sdec_detect].
    destruct (N.ltb_spec (len bs) dl) as [Hs|_]; [lia|].
    rewrite (Hdet dl Hdl Hdh).
    destruct (N.ltb_spec dl h) as [Hlt|Hge].
    - apply IH; lia.
    - assert (dl = h) by lia. subst dl.
      destruct (N.eqb_spec (len (enc p)) 0) as [Hz|_]; [contradiction|reflexivity].
  Qed.

  (* one Read on a stream that starts with a whole encoding *)
  Lemma read_whole p rest lim e :
    good p -> fits lim p ->
    exists pk, pk <= 5 /\
      sdec_read detect decode lim (enc p ++ rest) e = (RPacket (enc p) p, Some (len (enc p)), pk, rest).
  Proof.
    intros Hg Hfit. destruct (detect_enc p Hg) as (h & H2 & H5 & Hl & Hd).
    exists h. split; [exact H5|]. unfold sdec_read.
    rewrite (detect_loop_reaches p h (enc p ++ rest) lim e H2 H5); try lia.
    - unfold sdec_body.
      replace ((0 <? lim) && (lim <? len (enc p))) with false
        by (destruct Hfit as [->|Hle]; [reflexivity|];
            destruct (N.ltb_spec 0 lim), (N.ltb_spec lim (len (enc p))); cbn [andb]; try reflexivity; lia).
      rewrite type_of_code_type_code.
      destruct (N.ltb_spec (len (enc p ++ rest)) (len (enc p))) as [Hs|_]; [rewrite len_app in Hs; lia|].
      rewrite takeN_exact_app, dropN_exact_app, (decode_enc p Hg). reflexivity.
    - rewrite len_app. lia.
    - intros k Hk Hkh. rewrite takeN_app_le by lia. apply Hd; assumption.
  Qed.

  (* one Read on a stream that ends inside an encoding (j = 0: at a packet boundary) *)
  Lemma read_truncated p j lim e :
    good p -> fits lim p -> j < len (enc p) ->
    exists al pk rest, sdec_read detect decode lim (takeN j (enc p)) e = (RFail (end_err e j), al, pk, rest).
  Proof.
    intros Hg Hfit Hj. destruct (detect_enc p Hg) as (h & H2 & H5 & Hl & Hd).
    set (bs := takeN j (enc p)).
    assert (Hbs : len bs = j) by (unfold bs; rewrite len_takeN; lia).
    unfold sdec_read.
    (* loop invariant: 2 <= dl <= h, every earlier length said "need more" *)
    assert (G : forall fuel dl, 2 <= dl -> dl <= h -> dl + N.of_nat fuel = 6 ->
              exists al pk rest, sdec_detect detect decode fuel lim dl bs e = (RFail (end_err e j), al, pk, rest)).
    { induction fuel as [|f IH]; intros dl Hdl Hdh Hf; [lia|]. cbn [sdec_detect].
      destruct (N.ltb_spec (len bs) dl) as [Hs|Hs].
      - rewrite Hbs. eauto.
      - unfold bs at 1. rewrite takeN_takeN by lia. rewrite (Hd dl Hdl Hdh).
        destruct (N.ltb_spec dl h) as [Hlt|Hge]; [apply IH; lia|].
        destruct (N.eqb_spec (len (enc p)) 0) as [Hz|_]; [lia|].
        unfold sdec_body.
        replace ((0 <? lim) && (lim <? len (enc p))) with false
          by (destruct Hfit as [->|Hle]; [reflexivity|];
              destruct (N.ltb_spec 0 lim), (N.ltb_spec lim (len (enc p))); cbn [andb]; try reflexivity; lia).
        rewrite type_of_code_type_code.
        destruct (N.ltb_spec (len bs) (len (enc p))) as [_|Hs2]; [|lia].
        rewrite Hbs. eauto. }
    apply G; lia.
  Qed.

  (* one Read on a stream that starts with an encoding longer than the limit *)
  Lemma read_refused p rest lim e :
    good p -> 0 < lim -> lim < len (enc p) ->
    exists pk, pk <= 5 /\
      sdec_read detect decode lim (enc p ++ rest) e = (RFail EReadLimit, None, pk, enc p ++ rest).
  Proof.
    intros Hg Hl0 Hl1. destruct (detect_enc p Hg) as (h & H2 & H5 & Hl & Hd).
    exists h. split; [exact H5|]. unfold sdec_read.
    rewrite (detect_loop_reaches p h (enc p ++ rest) lim e H2 H5); try lia.
    - unfold sdec_body.
      destruct (N.ltb_spec 0 lim), (N.ltb_spec lim (len (enc p))); cbn [andb]; try lia. reflexivity.
    - rewrite len_app. lia.
    - intros k Hk Hkh. rewrite takeN_app_le by lia. apply Hd; assumption.
  Qed.

  (* all the reads over a run of whole encodings, then whatever the tail does *)
  Lemma all_prefix lim e : forall ps fuel tail,
    Forall good ps -> Forall (fits lim) ps ->
    (length (concat (map enc ps) ++ tail) < fuel)%nat ->
    exists f', (length tail < f')%nat /\
      sdec_all_f detect decode fuel lim (concat (map enc ps) ++ tail) e =
      let '(fs, er, als, pk) := sdec_all_f detect decode f' lim tail e in
      (map frame_of ps ++ fs, er, map alloc_of ps ++ als, pk).
  Proof.
    induction ps as [|p ps IH]; intros fuel tail Hg Hf Hlen.
    - exists fuel. split; [exact Hlen|]. cbn [map concat app].
      destruct (sdec_all_f detect decode fuel lim tail e) as [[[fs er] als] pk]. reflexivity.
    - destruct fuel as [|f]; [lia|].
      inversion Hg as [|? ? Hg1 Hg2]; subst. inversion Hf as [|? ? Hf1 Hf2]; subst.
      cbn [map concat]. rewrite <- app_assoc.
      destruct (read_whole p (concat (map enc ps) ++ tail) lim e Hg1 Hf1) as (pk0 & _ & R).
      assert (Hlen' : (length (concat (map enc ps) ++ tail) < f)%nat).
      { cbn [map concat] in Hlen. rewrite <- app_assoc, app_length in Hlen.
        destruct (detect_enc p Hg1) as (h & H2 & _ & Hl & _). unfold len in Hl. lia. }
      destruct (IH f tail Hg2 Hf2 Hlen') as (f' & Hf' & E).
      exists f'. split; [exact Hf'|].
      cbn [sdec_all_f]. rewrite R, E.
      destruct (sdec_all_f detect decode f' lim tail e) as [[[fs er] als] pk]. reflexivity.
  Qed.

  Lemma all_tail_fails lim e tail er al pk rest f' :
    (length tail < f')%nat ->
    sdec_read detect decode lim tail e = (RFail er, al, pk, rest) ->
    sdec_all_f detect decode f' lim tail e = ([], er, opt_cons al [], pk).
  Proof. intros Hf R. destruct f' as [|f]; [lia|]. cbn [sdec_all_f]. rewrite R. reflexivity. Qed.

  Lemma sdec_read_nil lim e : sdec_read detect decode lim [] e = (RFail (end_err e 0), None, 2, []).
  Proof. reflexivity. Qed.

  (* ---------------------------------------------------------------- the theorems, for every chunking *)

  (* C03_frames: a concatenation of encodings of well-formed packets that fit the
     limit, cut into chunks in any way, decodes to exactly those packets (byte
     ranges included), one allocation request per packet of exactly its size,
     then the end of the source: EOF for io.EOF, the source's error otherwise *)
  Theorem frames lim ps cs e :
    Forall good ps -> Forall (fits lim) ps -> concat cs = concat (map enc ps) ->
    let a := dec_all detect decode lim cs e in
    a_frames a = map frame_of ps /\ a_err a = end_err e 0 /\ a_allocs a = map alloc_of ps.
  Proof.
    intros Hg Hf Hc a. pose proof (dec_all_flat detect decode lim cs e) as V.
    fold a in V. unfold aview, sdec_all in V. rewrite Hc in V.
    rewrite <- (app_nil_r (concat (map enc ps))) in V.
    destruct (all_prefix lim e ps (S (length (concat (map enc ps) ++ []))) [] Hg Hf (Nat.lt_succ_diag_r _))
      as (f' & Hf' & E).
    rewrite E in V. rewrite (all_tail_fails lim e [] _ _ _ _ f' Hf' (sdec_read_nil lim e)) in V.
    cbn [opt_cons] in V. rewrite !app_nil_r in V. injection V as V1 V2 V3 _. auto.
  Qed.

  (* C03_truncation: the stream ends j bytes into a packet (0 < j < its length):
     the complete packets before it, then ErrUnexpectedEOF for io.EOF (the source's
     own error otherwise) — never a packet made from the partial bytes *)
  Theorem truncation lim ps p j cs e :
    Forall good (p :: ps) -> Forall (fits lim) (p :: ps) -> j < len (enc p) ->
    concat cs = concat (map enc ps) ++ takeN j (enc p) ->
    let a := dec_all detect decode lim cs e in
    a_frames a = map frame_of ps /\ a_err a = end_err e j.
  Proof.
    intros Hg Hf Hj Hc a. pose proof (dec_all_flat detect decode lim cs e) as V.
    fold a in V. unfold aview, sdec_all in V. rewrite Hc in V.
    inversion Hg as [|? ? Hg1 Hg2]; subst. inversion Hf as [|? ? Hf1 Hf2]; subst.
    destruct (all_prefix lim e ps (S (length (concat (map enc ps) ++ takeN j (enc p)))) (takeN j (enc p))
                Hg2 Hf2 (Nat.lt_succ_diag_r _)) as (f' & Hf' & E).
    destruct (read_truncated p j lim e Hg1 Hf1 Hj) as (al & pk & rest & R).
    rewrite E in V. rewrite (all_tail_fails lim e _ _ _ _ _ f' Hf' R) in V.
    rewrite !app_nil_r in V. injection V as V1 V2 _ _. auto.
  Qed.

  (* C03_limit_first, second half: a packet longer than a positive limit, wherever
     it starts and however the stream is cut, ends the stream with ErrReadLimitExceeded
     right after the packets before it; no allocation request is made for it and at
     most 5 bytes were peeked; what follows it (even nothing) plays no role *)
  Theorem limit_refuses lim ps p rest cs e :
    Forall good (p :: ps) -> Forall (fits lim) ps -> 0 < lim -> lim < len (enc p) ->
    concat cs = concat (map enc ps) ++ enc p ++ rest ->
    let a := dec_all detect decode lim cs e in
    a_frames a = map frame_of ps /\ a_err a = EReadLimit /\ a_allocs a = map alloc_of ps /\ a_peeked a <= 5.
  Proof.
    intros Hg Hf Hl0 Hl1 Hc a. pose proof (dec_all_flat detect decode lim cs e) as V.
    fold a in V. unfold aview, sdec_all in V. rewrite Hc in V.
    inversion Hg as [|? ? Hg1 Hg2]; subst.
    destruct (all_prefix lim e ps (S (length (concat (map enc ps) ++ enc p ++ rest))) (enc p ++ rest)
                Hg2 Hf (Nat.lt_succ_diag_r _)) as (f' & Hf' & E).
    destruct (read_refused p rest lim e Hg1 Hl0 Hl1) as (pk & Hpk & R).
    rewrite E in V. rewrite (all_tail_fails lim e _ _ _ _ _ f' Hf' R) in V.
    cbn [opt_cons] in V. rewrite !app_nil_r in V. injection V as V1 V2 V3 V4. subst. auto.
  Qed.
End Codec.
