(* EncStream.v — model of packet.Encoder (packet/stream.go) over mercury.Writer
   (mercury.go v0.2.0) over bufio.Writer over a carrier.  Definitions only.

   Go                                   model
   carrier io.Writer                    e_wire: the Write calls that succeeded (newest first);
                                        a write either takes all bytes or fails with 0 bytes written;
                                        e_fail = Some code: every write fails from now on;
                                        e_wleft = Some k: k more writes succeed, then every write fails
   bufio.Writer (4096 bytes, EXACT)     e_buf (<= 4096 bytes), e_berr: the sticky error (once set,
                                        every Write and Flush returns it and nothing reaches the carrier)
   mercury.Writer                       e_armed (timer != nil), e_aerr (flush error stored by the timer
                                        goroutine; reported AND CLEARED by the next write), e_delay0
   time.AfterFunc firing                event EvTimer, enabled in every state (a timer that was stopped
                                        after it fired still runs its callback: "stale fire")
   Encoder.Write(pkt, async)            EvWrite (Some bytes) async — the bytes are pkt's encoding;
                                        EvWrite None _ = Encode failed, the writer is not touched      *)
From Coq Require Import List NArith Bool.
From Coq.Strings Require Import Byte.
From GM Require Import Stream.Stream.
Import ListNotations.
Open Scope N_scope.

Definition wcap : N := 4096.

Record estate := ES {
  e_buf    : list byte;
  e_berr   : option N;
  e_wire   : list (list byte);
  e_armed  : bool;
  e_aerr   : option N;
  e_delay0 : bool;
  e_fail   : option N;
  e_wleft  : option N }.

Definition einit (delay0 : bool) (wleft : option N) : estate :=
  ES [] None [] false None delay0 None wleft.

Definition wire_bytes (s : estate) : list byte := concat (rev (e_wire s)).

Definition is_nil {A} (l : list A) : bool := match l with [] => true | _ => false end.
Definition is_some {A} (o : option A) : bool := match o with Some _ => true | None => false end.

(* codes of carrier errors *)
Definition code_src : N := 1.
Definition code_closed : N := 2.
Definition code_deadline : N := 3.
Definition code_carrier : N := 4.

(* one Write call on the carrier: Some state = all bytes taken, None = error code *)
Definition carrier_write (s : estate) (bs : list byte) : estate * option N :=
  match e_fail s with
  | Some c => (s, Some c)
  | None =>
      match e_wleft s with
      | Some 0 =>
          (ES (e_buf s) (e_berr s) (e_wire s) (e_armed s) (e_aerr s) (e_delay0 s) (Some code_carrier) (e_wleft s),
           Some code_carrier)
      | wl =>
          (ES (e_buf s) (e_berr s) (bs :: e_wire s) (e_armed s) (e_aerr s) (e_delay0 s) None
              (match wl with Some k => Some (k - 1) | None => None end), None)
      end
  end.

Definition set_buf (s : estate) (b : list byte) : estate :=
  ES b (e_berr s) (e_wire s) (e_armed s) (e_aerr s) (e_delay0 s) (e_fail s) (e_wleft s).
Definition set_berr (s : estate) (c : option N) : estate :=
  ES (e_buf s) c (e_wire s) (e_armed s) (e_aerr s) (e_delay0 s) (e_fail s) (e_wleft s).
Definition set_armed (s : estate) (a : bool) : estate :=
  ES (e_buf s) (e_berr s) (e_wire s) a (e_aerr s) (e_delay0 s) (e_fail s) (e_wleft s).
Definition set_aerr (s : estate) (c : option N) : estate :=
  ES (e_buf s) (e_berr s) (e_wire s) (e_armed s) c (e_delay0 s) (e_fail s) (e_wleft s).
Definition set_delay0 (s : estate) (z : bool) : estate :=
  ES (e_buf s) (e_berr s) (e_wire s) (e_armed s) (e_aerr s) z (e_fail s) (e_wleft s).
Definition set_fail (s : estate) (c : option N) : estate :=
  ES (e_buf s) (e_berr s) (e_wire s) (e_armed s) (e_aerr s) (e_delay0 s) c (e_wleft s).

(* result of a writer operation: None = nil error *)
Definition wres := option N.

(* bufio.Writer.Flush *)
Definition bw_flush (s : estate) : estate * wres :=
  match e_berr s with
  | Some c => (s, Some c)
  | None =>
      match e_buf s with
      | [] => (s, None)
      | b =>
          match carrier_write s b with
          | (s', None) => (set_buf s' [], None)
          | (s', Some c) => (set_berr s' (Some c), Some c)
          end
      end
  end.

(* the carrier write bufio.Writer.Write makes straight from p when its buffer is empty *)
Definition bw_direct (s : estate) (p : list byte) : estate * wres :=
  match carrier_write s p with
  | (s', None) => (s', None)
  | (s', Some c) => (set_berr s' (Some c), Some c)
  end.

(* bufio.Writer.Write: the loop `for len(p) > b.Available() && b.err == nil` runs at most
   twice (fill-and-flush, then either the rest fits or it is written directly) *)
Definition bw_write (s : estate) (p : list byte) : estate * wres :=
  match e_berr s with
  | Some c => (s, Some c)
  | None =>
      if len p <=? wcap - len (e_buf s) then (set_buf s (e_buf s ++ p), None)
      else if is_nil (e_buf s) then bw_direct s p
      else let k := wcap - len (e_buf s) in
           match bw_flush (set_buf s (e_buf s ++ takeN k p)) with
           | (s1, Some c) => (s1, Some c)
           | (s1, None) =>
               let p' := dropN k p in
               if len p' <=? wcap then (set_buf s1 p', None) else bw_direct s1 p'
           end
  end.

(* mercury.Writer.write(p, flush) *)
Definition mw_write (s : estate) (p : list byte) (flush : bool) : estate * wres :=
  match e_aerr s with
  | Some c => (set_aerr s None, Some c)                 (* stored flush error: reported and cleared *)
  | None =>
      match (if is_nil p then (s, None) else bw_write s p) with
      | (s1, Some c) => (s1, Some c)
      | (s1, None) =>
          match (if flush || e_delay0 s1 then bw_flush s1 else (s1, None)) with
          | (s2, Some c) => (s2, Some c)
          | (s2, None) => (set_armed s2 (negb (is_nil (e_buf s2))), None)
          end
      end
  end.

(* mercury.Writer.flush, run by the timer *)
Definition mw_timer (s : estate) : estate :=
  match bw_flush (set_armed s false) with
  | (s1, Some c) => if is_some (e_aerr s1) then s1 else set_aerr s1 (Some c)
  | (s1, None) => s1
  end.

Inductive eev :=
| EvWrite (bs : option (list byte)) (async : bool)   (* Encoder.Write *)
| EvFlush                                            (* Encoder.Flush *)
| EvTimer                                            (* the AfterFunc callback runs *)
| EvFail (code : N)                                  (* the carrier refuses every write from now on *)
| EvDelay (zero : bool).                             (* SetMaxWriteDelay *)

Inductive eres := EROk | ERErr (code : N) | EREnc | ERNone.

Definition eres_of (r : wres) : eres := match r with None => EROk | Some c => ERErr c end.

Definition enc_step (s : estate) (ev : eev) : estate * eres :=
  match ev with
  | EvWrite None _ => (s, EREnc)
  | EvWrite (Some bs) async => let '(s', r) := mw_write s bs (negb async) in (s', eres_of r)
  | EvFlush => let '(s', r) := mw_write s [] true in (s', eres_of r)
  | EvTimer => (mw_timer s, ERNone)
  | EvFail c => (set_fail s (Some c), ERNone)
  | EvDelay z => (set_delay0 s z, ERNone)
  end.

Fixpoint enc_run (s : estate) (evs : list eev) : estate * list eres :=
  match evs with
  | [] => (s, [])
  | ev :: evs' => let '(s1, r) := enc_step s ev in
                  let '(s2, rs) := enc_run s1 evs' in (s2, r :: rs)
  end.
