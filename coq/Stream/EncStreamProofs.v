(* EncStreamProofs.v — what reaches the carrier through bufio.Writer / mercury.Writer. *)
From Coq Require Import List NArith Bool Lia ZArith ZifyN ZifyNat ZifyBool.
From Coq.Strings Require Import Byte.
From GM Require Import Stream.Stream Stream.StreamProofs Stream.EncStream.
Import ListNotations.
Open Scope N_scope.

Lemma wire_bytes_cons (bs : list byte) (w : list (list byte)) : concat (rev (bs :: w)) = concat (rev w) ++ bs.
Proof. cbn [rev]. rewrite concat_app. cbn [concat]. now rewrite app_nil_r. Qed.

(* everything but the wire and the failure switches *)
Definition same_writer (s s' : estate) : Prop :=
  e_buf s' = e_buf s /\ e_berr s' = e_berr s /\ e_armed s' = e_armed s /\ e_aerr s' = e_aerr s /\
  e_delay0 s' = e_delay0 s.

Lemma carrier_write_spec s bs s' r :
  carrier_write s bs = (s', r) ->
  same_writer s s' /\
  match r with
  | None => wire_bytes s' = wire_bytes s ++ bs /\ e_fail s = None /\ e_fail s' = None /\
            (e_wleft s = None -> e_wleft s' = None)
  | Some c => wire_bytes s' = wire_bytes s /\ e_fail s' = Some c /\ (e_fail s = None -> e_wleft s <> None) /\
              e_wleft s' = e_wleft s
  end.
Proof.
  unfold carrier_write, same_writer, wire_bytes. destruct (e_fail s) as [c|] eqn:F.
  - intros H; injection H as <- <-. rewrite F. repeat split; discriminate.
  - destruct (e_wleft s) as [[|k]|] eqn:W; intros H; injection H as <- <-; cbn [e_buf e_berr e_armed e_aerr e_delay0 e_wire e_fail e_wleft];
      repeat split; try apply wire_bytes_cons; try discriminate; try (intros _; discriminate).
Qed.

(* ---------------------------------------------------------------- bufio.Writer *)

Lemma bw_flush_spec s s' r :
  bw_flush s = (s', r) ->
  e_armed s' = e_armed s /\ e_aerr s' = e_aerr s /\ e_delay0 s' = e_delay0 s /\
  match e_berr s with
  | Some c => s' = s /\ r = Some c
  | None =>
      match r with
      | None => wire_bytes s' = wire_bytes s ++ e_buf s /\ e_buf s' = [] /\ e_berr s' = None /\
                (e_fail s = None -> e_fail s' = None) /\ (e_wleft s = None -> e_wleft s' = None) /\
                (e_buf s <> [] -> e_fail s = None)
      | Some c => wire_bytes s' = wire_bytes s /\ e_buf s' = e_buf s /\ e_berr s' = Some c /\ e_buf s <> [] /\
                  e_fail s' <> None
      end
  end.
Proof.
  unfold bw_flush. destruct (e_berr s) as [c|] eqn:B.
  - intros H; injection H as <- <-. auto.
  - destruct (e_buf s) as [|b0 bt] eqn:EB.
    + intros H; injection H as <- <-. rewrite app_nil_r. repeat split; auto; try (intros X; contradiction).
    + destruct (carrier_write s (b0 :: bt)) as [s1 [c|]] eqn:CW;
        destruct (carrier_write_spec _ _ _ _ CW) as ((S1 & S2 & S3 & S4 & S5) & R);
        intros H; injection H as <- <-; cbn [set_buf set_berr e_buf e_berr e_armed e_aerr e_delay0 e_wire e_fail e_wleft wire_bytes].
      * destruct R as (R1 & R2 & R3 & R4). unfold wire_bytes in R1. rewrite S1, EB, R2.
        repeat split; auto; discriminate.
      * destruct R as (R1 & R2 & R3 & R4). unfold wire_bytes in R1.
        repeat split; auto. congruence.
Qed.

Lemma bw_direct_spec s p s' r :
  e_berr s = None -> bw_direct s p = (s', r) ->
  e_buf s' = e_buf s /\ e_armed s' = e_armed s /\ e_aerr s' = e_aerr s /\ e_delay0 s' = e_delay0 s /\
  match r with
  | None => wire_bytes s' = wire_bytes s ++ p /\ e_berr s' = None /\
            (e_fail s = None -> e_fail s' = None) /\ (e_wleft s = None -> e_wleft s' = None)
  | Some c => wire_bytes s' = wire_bytes s /\ e_berr s' = Some c /\ e_fail s' <> None
  end.
Proof.
  intros B. unfold bw_direct. destruct (carrier_write s p) as [s1 [c|]] eqn:CW;
    destruct (carrier_write_spec _ _ _ _ CW) as ((S1 & S2 & S3 & S4 & S5) & R);
    intros H; injection H as <- <-; cbn [set_berr e_buf e_berr e_armed e_aerr e_delay0 e_wire e_fail e_wleft wire_bytes].
  - destruct R as (R1 & R2 & _). unfold wire_bytes in R1. rewrite R2. repeat split; auto. discriminate.
  - destruct R as (R1 & R2 & R3 & R4). unfold wire_bytes in R1. rewrite S2, B. repeat split; auto.
Qed.

(* bufio.Writer.Write on a writer without a sticky error: either everything is
   appended to (wire ++ buffer), or the writer is dead and the wire grew by a
   prefix of (buffer ++ p) *)
Lemma bw_write_spec s p s' r :
  e_berr s = None -> bw_write s p = (s', r) ->
  e_armed s' = e_armed s /\ e_aerr s' = e_aerr s /\ e_delay0 s' = e_delay0 s /\
  match r with
  | None => wire_bytes s' ++ e_buf s' = wire_bytes s ++ e_buf s ++ p /\ e_berr s' = None /\
            (e_fail s = None -> e_fail s' = None) /\ (e_wleft s = None -> e_wleft s' = None)
  | Some c => e_berr s' = Some c /\ e_fail s' <> None /\
              exists rest, wire_bytes s' ++ rest = wire_bytes s ++ e_buf s ++ p
  end.
Proof.
  intros B. unfold bw_write. rewrite B.
  destruct (len p <=? wcap - len (e_buf s)) eqn:Fit.
  { intros H; injection H as <- <-. cbn [set_buf e_buf e_berr e_armed e_aerr e_delay0 e_wire e_fail e_wleft wire_bytes].
    repeat split; auto. }
  destruct (e_buf s) as [|b0 bt] eqn:EB; cbn [is_nil].
  { intros H. destruct (bw_direct_spec _ _ _ _ B H) as (D1 & D2 & D3 & D4 & D5).
    repeat split; auto. destruct r as [c|].
    - destruct D5 as (E1 & E2 & E3). repeat split; auto. exists p. rewrite E1. reflexivity.
    - destruct D5 as (E1 & E2 & E3 & E4). rewrite D1, EB, E1. cbn [app]. rewrite app_nil_r.
      repeat split; auto. }
  set (k := wcap - len (b0 :: bt)).
  set (s0 := set_buf s ((b0 :: bt) ++ takeN k p)).
  assert (B0 : e_berr s0 = None) by exact B.
  destruct (bw_flush s0) as [s1 [c|]] eqn:FL;
    pose proof (bw_flush_spec _ _ _ FL) as (A1 & A2 & A3 & A4); rewrite B0 in A4.
  - intros H; injection H as <- <-. destruct A4 as (E1 & E2 & E3 & E4 & E5).
    repeat split; auto. exists (b0 :: bt ++ p). rewrite E1. reflexivity.
  - destruct A4 as (E1 & E2 & E3 & E4 & E5 & E6).
    assert (W1 : wire_bytes s1 ++ dropN k p = wire_bytes s ++ (b0 :: bt) ++ p).
    { rewrite E1. unfold s0 at 2. cbn [set_buf e_buf]. change (wire_bytes s0) with (wire_bytes s).
      rewrite <- !app_assoc. f_equal. f_equal. apply takeN_dropN. }
    destruct (len (dropN k p) <=? wcap) eqn:Fit2.
    + intros H; injection H as <- <-. cbn [set_buf e_buf e_berr e_armed e_aerr e_delay0 e_wire e_fail e_wleft].
      change (wire_bytes (set_buf s1 (dropN k p))) with (wire_bytes s1).
      repeat split; auto.
    + intros H. destruct (bw_direct_spec _ _ _ _ E3 H) as (D1 & D2 & D3 & D4 & D5).
      rewrite D2, D3, D4. repeat split; auto. destruct r as [c|].
      * destruct D5 as (G1 & G2 & G3). repeat split; auto. exists (dropN k p). rewrite G1. exact W1.
      * destruct D5 as (G1 & G2 & G3 & G4). rewrite D1, E2, app_nil_r, G1. repeat split; auto.
Qed.

Lemma bw_write_dead s p c : e_berr s = Some c -> bw_write s p = (s, Some c).
Proof. intros B. unfold bw_write. now rewrite B. Qed.

Lemma bw_flush_dead s c : e_berr s = Some c -> bw_flush s = (s, Some c).
Proof. intros B. unfold bw_flush. now rewrite B. Qed.

(* ---------------------------------------------------------------- mercury.Writer *)

(* one description of mercury.write for all cases *)
Lemma mw_write_spec s p flush s' r :
  mw_write s p flush = (s', r) ->
  e_delay0 s' = e_delay0 s /\
  match e_aerr s with
  | Some c => s' = set_aerr s None /\ r = Some c
  | None =>
      e_aerr s' = None /\
      match e_berr s with
      | Some c => (p <> [] \/ flush = true \/ e_delay0 s = true -> r = Some c /\ s' = s) /\
                  wire_bytes s' = wire_bytes s /\ e_berr s' = Some c /\ e_buf s' = e_buf s /\ e_fail s' = e_fail s
      | None =>
          match r with
          | None => wire_bytes s' ++ e_buf s' = wire_bytes s ++ e_buf s ++ p /\ e_berr s' = None /\
                    e_armed s' = negb (is_nil (e_buf s')) /\
                    (flush = true \/ e_delay0 s = true -> e_buf s' = []) /\
                    (e_fail s = None -> e_fail s' = None) /\ (e_wleft s = None -> e_wleft s' = None)
          | Some c => e_berr s' = Some c /\ e_fail s' <> None /\
                      exists rest, wire_bytes s' ++ rest = wire_bytes s ++ e_buf s ++ p
          end
      end
  end.
Proof.
  unfold mw_write. destruct (e_aerr s) as [c|] eqn:A.
  { intros H; injection H as <- <-. auto. }
  destruct (e_berr s) as [cb|] eqn:B.
  - (* dead buffered writer *)
    destruct p as [|b0 bt]; cbn [is_nil].
    + destruct (flush || e_delay0 s) eqn:FD.
      * rewrite (bw_flush_dead _ _ B). intros H; injection H as <- <-. rewrite A, B.
        split; [reflexivity|]. split; [reflexivity|]. split; [intros _; split; reflexivity|]. repeat split; reflexivity.
      * intros H; injection H as <- <-. cbn [set_armed e_buf e_berr e_armed e_aerr e_delay0 e_wire e_fail e_wleft].
        change (wire_bytes (set_armed s (negb (is_nil (e_buf s))))) with (wire_bytes s). rewrite A, B.
        split; [reflexivity|]. split; [reflexivity|]. split.
        { intros [X|[X|X]]; [contradiction|subst flush; discriminate|rewrite X, orb_true_r in FD; discriminate]. }
        repeat split; reflexivity.
    + rewrite (bw_write_dead _ _ _ B). intros H; injection H as <- <-. rewrite A, B.
      split; [reflexivity|]. split; [reflexivity|]. split; [intros _; split; reflexivity|]. repeat split; reflexivity.
  - (* live buffered writer *)
    assert (W : exists s1 r1, (if is_nil p then (s, None) else bw_write s p) = (s1, r1) /\
               e_armed s1 = e_armed s /\ e_aerr s1 = e_aerr s /\ e_delay0 s1 = e_delay0 s /\
               match r1 with
               | None => wire_bytes s1 ++ e_buf s1 = wire_bytes s ++ e_buf s ++ p /\ e_berr s1 = None /\
                         (e_fail s = None -> e_fail s1 = None) /\ (e_wleft s = None -> e_wleft s1 = None)
               | Some c => e_berr s1 = Some c /\ e_fail s1 <> None /\
                           exists rest, wire_bytes s1 ++ rest = wire_bytes s ++ e_buf s ++ p
               end).
    { destruct p as [|b0 bt]; cbn [is_nil].
      - exists s, None. rewrite !app_nil_r. repeat split; auto.
      - destruct (bw_write s (b0 :: bt)) as [s1 r1] eqn:BW. exists s1, r1. split; [reflexivity|].
        exact (bw_write_spec _ _ _ _ B BW). }
    destruct W as (s1 & r1 & -> & W1 & W2 & W3 & W4).
    destruct r1 as [c|].
    { intros H; injection H as <- <-. rewrite W2, W3, A. repeat split; auto; tauto. }
    destruct W4 as (V1 & V2 & V3 & V4).
    destruct (flush || e_delay0 s1) eqn:FD.
    + destruct (bw_flush s1) as [s2 r2] eqn:FL.
      pose proof (bw_flush_spec _ _ _ FL) as (A1 & A2 & A3 & A4). rewrite V2 in A4.
      destruct r2 as [c|].
      * intros H; injection H as <- <-. destruct A4 as (E1 & E2 & E3 & E4 & E5).
        rewrite A2, A3, W2, W3, A. repeat split; auto. exists (e_buf s1). rewrite E1. exact V1.
      * intros H; injection H as <- <-. destruct A4 as (E1 & E2 & E3 & E4 & E5 & E6).
        cbn [set_armed e_buf e_berr e_armed e_aerr e_delay0 e_wire e_fail e_wleft].
        change (wire_bytes (set_armed s2 _)) with (wire_bytes s2).
        rewrite A2, A3, W2, W3, A, E2, app_nil_r, E1. repeat split; auto.
    + intros H; injection H as <- <-.
      cbn [set_armed e_buf e_berr e_armed e_aerr e_delay0 e_wire e_fail e_wleft].
      change (wire_bytes (set_armed s1 _)) with (wire_bytes s1).
      rewrite W2, W3, A. repeat split; auto.
      intros [X|X]; [subst flush; discriminate|]. rewrite W3, X, orb_true_r in FD. discriminate.
Qed.
