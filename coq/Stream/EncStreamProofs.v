(* EncStreamProofs.v — what reaches the carrier through bufio.Writer / mercury.Writer. *)
From Coq Require Import List NArith Bool Lia ZArith ZifyN ZifyNat ZifyBool.
From Coq.Strings Require Import Byte.
From GM Require Import Stream.Stream Stream.StreamProofs Stream.EncStream.
Import ListNotations.
Open Scope N_scope.

Lemma wire_bytes_cons (bs : list byte) (w : list (list byte)) : concat (rev (bs :: w)) = concat (rev w) ++ bs.
Proof. cbn [rev]. rewrite concat_app. cbn [concat]. now rewrite app_nil_r. Qed.

(* everything but the wire and the failure switches *)
Definition same_writer (s s' : estate) : Prop :=
  e_buf s' = e_buf s /\ e_berr s' = e_berr s /\ e_armed s' = e_armed s /\ e_aerr s' = e_aerr s /\
  e_delay0 s' = e_delay0 s.

(* the carrier has not failed and never will by itself *)
Definition cfine (s : estate) : Prop := e_fail s = None /\ e_wleft s = None.

Lemma carrier_write_spec s bs s' r :
  carrier_write s bs = (s', r) ->
  same_writer s s' /\
  match r with
  | None => wire_bytes s' = wire_bytes s ++ bs /\ e_fail s = None /\ e_fail s' = None /\
            (e_wleft s = None -> e_wleft s' = None)
  | Some c => wire_bytes s' = wire_bytes s /\ e_fail s' = Some c /\ (e_fail s = None -> e_wleft s <> None) /\
              e_wleft s' = e_wleft s
  end.
Proof.
  unfold carrier_write, same_writer, wire_bytes. destruct (e_fail s) as [c|] eqn:F.
  - intros H; injection H as <- <-. rewrite F. repeat split; discriminate.
  - destruct (e_wleft s) as [[|k]|] eqn:W; intros H; injection H as <- <-; cbn [e_buf e_berr e_armed e_aerr e_delay0 e_wire e_fail e_wleft];
      repeat split; try apply wire_bytes_cons; try discriminate; try (intros _; discriminate).
Qed.

(* ---------------------------------------------------------------- bufio.Writer *)

Lemma bw_flush_spec s s' r :
  bw_flush s = (s', r) ->
  e_armed s' = e_armed s /\ e_aerr s' = e_aerr s /\ e_delay0 s' = e_delay0 s /\
  match e_berr s with
  | Some c => s' = s /\ r = Some c
  | None =>
      match r with
      | None => wire_bytes s' = wire_bytes s ++ e_buf s /\ e_buf s' = [] /\ e_berr s' = None /\
                (e_fail s = None -> e_fail s' = None) /\ (e_wleft s = None -> e_wleft s' = None) /\
                (e_buf s <> [] -> e_fail s = None)
      | Some c => wire_bytes s' = wire_bytes s /\ e_buf s' = e_buf s /\ e_berr s' = Some c /\ e_buf s <> [] /\
                  e_fail s' <> None /\ ~ cfine s
      end
  end.
Proof.
  unfold bw_flush. destruct (e_berr s) as [c|] eqn:B.
  - intros H; injection H as <- <-. auto.
  - destruct (e_buf s) as [|b0 bt] eqn:EB.
    + intros H; injection H as <- <-. rewrite app_nil_r. repeat split; auto; try (intros X; contradiction).
    + destruct (carrier_write s (b0 :: bt)) as [s1 [c|]] eqn:CW;
        destruct (carrier_write_spec _ _ _ _ CW) as ((S1 & S2 & S3 & S4 & S5) & R);
        intros H; injection H as <- <-; cbn [set_buf set_berr e_buf e_berr e_armed e_aerr e_delay0 e_wire e_fail e_wleft wire_bytes].
      * destruct R as (R1 & R2 & R3 & R4). unfold wire_bytes in R1. rewrite S1, EB, R2.
        repeat split; auto; try discriminate. intros [X Y]. exact (R3 X Y).
      * destruct R as (R1 & R2 & R3 & R4). unfold wire_bytes in R1.
        repeat split; auto. congruence.
Qed.

Lemma bw_direct_spec s p s' r :
  e_berr s = None -> bw_direct s p = (s', r) ->
  e_buf s' = e_buf s /\ e_armed s' = e_armed s /\ e_aerr s' = e_aerr s /\ e_delay0 s' = e_delay0 s /\
  match r with
  | None => wire_bytes s' = wire_bytes s ++ p /\ e_berr s' = None /\
            (e_fail s = None -> e_fail s' = None) /\ (e_wleft s = None -> e_wleft s' = None)
  | Some c => wire_bytes s' = wire_bytes s /\ e_berr s' = Some c /\ e_fail s' <> None /\ ~ cfine s
  end.
Proof.
  intros B. unfold bw_direct. destruct (carrier_write s p) as [s1 [c|]] eqn:CW;
    destruct (carrier_write_spec _ _ _ _ CW) as ((S1 & S2 & S3 & S4 & S5) & R);
    intros H; injection H as <- <-; cbn [set_berr e_buf e_berr e_armed e_aerr e_delay0 e_wire e_fail e_wleft wire_bytes].
  - destruct R as (R1 & R2 & R3 & _). unfold wire_bytes in R1. rewrite R2. repeat split; auto; try discriminate.
    intros [X Y]. exact (R3 X Y).
  - destruct R as (R1 & R2 & R3 & R4). unfold wire_bytes in R1. rewrite S2, B. repeat split; auto.
Qed.

(* bufio.Writer.Write on a writer without a sticky error: either everything is
   appended to (wire ++ buffer), or the writer is dead and the wire grew by a
   prefix of (buffer ++ p) *)
Lemma bw_write_spec s p s' r :
  e_berr s = None -> bw_write s p = (s', r) ->
  e_armed s' = e_armed s /\ e_aerr s' = e_aerr s /\ e_delay0 s' = e_delay0 s /\
  match r with
  | None => wire_bytes s' ++ e_buf s' = wire_bytes s ++ e_buf s ++ p /\ e_berr s' = None /\
            (e_fail s = None -> e_fail s' = None) /\ (e_wleft s = None -> e_wleft s' = None)
  | Some c => e_berr s' = Some c /\ e_fail s' <> None /\ ~ cfine s /\
              exists rest, wire_bytes s' ++ rest = wire_bytes s ++ e_buf s ++ p
  end.
Proof.
  intros B. unfold bw_write. rewrite B.
  destruct (len p <=? wcap - len (e_buf s)) eqn:Fit.
  { intros H; injection H as <- <-. cbn [set_buf e_buf e_berr e_armed e_aerr e_delay0 e_wire e_fail e_wleft wire_bytes].
    repeat split; auto. }
  destruct (e_buf s) as [|b0 bt] eqn:EB; cbn [is_nil].
  { intros H. destruct (bw_direct_spec _ _ _ _ B H) as (D1 & D2 & D3 & D4 & D5).
    repeat split; auto. destruct r as [c|].
    - destruct D5 as (E1 & E2 & E3 & E4). repeat split; auto. exists p. rewrite E1. reflexivity.
    - destruct D5 as (E1 & E2 & E3 & E4). rewrite D1, EB, E1. cbn [app]. rewrite app_nil_r.
      repeat split; auto. }
  set (k := wcap - len (b0 :: bt)).
  set (s0 := set_buf s ((b0 :: bt) ++ takeN k p)).
  assert (B0 : e_berr s0 = None) by exact B.
  destruct (bw_flush s0) as [s1 [c|]] eqn:FL;
    pose proof (bw_flush_spec _ _ _ FL) as (A1 & A2 & A3 & A4); rewrite B0 in A4.
  - intros H; injection H as <- <-. destruct A4 as (E1 & E2 & E3 & E4 & E5 & E6).
    repeat split; auto. exists (b0 :: bt ++ p). rewrite E1. reflexivity.
  - destruct A4 as (E1 & E2 & E3 & E4 & E5 & E6).
    assert (W1 : wire_bytes s1 ++ dropN k p = wire_bytes s ++ (b0 :: bt) ++ p).
    { rewrite E1. unfold s0 at 2. cbn [set_buf e_buf]. change (wire_bytes s0) with (wire_bytes s).
      rewrite <- !app_assoc. f_equal. f_equal. apply takeN_dropN. }
    destruct (len (dropN k p) <=? wcap) eqn:Fit2.
    + intros H; injection H as <- <-. cbn [set_buf e_buf e_berr e_armed e_aerr e_delay0 e_wire e_fail e_wleft].
      change (wire_bytes (set_buf s1 (dropN k p))) with (wire_bytes s1).
      repeat split; auto.
    + intros H. destruct (bw_direct_spec _ _ _ _ E3 H) as (D1 & D2 & D3 & D4 & D5).
      rewrite D2, D3, D4. repeat split; auto. destruct r as [c|].
      * destruct D5 as (G1 & G2 & G3 & G4). repeat split; auto.
        { intros [X Y]. apply G4. split; [apply E4; exact X|apply E5; exact Y]. }
        exists (dropN k p). rewrite G1. exact W1.
      * destruct D5 as (G1 & G2 & G3 & G4). rewrite D1, E2, app_nil_r, G1. repeat split; auto.
Qed.

Lemma bw_write_dead s p c : e_berr s = Some c -> bw_write s p = (s, Some c).
Proof. intros B. unfold bw_write. now rewrite B. Qed.

Lemma bw_flush_dead s c : e_berr s = Some c -> bw_flush s = (s, Some c).
Proof. intros B. unfold bw_flush. now rewrite B. Qed.

(* ---------------------------------------------------------------- mercury.Writer *)

(* one description of mercury.write for all cases *)
Lemma mw_write_spec s p flush s' r :
  mw_write s p flush = (s', r) ->
  e_delay0 s' = e_delay0 s /\
  match e_aerr s with
  | Some c => s' = set_aerr s None /\ r = Some c
  | None =>
      e_aerr s' = None /\
      match e_berr s with
      | Some c => (p <> [] \/ flush = true \/ e_delay0 s = true -> r = Some c /\ s' = s) /\
                  wire_bytes s' = wire_bytes s /\ e_berr s' = Some c /\ e_buf s' = e_buf s /\ e_fail s' = e_fail s
      | None =>
          match r with
          | None => wire_bytes s' ++ e_buf s' = wire_bytes s ++ e_buf s ++ p /\ e_berr s' = None /\
                    e_armed s' = negb (is_nil (e_buf s')) /\
                    (flush = true \/ e_delay0 s = true -> e_buf s' = []) /\
                    (e_fail s = None -> e_fail s' = None) /\ (e_wleft s = None -> e_wleft s' = None)
          | Some c => e_berr s' = Some c /\ e_fail s' <> None /\ ~ cfine s /\
                      exists rest, wire_bytes s' ++ rest = wire_bytes s ++ e_buf s ++ p
          end
      end
  end.
Proof.
  unfold mw_write. destruct (e_aerr s) as [c|] eqn:A.
  { intros H; injection H as <- <-. auto. }
  destruct (e_berr s) as [cb|] eqn:B.
  - (* dead buffered writer *)
    destruct p as [|b0 bt]; cbn [is_nil].
    + destruct (flush || e_delay0 s) eqn:FD.
      * rewrite (bw_flush_dead _ _ B). intros H; injection H as <- <-. rewrite A, B.
        split; [reflexivity|]. split; [reflexivity|]. split; [intros _; split; reflexivity|]. repeat split; reflexivity.
      * intros H; injection H as <- <-. cbn [set_armed e_buf e_berr e_armed e_aerr e_delay0 e_wire e_fail e_wleft].
        change (wire_bytes (set_armed s (negb (is_nil (e_buf s))))) with (wire_bytes s). rewrite A, B.
        split; [reflexivity|]. split; [reflexivity|]. split.
        { intros [X|[X|X]]; [contradiction|subst flush; discriminate|rewrite X, orb_true_r in FD; discriminate]. }
        repeat split; reflexivity.
    + rewrite (bw_write_dead _ _ _ B). intros H; injection H as <- <-. rewrite A, B.
      split; [reflexivity|]. split; [reflexivity|]. split; [intros _; split; reflexivity|]. repeat split; reflexivity.
  - (* live buffered writer *)
    assert (W : exists s1 r1, (if is_nil p then (s, None) else bw_write s p) = (s1, r1) /\
               e_armed s1 = e_armed s /\ e_aerr s1 = e_aerr s /\ e_delay0 s1 = e_delay0 s /\
               match r1 with
               | None => wire_bytes s1 ++ e_buf s1 = wire_bytes s ++ e_buf s ++ p /\ e_berr s1 = None /\
                         (e_fail s = None -> e_fail s1 = None) /\ (e_wleft s = None -> e_wleft s1 = None)
               | Some c => e_berr s1 = Some c /\ e_fail s1 <> None /\ ~ cfine s /\
                           exists rest, wire_bytes s1 ++ rest = wire_bytes s ++ e_buf s ++ p
               end).
    { destruct p as [|b0 bt]; cbn [is_nil].
      - exists s, None. rewrite !app_nil_r. repeat split; auto.
      - destruct (bw_write s (b0 :: bt)) as [s1 r1] eqn:BW. exists s1, r1. split; [reflexivity|].
        exact (bw_write_spec _ _ _ _ B BW). }
    destruct W as (s1 & r1 & -> & W1 & W2 & W3 & W4).
    destruct r1 as [c|].
    { intros H; injection H as <- <-. rewrite W2, W3, A. repeat split; auto; tauto. }
    destruct W4 as (V1 & V2 & V3 & V4).
    destruct (flush || e_delay0 s1) eqn:FD.
    + destruct (bw_flush s1) as [s2 r2] eqn:FL.
      pose proof (bw_flush_spec _ _ _ FL) as (A1 & A2 & A3 & A4). rewrite V2 in A4.
      destruct r2 as [c|].
      * intros H; injection H as <- <-. destruct A4 as (E1 & E2 & E3 & E4 & E5 & E6).
        rewrite A2, A3, W2, W3, A. repeat split; auto.
        { intros [X Y]. apply E6. split; [apply V3; exact X|apply V4; exact Y]. }
        exists (e_buf s1). rewrite E1. exact V1.
      * intros H; injection H as <- <-. destruct A4 as (E1 & E2 & E3 & E4 & E5 & E6).
        cbn [set_armed e_buf e_berr e_armed e_aerr e_delay0 e_wire e_fail e_wleft].
        change (wire_bytes (set_armed s2 _)) with (wire_bytes s2).
        rewrite A2, A3, W2, W3, A, E2, app_nil_r, E1. repeat split; auto.
    + intros H; injection H as <- <-.
      cbn [set_armed e_buf e_berr e_armed e_aerr e_delay0 e_wire e_fail e_wleft].
      change (wire_bytes (set_armed s1 _)) with (wire_bytes s1).
      rewrite W2, W3, A. repeat split; auto.
      intros [X|X]; [subst flush; discriminate|]. rewrite W3, X, orb_true_r in FD. discriminate.
Qed.

(* mercury.Writer.flush (timer) *)
Lemma mw_timer_spec s :
  let s' := mw_timer s in
  e_delay0 s' = e_delay0 s /\ e_armed s' = false /\
  match e_berr s with
  | Some c => wire_bytes s' = wire_bytes s /\ e_buf s' = e_buf s /\ e_berr s' = Some c /\ e_aerr s' <> None /\
              e_fail s' = e_fail s
  | None =>
      (wire_bytes s' = wire_bytes s ++ e_buf s /\ e_buf s' = [] /\ e_berr s' = None /\ e_aerr s' = e_aerr s /\
       (e_fail s = None -> e_fail s' = None) /\ (e_wleft s = None -> e_wleft s' = None) /\
       (e_buf s <> [] -> e_fail s = None))
      \/ (wire_bytes s' = wire_bytes s /\ e_buf s' = e_buf s /\ e_berr s' <> None /\ e_aerr s' <> None /\
          e_buf s <> [] /\ e_fail s' <> None /\ ~ cfine s)
  end.
Proof.
  unfold mw_timer. set (s0 := set_armed s false).
  destruct (bw_flush s0) as [s1 r] eqn:FL.
  pose proof (bw_flush_spec _ _ _ FL) as (A1 & A2 & A3 & A4).
  change (e_berr s0) with (e_berr s) in A4. change (e_armed s0) with false in A1.
  change (e_aerr s0) with (e_aerr s) in A2. change (e_delay0 s0) with (e_delay0 s) in A3.
  change (wire_bytes s0) with (wire_bytes s) in A4. change (e_buf s0) with (e_buf s) in A4.
  change (e_fail s0) with (e_fail s) in A4. change (e_wleft s0) with (e_wleft s) in A4.
  destruct (e_berr s) as [cb|] eqn:B.
  - destruct A4 as [-> ->]. cbn zeta.
    destruct (e_aerr s0) as [ca|] eqn:AE; cbn [is_some].
    + split; [reflexivity|]. split; [reflexivity|]. change (e_berr s0) with (e_berr s). rewrite B.
      repeat split; try reflexivity. rewrite AE. discriminate.
    + split; [reflexivity|]. split; [reflexivity|].
      cbn [set_aerr e_buf e_berr e_armed e_aerr e_delay0 e_wire e_fail e_wleft]. change (e_berr s0) with (e_berr s). rewrite B.
      repeat split; try reflexivity. discriminate.
  - destruct r as [c|]; cbn zeta.
    + destruct A4 as (E1 & E2 & E3 & E4 & E5 & E6).
      destruct (e_aerr s1) as [ca|] eqn:AE; cbn [is_some].
      * split; [exact A3|]. split; [exact A1|]. right. rewrite E3, AE. repeat split; auto; discriminate.
      * split; [exact A3|]. split; [exact A1|]. right.
        cbn [set_aerr e_buf e_berr e_armed e_aerr e_delay0 e_wire e_fail e_wleft].
        change (wire_bytes (set_aerr s1 (Some c))) with (wire_bytes s1). rewrite E3. repeat split; auto; discriminate.
    + destruct A4 as (E1 & E2 & E3 & E4 & E5 & E6).
      split; [exact A3|]. split; [exact A1|]. left. repeat split; auto.
Qed.

(* a carrier that refuses writes: a write that has to reach it fails *)
Lemma carrier_write_dead st bs c : e_fail st = Some c -> carrier_write st bs = (st, Some c).
Proof. intros Fs. unfold carrier_write. now rewrite Fs. Qed.

Lemma dead_carrier_bw_write s p s' c :
  e_fail s = Some c -> bw_write s p = (s', None) -> p <> [] ->
  e_fail s' = Some c /\ e_buf s' <> [] /\ e_berr s' = None.
Proof.
  intros F H Hp. unfold bw_write in H. destruct (e_berr s) as [cb|] eqn:B; [discriminate|].
  destruct (len p <=? wcap - len (e_buf s)).
  { injection H as <-. cbn [set_buf e_buf e_fail e_berr]. repeat split; auto.
    intros X. apply app_eq_nil in X. destruct X; contradiction. }
  destruct (e_buf s) as [|x xs] eqn:EB; cbn [is_nil] in H.
  { unfold bw_direct in H. rewrite (carrier_write_dead _ _ _ F) in H. discriminate. }
  unfold bw_flush in H. cbn [set_buf e_berr e_buf app] in H. rewrite B in H.
  erewrite carrier_write_dead in H by exact F. discriminate.
Qed.

Lemma dead_carrier_flush s s' c :
  e_fail s = Some c -> e_buf s <> [] -> bw_flush s = (s', None) -> False.
Proof.
  intros F Hb H. unfold bw_flush in H. destruct (e_berr s); [discriminate|].
  destruct (e_buf s) as [|x xs]; [contradiction|].
  rewrite (carrier_write_dead _ _ _ F) in H. discriminate.
Qed.

(* a flushed write of a non-empty packet to a writer whose carrier refuses writes fails *)
Lemma dead_carrier_flushed_write s p flush s' r c :
  e_fail s = Some c -> p <> [] -> flush = true \/ e_delay0 s = true ->
  mw_write s p flush = (s', r) -> r <> None.
Proof.
  intros F Hp Hf H. unfold mw_write in H. destruct (e_aerr s); [injection H as <- <-; discriminate|].
  destruct p as [|b0 bt]; [contradiction|]. cbn [is_nil] in H.
  destruct (bw_write s (b0 :: bt)) as [s1 [c1|]] eqn:BW; [injection H as <- <-; discriminate|].
  destruct (dead_carrier_bw_write _ _ _ _ F BW Hp) as (F1 & B1 & _).
  assert (D : e_delay0 s1 = e_delay0 s).
  { destruct (e_berr s) as [cb|] eqn:B.
    - rewrite (bw_write_dead _ _ _ B) in BW. discriminate.
    - pose proof (bw_write_spec _ _ _ _ B BW) as (_ & _ & D & _). exact D. }
  replace (flush || e_delay0 s1) with true in H by (rewrite D; destruct Hf as [->| ->]; [reflexivity|now rewrite orb_true_r]).
  destruct (bw_flush s1) as [s2 [c2|]] eqn:FL; [injection H as <- <-; discriminate|].
  exfalso. exact (dead_carrier_flush _ _ _ F1 B1 FL).
Qed.


(* ---------------------------------------------------------------- without carrier failure *)

Definition healthy (s : estate) : Prop :=
  e_berr s = None /\ e_aerr s = None /\ cfine s.

Definition ev_bytes (ev : eev) : list byte :=
  match ev with EvWrite (Some bs) _ => bs | _ => [] end.

(* the events after which nothing may be left in the buffer *)
Definition ev_flushes (s : estate) (ev : eev) : Prop :=
  match ev with
  | EvWrite (Some _) async => async = false \/ e_delay0 s = true
  | EvFlush | EvTimer => True
  | _ => False
  end.

Definition ev_nofail (ev : eev) : Prop := match ev with EvFail _ => False | _ => True end.

Lemma healthy_step s ev s' r :
  healthy s -> ev_nofail ev -> enc_step s ev = (s', r) ->
  healthy s' /\ wire_bytes s' ++ e_buf s' = wire_bytes s ++ e_buf s ++ ev_bytes ev /\
  (forall c, r <> ERErr c) /\ (ev_flushes s ev -> e_buf s' = []).
Proof.
  intros (B & A & F & W) NF H. destruct ev as [[bs|] async| | |c|z]; cbn [enc_step ev_bytes ev_flushes] in *.
  - destruct (mw_write s bs (negb async)) as [s1 r1] eqn:MW. injection H as <- <-.
    pose proof (mw_write_spec _ _ _ _ _ MW) as (D & M). rewrite A, B in M. destruct M as (A1 & M).
    destruct r1 as [c|].
    + exfalso. destruct M as (_ & _ & NC & _). apply NC. split; assumption.
    + destruct M as (M1 & M2 & M3 & M4 & M5 & M6). split; [|split; [|split]].
      * split; [exact M2|]. split; [exact A1|]. split; auto.
      * exact M1.
      * discriminate.
      * intros [->|X]; apply M4; auto.
  - injection H as <- <-. rewrite app_nil_r. split; [|split; [|split]]; [repeat split; auto|reflexivity|discriminate|intros []].
  - destruct (mw_write s [] true) as [s1 r1] eqn:MW. injection H as <- <-.
    pose proof (mw_write_spec _ _ _ _ _ MW) as (D & M). rewrite A, B in M. destruct M as (A1 & M).
    destruct r1 as [c|].
    + exfalso. destruct M as (_ & _ & NC & _). apply NC. split; assumption.
    + destruct M as (M1 & M2 & M3 & M4 & M5 & M6). split; [|split; [|split]].
      * split; [exact M2|]. split; [exact A1|]. split; auto.
      * exact M1.
      * discriminate.
      * intros _. apply M4. auto.
  - injection H as <- <-. pose proof (mw_timer_spec s) as (D & AR & T). rewrite B in T.
    destruct T as [(T1 & T2 & T3 & T4 & T5 & T6 & T7)|(_ & _ & _ & _ & _ & _ & NC)].
    + split; [|split; [|split]].
      * split; [exact T3|]. split; [rewrite T4; exact A|]. split; auto.
      * rewrite T1, T2, !app_nil_r. reflexivity.
      * discriminate.
      * intros _. exact T2.
    + exfalso. apply NC. split; assumption.
  - contradiction.
  - injection H as <- <-. rewrite app_nil_r.
    split; [|split; [|split]]; [repeat split; auto|reflexivity|discriminate|intros []].
Qed.

Definition written (evs : list eev) : list byte := concat (map ev_bytes evs).

(* C03_wire_is_concat: without carrier failure, whatever the mix of sync / async
   writes, flushes, timer firings and delay changes: wire ++ buffer is exactly
   the concatenation of the encodings written, in order; no operation fails *)
Theorem wire_is_concat evs : forall s s' rs,
  healthy s -> Forall ev_nofail evs -> enc_run s evs = (s', rs) ->
  healthy s' /\ wire_bytes s' ++ e_buf s' = wire_bytes s ++ e_buf s ++ written evs /\
  Forall (fun r => forall c, r <> ERErr c) rs.
Proof.
  induction evs as [|ev evs IH]; intros s s' rs Hs NF H; cbn [enc_run] in H.
  - injection H as <- <-. unfold written. cbn [map concat]. rewrite app_nil_r. auto.
  - destruct (enc_step s ev) as [s1 r] eqn:ST. destruct (enc_run s1 evs) as [s2 rs'] eqn:RN.
    injection H as <- <-. inversion NF as [|? ? NF1 NF2]; subst.
    destruct (healthy_step _ _ _ _ Hs NF1 ST) as (H1 & E1 & R1 & _).
    destruct (IH _ _ _ H1 NF2 RN) as (H2 & E2 & R2).
    split; [exact H2|]. split; [|constructor; assumption].
    rewrite E2, app_assoc, E1. unfold written. cbn [map concat]. rewrite <- !app_assoc. reflexivity.
Qed.

(* … and nothing is left in the buffer after a sync write, a Flush or a timer firing
   (or any write while the delay is zero) *)
Theorem flushed_after evs ev : forall s s1 rs s' r,
  healthy s -> Forall ev_nofail evs -> ev_nofail ev -> enc_run s evs = (s1, rs) ->
  enc_step s1 ev = (s', r) -> ev_flushes s1 ev ->
  e_buf s' = [] /\ wire_bytes s' = wire_bytes s ++ e_buf s ++ written (evs ++ [ev]).
Proof.
  intros s s1 rs s' r Hs NF NF1 RN ST FL.
  destruct (wire_is_concat _ _ _ _ Hs NF RN) as (H1 & E1 & _).
  destruct (healthy_step _ _ _ _ H1 NF1 ST) as (_ & E2 & _ & Z). specialize (Z FL).
  split; [exact Z|]. rewrite Z, app_nil_r in E2. rewrite E2, app_assoc, E1.
  unfold written. rewrite map_app, concat_app. cbn [map concat]. rewrite app_nil_r, <- !app_assoc. reflexivity.
Qed.

Lemma healthy_init d0 : healthy (einit d0 None).
Proof. repeat split. Qed.

(* ---------------------------------------------------------------- a dead carrier stays dead *)

Lemma bw_flush_fail_sticky s s' r c : e_fail s = Some c -> bw_flush s = (s', r) -> e_fail s' = Some c.
Proof.
  intros F H. unfold bw_flush in H. destruct (e_berr s); [injection H as <- <-; exact F|].
  destruct (e_buf s); [injection H as <- <-; exact F|].
  rewrite (carrier_write_dead _ _ _ F) in H. injection H as <- <-. exact F.
Qed.

Lemma bw_write_fail_sticky s p s' r c : e_fail s = Some c -> bw_write s p = (s', r) -> e_fail s' = Some c.
Proof.
  intros F H. unfold bw_write in H. destruct (e_berr s); [injection H as <- <-; exact F|].
  destruct (len p <=? wcap - len (e_buf s)); [injection H as <- <-; exact F|].
  destruct (is_nil (e_buf s)).
  { unfold bw_direct in H. rewrite (carrier_write_dead _ _ _ F) in H. injection H as <- <-. exact F. }
  destruct (bw_flush (set_buf s (e_buf s ++ takeN (wcap - len (e_buf s)) p))) as [s1 [c1|]] eqn:FL.
  - injection H as <- <-. exact (bw_flush_fail_sticky (set_buf s _) _ _ _ F FL).
  - pose proof (bw_flush_fail_sticky (set_buf s _) _ _ _ F FL) as F1.
    destruct (len (dropN (wcap - len (e_buf s)) p) <=? wcap); [injection H as <- <-; exact F1|].
    unfold bw_direct in H. rewrite (carrier_write_dead _ _ _ F1) in H. injection H as <- <-. exact F1.
Qed.

Lemma mw_write_fail_sticky s p fl s' r c : e_fail s = Some c -> mw_write s p fl = (s', r) -> e_fail s' = Some c.
Proof.
  intros F H. unfold mw_write in H. destruct (e_aerr s); [injection H as <- <-; exact F|].
  destruct (if is_nil p then (s, None) else bw_write s p) as [s1 r1] eqn:W.
  assert (F1 : e_fail s1 = Some c).
  { destruct (is_nil p); [injection W as <- <-; exact F|exact (bw_write_fail_sticky _ _ _ _ _ F W)]. }
  destruct r1; [injection H as <- <-; exact F1|].
  destruct (if fl || e_delay0 s1 then bw_flush s1 else (s1, None)) as [s2 r2] eqn:W2.
  assert (F2 : e_fail s2 = Some c).
  { destruct (fl || e_delay0 s1); [exact (bw_flush_fail_sticky _ _ _ _ F1 W2)|injection W2 as <- <-; exact F1]. }
  destruct r2; injection H as <- <-; exact F2.
Qed.

Lemma mw_timer_fail_sticky s c : e_fail s = Some c -> e_fail (mw_timer s) = Some c.
Proof.
  intros F. unfold mw_timer. destruct (bw_flush (set_armed s false)) as [s1 r] eqn:FL.
  pose proof (bw_flush_fail_sticky _ _ _ _ (F : e_fail (set_armed s false) = Some c) FL) as F1.
  destruct r; [destruct (is_some (e_aerr s1))|]; exact F1.
Qed.
