(* StreamCodec.v — the codec interface of Stream/FramesProofs.v discharged for the real codec:
     enc    := WireSpec.wire_spec          (= what Encode / Encoder.Write put on the wire, C01_layout, C01_wire_exact)
     good p := WF.wf p = true
     detect := Stream.detect_impl          (model of packet.DetectPacket)
     decode := codec_decode                (Type.New() + Decode: Dec.decode_go on exactly the packet's bytes)
   and the framing theorems of C03 without any codec hypothesis. *)
From Coq Require Import List NArith ZArith Bool Lia ZifyN ZifyNat ZifyBool.
From Coq.Strings Require Import Byte.
From GM Require Import Codec.Packet Codec.WF Codec.Enc Codec.WireSpec Codec.EncProofsBase Codec.EncProofsSpec
  Codec.EncProofs Codec.EncProofsRoundTrip.
From GM Require Codec.Dec Codec.DecProofsEnc Codec.DecProofsDetect.
From GM Require Import Stream.Stream Stream.StreamSpec Stream.StreamProofs Stream.FramesProofs
  Stream.WsStream Stream.WsStreamProofs.
Import ListNotations.
Open Scope N_scope.
Ltac Zify.zify_post_hook ::= Z.div_mod_to_equations.

(* Type.New() for the detected nibble, then Decode on the frame *)
Definition codec_decode (t : N) (bs : list byte) : option packet :=
  match type_of_code t with
  | Some ty => match Dec.decode_go ty bs with Dec.DOk p _ => Some p | _ => None end
  | None => None
  end.

Lemma codec_decode_enc : forall p, wf p = true ->
  codec_decode (type_code (ptype_of p)) (wire_spec p) = Some p.
Proof.
  intros p W. unfold codec_decode. rewrite type_of_code_type_code.
  rewrite (roundtrip p W). reflexivity.
Qed.

(* ---------------------------------------------------------------- binary.Uvarint on a remaining length *)
Lemma uv_nil i x s : uvarint [] i x s = None.
Proof. reflexivity. Qed.

Lemma uv_last b bs i x s : Byte.to_N b < 128 -> i < 9 ->
  uvarint (b :: bs) i x s = Some (x + Byte.to_N b * 2 ^ s, i + 1).
Proof.
  intros Hb Hi. cbn [uvarint].
  replace (i =? 10) with false by (symmetry; apply N.eqb_neq; lia).
  replace (Byte.to_N b <? 128) with true by (symmetry; apply N.ltb_lt; exact Hb).
  replace (i =? 9) with false by (symmetry; apply N.eqb_neq; lia). reflexivity.
Qed.

Lemma uv_more b bs i x s : 128 <= Byte.to_N b -> i < 10 ->
  uvarint (b :: bs) i x s = uvarint bs (i + 1) (x + (Byte.to_N b - 128) * 2 ^ s) (s + 7).
Proof.
  intros Hb Hi. cbn [uvarint].
  replace (i =? 10) with false by (symmetry; apply N.eqb_neq; lia).
  replace (Byte.to_N b <? 128) with false by (symmetry; apply N.ltb_ge; exact Hb). reflexivity.
Qed.

Lemma takeN_2 {A} (a b : A) l : takeN 2 (a :: b :: l) = [a; b].
Proof. destruct l; reflexivity. Qed.
Lemma takeN_3 {A} (a b c : A) l : takeN 3 (a :: b :: c :: l) = [a; b; c].
Proof. destruct l; reflexivity. Qed.
Lemma takeN_4 {A} (a b c d : A) l : takeN 4 (a :: b :: c :: d :: l) = [a; b; c; d].
Proof. destruct l; reflexivity. Qed.
Lemma takeN_5 {A} (a b c d e : A) l : takeN 5 (a :: b :: c :: d :: e :: l) = [a; b; c; d; e].
Proof. destruct l; reflexivity. Qed.

Ltac pows :=
  change (2 ^ 0) with 1; change (2 ^ (0 + 7)) with 128; change (2 ^ (0 + 7 + 7)) with 16384;
  change (2 ^ (0 + 7 + 7 + 7)) with 2097152.

(* the continuation bytes / the last byte of the 2.2.3 encoding, as Uvarint sees them *)
Lemma cont_byte a : a < 128 -> Byte.to_N (n2b (a + 128)) = a + 128.
Proof. intros H. rewrite to_N_n2b. lia. Qed.
Lemma last_byte a : a < 128 -> Byte.to_N (n2b a) = a.
Proof. intros H. rewrite to_N_n2b. lia. Qed.

Lemma total_in_range n rl : n <= 4 -> rl <= max_varint ->
  let tot := (1 + n + rl) mod 2 ^ 64 in
  tot = 1 + n + rl /\ ((0 <? tot) && (tot <? 2 ^ 63)) = true.
Proof.
  unfold max_varint. intros Hn Hr. cbv zeta.
  change (2 ^ 64) with 18446744073709551616. change (2 ^ 63) with 9223372036854775808.
  rewrite N.mod_small by lia. split; [reflexivity |].
  apply andb_true_iff. split; apply N.ltb_lt; lia.
Qed.

(* DetectPacket on the first k bytes of  b0 :: <remaining length rl> ++ tail :
   nothing yet while the remaining length is incomplete, then total length and type nibble *)
Lemma detect_header b0 rl tail k :
  rl <= max_varint -> 2 <= k -> k <= 1 + varint_len_go rl ->
  detect_impl (takeN k (b0 :: vb rl ++ tail)) =
  if k <? 1 + varint_len_go rl then DetNeedMore
  else DetLen (1 + varint_len_go rl + rl) (Byte.to_N b0 / 16).
Proof.
  intros Hr. pose proof Hr as Hr'. unfold max_varint in Hr'. unfold vb, varint_len_go.
  destruct (rl <? 128) eqn:E1.
  { apply N.ltb_lt in E1. intros Hk1 Hk2. assert (k = 2) by lia. subst k. cbn [app]. rewrite takeN_2.
    change (2 <? 1 + 1) with false. cbv iota. cbn [detect_impl].
    rewrite uv_last by (rewrite ?last_byte by lia; lia). rewrite last_byte by lia. pows.
    destruct (total_in_range (0 + 1) (0 + rl * 1)) as [T1 T2]; [lia | unfold max_varint; lia |].
    cbv zeta in T1, T2. rewrite T2, T1. f_equal. lia. }
  apply N.ltb_ge in E1.
  destruct (rl <? 16384) eqn:E2.
  { apply N.ltb_lt in E2. intros Hk1 Hk2. cbn [app].
    assert (C : k = 2 \/ k = 3) by lia. destruct C as [-> | ->].
    - rewrite takeN_2. change (2 <? 1 + 2) with true. cbv iota. cbn [detect_impl].
      rewrite uv_more by (rewrite ?cont_byte by lia; lia). rewrite uv_nil. reflexivity.
    - rewrite takeN_3. change (3 <? 1 + 2) with false. cbv iota. cbn [detect_impl].
      rewrite uv_more by (rewrite ?cont_byte by lia; lia).
      rewrite uv_last by (rewrite ?last_byte by lia; lia).
      rewrite cont_byte, last_byte by lia. pows.
      destruct (total_in_range (0 + 1 + 1) (0 + (rl mod 128 + 128 - 128) * 1 + rl / 128 * 128)) as [T1 T2];
        [lia | unfold max_varint; lia |].
      cbv zeta in T1, T2. rewrite T2, T1. f_equal. lia. }
  apply N.ltb_ge in E2.
  destruct (rl <? 2097152) eqn:E3.
  { apply N.ltb_lt in E3. intros Hk1 Hk2. cbn [app].
    assert (C : k = 2 \/ k = 3 \/ k = 4) by lia. destruct C as [-> | [-> | ->]].
    - rewrite takeN_2. change (2 <? 1 + 3) with true. cbv iota. cbn [detect_impl].
      rewrite uv_more by (rewrite ?cont_byte by lia; lia). rewrite uv_nil. reflexivity.
    - rewrite takeN_3. change (3 <? 1 + 3) with true. cbv iota. cbn [detect_impl].
      rewrite uv_more by (rewrite ?cont_byte by lia; lia).
      rewrite uv_more by (rewrite ?cont_byte by lia; lia). rewrite uv_nil. reflexivity.
    - rewrite takeN_4. change (4 <? 1 + 3) with false. cbv iota. cbn [detect_impl].
      rewrite uv_more by (rewrite ?cont_byte by lia; lia).
      rewrite uv_more by (rewrite ?cont_byte by lia; lia).
      rewrite uv_last by (rewrite ?last_byte by lia; lia).
      rewrite !cont_byte, last_byte by lia. pows.
      destruct (total_in_range (0 + 1 + 1 + 1)
                  (0 + (rl mod 128 + 128 - 128) * 1 + (rl / 128 mod 128 + 128 - 128) * 128 + rl / 16384 * 16384)) as [T1 T2];
        [lia | unfold max_varint; lia |].
      cbv zeta in T1, T2. rewrite T2, T1. f_equal. lia. }
  apply N.ltb_ge in E3.
  destruct (rl <=? max_varint) eqn:E4; [| apply N.leb_gt in E4; lia].
  intros Hk1 Hk2. cbn [app].
  assert (C : k = 2 \/ k = 3 \/ k = 4 \/ k = 5) by lia. destruct C as [-> | [-> | [-> | ->]]].
  - rewrite takeN_2. change (2 <? 1 + 4) with true. cbv iota. cbn [detect_impl].
    rewrite uv_more by (rewrite ?cont_byte by lia; lia). rewrite uv_nil. reflexivity.
  - rewrite takeN_3. change (3 <? 1 + 4) with true. cbv iota. cbn [detect_impl].
    rewrite uv_more by (rewrite ?cont_byte by lia; lia).
    rewrite uv_more by (rewrite ?cont_byte by lia; lia). rewrite uv_nil. reflexivity.
  - rewrite takeN_4. change (4 <? 1 + 4) with true. cbv iota. cbn [detect_impl].
    rewrite uv_more by (rewrite ?cont_byte by lia; lia).
    rewrite uv_more by (rewrite ?cont_byte by lia; lia).
    rewrite uv_more by (rewrite ?cont_byte by lia; lia). rewrite uv_nil. reflexivity.
  - rewrite takeN_5. change (5 <? 1 + 4) with false. cbv iota. cbn [detect_impl].
    rewrite uv_more by (rewrite ?cont_byte by lia; lia).
    rewrite uv_more by (rewrite ?cont_byte by lia; lia).
    rewrite uv_more by (rewrite ?cont_byte by lia; lia).
    rewrite uv_last by (rewrite ?last_byte by lia; lia).
    rewrite !cont_byte, last_byte by lia. pows.
    destruct (total_in_range (0 + 1 + 1 + 1 + 1)
                (0 + (rl mod 128 + 128 - 128) * 1 + (rl / 128 mod 128 + 128 - 128) * 128
                 + (rl / 16384 mod 128 + 128 - 128) * 16384 + rl / 2097152 * 2097152)) as [T1 T2];
      [lia | unfold max_varint; lia |].
    cbv zeta in T1, T2. rewrite T2, T1. f_equal. lia.
Qed.

(* ---------------------------------------------------------------- the detect_enc premise, for the real codec *)
Lemma len_blen (l : list byte) : len l = blen l.
Proof. reflexivity. Qed.

Lemma codec_detect_enc : forall p, wf p = true ->
  exists h, 2 <= h /\ h <= 5 /\ h <= len (wire_spec p) /\
    forall k, 2 <= k -> k <= h ->
      detect_impl (takeN k (wire_spec p)) =
      if k <? h then DetNeedMore else DetLen (len (wire_spec p)) (type_code (ptype_of p)).
Proof.
  intros p W. pose proof (wf_body_len p W) as Hb. change max_remaining with max_varint in Hb.
  exists (1 + varint_len (body_len p)).
  rewrite len_blen, blen_wire_spec by exact W. unfold total_len.
  rewrite <- (varint_len_go_eq (body_len p)) by exact Hb.
  pose proof (varint_len_go_pos (body_len p) Hb) as Hp.
  split; [lia |]. split; [lia |]. split; [lia |].
  intros k Hk1 Hk2. rewrite wire_spec_shape by exact W. cbn [app].
  rewrite detect_header by assumption.
  destruct (wf_flag_bits p W) as [F1 _].
  destruct (first_byte_split (type_value p) (flag_bits p) (type_value_le p) F1) as [T _].
  rewrite T, type_value_code. reflexivity.
Qed.

(* ---------------------------------------------------------------- C03 for the real codec *)
Definition wfp (p : packet) : Prop := wf p = true.

Theorem frames_codec lim ps cs e :
  Forall wfp ps -> Forall (fits wire_spec lim) ps -> concat cs = concat (map wire_spec ps) ->
  let a := dec_all detect_impl codec_decode lim cs e in
  a_frames a = map (frame_of wire_spec) ps /\ a_err a = end_err e 0 /\ a_allocs a = map (alloc_of wire_spec) ps.
Proof. exact (frames wire_spec detect_impl codec_decode wfp codec_detect_enc codec_decode_enc lim ps cs e). Qed.

Theorem truncation_codec lim ps p j cs e :
  Forall wfp (p :: ps) -> Forall (fits wire_spec lim) (p :: ps) -> j < len (wire_spec p) ->
  concat cs = concat (map wire_spec ps) ++ takeN j (wire_spec p) ->
  let a := dec_all detect_impl codec_decode lim cs e in
  a_frames a = map (frame_of wire_spec) ps /\ a_err a = end_err e j.
Proof. exact (truncation wire_spec detect_impl codec_decode wfp codec_detect_enc codec_decode_enc lim ps p j cs e). Qed.

Theorem limit_refuses_codec lim ps p rest cs e :
  Forall wfp (p :: ps) -> Forall (fits wire_spec lim) ps -> 0 < lim -> lim < len (wire_spec p) ->
  concat cs = concat (map wire_spec ps) ++ wire_spec p ++ rest ->
  let a := dec_all detect_impl codec_decode lim cs e in
  a_frames a = map (frame_of wire_spec) ps /\ a_err a = EReadLimit /\ a_allocs a = map (alloc_of wire_spec) ps /\
  a_peeked a <= 5.
Proof. exact (limit_refuses wire_spec detect_impl codec_decode wfp codec_detect_enc codec_decode_enc lim ps p rest cs e). Qed.

(* behind a WebSocket: binary messages whose data is a concatenation of encodings, split over
   messages and read with any buffer sizes, decode to exactly those packets *)
Theorem ws_frames_codec lim sizes ms e cs x e' ps :
  ws_read_all sizes (ws_init ms e) = (cs, Some x) ->
  Forall wfp ps -> Forall (fits wire_spec lim) ps -> ws_bytes ms = concat (map wire_spec ps) ->
  let a := dec_all detect_impl codec_decode lim cs e' in
  a_frames a = map (frame_of wire_spec) ps /\ a_err a = end_err e' 0 /\ a_allocs a = map (alloc_of wire_spec) ps.
Proof.
  intros H Hg Hf Hb. destruct (ws_stitch _ _ _ _ _ H) as (_ & _ & F & _).
  destruct (F x eq_refl) as [E _]. apply frames_codec; [exact Hg | exact Hf |]. rewrite E. exact Hb.
Qed.

(* ---------------------------------------------------------------- cross-check with the codec's own DetectPacket model *)
(* Dec.detect_go (the decoder side's model of DetectPacket, C02) reports the same total length
   and type on a complete encoding as detect_impl does on its header *)
Lemma detect_go_wire_spec p : wf p = true ->
  Dec.detect_go (wire_spec p) = Dec.Detected (Z.of_N (total_len p)) (type_code (ptype_of p)).
Proof.
  intros W. pose proof (wf_body_len p W) as Hb. change max_remaining with 268435455 in Hb.
  destruct (wf_flag_bits p W) as [F1 F2].
  destruct (first_byte_split (type_value p) (flag_bits p) (type_value_le p) F1) as [T1 T2].
  assert (H : Dec.decode_header (wire_spec p) (ptype_of p) =
              Dec.HOk (1 + varint_len (body_len p)) (flag_bits p) (body_len p)).
  { rewrite wire_spec_shape by exact W. cbn [app]. rewrite vb_vbytes.
    rewrite DecProofsEnc.decode_header_vbytes.
    - change (Dec.b2n ?b) with (Byte.to_N b). rewrite T2. reflexivity.
    - change (Dec.b2n ?b) with (Byte.to_N b). rewrite T1. apply type_value_code.
    - change (Dec.b2n ?b) with (Byte.to_N b). rewrite T2.
      destruct F2 as [F2 | F2]; [left; exact F2 | right; rewrite F2; destruct (ptype_of p); reflexivity].
    - exact Hb.
    - change (Dec.len ?l) with (blen l). rewrite body_size. lia. }
  rewrite (DecProofsDetect.detect_agrees_header _ _ _ _ _ H). unfold total_len. reflexivity.
Qed.
