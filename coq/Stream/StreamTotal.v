(* StreamTotal.v — totality of the stream decoder with the REAL codec (for C14):
   every byte stream, under every chunking, every source ending and every limit, is turned
   by packet.Decoder (model: dec_all detect_impl codec_decode) into a list of packets and ONE
   terminal error of the model's error enum:
     - the fuel the model gives itself is never exhausted (C03_fuel),
     - every returned packet is what Decode produced on exactly its frame (a DOk, count within
       the frame), the frames are consecutive byte ranges of the stream,
     - a terminal EDecode is an error RETURN of Decode on a frame of a valid type — never a
       panic (C02_no_panic: decode_go is never DPanic), EInvalidType a type nibble 0/15,
     - with a limit, every allocation request and every frame is within the limit (C03_limit_first).
   detect_impl is tied to the C02 model of DetectPacket on all byte lists (DetectEquiv). *)
From Coq Require Import List NArith ZArith Bool Lia ZifyN ZifyNat ZifyBool.
From Coq.Strings Require Import Byte.
From GM Require Import Codec.Packet Stream.Stream Stream.StreamSpec Stream.StreamProofs Stream.StreamCodec.
From GM Require Codec.Dec Codec.DecProofsSafe Codec.DetectEquiv.
Import ListNotations.
Open Scope N_scope.

(* ---------------------------------------------------------------- any codec: what a run can end with *)
Section Any.
  Variable detect : list byte -> detection.
  Variable decode : N -> list byte -> option packet.

  (* the terminal errors a run can produce (EOutOfFuel is not among them) *)
  Definition term_err (lim : N) (e : src_end) (er : derr) : Prop :=
    er = EDetectionOverflow \/
    (er = EReadLimit /\ 0 < lim) \/
    er = EInvalidType \/
    (er = EDecode /\ exists t fr, type_of_code t <> None /\ decode t fr = None) \/
    (exists got, er = end_err e got).

  Lemma term_err_not_fuel lim e er : term_err lim e er -> er <> EOutOfFuel.
  Proof.
    intros [-> | [[-> _] | [-> | [[-> _] | [got ->]]]]]; try discriminate.
    destruct e as [| c]; cbn [end_err]; [destruct (got =? 0) |]; discriminate.
  Qed.

  Lemma sdec_body_class lim dl total t bs e r al pk rest :
    sdec_body decode lim dl total t bs e = (r, al, pk, rest) ->
    match r with
    | RFail er => term_err lim e er
    | RPacket fr p => decode t fr = Some p /\ type_of_code t <> None
    end.
  Proof.
    unfold sdec_body.
    destruct (N.ltb_spec 0 lim) as [Hl | Hl]; destruct (N.ltb_spec lim total) as [Hl2 | Hl2]; cbn [andb].
    1: { intros H; injection H as <- <- <- <-. right; left. split; [reflexivity | exact Hl]. }
    all: destruct (type_of_code t) as [ty |] eqn:Ety;
      [ destruct (len bs <? total);
        [ intros H; injection H as <- <- <- <-; right; right; right; right; eexists; reflexivity
        | destruct (decode t (takeN total bs)) as [q |] eqn:D; intros H; injection H as <- <- <- <-;
          [ split; [exact D | discriminate]
          | right; right; right; left; split; [reflexivity |];
            exists t, (takeN total bs); split; [rewrite Ety; discriminate | exact D] ] ]
      | intros H; injection H as <- <- <- <-; right; right; left; reflexivity ].
  Qed.

  Lemma sdec_detect_class fuel : forall lim dl bs e r al pk rest,
    sdec_detect detect decode fuel lim dl bs e = (r, al, pk, rest) ->
    match r with
    | RFail er => term_err lim e er
    | RPacket fr p => exists t, decode t fr = Some p /\ type_of_code t <> None
    end.
  Proof.
    induction fuel as [| f IH]; intros lim dl bs e r al pk rest; cbn [sdec_detect].
    - intros H; injection H as <- <- <- <-. left; reflexivity.
    - destruct (len bs <? dl).
      { intros H; injection H as <- <- <- <-. right; right; right; right. eexists; reflexivity. }
      destruct (detect (takeN dl bs)) as [| total t]; [apply IH |].
      destruct (total =? 0); [apply IH |].
      intros H. pose proof (sdec_body_class _ _ _ _ _ _ _ _ _ _ H) as C.
      destruct r as [fr p | er]; [exists t; exact C | exact C].
  Qed.

  (* the whole run, on the flat reference *)
  Lemma sdec_all_f_class fuel : forall lim bs e fs er als pk,
    sdec_all_f detect decode fuel lim bs e = (fs, er, als, pk) ->
    (er = EOutOfFuel \/ term_err lim e er) /\
    Forall (fun fp => exists t, decode t (fst fp) = Some (snd fp) /\ type_of_code t <> None) fs /\
    (exists rest, bs = concat (map fst fs) ++ rest).
  Proof.
    induction fuel as [| f IH]; intros lim bs e fs er als pk; cbn [sdec_all_f].
    - intros H; injection H as <- <- <- <-. split; [left; reflexivity |]. split; [constructor |].
      exists bs. reflexivity.
    - destruct (sdec_read detect decode lim bs e) as [[[r al] pk0] rest] eqn:R. unfold sdec_read in R.
      pose proof (sdec_detect_class _ _ _ _ _ _ _ _ _ R) as C.
      destruct r as [fr p | er0].
      + destruct (sdec_all_f detect decode f lim rest e) as [[[fs' er'] als'] pk'] eqn:S.
        destruct (IH _ _ _ _ _ _ _ S) as (I1 & I2 & (rest' & I3)).
        destruct (sdec_detect_packet _ _ _ _ _ _ _ _ _ _ _ _ R) as (E1 & _).
        intros H; injection H as <- <- <- <-. split; [exact I1 |]. split.
        * constructor; [exact C | exact I2].
        * exists rest'. cbn [map concat fst]. rewrite <- app_assoc, <- I3. exact E1.
      + intros H; injection H as <- <- <- <-. split; [right; exact C |]. split; [constructor |].
        exists bs. reflexivity.
  Qed.

  Theorem dec_all_class lim cs e :
    let a := dec_all detect decode lim cs e in
    term_err lim e (a_err a) /\
    Forall (fun fp => exists t, decode t (fst fp) = Some (snd fp) /\ type_of_code t <> None) (a_frames a) /\
    (exists rest, concat cs = concat (map fst (a_frames a)) ++ rest).
  Proof.
    intros a. pose proof (dec_all_flat detect decode lim cs e) as H. fold a in H.
    unfold aview, sdec_all in H. symmetry in H.
    destruct (sdec_all_f_class _ _ _ _ _ _ _ _ H) as ([F | T] & B & C).
    - exfalso. exact (dec_all_fuel_ok detect decode lim cs e F).
    - split; [exact T |]. split; [exact B | exact C].
  Qed.
End Any.

(* the run depends on `detect` only through its values *)
Lemma sdec_detect_ext d1 d2 decode : (forall bs, d1 bs = d2 bs) ->
  forall fuel lim dl bs e, sdec_detect d1 decode fuel lim dl bs e = sdec_detect d2 decode fuel lim dl bs e.
Proof.
  intros Hd. induction fuel as [| f IH]; intros lim dl bs e; cbn [sdec_detect]; [reflexivity |].
  rewrite Hd. destruct (len bs <? dl); [reflexivity |].
  destruct (d2 (takeN dl bs)) as [| total t]; [apply IH |]. destruct (total =? 0); [apply IH | reflexivity].
Qed.

Lemma sdec_all_f_ext d1 d2 decode : (forall bs, d1 bs = d2 bs) ->
  forall fuel lim bs e, sdec_all_f d1 decode fuel lim bs e = sdec_all_f d2 decode fuel lim bs e.
Proof.
  intros Hd. induction fuel as [| f IH]; intros lim bs e; cbn [sdec_all_f]; [reflexivity |].
  unfold sdec_read. rewrite (sdec_detect_ext d1 d2 decode Hd).
  destruct (sdec_detect d2 decode 4 lim 2 bs e) as [[[r al] pk] rest].
  destruct r as [fr p | er]; [rewrite IH |]; reflexivity.
Qed.

(* ---------------------------------------------------------------- the real codec *)

(* Type.New + Decode is total by construction, and its None is never a panic (C02_no_panic) *)
Theorem codec_decode_total : forall t bs,
  match type_of_code t with
  | None => codec_decode t bs = None
  | Some ty =>
      (exists p n, Dec.decode_go ty bs = Dec.DOk p n /\ n <= len bs /\ codec_decode t bs = Some p) \/
      (exists n, Dec.decode_go ty bs = Dec.DErr n /\ n <= len bs /\ codec_decode t bs = None)
  end.
Proof.
  intros t bs. unfold codec_decode. destruct (type_of_code t) as [ty |]; [| reflexivity].
  pose proof (DecProofsSafe.decode_safe ty bs) as S.
  destruct (Dec.decode_go ty bs) as [p n | n |]; cbn [DecProofsSafe.safe] in S.
  - left. exists p, n. repeat split. exact S.
  - right. exists n. repeat split. exact S.
  - contradiction.
Qed.

Definition detect_go_view (bs : list byte) : detection := DetectEquiv.abs_det (Dec.detect_go bs).

(* the stream decoder run with the C02 model of DetectPacket is the same run *)
Theorem dec_all_detect_go : forall lim cs e,
  aview (dec_all detect_impl codec_decode lim cs e) = aview (dec_all detect_go_view codec_decode lim cs e).
Proof.
  intros lim cs e. rewrite !dec_all_flat. unfold sdec_all.
  apply sdec_all_f_ext. exact DetectEquiv.detect_equiv.
Qed.

(* the terminal errors of a run with the real codec *)
Definition term_err_codec (lim : N) (e : src_end) (er : derr) : Prop :=
  er = EDetectionOverflow \/
  (er = EReadLimit /\ 0 < lim) \/
  er = EInvalidType \/
  (er = EDecode /\ exists ty fr n, Dec.decode_go ty fr = Dec.DErr n /\ n <= len fr) \/
  (exists got, er = end_err e got).

(* C14_total_stream *)
Theorem stream_total : forall lim cs e,
  let a := dec_all detect_impl codec_decode lim cs e in
  a_err a <> EOutOfFuel /\
  term_err_codec lim e (a_err a) /\
  Forall (fun fp => exists ty n, Dec.decode_go ty (fst fp) = Dec.DOk (snd fp) n /\ n <= len (fst fp)) (a_frames a) /\
  (exists rest, concat cs = concat (map fst (a_frames a)) ++ rest) /\
  (0 < lim -> Forall (fun x => x <= lim) (a_allocs a)) /\
  (0 < lim -> Forall (fun fp => len (fst fp) <= lim) (a_frames a)).
Proof.
  intros lim cs e a.
  destruct (dec_all_class detect_impl codec_decode lim cs e) as (T & F & P). fold a in T, F, P.
  destruct (limit_first detect_impl codec_decode lim cs e) as (L1 & L2 & _). fold a in L1, L2.
  split; [exact (dec_all_fuel_ok detect_impl codec_decode lim cs e) |].
  split; [| split; [| split; [exact P | split; [exact L1 | exact L2]]]].
  - destruct T as [T | [T | [T | [[T (t & fr & Ht & Hd)] | T]]]].
    + left; exact T.
    + right; left; exact T.
    + right; right; left; exact T.
    + right; right; right; left. split; [exact T |].
      pose proof (codec_decode_total t fr) as C. destruct (type_of_code t) as [ty |]; [| contradiction].
      destruct C as [(p & n & _ & _ & C) | (n & C1 & C2 & _)]; [rewrite Hd in C; discriminate |].
      exists ty, fr, n. split; assumption.
    + right; right; right; right; exact T.
  - eapply Forall_impl; [| exact F]. cbn beta. intros [fr p] (t & Hd & Ht). cbn [fst snd] in *.
    pose proof (codec_decode_total t fr) as C. destruct (type_of_code t) as [ty |]; [| contradiction].
    destruct C as [(p' & n & C1 & C2 & C3) | (n & _ & _ & C)]; [| rewrite Hd in C; discriminate].
    rewrite Hd in C3. injection C3 as <-. exists ty, n. split; assumption.
Qed.

(* ---------------------------------------------------------------- non-vacuity: hostile streams *)
Definition bs_of (l : list N) : list byte :=
  map (fun n => match Byte.of_N n with Some b => b | None => x00 end) l.

Definition run (lim : N) (cs : list (list N)) : list packet * derr * list N :=
  let a := dec_all detect_impl codec_decode lim (map bs_of cs) SEof in
  (map snd (a_frames a), a_err a, a_allocs a).

(* type nibble 15 *)
Example hostile_type15 : run 0 [[240; 0]] = ([], EInvalidType, []).
Proof. vm_compute. reflexivity. Qed.

(* a remaining length that never ends within 4 bytes, delivered byte by byte *)
Example hostile_varint : run 0 [[48]; [128]; [128]; [128]; [128]; [1]] = ([], EDetectionOverflow, []).
Proof. vm_compute. reflexivity. Qed.

(* a CONNECT cut off after 6 of its 14 bytes: one allocation request, then unexpected EOF *)
Example hostile_truncated_connect : run 0 [[16; 12; 0; 4]; [77; 81]] = ([], EUnexpectedEof, [14]).
Proof. vm_compute. reflexivity. Qed.

(* a good PINGREQ, then a PUBLISH with an empty topic: one packet, then a decode error *)
Example hostile_after_good : run 0 [[192; 0; 48]; [2; 0; 0; 255]] = ([Pingreq], EDecode, [2; 4]).
Proof. vm_compute. reflexivity. Qed.

(* a header announcing 268 435 455 bytes with a limit of 64: refused before any allocation *)
Example hostile_huge : run 64 [[48; 255; 255; 255; 127; 0]] = ([], EReadLimit, []).
Proof. vm_compute. reflexivity. Qed.

(* … and without a limit the request is made and the source runs dry *)
Example hostile_huge_nolimit : run 0 [[48; 255; 255; 255; 127; 0]] = ([], EUnexpectedEof, [268435460]).
Proof. vm_compute. reflexivity. Qed.

(* a 10-byte varint whose int64 sum wraps to a non-positive length is treated as "need more" *)
Example hostile_wrap : run 0 [[48; 255; 255; 255; 255; 255; 255; 255; 255; 255; 1]] = ([], EDetectionOverflow, []).
Proof. vm_compute. reflexivity. Qed.
