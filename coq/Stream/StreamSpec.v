(* StreamSpec.v — the reference the decoder model is compared with: the same
   decisions taken directly on the not-yet-consumed byte stream as one flat
   list, with no buffer, no chunks and no pulling.  Short enough to read in a
   minute; `StreamProofs.dec_all_flat` shows that the chunked model computes
   exactly this, whatever the chunking. *)
From Coq Require Import List NArith Bool.
From Coq.Strings Require Import Byte.
From GM Require Import Codec.Packet Stream.Stream.
Import ListNotations.
Open Scope N_scope.

Section Spec.
  Variable detect : list byte -> detection.
  Variable decode : N -> list byte -> option packet.

  (* result, allocation request, largest peek, rest of the stream *)
  Definition sres := (rres * option N * N * list byte)%type.

  Definition sdec_body (lim dl total t : N) (bs : list byte) (e : src_end) : sres :=
    if (0 <? lim) && (lim <? total) then (RFail EReadLimit, None, dl, bs)
    else match type_of_code t with
         | None => (RFail EInvalidType, None, dl, bs)
         | Some _ =>
             if len bs <? total then (RFail (end_err e (len bs)), Some total, dl, [])
             else let frame := takeN total bs in
                  match decode t frame with
                  | None => (RFail EDecode, Some total, dl, dropN total bs)
                  | Some p => (RPacket frame p, Some total, dl, dropN total bs)
                  end
         end.

  Fixpoint sdec_detect (fuel : nat) (lim dl : N) (bs : list byte) (e : src_end) : sres :=
    match fuel with
    | O => (RFail EDetectionOverflow, None, dl - 1, bs)
    | S f =>
        if len bs <? dl then (RFail (end_err e (len bs)), None, dl, bs)
        else match detect (takeN dl bs) with
             | DetNeedMore => sdec_detect f lim (dl + 1) bs e
             | DetLen total t =>
                 if total =? 0 then sdec_detect f lim (dl + 1) bs e
                 else sdec_body lim dl total t bs e
             end
    end.

  Definition sdec_read (lim : N) (bs : list byte) (e : src_end) : sres := sdec_detect 4 lim 2 bs e.

  (* frames, terminal error, allocation requests, largest peek of the failing read *)
  Definition sall := (list (list byte * packet) * derr * list N * N)%type.

  Fixpoint sdec_all_f (fuel : nat) (lim : N) (bs : list byte) (e : src_end) : sall :=
    match fuel with
    | O => ([], EOutOfFuel, [], 0)
    | S f =>
        match sdec_read lim bs e with
        | (RFail er, al, pk, _) => ([], er, opt_cons al [], pk)
        | (RPacket fr p, al, _, rest) =>
            let '(fs, er, als, pk) := sdec_all_f f lim rest e in
            ((fr, p) :: fs, er, opt_cons al als, pk)
        end
    end.

  Definition sdec_all (lim : N) (bs : list byte) (e : src_end) : sall :=
    sdec_all_f (S (length bs)) lim bs e.
End Spec.
