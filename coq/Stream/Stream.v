(* Stream.v — model of packet.Decoder (packet/stream.go) over a chunked source.
   Definitions only (extractable); proofs are in StreamProofs.v.

   Go                                   model
   io.Reader under the bufio.Reader     a list of chunks followed by EOF or an error (persistent)
   bufio.Reader                         the bytes already pulled from the source and not yet consumed
                                        (contract model: byte stream, Peek(n)/ReadFull pull whole chunks
                                        until n bytes are buffered or the source ends; the 4096-byte
                                        capacity is not modelled — Peek is only called with n <= 5)
   DetectPacket                         parameter `detect` (executable instance: detect_impl below)
   Type.New + Generic.Decode            parameter `decode` on exactly the packet's bytes
   pool buffer.Grow(packetLength)       the "allocation request" returned by dec_read                *)
From Coq Require Import List NArith Bool.
From Coq.Strings Require Import Byte.
From GM Require Import Codec.Packet.
Import ListNotations.
Open Scope N_scope.

Definition len {A} (l : list A) : N := N.of_nat (length l).

(* firstn / skipn with a binary counter (no huge unary numbers at run time) *)
Fixpoint takeN {A} (n : N) (l : list A) : list A :=
  match l with
  | [] => []
  | x :: l' => if n =? 0 then [] else x :: takeN (N.pred n) l'
  end.

Fixpoint dropN {A} (n : N) (l : list A) : list A :=
  match l with
  | [] => []
  | x :: l' => if n =? 0 then l else dropN (N.pred n) l'
  end.

(* ---------------------------------------------------------------- detection *)

(* result of DetectPacket: (0,_) = nothing detected yet, or a positive total
   length and the type nibble *)
Inductive detection := DetNeedMore | DetLen (total : N) (t : N).

(* encoding/binary.Uvarint on the available bytes: Some (value, bytes used) or
   None for n <= 0 (ran out of bytes, more than 10 bytes, or 64-bit overflow) *)
Fixpoint uvarint (bs : list byte) (i x s : N) : option (N * N) :=
  match bs with
  | [] => None
  | b :: bs' =>
      if i =? 10 then None
      else let v := Byte.to_N b in
           if v <? 128
           then (if (i =? 9) && (1 <? v) then None else Some (x + v * 2 ^ s, i + 1))
           else uvarint bs' (i + 1) (x + (v - 128) * 2 ^ s) (s + 7)
  end.

(* packet.DetectPacket; `1 + n + int(rl)` with explicit int64 wrap *)
Definition detect_impl (src : list byte) : detection :=
  match src with
  | b0 :: ((_ :: _) as rest) =>
      match uvarint rest 0 0 0 with
      | None => DetNeedMore
      | Some (rl, n) =>
          let tot := (1 + n + rl) mod 2 ^ 64 in
          if (0 <? tot) && (tot <? 2 ^ 63) then DetLen tot (Byte.to_N b0 / 16) else DetNeedMore
      end
  | _ => DetNeedMore
  end.

(* ---------------------------------------------------------------- source and decoder state *)

Inductive src_end := SEof | SErr (code : N).

Inductive derr :=
| EEof | EUnexpectedEof | EDetectionOverflow | EReadLimit | EInvalidType | EDecode
| ESource (code : N) | EOutOfFuel.

Record dstate := DS {
  d_buf : list byte;              (* pulled from the source, not yet consumed *)
  d_src : list (list byte);       (* chunks the source will still deliver *)
  d_end : src_end }.              (* what the source reports after the last chunk, every time it is asked *)

Definition dinit (cs : list (list byte)) (e : src_end) : dstate := DS [] cs e.

(* bytes of the stream not yet consumed by a packet *)
Definition flat (s : dstate) : list byte := d_buf s ++ concat (d_src s).

(* take whole chunks from the source until `need` bytes were taken or it has ended *)
Fixpoint gather (need : N) (cs : list (list byte)) {struct cs} : list byte * list (list byte) :=
  if need =? 0 then ([], cs)
  else match cs with
       | [] => ([], [])
       | c :: cs' => let '(g, r) := gather (need - len c) cs' in (c ++ g, r)
       end.

(* pull chunks until n bytes are buffered or the source has ended *)
Definition pull (n : N) (buf : list byte) (cs : list (list byte)) : list byte * list (list byte) :=
  let '(g, r) := gather (n - len buf) cs in (buf ++ g, r).

(* the error a short Peek / short io.ReadFull turns into, `got` bytes being available:
   io.EOF with nothing -> EOF, io.EOF with something -> ErrUnexpectedEOF, other errors as they are *)
Definition end_err (e : src_end) (got : N) : derr :=
  match e with
  | SEof => if got =? 0 then EEof else EUnexpectedEof
  | SErr c => ESource c
  end.

Inductive rres :=
| RPacket (frame : list byte) (p : packet)
| RFail (e : derr).

Record rout := RO {
  r_res    : rres;
  r_alloc  : option N;      (* buffer.Grow(packetLength) request, if one was made *)
  r_peeked : N;             (* the largest Peek argument used *)
  r_state  : dstate }.

Section Decoder.
  Variable detect : list byte -> detection.
  Variable decode : N -> list byte -> option packet.

  (* after detection: limit test, New(), allocation, ReadFull, Decode *)
  Definition dec_body (lim : N) (dl total t : N) (buf : list byte) (cs : list (list byte))
             (e : src_end) : rout :=
    if (0 <? lim) && (lim <? total) then RO (RFail EReadLimit) None dl (DS buf cs e)
    else match type_of_code t with
         | None => RO (RFail EInvalidType) None dl (DS buf cs e)
         | Some _ =>
             let '(buf', cs') := pull total buf cs in
             if len buf' <? total
             then RO (RFail (end_err e (len buf'))) (Some total) dl (DS [] cs' e)
             else let frame := takeN total buf' in
                  let st := DS (dropN total buf') cs' e in
                  match decode t frame with
                  | None => RO (RFail EDecode) (Some total) dl st
                  | Some p => RO (RPacket frame p) (Some total) dl st
                  end
         end.

  (* the detection loop: fuel 4 = detection lengths 2,3,4,5 *)
  Fixpoint dec_detect (fuel : nat) (lim : N) (dl : N) (buf : list byte) (cs : list (list byte))
           (e : src_end) : rout :=
    match fuel with
    | O => RO (RFail EDetectionOverflow) None (dl - 1) (DS buf cs e)
    | S f =>
        let '(buf', cs') := pull dl buf cs in
        if len buf' <? dl
        then RO (RFail (end_err e (len buf'))) None dl (DS buf' cs' e)
        else match detect (takeN dl buf') with
             | DetNeedMore => dec_detect f lim (dl + 1) buf' cs' e
             | DetLen total t =>
                 if total =? 0 then dec_detect f lim (dl + 1) buf' cs' e
                 else dec_body lim dl total t buf' cs' e
             end
    end.

  (* Decoder.Read *)
  Definition dec_read (lim : N) (s : dstate) : rout :=
    dec_detect 4 lim 2 (d_buf s) (d_src s) (d_end s).

  Record dall := DA {
    a_frames : list (list byte * packet);   (* byte range and value of every packet returned *)
    a_err    : derr;                        (* the error that ended the stream *)
    a_allocs : list N;                      (* every allocation request, in order *)
    a_peeked : N;                           (* largest Peek argument of the final (failing) Read *)
    a_state  : dstate }.

  Definition opt_cons {A} (o : option A) (l : list A) : list A :=
    match o with Some x => x :: l | None => l end.

  Fixpoint dec_all_f (fuel : nat) (lim : N) (s : dstate) : dall :=
    match fuel with
    | O => DA [] EOutOfFuel [] 0 s
    | S f =>
        let r := dec_read lim s in
        match r_res r with
        | RFail e => DA [] e (opt_cons (r_alloc r) []) (r_peeked r) (r_state r)
        | RPacket fr p =>
            let a := dec_all_f f lim (r_state r) in
            DA ((fr, p) :: a_frames a) (a_err a) (opt_cons (r_alloc r) (a_allocs a)) (a_peeked a) (a_state a)
        end
    end.

  (* Read until the first error.  Every successful Read consumes at least one
     byte, so one more than the number of bytes is enough fuel (proved). *)
  Definition dec_all (lim : N) (cs : list (list byte)) (e : src_end) : dall :=
    dec_all_f (S (length (concat cs))) lim (dinit cs e).

  (* what the property talks about: packets, terminal error, allocation requests *)
  Definition dec_out (a : dall) : list (list byte * packet) * derr * list N :=
    (a_frames a, a_err a, a_allocs a).

  (* bytes pulled from the source so far, given the bytes the source started with *)
  Definition pulled (total : N) (s : dstate) : N := total - len (concat (d_src s)).
End Decoder.
