(* StreamProofs.v — the chunked decoder model computes the flat-stream reference
   (StreamSpec.v), whatever the chunking; fuel is sufficient; limit clauses. *)
From Coq Require Import List NArith Bool Lia ZArith ZifyN ZifyNat ZifyBool.
From Coq.Strings Require Import Byte.
From GM Require Import Codec.Packet Stream.Stream Stream.StreamSpec.
Import ListNotations.
Open Scope N_scope.

(* ---------------------------------------------------------------- lists *)

Lemma len_nil {A} : len (@nil A) = 0.
Proof. reflexivity. Qed.

Lemma len_app {A} (a b : list A) : len (a ++ b) = len a + len b.
Proof. unfold len. rewrite app_length. lia. Qed.

Lemma len_cons {A} (x : A) l : len (x :: l) = 1 + len l.
Proof. unfold len. cbn [length]. lia. Qed.

Lemma len_zero {A} (l : list A) : len l = 0 -> l = [].
Proof. destruct l; [reflexivity|]. rewrite len_cons. lia. Qed.

Lemma takeN_firstn {A} (l : list A) : forall n, takeN n l = firstn (N.to_nat n) l.
Proof.
  induction l as [|x l IH]; intros n; cbn [takeN].
  - now rewrite firstn_nil.
  - destruct (N.eqb_spec n 0) as [->|Hn]; [reflexivity|].
    replace (N.to_nat n) with (S (N.to_nat (N.pred n))) by lia.
    cbn [firstn]. now rewrite IH.
Qed.

Lemma dropN_skipn {A} (l : list A) : forall n, dropN n l = skipn (N.to_nat n) l.
Proof.
  induction l as [|x l IH]; intros n; cbn [dropN].
  - now rewrite skipn_nil.
  - destruct (N.eqb_spec n 0) as [->|Hn]; [reflexivity|].
    replace (N.to_nat n) with (S (N.to_nat (N.pred n))) by lia.
    cbn [skipn]. now rewrite IH.
Qed.

Lemma takeN_dropN {A} n (l : list A) : takeN n l ++ dropN n l = l.
Proof. rewrite takeN_firstn, dropN_skipn. apply firstn_skipn. Qed.

Lemma takeN_app_le {A} n (a b : list A) : n <= len a -> takeN n (a ++ b) = takeN n a.
Proof.
  unfold len. intros H. rewrite !takeN_firstn, firstn_app.
  replace (N.to_nat n - length a)%nat with 0%nat by lia.
  cbn [firstn]. now rewrite app_nil_r.
Qed.

Lemma dropN_app_le {A} n (a b : list A) : n <= len a -> dropN n (a ++ b) = dropN n a ++ b.
Proof.
  unfold len. intros H. rewrite !dropN_skipn, skipn_app.
  replace (N.to_nat n - length a)%nat with 0%nat by lia. reflexivity.
Qed.

Lemma takeN_all {A} n (l : list A) : len l <= n -> takeN n l = l.
Proof. unfold len. intros H. rewrite takeN_firstn. apply firstn_all2. lia. Qed.

Lemma dropN_all {A} n (l : list A) : len l <= n -> dropN n l = [].
Proof. unfold len. intros H. rewrite dropN_skipn. apply skipn_all2. lia. Qed.

Lemma len_takeN {A} n (l : list A) : len (takeN n l) = N.min n (len l).
Proof. unfold len. rewrite takeN_firstn, firstn_length. lia. Qed.

Lemma len_dropN {A} n (l : list A) : len (dropN n l) = len l - n.
Proof. unfold len. rewrite dropN_skipn, skipn_length. lia. Qed.

Lemma takeN_takeN {A} n m (l : list A) : n <= m -> takeN n (takeN m l) = takeN n l.
Proof.
  intros H. rewrite !takeN_firstn, firstn_firstn. f_equal. lia.
Qed.

Lemma takeN_exact_app {A} (a b : list A) : takeN (len a) (a ++ b) = a.
Proof. rewrite takeN_app_le by lia. apply takeN_all. lia. Qed.

Lemma dropN_exact_app {A} (a b : list A) : dropN (len a) (a ++ b) = b.
Proof. rewrite dropN_app_le by lia. rewrite dropN_all by lia. reflexivity. Qed.

(* ---------------------------------------------------------------- pulling *)

Lemma gather_spec cs : forall need g r,
  gather need cs = (g, r) ->
  g ++ concat r = concat cs /\ (need <= len g \/ r = []).
Proof.
  induction cs as [|c cs IH]; intros need g r H; cbn [gather] in H.
  - destruct (need =? 0) eqn:E; injection H as <- <-; cbn [concat app]; split; auto.
  - destruct (need =? 0) eqn:Hn.
    + apply N.eqb_eq in Hn. injection H as <- <-. split; [reflexivity|left; rewrite len_nil; lia].
    + apply N.eqb_neq in Hn. destruct (gather (need - len c) cs) as [g' r'] eqn:G.
      injection H as <- <-.
      destruct (IH _ _ _ G) as [E1 E2]. split.
      * cbn [concat]. rewrite <- app_assoc, E1. reflexivity.
      * destruct E2 as [E2|E2]; [left|right; exact E2]. rewrite len_app. lia.
Qed.

Lemma pull_spec n buf cs b' cs' :
  pull n buf cs = (b', cs') ->
  b' ++ concat cs' = buf ++ concat cs /\ (n <= len b' \/ cs' = []).
Proof.
  unfold pull. destruct (gather (n - len buf) cs) as [g r] eqn:G. intros H; injection H as <- <-.
  destruct (gather_spec _ _ _ _ G) as [E1 E2]. split.
  - rewrite <- app_assoc, E1. reflexivity.
  - destruct E2 as [E2|E2]; [left|right; exact E2]. rewrite len_app. lia.
Qed.

(* what the decoder can see of a pull depends on the flat stream only *)
Lemma pull_view n buf cs b' cs' :
  pull n buf cs = (b', cs') ->
  let F := buf ++ concat cs in
  b' ++ concat cs' = F /\
  (len b' <? n) = (len F <? n) /\
  (n <= len b' -> takeN n b' = takeN n F /\ dropN n b' ++ concat cs' = dropN n F) /\
  (len b' < n -> b' = F /\ cs' = []).
Proof.
  intros H F. destruct (pull_spec _ _ _ _ _ H) as [E1 E2]. fold F in E1.
  assert (HF : len F = len b' + len (concat cs')) by (rewrite <- E1, len_app; reflexivity).
  split; [exact E1|]. split; [|split].
  - destruct E2 as [E2 | ->].
    + destruct (N.ltb_spec (len b') n), (N.ltb_spec (len F) n); try reflexivity; lia.
    + cbn [concat] in HF. rewrite len_nil in HF. rewrite HF. f_equal. lia.
  - intros Hn. rewrite <- E1. rewrite takeN_app_le, dropN_app_le by exact Hn. split; reflexivity.
  - intros Hn. destruct E2 as [E2 | ->]; [lia|]. cbn [concat] in E1. rewrite app_nil_r in E1. split; [exact E1|reflexivity].
Qed.

(* ---------------------------------------------------------------- the model computes the reference *)

Section Sim.
  Variable detect : list byte -> detection.
  Variable decode : N -> list byte -> option packet.

  Definition view (r : rout) : sres := (r_res r, r_alloc r, r_peeked r, flat (r_state r)).

  Lemma dec_body_flat lim dl total t buf cs e :
    view (dec_body decode lim dl total t buf cs e) = sdec_body decode lim dl total t (buf ++ concat cs) e
    /\ d_end (r_state (dec_body decode lim dl total t buf cs e)) = e.
  Proof.
    unfold dec_body, sdec_body.
    destruct ((0 <? lim) && (lim <? total)); [split; reflexivity|].
    destruct (type_of_code t); [|split; reflexivity].
    destruct (pull total buf cs) as [b' cs'] eqn:P.
    destruct (pull_view _ _ _ _ _ P) as (E1 & E2 & E3 & E4).
    rewrite <- E2.
    destruct (N.ltb_spec (len b') total) as [Hlt|Hge].
    - destruct (E4 Hlt) as [-> ->]. split; reflexivity.
    - destruct (E3 Hge) as [T D]. rewrite <- T.
      destruct (decode t (takeN total b')); unfold view, flat; cbn [r_res r_alloc r_peeked r_state d_buf d_src d_end];
        rewrite D; split; reflexivity.
  Qed.

  Lemma dec_detect_flat fuel : forall lim dl buf cs e,
    view (dec_detect detect decode fuel lim dl buf cs e) = sdec_detect detect decode fuel lim dl (buf ++ concat cs) e
    /\ d_end (r_state (dec_detect detect decode fuel lim dl buf cs e)) = e.
  Proof.
    induction fuel as [|f IH]; intros lim dl buf cs e; cbn [dec_detect sdec_detect].
    - split; reflexivity.
    - destruct (pull dl buf cs) as [b' cs'] eqn:P.
      destruct (pull_view _ _ _ _ _ P) as (E1 & E2 & E3 & E4).
      rewrite <- E2.
      destruct (N.ltb_spec (len b') dl) as [Hlt|Hge].
      + destruct (E4 Hlt) as [Eb ->]. unfold view, flat; cbn [r_res r_alloc r_peeked r_state d_buf d_src d_end concat].
        rewrite app_nil_r, Eb. split; reflexivity.
      + destruct (E3 Hge) as [T _]. rewrite <- T.
        destruct (detect (takeN dl b')) as [|total t].
        * rewrite <- E1. apply IH.
        * destruct (total =? 0).
          -- rewrite <- E1. apply IH.
          -- rewrite <- E1. apply dec_body_flat.
  Qed.

  Lemma dec_read_flat lim s :
    view (dec_read detect decode lim s) = sdec_read detect decode lim (flat s) (d_end s)
    /\ d_end (r_state (dec_read detect decode lim s)) = d_end s.
  Proof. unfold dec_read, sdec_read, flat. apply dec_detect_flat. Qed.

  Definition aview (a : dall) : sall := (a_frames a, a_err a, a_allocs a, a_peeked a).

  Lemma dec_all_f_flat fuel : forall lim s,
    aview (dec_all_f detect decode fuel lim s) = sdec_all_f detect decode fuel lim (flat s) (d_end s).
  Proof.
    induction fuel as [|f IH]; intros lim s; cbn [dec_all_f sdec_all_f]; [reflexivity|].
    destruct (dec_read_flat lim s) as [V E]. rewrite <- V. unfold view.
    destruct (r_res (dec_read detect decode lim s)) as [fr p|er]; [|reflexivity].
    rewrite <- E, <- IH. reflexivity.
  Qed.

  (* the chunked model computes the flat reference *)
  Theorem dec_all_flat lim cs e :
    aview (dec_all detect decode lim cs e) = sdec_all detect decode lim (concat cs) e.
  Proof. unfold dec_all, sdec_all. rewrite dec_all_f_flat. reflexivity. Qed.

  (* C03_chunking_irrelevant: packets (byte ranges and values), terminal error,
     allocation requests and the final peek are the same for every chunking *)
  Theorem chunking_irrelevant lim cs e :
    aview (dec_all detect decode lim cs e) = aview (dec_all detect decode lim [concat cs] e).
  Proof. rewrite !dec_all_flat. cbn [concat]. rewrite app_nil_r. reflexivity. Qed.

  Corollary chunking_irrelevant_two lim cs1 cs2 e :
    concat cs1 = concat cs2 ->
    aview (dec_all detect decode lim cs1 e) = aview (dec_all detect decode lim cs2 e).
  Proof. intros H. rewrite !dec_all_flat, H. reflexivity. Qed.

  (* ---------------------------------------------------------------- one read: facts used below *)

  (* a successful read returns a non-empty prefix of the stream and leaves the rest *)
  Lemma sdec_body_packet lim dl total t bs e fr p al pk rest :
    total <> 0 ->
    sdec_body decode lim dl total t bs e = (RPacket fr p, al, pk, rest) ->
    bs = fr ++ rest /\ len fr = total /\ al = Some total /\ (lim = 0 \/ total <= lim) /\ decode t fr = Some p.
  Proof.
    unfold sdec_body. intros Ht.
    destruct (N.ltb_spec 0 lim) as [Hl|Hl]; destruct (N.ltb_spec lim total) as [Hl2|Hl2]; cbn [andb];
      try discriminate;
      (destruct (type_of_code t); [|discriminate]);
      (destruct (N.ltb_spec (len bs) total) as [Hs|Hs]; [discriminate|]);
      (destruct (decode t (takeN total bs)) as [q|] eqn:D; [|discriminate]);
      intros H; injection H as <- <- <- <- <-;
      (split; [symmetry; apply takeN_dropN|]); (split; [rewrite len_takeN; lia|]); (split; [reflexivity|]);
      (split; [lia|exact D]).
  Qed.

  Lemma sdec_detect_packet fuel : forall lim dl bs e fr p al pk rest,
    sdec_detect detect decode fuel lim dl bs e = (RPacket fr p, al, pk, rest) ->
    bs = fr ++ rest /\ len fr <> 0 /\ al = Some (len fr) /\ (lim = 0 \/ len fr <= lim).
  Proof.
    induction fuel as [|f IH]; intros lim dl bs e fr p al pk rest; cbn [sdec_detect]; [discriminate|].
    destruct (len bs <? dl); [discriminate|].
    destruct (detect (takeN dl bs)) as [|total t]; [apply IH|].
    destruct (N.eqb_spec total 0) as [->|Ht]; [apply IH|].
    intros H. destruct (sdec_body_packet _ _ _ _ _ _ _ _ _ _ _ Ht H) as (E1 & E2 & E3 & E4 & _).
    rewrite E2. auto.
  Qed.

  (* allocation requests never exceed a positive limit; none is made for a refused packet *)
  Lemma sdec_body_alloc lim dl total t bs e r al pk rest :
    sdec_body decode lim dl total t bs e = (r, al, pk, rest) ->
    (forall a, al = Some a -> lim = 0 \/ a <= lim) /\ (r = RFail EReadLimit -> al = None) /\ pk = dl.
  Proof.
    unfold sdec_body.
    destruct (N.ltb_spec 0 lim) as [Hl|Hl]; destruct (N.ltb_spec lim total) as [Hl2|Hl2]; cbn [andb].
    1: { intros H; injection H as <- <- <- <-. split; [discriminate|split; reflexivity]. }
    all: destruct (type_of_code t);
      [destruct (len bs <? total);
        [|destruct (decode t (takeN total bs))]|];
      intros H; injection H as <- <- <- <-; repeat split;
      try (intros a Ha; injection Ha as <-; lia); try discriminate;
      try (destruct e as [|c]; cbn [end_err]; [destruct (len bs =? 0)|]; discriminate).
  Qed.

  Lemma sdec_detect_alloc fuel : forall lim dl bs e r al pk rest,
    dl + N.of_nat fuel = 6 ->
    sdec_detect detect decode fuel lim dl bs e = (r, al, pk, rest) ->
    (forall a, al = Some a -> lim = 0 \/ a <= lim) /\ (r = RFail EReadLimit -> al = None) /\ pk <= 5.
  Proof.
    induction fuel as [|f IH]; intros lim dl bs e r al pk rest Hd; cbn [sdec_detect].
    - intros H; injection H as <- <- <- <-. repeat split; [discriminate|lia].
    - destruct (len bs <? dl).
      { intros H; injection H as <- <- <- <-. repeat split; [discriminate|lia]. }
      destruct (detect (takeN dl bs)) as [|total t]; [apply IH; lia|].
      destruct (total =? 0); [apply IH; lia|].
      intros H. destruct (sdec_body_alloc _ _ _ _ _ _ _ _ _ _ H) as (A & B & ->).
      repeat split; [exact A|exact B|lia].
  Qed.

  (* ---------------------------------------------------------------- fuel *)

  Lemma sdec_all_f_fuel fuel : forall lim bs e,
    (length bs < fuel)%nat ->
    let '(_, er, _, _) := sdec_all_f detect decode fuel lim bs e in er <> EOutOfFuel.
  Proof.
    induction fuel as [|f IH]; intros lim bs e Hf; [lia|]. cbn [sdec_all_f].
    destruct (sdec_read detect decode lim bs e) as [[[r al] pk] rest] eqn:R.
    destruct r as [fr p|er].
    - unfold sdec_read in R. destruct (sdec_detect_packet _ _ _ _ _ _ _ _ _ _ R) as (E1 & E2 & _).
      assert (Hr : (length rest < f)%nat).
      { subst bs. rewrite app_length in Hf. unfold len in E2. lia. }
      specialize (IH lim rest e Hr).
      destruct (sdec_all_f detect decode f lim rest e) as [[[fs er] als] pk']. exact IH.
    - (* the failing read itself never reports fuel exhaustion *)
      unfold sdec_read in R. clear -R.
      assert (G : forall fuel lim dl bs e al pk rest,
                 sdec_detect detect decode fuel lim dl bs e <> (RFail EOutOfFuel, al, pk, rest)).
      { clear. induction fuel as [|f IH]; intros lim dl bs e al pk rest; cbn [sdec_detect]; [discriminate|].
        destruct (len bs <? dl).
        { destruct e as [|c]; cbn [end_err]; [destruct (len bs =? 0)|]; discriminate. }
        destruct (detect (takeN dl bs)) as [|total t]; [apply IH|].
        destruct (total =? 0); [apply IH|].
        unfold sdec_body. destruct ((0 <? lim) && (lim <? total)); [discriminate|].
        destruct (type_of_code t); [|discriminate].
        destruct (len bs <? total).
        { destruct e as [|c]; cbn [end_err]; [destruct (len bs =? 0)|]; discriminate. }
        destruct (decode t (takeN total bs)); discriminate. }
      intros ->. eapply G. exact R.
  Qed.

  (* dec_all never runs out of fuel *)
  Theorem dec_all_fuel_ok lim cs e : a_err (dec_all detect decode lim cs e) <> EOutOfFuel.
  Proof.
    pose proof (dec_all_flat lim cs e) as H. unfold aview in H.
    pose proof (sdec_all_f_fuel (S (length (concat cs))) lim (concat cs) e (Nat.lt_succ_diag_r _)) as F.
    unfold sdec_all in H. rewrite <- H in F. exact F.
  Qed.

  (* ---------------------------------------------------------------- limit first *)

  Lemma sdec_all_f_limit fuel : forall lim bs e fs er als pk,
    sdec_all_f detect decode fuel lim bs e = (fs, er, als, pk) ->
    (0 < lim -> Forall (fun a => a <= lim) als) /\
    (er = EReadLimit -> length als = length fs /\ pk <= 5) /\
    Forall (fun fp => lim = 0 \/ len (fst fp) <= lim) fs.
  Proof.
    induction fuel as [|f IH]; intros lim bs e fs er als pk; cbn [sdec_all_f].
    - intros H; injection H as <- <- <- <-. split; [intros _; constructor|split; [discriminate|constructor]].
    - destruct (sdec_read detect decode lim bs e) as [[[r al] pk0] rest] eqn:R. unfold sdec_read in R.
      destruct (sdec_detect_alloc 4 lim 2 bs e r al pk0 rest eq_refl R) as (A & B & C).
      destruct r as [fr p|er0].
      + destruct (sdec_all_f detect decode f lim rest e) as [[[fs' er'] als'] pk'] eqn:S.
        destruct (IH _ _ _ _ _ _ _ S) as (I1 & I2 & I3).
        destruct (sdec_detect_packet _ _ _ _ _ _ _ _ _ _ R) as (E1 & E2 & E3 & E4).
        intros H; injection H as <- <- <- <-. subst al. cbn [opt_cons]. split; [|split].
        * intros Hl. constructor; [destruct (A _ eq_refl); lia|auto].
        * intros Her. destruct (I2 Her) as [J1 J2]. split; [cbn [length]; f_equal; exact J1|exact J2].
        * constructor; [exact E4|exact I3].
      + intros H; injection H as <- <- <- <-. split; [|split].
        * intros Hl. destruct al as [a|]; cbn [opt_cons]; [|constructor].
          constructor; [destruct (A _ eq_refl); lia|constructor].
        * intros ->. rewrite (B eq_refl). split; [reflexivity|exact C].
        * constructor.
  Qed.

  (* C03_limit_first, first half: with a positive limit every allocation request is
     within the limit and every returned packet is; when the limit trips, no request
     was made for the refused packet and at most 5 bytes of it were peeked *)
  Theorem limit_first lim cs e :
    let a := dec_all detect decode lim cs e in
    (0 < lim -> Forall (fun x => x <= lim) (a_allocs a)) /\
    (0 < lim -> Forall (fun fp => len (fst fp) <= lim) (a_frames a)) /\
    (a_err a = EReadLimit -> length (a_allocs a) = length (a_frames a) /\ a_peeked a <= 5).
  Proof.
    intros a. pose proof (dec_all_flat lim cs e) as H. fold a in H. unfold aview, sdec_all in H.
    symmetry in H. destruct (sdec_all_f_limit _ _ _ _ _ _ _ _ H) as (A & B & C).
    split; [exact A|]. split; [|exact B].
    intros Hl. eapply Forall_impl; [|exact C]. cbn beta. intros fp [Hz|Hle]; [lia|exact Hle].
  Qed.
End Sim.
