(* ReadSpecProofs.v — one Decoder.Read of the stream model with the real codec
   (detect_impl, codec_decode) computes Codec/ReadSpec.read_spec, for every byte stream,
   every limit and every source ending: the detection loop finds exactly the header-declared
   extent, and Type.New + Decode on the frame accepts exactly what the reference decoder accepts. *)
From Coq Require Import List NArith ZArith Bool Lia ZifyN ZifyNat ZifyBool.
From Coq.Strings Require Import Byte.
From GM Require Import Codec.Packet Codec.RefDecode Codec.ReadSpec.
From GM Require Import Stream.Stream Stream.StreamSpec Stream.StreamProofs Stream.StreamCodec.
From GM Require Codec.Dec Codec.DecProofsBase Codec.DecProofsLocal Codec.DecProofsSpec Codec.DecProofsSpec3 Codec.DetectEquiv.
Import ListNotations.
Open Scope N_scope.

(* ---------- remaining length on prefixes ---------- *)
Lemma remlen_firstn_short fuel : forall mult buf v k rest j,
  remlen fuel mult buf = Some (v, k, rest) -> (j < N.to_nat k)%nat ->
  remlen fuel mult (firstn j buf) = None.
Proof.
  induction fuel as [| fuel IH]; intros mult buf v k rest j H Hj; [discriminate |].
  destruct buf as [| b r]; [discriminate |]. cbn [remlen] in H.
  destruct j as [| j]; [reflexivity |]. cbn [firstn remlen].
  destruct (Byte.to_N b <? 128) eqn:E.
  - apply DecProofsBase.Some_inj3 in H. destruct H as (_ & <- & _). lia.
  - destruct (remlen fuel (mult * 128) r) as [[[v' k'] rest'] |] eqn:Er; [| discriminate].
    apply DecProofsBase.Some_inj3 in H. destruct H as (_ & <- & _).
    rewrite (IH _ _ _ _ _ j Er) by lia. reflexivity.
Qed.

Lemma remlen_firstn_none fuel : forall mult buf j,
  remlen fuel mult buf = None -> remlen fuel mult (firstn j buf) = None.
Proof.
  induction fuel as [| fuel IH]; intros mult buf j H; [reflexivity |].
  destruct buf as [| b r]; [destruct j; reflexivity |]. cbn [remlen] in H.
  destruct j as [| j]; [reflexivity |]. cbn [firstn remlen].
  destruct (Byte.to_N b <? 128); [discriminate |].
  destruct (remlen fuel (mult * 128) r) as [[[v' k'] rest'] |] eqn:Er; [discriminate |].
  rewrite (IH _ _ j Er). reflexivity.
Qed.

(* ---------- DetectPacket on a header prefix ---------- *)
Lemma detect_needmore b0 r' :
  (length r' <= 4)%nat -> remlen 4 1 r' = None -> detect_impl (b0 :: r') = DetNeedMore.
Proof.
  intros Hl Hr. unfold detect_impl. destruct r' as [| b1 r'']; [reflexivity |].
  destruct (DetectEquiv.uv_equiv (b1 :: r'') 0 0 ltac:(lia) ltac:(cbn; lia)) as [He _].
  change (7 * 0) with 0 in He. rewrite He.
  rewrite (DecProofsBase.uvarint_loop_none 4 (b1 :: r'') 0 0 0 1 eq_refl eq_refl ltac:(lia) Hl Hr).
  reflexivity.
Qed.

Lemma detect_len b0 r' rl k rest :
  remlen 4 1 r' = Some (rl, k, rest) -> detect_impl (b0 :: r') = DetLen (1 + k + rl) (Byte.to_N b0 / 16).
Proof.
  intros Hr. unfold detect_impl.
  destruct (DecProofsBase.remlen_bounds _ _ _ _ _ _ Hr) as (Hk1 & Hk4 & Hkl & _).
  pose proof (DecProofsBase.remlen_value _ _ _ _ _ _ Hr) as Hv.
  destruct r' as [| b1 r'']; [discriminate |].
  destruct (DetectEquiv.uv_equiv (b1 :: r'') 0 0 ltac:(lia) ltac:(cbn; lia)) as [He _].
  change (7 * 0) with 0 in He. rewrite He.
  destruct (DecProofsBase.uvarint_loop_some 4 (b1 :: r'') 0 0 0 1 rl k rest eq_refl eq_refl ltac:(lia) ltac:(lia) Hr)
    as (H1 & _).
  rewrite H1. cbn [DetectEquiv.uv_view]. change (0 + rl) with rl. change (0 + k) with k.
  assert (Hp : 128 ^ k <= 128 ^ 4) by (apply N.pow_le_mono_r; lia).
  change (128 ^ 4) with 268435456 in Hp.
  change (2 ^ 64) with 18446744073709551616. change (2 ^ 63) with 9223372036854775808.
  rewrite N.mod_small by lia.
  destruct ((0 <? 1 + k + rl) && (1 + k + rl <? 9223372036854775808)) eqn:E; [reflexivity | lia].
Qed.

Lemma takeN_cons {A} n (x : A) l : 1 <= n -> takeN n (x :: l) = x :: firstn (N.to_nat (n - 1)) l.
Proof.
  intros H. rewrite !takeN_firstn. replace (N.to_nat n) with (S (N.to_nat (n - 1))) by lia. reflexivity.
Qed.

(* ---------- the detection loop ---------- *)
Section Loop.
  Variable decode : N -> list byte -> option packet.

  Lemma loop_found lim b0 r e rl k rest : remaining_length r = Some (rl, k, rest) ->
    forall fuel dl, 2 <= dl -> dl <= 1 + k -> dl + N.of_nat fuel = 6 ->
    sdec_detect detect_impl decode fuel lim dl (b0 :: r) e =
    sdec_body decode lim (1 + k) (1 + k + rl) (Byte.to_N b0 / 16) (b0 :: r) e.
  Proof.
    intros Hr. unfold remaining_length in Hr.
    destruct (DecProofsBase.remlen_bounds _ _ _ _ _ _ Hr) as (Hk1 & Hk4 & Hkl & _).
    change (Dec.len r) with (len r) in Hkl.
    induction fuel as [| fuel IH]; intros dl H2 Hd Hf; [lia |].
    cbn [sdec_detect]. rewrite len_cons.
    destruct (1 + len r <? dl) eqn:El; [lia |].
    rewrite takeN_cons by lia.
    destruct (N.eq_dec dl (1 + k)) as [-> | Hne].
    - replace (1 + k - 1) with k by lia.
      rewrite (detect_len b0 _ rl k (skipn (N.to_nat k) (firstn (N.to_nat k) r))).
      + destruct (1 + k + rl =? 0) eqn:E0; [lia | reflexivity].
      + apply (DecProofsLocal.remlen_prefix _ _ _ _ _ _ _ Hr). apply DecProofsLocal.firstn_firstn_le. lia.
    - rewrite detect_needmore.
      + apply IH; lia.
      + rewrite firstn_length. lia.
      + apply (remlen_firstn_short _ _ _ _ _ _ _ Hr). lia.
  Qed.

  Lemma loop_overflow lim b0 r e : remaining_length r = None -> 4 <= len r ->
    forall fuel dl, 2 <= dl -> dl + N.of_nat fuel = 6 ->
    sdec_detect detect_impl decode fuel lim dl (b0 :: r) e = (RFail EDetectionOverflow, None, 5, b0 :: r).
  Proof.
    intros Hr Hl. unfold remaining_length in Hr.
    induction fuel as [| fuel IH]; intros dl H2 Hf.
    - cbn [sdec_detect]. replace (dl - 1) with 5 by lia. reflexivity.
    - cbn [sdec_detect]. rewrite len_cons. destruct (1 + len r <? dl) eqn:El; [lia |].
      rewrite takeN_cons by lia. rewrite detect_needmore.
      + apply IH; lia.
      + rewrite firstn_length. lia.
      + apply remlen_firstn_none. exact Hr.
  Qed.

  Lemma loop_short lim b0 r e : remaining_length r = None -> len r < 4 ->
    forall fuel dl, 2 <= dl -> dl <= len (b0 :: r) + 1 -> dl + N.of_nat fuel = 6 ->
    sdec_detect detect_impl decode fuel lim dl (b0 :: r) e =
    (RFail (end_err e (len (b0 :: r))), None, len (b0 :: r) + 1, b0 :: r).
  Proof.
    intros Hr Hl. unfold remaining_length in Hr. rewrite len_cons.
    induction fuel as [| fuel IH]; intros dl H2 Hd Hf; [lia |].
    cbn [sdec_detect]. rewrite len_cons. destruct (1 + len r <? dl) eqn:El.
    - replace dl with (1 + len r + 1) by lia. reflexivity.
    - rewrite takeN_cons by lia. rewrite detect_needmore.
      + apply IH; lia.
      + rewrite firstn_length. lia.
      + apply remlen_firstn_none. exact Hr.
  Qed.
End Loop.

(* ---------- Type.New + Decode on a frame = the reference decoder on it ---------- *)
Lemma codec_decode_ref t ty bs n :
  type_of_code t = Some ty -> RefDecode.extent bs = Some n -> n <= len bs ->
  codec_decode t (firstn (N.to_nat n) bs) =
  match ref_decode ty (firstn (N.to_nat n) bs) with Some (p, _) => Some p | None => None end.
Proof.
  intros Ht He Hn. unfold codec_decode. rewrite Ht.
  pose proof (DecProofsSpec3.spec_framed ty _ (DecProofsSpec3.extent_firstn bs n He Hn)) as H.
  rewrite <- H. destruct (Dec.decode_go ty (firstn (N.to_nat n) bs)); reflexivity.
Qed.

(* ---------- one Read ---------- *)
Theorem read_is_spec : forall lim bs e,
  sdec_read detect_impl codec_decode lim bs e = read_spec lim bs e.
Proof.
  intros lim bs e. unfold sdec_read, read_spec.
  destruct bs as [| b0 r]; [reflexivity |].
  destruct (remaining_length r) as [[[rl k] rest] |] eqn:Er.
  - rewrite (loop_found codec_decode lim b0 r e rl k rest Er 4 2) by
      (try lia; destruct (DecProofsBase.remlen_bounds _ _ _ _ _ _ Er) as (? & ? & _); lia).
    unfold sdec_body. cbv zeta.
    destruct ((0 <? lim) && (lim <? 1 + k + rl)); [reflexivity |].
    destruct (type_of_code (Byte.to_N b0 / 16)) as [ty |] eqn:Et; [| reflexivity].
    destruct (len (b0 :: r) <? 1 + k + rl) eqn:El; [reflexivity |].
    rewrite takeN_firstn, dropN_skipn.
    assert (He : RefDecode.extent (b0 :: r) = Some (1 + k + rl)) by (cbn [RefDecode.extent]; rewrite Er; reflexivity).
    rewrite (codec_decode_ref _ ty (b0 :: r) (1 + k + rl) Et He) by lia.
    destruct (ref_decode ty (firstn (N.to_nat (1 + k + rl)) (b0 :: r))) as [[p m] |]; reflexivity.
  - destruct (len r <? 4) eqn:El.
    + rewrite (loop_short codec_decode lim b0 r e Er ltac:(lia) 4 2); try reflexivity; rewrite ?len_cons; lia.
    + rewrite (loop_overflow codec_decode lim b0 r e Er ltac:(lia) 4 2); try reflexivity; lia.
Qed.

(* the same for the chunked model: whatever the chunking *)
Theorem read_chunked_is_spec : forall lim cs e,
  view (dec_read detect_impl codec_decode lim (dinit cs e)) = read_spec lim (concat cs) e.
Proof.
  intros lim cs e. destruct (dec_read_flat detect_impl codec_decode lim (dinit cs e)) as [V _].
  rewrite V. unfold flat, dinit. cbn [d_buf d_src d_end app]. apply read_is_spec.
Qed.
