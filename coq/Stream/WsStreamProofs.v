(* WsStreamProofs.v — wsStream.Read stitches the binary messages into one byte
   stream, whatever the read sizes (C03_ws_stitch). *)
From Coq Require Import List NArith Bool Lia ZArith ZifyN ZifyNat ZifyBool.
From Coq.Strings Require Import Byte.
From GM Require Import Stream.Stream Stream.StreamProofs Stream.WsStream.
Import ListNotations.
Open Scope N_scope.

Definition cur_bytes (s : wstate) : list byte := match w_cur s with Some d => d | None => [] end.
Definition sbytes (s : wstate) : list byte := cur_bytes s ++ ws_bytes (w_msgs s).
Definition sfinal (s : wstate) : wres := ws_final (w_msgs s) (w_end s).
Definition is_data (r : wres) : Prop := match r with WData _ => True | _ => False end.

Lemma takeN_nonempty {A} n (d : list A) : 0 < n -> d <> [] -> takeN n d <> [].
Proof.
  intros Hn Hd. destruct d as [|x d]; [contradiction|]. cbn [takeN].
  destruct (N.eqb_spec n 0); [lia|discriminate].
Qed.

Lemma ws_next_spec n e : 0 < n -> forall ms r s',
  ws_next n ms e = (r, s') ->
  match r with
  | WData bs => ws_bytes ms = bs ++ sbytes s' /\ sfinal s' = ws_final ms e /\ bs <> []
  | _ => ws_bytes ms = [] /\ r = ws_final ms e
  end.
Proof.
  intros Hn. induction ms as [|m ms IH]; intros r s' H; cbn [ws_next] in H.
  - injection H as <- <-. destruct e; cbn; auto.
  - cbn [ws_bytes ws_final]. destruct (wm_binary m).
    + destruct (wm_data m) as [|b0 bt] eqn:D.
      * specialize (IH _ _ H). destruct r; cbn [app]; exact IH.
      * injection H as <- <-. unfold sbytes, sfinal, cur_bytes. cbn [w_cur w_msgs w_end].
        destruct (N.eqb_spec n 0) as [Hz|_]; [lia|]. cbn [app].
        rewrite app_assoc, takeN_dropN. repeat split. discriminate.
    + injection H as <- <-. auto.
Qed.

Lemma ws_read_spec n s r s' : 0 < n ->
  ws_read n s = (r, s') ->
  match r with
  | WData bs => sbytes s = bs ++ sbytes s' /\ sfinal s' = sfinal s /\ bs <> []
  | _ => sbytes s = [] /\ r = sfinal s
  end.
Proof.
  intros Hn. unfold ws_read. destruct (w_cur s) as [[|b0 bt]|] eqn:C.
  - intros H. apply (ws_next_spec n (w_end s) Hn) in H.
    unfold sbytes, cur_bytes, sfinal in *. rewrite C. cbn [app]. destruct r; exact H.
  - intros H. injection H as <- <-. unfold sbytes, sfinal, cur_bytes. rewrite C. cbn [w_cur w_msgs w_end].
    destruct (N.eqb_spec n 0) as [Hz|_]; [lia|]. cbn [app].
    rewrite app_assoc, takeN_dropN. repeat split. discriminate.
  - intros H. apply (ws_next_spec n (w_end s) Hn) in H.
    unfold sbytes, cur_bytes, sfinal in *. rewrite C. cbn [app]. destruct r; exact H.
Qed.

Lemma ws_read_all_spec sizes : forall s cs r,
  ws_read_all sizes s = (cs, r) ->
  exists rest, sbytes s = concat cs ++ rest /\
    Forall (fun c => c <> []) cs /\
    (forall x, r = Some x -> rest = [] /\ x = sfinal s /\ ~ is_data x) /\
    (r = None -> length cs = length sizes).
Proof.
  induction sizes as [|n sizes IH]; intros s cs r H; cbn [ws_read_all] in H.
  - injection H as <- <-. exists (sbytes s). repeat split; [constructor|discriminate|discriminate|discriminate].
  - destruct (ws_read (N.max n 1) s) as [r0 s1] eqn:R.
    pose proof (ws_read_spec _ _ _ _ (ltac:(lia) : 0 < N.max n 1) R) as SP.
    destruct r0 as [bs| |c|].
    + destruct (ws_read_all sizes s1) as [cs' r'] eqn:RA. injection H as <- <-.
      destruct SP as (E1 & E2 & E3). destruct (IH _ _ _ RA) as (rest & F1 & F2 & F3 & F4).
      exists rest. cbn [concat]. rewrite E1, F1, <- app_assoc. repeat split.
      * constructor; assumption.
      * apply (F3 x H).
      * rewrite <- E2. apply (F3 x H).
      * apply (F3 x H).
      * intros Hr. cbn [length]. f_equal. exact (F4 Hr).
    + injection H as <- <-. destruct SP as [E1 E2]. exists []. rewrite E1. repeat split; try constructor.
      * injection H as <-. exact E2.
      * injection H as <-. cbn. auto.
      * discriminate.
    + injection H as <- <-. destruct SP as [E1 E2]. exists []. rewrite E1. repeat split; try constructor.
      * injection H as <-. exact E2.
      * injection H as <-. cbn. auto.
      * discriminate.
    + injection H as <- <-. destruct SP as [E1 E2]. exists []. rewrite E1. repeat split; try constructor.
      * injection H as <-. exact E2.
      * injection H as <-. cbn. auto.
      * discriminate.
Qed.

(* C03_ws_stitch: the chunks handed out are non-empty pieces whose concatenation is a
   prefix of the message data; once a read reports the end (close frame, network
   error, non-binary message) the chunks are exactly the data of the binary messages
   before that point and the report is the one belonging to that point — whatever
   the sizes of the read buffers; and that report comes after at most one read per byte *)
Theorem ws_stitch sizes ms e cs r :
  ws_read_all sizes (ws_init ms e) = (cs, r) ->
  (exists rest, ws_bytes ms = concat cs ++ rest) /\
  Forall (fun c => c <> []) cs /\
  (forall x, r = Some x -> concat cs = ws_bytes ms /\ x = ws_final ms e) /\
  ((length (ws_bytes ms) < length sizes)%nat -> r <> None).
Proof.
  intros H. destruct (ws_read_all_spec _ _ _ _ H) as (rest & E & NE & FIN & CNT).
  unfold sbytes, sfinal, cur_bytes, ws_init in *. cbn [w_cur w_msgs w_end app] in *.
  split; [exists rest; exact E|]. split; [exact NE|]. split.
  - intros x Hx. destruct (FIN x Hx) as (-> & -> & _). rewrite app_nil_r in E. auto.
  - intros Hl Hr. specialize (CNT Hr).
    assert (L : (length cs <= length (concat cs))%nat).
    { clear - NE. induction NE as [|c cs Hc _ IH]; [cbn; lia|]. cbn [concat length]. rewrite app_length.
      destruct c; [contradiction|]. cbn [length]. lia. }
    rewrite E, app_length in Hl. lia.
Qed.

(* the decoder behind a wsStream sees the same packets however the packets are spread
   over WebSocket messages and whatever buffer sizes bufio reads with *)
Theorem ws_decode detect decode lim sizes ms e cs x e' :
  ws_read_all sizes (ws_init ms e) = (cs, Some x) ->
  aview (dec_all detect decode lim cs e') = aview (dec_all detect decode lim [ws_bytes ms] e').
Proof.
  intros H. destruct (ws_stitch _ _ _ _ _ H) as (_ & _ & F & _). destruct (F x eq_refl) as [E _].
  apply chunking_irrelevant_two. cbn [concat]. rewrite app_nil_r. exact E.
Qed.
