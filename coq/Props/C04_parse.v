(* C04 (continued) — topic.Parse normalises a topic into the form the matching theorems of
   Props/C04.v assume (NUL-free input stays NUL-free; the result is a MatchSpec.valid_filter
   resp. wildcard_free).  Parse.v is the model of /repo/topic/topic.go.
   Only statements, `exact`, and Print Assumptions. *)
From Coq Require Import List Bool String.
From Coq.Strings Require Import Byte.
From GM Require Import Topic.MatchSpec Topic.Levels Topic.Parse Topic.ParseProofs.
Import ListNotations.

(* the model of Parse computes the specification: collapse adjacent slashes, trim trailing ones;
   empty -> ErrZeroLength; otherwise Ok of that string iff its levels are well-formed (a wildcard
   character occupies a whole level, '#' is last; no wildcard at all when they are not allowed),
   else ErrWildcards.  In particular the segment loop never runs out of fuel. *)
Theorem C04_parse_is_spec : forall s allow, no_nul s = true -> parse s allow = parse_spec s allow.
Proof. exact parse_is_spec. Qed.
Print Assumptions C04_parse_is_spec.

(* a successful Parse returns norm s, without adjacent slashes, without trailing slash, non-empty,
   NUL-free, and valid as a filter (allowWildcards) resp. wildcard-free (otherwise) *)
Theorem C04_parse_ok_normal : forall s allow t, no_nul s = true -> parse s allow = POk t ->
  t = norm s /\ normal_form allow t = true /\ no_nul t = true /\
  (allow = true -> valid_filter t = true) /\ (allow = false -> wildcard_free t = true).
Proof. exact parse_ok_normal. Qed.
Print Assumptions C04_parse_ok_normal.

(* Parse is idempotent on its own output *)
Theorem C04_parse_idempotent : forall s allow t, no_nul s = true -> parse s allow = POk t -> parse t allow = POk t.
Proof. exact parse_idempotent. Qed.
Print Assumptions C04_parse_idempotent.

(* Parse fails exactly when the collapsed and trimmed topic is empty or a wildcard is misplaced *)
Theorem C04_parse_failures : forall s allow, no_nul s = true ->
  (parse s allow = PErr ErrZeroLength <-> norm s = []) /\
  (parse s allow = PErr ErrWildcards <-> norm s <> [] /\ topic_good allow (norm s) = false) /\
  parse s allow <> POutOfFuel.
Proof. exact parse_failures. Qed.
Print Assumptions C04_parse_failures.

(* ContainsWildcards is false on everything Parse accepts without wildcards *)
Theorem C04_parse_deny_no_wildcards : forall s t, no_nul s = true -> parse s false = POk t -> contains_wildcards t = false.
Proof. exact parse_deny_no_wildcards. Qed.
Print Assumptions C04_parse_deny_no_wildcards.

Definition pb (s : string) : list byte := list_byte_of_string s.
Example C04_parse_nonvacuous :
  parse (pb "a//b///") true = POk (pb "a/b") /\ parse (pb "/a/+/#//") true = POk (pb "/a/+/#") /\
  parse (pb "//") true = PErr ErrZeroLength /\ parse (pb "") false = PErr ErrZeroLength /\
  parse (pb "a/#/b") true = PErr ErrWildcards /\ parse (pb "a+/b") true = PErr ErrWildcards /\
  parse (pb "a/+") false = PErr ErrWildcards /\ parse (pb "a/b") false = POk (pb "a/b") /\
  no_nul (pb "a//b///") = true /\ valid_filter (pb "/a/+/#") = true /\ contains_wildcards (pb "a/+") = true.
Proof. vm_compute. repeat split; reflexivity. Qed.
