(* C12 — clause added by the clause-by-clause audit (/verif/audit/C12.md).  Only statements,
   `exact`, Print Assumptions.

   c12_will (Props/C12.v) counts the backend Publish calls made without acknowledgement closure by a
   goroutine that never received anything (the cleanup).  A Publish without closure by a goroutine
   that DID receive (the processor) is left to this clause:
   C12_no_other_publish (ConnSpec2.v c15_in_order, also C15) every backend Publish of a processor is
                        for the packet it received last — a QoS 0 PUBLISH with exactly that message
                        (no closure), a QoS 1 PUBLISH with exactly that message or a PUBREL (closure) —
                        and at most one per received packet.  So the will is not published by the
                        processor either (not early, on a protocol error; not a second time).
   C12_closes           (ConnSpec6.v) "every way a connection can end": it never ends (EClosed) without
                        the client object having closed its transport. *)
From Coq Require Import List NArith Bool.
From GM Require Import Base.Lts Codec.Packet Session.Store Broker.Conn Broker.ConnSpec Broker.ConnSpec2 Broker.ConnSpec6
  Broker.ConnProofsE3 Broker.ConnProofsD0 Broker.ConnProofsD1.
Import ListNotations.
Open Scope N_scope.

Theorem C12_no_other_publish : forall es s, bc_run es = Some s -> c15_in_order es = true.
Proof. exact c15_in_order_holds. Qed.
Print Assumptions C12_no_other_publish.

Theorem C12_closes : forall es s, bc_run es = Some s -> c20_closes es = true.
Proof. exact c20_closes_holds. Qed.
Print Assumptions C12_closes.
