(* C04 — Topic matching follows MQTT 4.7 in both directions, and the directions agree.
   Only statements, `exact`, and Print Assumptions. *)
From Coq Require Import List NArith.
From Coq.Strings Require Import Byte.
From GM Require Import Topic.MatchSpec Topic.Levels Topic.Trie.
Import ListNotations.

(* the walk of tree.go (topicSegment / topicShorten / "\x00" sentinel) over a NUL-free
   topic visits exactly the levels of the plain split on '/' *)
Theorem C04_walk_is_split : forall s, no_nul s = true -> walk s = split_levels s.
Proof. exact walk_is_split. Qed.
Print Assumptions C04_walk_is_split.
