(* C04 — Topic matching follows MQTT 4.7 in both directions, and the directions agree.
   Only statements, `exact`, and Print Assumptions.

   Objects: Trie.v is the model of topic/tree.go (Match/MatchFirst/Search/SearchFirst on
   topic strings, through the segment/shorten/"\x00" walk of Levels.v); MatchSpec.v is the
   reference relation.  `run_trie ops` is the tree after the operation history `ops`;
   `op_ok` says the topics used by the history are NUL-free. *)
From Coq Require Import List NArith Bool String.
From Coq.Strings Require Import Byte.
From GM Require Import Topic.MatchSpec Topic.Levels Topic.Trie Topic.TrieProofs Topic.TrieMatchProofs
  Topic.TreeSpec Topic.TrieTopProofs.
(* topic.Parse produces the inputs these theorems assume: Props/C04_parse.v *)
From GM Require Props.C04_parse.
Import ListNotations.
Open Scope N_scope.

(* the walk of tree.go (topicSegment / topicShorten / sentinel) over a NUL-free topic
   visits exactly the levels of the plain split on '/' *)
Theorem C04_walk_is_split : forall s, no_nul s = true -> walk s = split_levels s.
Proof. exact walk_is_split. Qed.
Print Assumptions C04_walk_is_split.

(* Match: after ANY history of operations on NUL-free topics (the stored filters need not even be
   valid), looking up a wildcard-free name returns exactly the values stored under topics that
   match it under `topic_matches`, each once. *)
Theorem C04_match : forall ops name v, forallb op_ok ops = true -> wildcard_free name = true ->
  (In v (Match (run_trie ops) name) <->
   exists f, no_nul f = true /\ In v (Get (run_trie ops) f) /\ topic_matches f name = true)
  /\ NoDup (Match (run_trie ops) name).
Proof. exact match_strings. Qed.
Print Assumptions C04_match.

(* Search: symmetric; the filter is valid, the stored names are arbitrary NUL-free topics. *)
Theorem C04_search : forall ops f v, forallb op_ok ops = true -> valid_filter f = true ->
  (In v (Search (run_trie ops) f) <->
   exists name, no_nul name = true /\ In v (Get (run_trie ops) name) /\ topic_matches f name = true)
  /\ NoDup (Search (run_trie ops) f).
Proof. exact search_strings. Qed.
Print Assumptions C04_search.

(* the First variants, on every tree and every topic string: nothing iff the full answer is
   empty, otherwise an element of the full answer *)
Theorem C04_first : forall (t : tree) (s : list byte),
  ((MatchFirst t s = None <-> Match t s = []) /\ (forall v, MatchFirst t s = Some v -> In v (Match t s))) /\
  ((SearchFirst t s = None <-> Search t s = []) /\ (forall v, SearchFirst t s = Some v -> In v (Search t s))).
Proof. exact firsts_any_tree. Qed.
Print Assumptions C04_first.

(* SearchFirst depends on Go's map iteration order.  `SearchFirsts` lists every value it can return
   under some order of the children; the correspondence check requires the implementation's answer
   to be in that list.  The list is sound: its members are answers of Search, it is empty exactly
   when Search finds nothing, and the model's own SearchFirst is a member. *)
Theorem C04_search_first_candidates : forall (t : tree) (f : list level),
  (forall v, In v (tsearch_firsts f t) -> In v (tsearch_raw f t)) /\
  (tsearch_firsts f t = [] <-> tsearch_raw f t = []) /\
  (forall v, tsearch_first f t = Some v -> In v (tsearch_firsts f t)).
Proof. exact search_first_candidates. Qed.
Print Assumptions C04_search_first_candidates.

(* a filter matches a name in one direction iff it does in the other: both are `topic_matches` *)
Theorem C04_directions_agree : forall f name v, valid_filter f = true -> wildcard_free name = true ->
  (In v (Match (Set_ New f v) name) <-> topic_matches f name = true) /\
  (In v (Search (Set_ New name v) f) <-> topic_matches f name = true).
Proof. exact directions_agree. Qed.
Print Assumptions C04_directions_agree.

(* non-vacuity: a history with wildcards, an empty level, a leading slash, a removal; the
   hypotheses hold and the answers are the expected ones (parent level matched by '#', not by '+') *)
Definition b (s : string) : list byte := list_byte_of_string s.
Definition ex_ops : list op :=
  [OAdd (b "a/+") 1; OAdd (b "a/#") 2; OAdd (b "a") 3; OAdd (b "/a") 4; OAdd (b "a//c") 5; OAdd (b "+/b") 1;
   OAdd (b "a/b") 6; ORemove (b "a/b") 6; OAdd (b "#") 7].
Example C04_nonvacuous :
  forallb op_ok ex_ops = true /\
  wildcard_free (b "a/b") = true /\ valid_filter (b "a/+") = true /\ valid_filter (b "+/#") = true /\
  Match (run_trie ex_ops) (b "a/b") = [7; 1; 2] /\
  Match (run_trie ex_ops) (b "a") = [7; 2; 3] /\
  Match (run_trie ex_ops) (b "/a") = [7; 4] /\
  MatchFirst (run_trie ex_ops) (b "a/b") = Some 7 /\
  MatchFirst (run_trie (removelast ex_ops)) (b "a/b") = Some 2 /\
  Search (run_trie ex_ops) (b "a/+") = [1; 2] /\
  Search (run_trie ex_ops) (b "+/#") = [3; 1; 2; 5; 4; 7] /\
  topic_matches (b "a/#") (b "a") = true /\ topic_matches (b "a/+") (b "a") = false /\
  topic_matches (b "+/+") (b "/a") = true /\ topic_matches (b "a/+/c") (b "a//c") = true.
Proof. vm_compute. repeat split; reflexivity. Qed.
