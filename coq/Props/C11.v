(* C11 — Retained set = last non-empty retained publish per topic, replayed on subscribe.
   MemoryBackend model MB (Broker/Backend.v); clauses in Broker/BackendSpec.v.
   Only statements, `exact`, and Print Assumptions. *)
From Coq Require Import List NArith Bool String.
From Coq.Strings Require Import Byte.
From GM Require Import Codec.Packet Topic.MatchSpec Broker.Backend Broker.BackendSpec
  Broker.BackendProofs Broker.BackendProofsPublish Broker.BackendProofsSteps Broker.BackendProofsReplay
  Broker.BackendProofsHist Broker.BackendC13.
Import ListNotations.
Open Scope N_scope.

(* After every history the retained map is, topic by topic, the fold over the history's
   publishes that were accepted (result nil; a Publish refused with ErrQueueFull or still waiting has not touched
   the retained store; wills are publishes: broker/client.go calls the same Publish):
   retain and payload <> [] sets, retain and payload = [] deletes, anything else leaves it;
   the map has one entry per topic, each stored under its own topic with the flag kept. *)
Theorem C11_retained_is_spec : forall cap ops t,
  let (rs, st) := run (init cap) ops in
  alookup bytes_eqb t (st_retained st) = retained_spec (effective_pubs ops rs) t /\
  NoDup (map fst (st_retained st)) /\ retained_wf st = true.
Proof. exact retained_is_spec. Qed.
Print Assumptions C11_retained_is_spec.

(* the same, step by step (the clause the correspondence check evaluates on the implementation): only a Publish that
   returns nil changes the retained map, and it changes it as MQTT 3.3.1.3 says; every other step — a refused
   (ErrQueueFull) or waiting Publish included — leaves it as it is *)
Theorem C11_retained_step : forall cap ops, holds_along retained_ok cap ops.
Proof. exact retained_along. Qed.
Print Assumptions C11_retained_step.

(* will messages count as publishes: the publish of a closing connection is never refused (ErrQueueFull), so a retained
   will always reaches the retained store (by C11_retained_step applied to that accepted publish) *)
Theorem C11_will_accepted : forall cap ops, holds_along closing_accepted_ok cap ops.
Proof. exact closing_accepted_along. Qed.
Print Assumptions C11_will_accepted.

(* Subscribe appends to the subscriber's temporary queue, filter by filter in the order of the
   packet, exactly the stored retained messages m with topic_matches f (topic m) (each batch in
   some order; as stored, hence retain = true and topic/payload intact), cut where the queue is
   full (then and only then ErrQueueFull); nothing else changes. *)
Theorem C11_replay : forall cap ops, holds_along replay_ok cap ops.
Proof. exact replay_along. Qed.
Print Assumptions C11_replay.

(* ... and ONLY a Subscribe of the connection brings retained replays: the temporary queue (the one replays go to) of a
   stored session that is resumed starts empty, so every retain = 1 message a connection dequeues answers a Subscribe
   of that connection (C11_replay: Subscribe is the only step that appends stored retained messages; C06_delivery_step:
   a Publish appends copies with the flag cleared) *)
Theorem C11_resume_clean : forall cap ops, holds_along resume_clean_ok cap ops.
Proof. exact resume_clean_along. Qed.
Print Assumptions C11_resume_clean.

(* a replayed message leaves the queue through the same Dequeue as a live one: qos = min of its
   stored QoS and the QoS granted to a matching filter (C06_qos) *)
Theorem C11_cap : forall cap ops, holds_along qos_ok cap ops.
Proof. exact qos_along. Qed.
Print Assumptions C11_cap.

(* and a replayed message always has such a filter: everything a Subscribe appends comes from the retained map and
   matches a filter the session holds right after the Subscribe (it cannot leave uncapped for lack of a subscription) *)
Theorem C11_cap_applies : forall st c subs b k s,
  session_of st c = Some (k, s) ->
  let (r, st') := subscribe st c subs b in
  r <> RBadOracle ->
  forall s' m, get_session st' k = Some s' ->
    In m (skipn (List.length (s_tq s)) (s_tq s')) ->
    has_match (s_subs s') (m_topic m) = true /\ exists t, In (t, m) (st_retained st).
Proof. exact subscribe_replayed_match. Qed.
Print Assumptions C11_cap_applies.

(* wherever a Publish made a queue grow, the new element has retain = false, same topic and payload *)
Theorem C11_live_copy : forall cap ops, holds_along live_copy_ok cap ops.
Proof. exact live_copy_along. Qed.
Print Assumptions C11_live_copy.

Definition b (s : string) : bytes := list_byte_of_string s.
(* non-vacuity: set, replace, delete, unrelated publish; replay to a later subscriber with a
   non-matching and a matching filter; capped at dequeue; flag kept on the replayed copy *)
Example C11_nonvacuous :
  let ops :=
    [OPublish 9 (Msg (b "a/b") (b "1") 2 true) []; OPublish 9 (Msg (b "a") (b "2") 1 true) [];
     OPublish 9 (Msg (b "a/b") (b "3") 2 true) []; OPublish 9 (Msg (b "a") [] 0 true) [];
     OPublish 9 (Msg (b "a/b") (b "4") 0 false) [];
     OSetup 1 (b "x") false;
     OSubscribe 1 [(b "a", 2); (b "a/+", 1)] [[]; [Msg (b "a/b") (b "3") 2 true]];
     ODequeue 1 true; ODequeue 1 true] in
  map snd (st_retained (snd (run (init 2) ops))) = [Msg (b "a/b") (b "3") 2 true] /\
  skipn 6 (fst (run (init 2) ops)) = [ROk; RMsg (Msg (b "a/b") (b "3") 1 true); REmpty].
Proof. split; vm_compute; reflexivity. Qed.
