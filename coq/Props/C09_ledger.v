(* C09, history form of "keeps it until the broker's PUBACK or PUBCOMP (replacing it by the PUBREL once
   PUBREC arrived), and on the next connect ... retransmits everything still recorded":
   conservation of the client's outgoing store over whole accepted traces.
   Only statements, `exact`, Print Assumptions and examples.  The statements are in
   Client/ClientLedger.v, the proofs in Client/ClientLedgerProofs.v; they quantify over every trace
   accepted by the CL monitor Client.step: every broker behaviour, every interleaving of API callers,
   processor, pinger and die body, every failure of a Conn or Session call, any number of Client
   incarnations and connections on one session.  Props/C09.v has the step form
   (C09_kept_until_acked, C09_resend_on_connect) these are built on. *)
From Coq Require Import List NArith Bool.
From Coq.Strings Require Import Byte.
From GM Require Import Base.Lts Codec.Packet Session.Ids Session.Store Client.Future Client.Client Client.ClientSpec
  Client.TraceScan Client.ClientWitness Client.ClientLedger Client.ClientLedgerProofs.
Import ListNotations.
Open Scope N_scope.

(* A request PUBLISH that SavePacket(Outgoing) accepted at some point of an accepted trace (es1 before,
   es2 after) is at the end still recorded under its id (DUP possibly set) — or recorded as its PUBREL,
   saved in reaction to a PUBREC id received after the save — or was deleted in reaction to an
   acknowledgement carrying id received after the save — or Session.Reset succeeded after the save — or a
   later request was saved under the same id — or (the two cases the model forces, see ledger_race_forced)
   the PUBREC / acknowledgement the client reacted to had arrived just before the save and was still in
   the processor's hands. *)
Theorem C09_nothing_dropped : C09_nothing_dropped_statement.
Proof. exact nothing_dropped. Qed.
Print Assumptions C09_nothing_dropped.

(* Session.Reset is called only on a Client on which Connect was called with CleanSession on: with
   clean-session off throughout, the Reset case above never applies *)
Theorem C09_reset_only_clean : C09_reset_only_clean_statement.
Proof. exact reset_only_clean. Qed.
Print Assumptions C09_reset_only_clean.

(* the session's outgoing store is a function of the observable history: the successful SavePacket /
   DeletePacket / Reset calls and the DUP flag set by the resend loop, nothing else *)
Theorem C09_ledger_exact : C09_ledger_exact_statement.
Proof. exact ledger_exact. Qed.
Print Assumptions C09_ledger_exact.

(* what AllPackets(Outgoing) returns after an accepted CONNACK is exactly that ledger — everything
   saved on earlier connections / Client objects and not acknowledged since —, and the processor's Send
   calls that follow are exactly the listed packets, in order, DUP set on PUBLISH *)
Theorem C09_recorded_is_resent : C09_recorded_is_resent_statement.
Proof. exact recorded_is_resent. Qed.
Print Assumptions C09_recorded_is_resent.

(* by the time the processor receives its next packet the whole list has been handed to Send (all
   but possibly the last successfully) *)
Theorem C09_resent_before_anything_else : C09_resent_before_anything_else_statement.
Proof. exact resent_before_anything_else. Qed.
Print Assumptions C09_resent_before_anything_else.

(* a saved request is listed on a later connect, as the PUBLISH or as its PUBREL, unless the history
   between the save and the listing accounts for it *)
Theorem C09_saved_is_listed : C09_saved_is_listed_statement.
Proof. exact saved_is_listed. Qed.
Print Assumptions C09_saved_is_listed.

(* the ledger scanner that bin/check can run over every OBSERVED event sequence accepts every trace the
   model accepts, and its ledger is the model's outgoing store: a scanner failure on an observed trace is
   a concrete input on which the implementation leaves the model AND breaks conservation *)
Theorem C09_scan_ledger_sound : C09_scan_ledger_sound_statement.
Proof. exact scan_ledger_sound. Qed.
Print Assumptions C09_scan_ledger_sound.

Theorem C09_scan_ledger_accepted : forall es s, run step init es = Some s -> scan_ledger es = true.
Proof. exact scan_ledger_accepted. Qed.
Print Assumptions C09_scan_ledger_accepted.

(* ------------------------------------------------------------------ witnesses *)

Definition msg2 : message := Msg [x75] [x03] 2 false.

(* Publish(m) up to the point where the request is about to be saved / after it *)
Definition pub_pre (c : N) (m : message) (id : N) : list event :=
  [ EApiCall c (CReq (RPub m)); EHid (HAcq c); ENextId id; EHid HApi ].
Definition pub_save (m : message) (id : N) : event := ESave Outgoing (Publish false m id) Ok.
Definition pub_post (c : N) (m : message) (id : N) : list event :=
  [ ETx (Publish false m id) true Ok; EApiRet c RetFut ].
Definition pub (c : N) (m : message) (id : N) : list event :=
  pub_pre c m id ++ pub_save m id :: pub_post c m id.

(* the connection is lost: Receive fails, the processor dies *)
Definition lost : list event := [ ERxErr; EHid HProc; EHid HDie; EHid HDie; EHid HDie; ECbErr ].

(* a new Client on the same session connects with clean-session off, up to the accepted CONNACK *)
Definition reconnect (c : N) : list event :=
  [ ENew false; EApiCall c (CConnect cfg_persist); EHid (HAcq c); EDial Ok; ETx conn_pkt false Ok;
    EApiRet c RetFut; ERx (Connack true 0); EHid HProc ].

(* (a) QoS 1, acknowledged: case (3) *)
Definition a_es1 : list event := opening 1 false ++ pub_pre 2 msg1 1.
Definition a_es2 : list event := pub_post 2 msg1 1 ++ [ ERx (Puback 1); EDelete Outgoing 1 Ok; EHid HProc; EFut 2 true false 0 [] ].

Example ledger_qos1_acked : exists s,
  run step init (a_es1 ++ pub_save msg1 1 :: a_es2) = Some s /\
  store_lookup (s_out (sess s)) 1 = None /\
  answered a_es2 (EDelete Outgoing 1 Ok) (is_ack_for 1) /\
  scan_ledger (a_es1 ++ pub_save msg1 1 :: a_es2) = true /\
  scan_ledger_strict (a_es1 ++ pub_save msg1 1 :: a_es2) = true.
Proof.
  eexists. split; [vm_compute; reflexivity|]. split; [reflexivity|]. split; [|split; vm_compute; reflexivity].
  exists (pub_post 2 msg1 1 ++ [ERx (Puback 1)]), [EHid HProc; EFut 2 true false 0 []], (Puback 1).
  split; [reflexivity|split; reflexivity].
Qed.

(* (b) QoS 2: still recorded (1) while unanswered; after PUBREC the PUBREL is recorded in its place (2);
   after PUBCOMP it is gone (3) *)
Definition b_es1 : list event := opening 1 false ++ pub_pre 2 msg2 1.
Definition b_es2_sent : list event := pub_post 2 msg2 1.
Definition b_es2_rec : list event := b_es2_sent ++ [ ERx (Pubrec 1); ESave Outgoing (Pubrel 1) Ok; ETx (Pubrel 1) true Ok ].
Definition b_es2_comp : list event := b_es2_rec ++ [ ERx (Pubcomp 1); EDelete Outgoing 1 Ok; EHid HProc; EFut 2 true false 0 [] ].

Example ledger_qos2_recorded : exists s,
  run step init (b_es1 ++ pub_save msg2 1 :: b_es2_sent) = Some s /\
  store_lookup (s_out (sess s)) 1 = Some (Publish false msg2 1).
Proof. eexists. split; [vm_compute; reflexivity|reflexivity]. Qed.

Example ledger_qos2_pubrel : exists s,
  run step init (b_es1 ++ pub_save msg2 1 :: b_es2_rec) = Some s /\
  store_lookup (s_out (sess s)) 1 = Some (Pubrel 1) /\
  answered b_es2_rec (ESave Outgoing (Pubrel 1) Ok) (is_pubrec 1).
Proof.
  eexists. split; [vm_compute; reflexivity|]. split; [reflexivity|].
  exists (b_es2_sent ++ [ERx (Pubrec 1)]), [ETx (Pubrel 1) true Ok], (Pubrec 1).
  split; [reflexivity|split; reflexivity].
Qed.

Example ledger_qos2_completed : exists s,
  run step init (b_es1 ++ pub_save msg2 1 :: b_es2_comp) = Some s /\
  store_lookup (s_out (sess s)) 1 = None /\
  answered b_es2_comp (EDelete Outgoing 1 Ok) (is_ack_for 1) /\
  scan_ledger (b_es1 ++ pub_save msg2 1 :: b_es2_comp) = true.
Proof.
  eexists. split; [vm_compute; reflexivity|]. split; [reflexivity|]. split; [|vm_compute; reflexivity].
  exists (b_es2_rec ++ [ERx (Pubcomp 1)]), [EHid HProc; EFut 2 true false 0 []], (Pubcomp 1).
  split; [reflexivity|split; reflexivity].
Qed.

(* (c) connection loss and two resumes.  First connection: PUBLISH 1 (QoS 1) unanswered, PUBLISH 2
   (QoS 2) answered by PUBREC, PUBREL saved and sent; the connection is lost.  A second Client on the
   same session: the listing is [PUBLISH 1; PUBREL 2] — the ledger —, re-sent with DUP on the PUBLISH;
   the connection is lost again before anything is acknowledged.  A third Client: the listing now
   carries the DUP flag the first retransmission set; both are re-sent, then PUBACK 1 arrives. *)
Definition c_first : list event :=
  opening 1 false ++ pub 2 msg1 1 ++ pub 3 msg2 2 ++
  [ ERx (Pubrec 2); ESave Outgoing (Pubrel 2) Ok; ETx (Pubrel 2) true Ok ] ++ lost.
Definition c_list1 : list packet := [Publish false msg1 1; Pubrel 2].
Definition c_second : list event :=
  [ ETx (Publish true msg1 1) true Ok; ETx (Pubrel 2) true Ok; EHid HProc; EFut 4 true true 0 [] ] ++ lost.
Definition c_list2 : list packet := [Publish true msg1 1; Pubrel 2].
Definition c_resends : list event :=
  [ ETx (Publish true msg1 1) true Ok; ETx (Pubrel 2) true Ok; EHid HProc; EFut 5 true true 0 [] ].
Definition c_third : list event := [ EDelete Outgoing 1 Ok; EHid HProc ].
Definition c_es1 : list event := c_first ++ reconnect 4 ++ EAll Outgoing (Some c_list1) :: c_second ++ reconnect 5.
Definition c_all : list event := c_es1 ++ EAll Outgoing (Some c_list2) :: c_resends ++ ERx (Puback 1) :: c_third.

Example ledger_resume : exists s,
  run step init c_all = Some s /\
  s_out (sess s) = [(2, Pubrel 2)] /\
  c_list1 = store_all (ledger (c_first ++ reconnect 4)) /\
  c_list2 = store_all (ledger c_es1) /\
  resent_all c_list2 (proc_sends c_resends) = true /\
  (forall b, ~ In (ENew b) c_resends) /\
  scan_ledger c_all = true /\ scan_ledger_strict c_all = true.
Proof.
  eexists. split; [vm_compute; reflexivity|]. repeat split; try (vm_compute; reflexivity).
  intros b H. cbn in H. repeat (destruct H as [H|H]; [discriminate H|]). exact H.
Qed.

(* the request saved on the first connection is, two connections later, listed (case 1 of
   C09_saved_is_listed) — with DUP set *)
Example ledger_resume_listed : In (Publish true msg1 1) c_list2.
Proof. left. reflexivity. Qed.

(* (d) clean session: a later Client connects with CleanSession on; Connect resets the session: case (4) *)
Definition cfg_clean : config := Cfg true false true false true.
Definition conn_clean : packet := Connect (Conn [x63; x6c] 0 [] [] true None 4).
Definition d_es1 : list event := opening 1 false ++ pub_pre 2 msg1 1.
Definition d_es2_pre : list event :=
  pub_post 2 msg1 1 ++ lost ++ [ ENew false; EApiCall 4 (CConnect cfg_clean); EHid (HAcq 4); EDial Ok ].
Definition d_es2 : list event := d_es2_pre ++ [ EReset WApi Ok; ETx conn_clean false Ok ].

Example ledger_clean_reset : exists s,
  run step init (d_es1 ++ pub_save msg1 1 :: d_es2) = Some s /\
  s_out (sess s) = [] /\ In (EReset WApi Ok) d_es2 /\
  clean_requested (d_es1 ++ pub_save msg1 1 :: d_es2_pre) = true /\
  scan_ledger (d_es1 ++ pub_save msg1 1 :: d_es2) = true.
Proof.
  eexists. split; [vm_compute; reflexivity|]. split; [reflexivity|]. split; [|split; vm_compute; reflexivity].
  unfold d_es2. apply in_or_app. right. left. reflexivity.
Qed.

(* ------------------------------------------------------------------ FINDING 1: the in-flight race *)

(* Publish(QoS 1) has drawn id 1; PUBACK 1 arrives (the broker acknowledges an id it has not been sent,
   or — after an id wrap-around — repeats an old acknowledgement) and the processor, which does not take
   the client mutex, is about to call DeletePacket(Outgoing, 1); the API call saves its PUBLISH 1; the
   processor deletes it.  The request then goes on the wire with nothing recorded: a connection loss now
   loses it.  Accepted by the model; none of the cases (1)-(5) holds, only (7) does. *)
Definition r_es1 : list event := opening 1 false ++ pub_pre 2 msg1 1 ++ [ ERx (Puback 1) ].
Definition r_es2 : list event := [ EDelete Outgoing 1 Ok ].

Example ledger_race_forced : exists s,
  run step init (r_es1 ++ pub_save msg1 1 :: r_es2) = Some s /\
  answered_in_flight r_es1 r_es2 (EDelete Outgoing 1 Ok) (is_ack_for 1) /\
  ~ (   (exists d, store_lookup (s_out (sess s)) 1 = Some (Publish d msg1 1))
     \/ (store_lookup (s_out (sess s)) 1 = Some (Pubrel 1) /\
         answered r_es2 (ESave Outgoing (Pubrel 1) Ok) (is_pubrec 1))
     \/ answered r_es2 (EDelete Outgoing 1 Ok) (is_ack_for 1)
     \/ (exists w, In (EReset w Ok) r_es2)
     \/ (exists m', In (ESave Outgoing (Publish false m' 1) Ok) r_es2)).
Proof.
  eexists. split; [vm_compute; reflexivity|]. split.
  - exists [], [], (Puback 1). split; [reflexivity|split; [reflexivity|split; reflexivity]].
  - intros [(d & H)|[(H & _)|[(pre & post & p & Heq & Hl & _)|[(w & H)|(m' & H)]]]].
    + discriminate H.
    + discriminate H.
    + destruct pre as [|e pre]; [discriminate Hl|].
      unfold r_es2 in Heq. injection Heq as _ Heq. destruct pre; discriminate Heq.
    + destruct H as [H|H]; [discriminate H|exact H].
    + destruct H as [H|H]; [discriminate H|exact H].
Qed.

(* the trace continues: the PUBLISH is sent, the call returns its future — and the store is empty *)
Example ledger_race_sent_unrecorded : exists s,
  run step init (r_es1 ++ pub_save msg1 1 :: r_es2 ++ pub_post 2 msg1 1) = Some s /\
  s_out (sess s) = [] /\
  In (Publish false msg1 1, true, Ok) (g_tx (g s)).
Proof. eexists. split; [vm_compute; reflexivity|]. split; [reflexivity|left; reflexivity]. Qed.

(* the sound scanner accepts the race, the strict one is its detector on observed traces *)
Example ledger_race_scanners :
  scan_ledger (r_es1 ++ pub_save msg1 1 :: r_es2) = true /\
  scan_ledger_strict (r_es1 ++ pub_save msg1 1 :: r_es2) = false.
Proof. split; vm_compute; reflexivity. Qed.

(* the same race with PUBREC: the PUBLISH just saved is overwritten by PUBREL 1 — case (6) *)
Definition r6_es1 : list event := opening 1 false ++ pub_pre 2 msg1 1 ++ [ ERx (Pubrec 1) ].
Definition r6_es2 : list event := [ ESave Outgoing (Pubrel 1) Ok ].

Example ledger_race_pubrec : exists s,
  run step init (r6_es1 ++ pub_save msg1 1 :: r6_es2) = Some s /\
  store_lookup (s_out (sess s)) 1 = Some (Pubrel 1) /\
  answered_in_flight r6_es1 r6_es2 (ESave Outgoing (Pubrel 1) Ok) (is_pubrec 1) /\
  ~ answered r6_es2 (ESave Outgoing (Pubrel 1) Ok) (is_pubrec 1).
Proof.
  eexists. split; [vm_compute; reflexivity|]. split; [reflexivity|]. split.
  - exists [], [], (Pubrec 1). split; [reflexivity|split; [reflexivity|split; reflexivity]].
  - intros (pre & post & p & Heq & Hl & _).
    destruct pre as [|e pre]; [discriminate Hl|].
    unfold r6_es2 in Heq. injection Heq as _ Heq. destruct pre; discriminate Heq.
Qed.

(* ------------------------------------------------------------------ FINDING 2: any acknowledgement kind deletes *)

(* a SUBACK carrying the id of a pending PUBLISH removes it from the session (processSuback calls
   DeletePacket(Outgoing, id) whatever is stored there): "acknowledgement carrying id" in case (3) cannot
   be narrowed to PUBACK / PUBCOMP *)
Definition s_es1 : list event := opening 1 false ++ pub_pre 2 msg1 1.
Definition s_es2 : list event := pub_post 2 msg1 1 ++ [ ERx (Suback 1 [0]); EDelete Outgoing 1 Ok ].

Example ledger_suback_deletes_publish : exists s,
  run step init (s_es1 ++ pub_save msg1 1 :: s_es2) = Some s /\
  store_lookup (s_out (sess s)) 1 = None /\
  last_rx s_es2 = Some (Suback 1 [0]) /\
  (forall p, In (ERx p) (s_es1 ++ pub_save msg1 1 :: s_es2) ->
     match p with Puback _ | Pubcomp _ | Pubrec _ => False | _ => True end).
Proof.
  eexists. split; [vm_compute; reflexivity|]. split; [reflexivity|]. split; [reflexivity|].
  intros p H. cbn in H.
  repeat (destruct H as [H|H]; [first [discriminate H | injection H as <-; exact I]|]). contradiction.
Qed.

(* ------------------------------------------------------------------ traces the scanner rejects *)

(* DeletePacket(Outgoing, 1) with no acknowledgement received: the entry is dropped while unacknowledged *)
Definition bad_delete : list event :=
  opening 1 false ++ pub 2 msg1 1 ++ [ EDelete Outgoing 1 Ok ].

(* ... or on an acknowledgement carrying another id *)
Definition bad_delete_other : list event :=
  opening 1 false ++ pub 2 msg1 1 ++ [ ERx (Puback 7); EDelete Outgoing 1 Ok ].

(* the listing on resume misses the unacknowledged PUBLISH 1 (the session lost it) *)
Definition bad_listing_misses : list event :=
  c_first ++ reconnect 4 ++ [ EAll Outgoing (Some [Pubrel 2]); ETx (Pubrel 2) true Ok ].

(* the listing contains a PUBLISH that was never saved *)
Definition bad_listing_invents : list event :=
  c_first ++ reconnect 4 ++ [ EAll Outgoing (Some [Publish false msg1 1; Pubrel 2; Publish false msg1 9]) ].

(* the listing still contains PUBLISH 1 after its PUBACK deleted it *)
Definition bad_listing_acked : list event :=
  opening 1 false ++ pub 2 msg1 1 ++ [ ERx (Puback 1); EDelete Outgoing 1 Ok; EHid HProc ] ++ lost ++
  reconnect 4 ++ [ EAll Outgoing (Some [Publish false msg1 1]) ].

(* the listing has the PUBLISH where its PUBREL should be (the PUBREC was forgotten) *)
Definition bad_listing_no_pubrel : list event :=
  c_first ++ reconnect 4 ++ [ EAll Outgoing (Some [Publish false msg1 1; Publish false msg2 2]) ].

(* the listing is in the wrong order *)
Definition bad_listing_order : list event :=
  c_first ++ reconnect 4 ++ [ EAll Outgoing (Some [Pubrel 2; Publish false msg1 1]) ].

Example ledger_scanner_rejects :
  map scan_ledger [ bad_delete; bad_delete_other; bad_listing_misses; bad_listing_invents; bad_listing_acked;
                    bad_listing_no_pubrel; bad_listing_order ]
  = [ false; false; false; false; false; false; false ].
Proof. vm_compute. reflexivity. Qed.

(* ... and the monitor rejects them too (as scan_ledger_accepted says it must) *)
Example ledger_bad_not_accepted :
  map (fun es => match run step init es with Some _ => true | None => false end)
      [ bad_delete; bad_delete_other; bad_listing_misses; bad_listing_invents; bad_listing_acked;
        bad_listing_no_pubrel; bad_listing_order ]
  = [ false; false; false; false; false; false; false ].
Proof. vm_compute. reflexivity. Qed.

(* each bad listing differs from a good one only in the list: the same histories with the ledger as
   the listing pass *)
Example ledger_good_listings :
  map scan_ledger
    [ c_first ++ reconnect 4 ++ [ EAll Outgoing (Some c_list1) ];
      opening 1 false ++ pub 2 msg1 1 ++ [ ERx (Puback 1); EDelete Outgoing 1 Ok; EHid HProc ] ++ lost ++
        reconnect 4 ++ [ EAll Outgoing (Some []) ] ]
  = [ true; true ].
Proof. vm_compute. reflexivity. Qed.
