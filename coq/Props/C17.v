(* C17 — Service survives any failure sequence: reconnects, resubscribes, keeps futures. *)
From Coq Require Import List NArith.
From GM Require Import Base.Lts Codec.Packet Client.Service Client.ServiceSpec Client.ServiceProofs.
Import ListNotations.
Open Scope N_scope.

Theorem C17_placeholder : forall c, reach c (init c).
Proof. exact reach_init. Qed.
Print Assumptions C17_placeholder.
