(* C17 — Service survives any failure sequence: reconnects, resubscribes, keeps futures.
   Statements over every accepted trace of the service monitor SV (Client/Service.v):
   `run step (init c) es = Some s` — c is the queue capacity, es any event sequence the monitor accepts
   (API calls from arbitrary goroutines, supervisor steps, client-side events, in any interleaving).
   Only statements, `exact`, and Print Assumptions. *)
From Coq Require Import List NArith Sorted.
From Coq.Strings Require Import Byte.
From GM Require Import Base.Lts Codec.Packet Client.Service Client.ServiceSpec Client.ServiceProofs Client.ServiceStop
  Client.ServiceFutures Client.ServiceSet Client.ServiceTheorems Client.ServiceScan Client.ServiceProgress.
Import ListNotations.
Open Scope N_scope.

(* every resubscribe request equals sort (entries (fold apply (dispatched subscribe/unsubscribe commands so far) ∅)),
   and is THE strictly sorted list holding exactly the topics subscribed after those commands (last qos wins) *)
Theorem C17_resub_set : forall c es s id l ok s',
  run step (init c) es = Some s -> step s (EResubSend id l ok) = Some s' ->
  l = spec_resub (map snd (dispatched s)) /\ is_resub_of (map snd (dispatched s)) l.
Proof. exact resub_set_thm. Qed.
Print Assumptions C17_resub_set.

(* ... and once the queue has drained, that is the set resulting from ALL calls accepted into the queue, in order *)
Theorem C17_resub_set_drained : forall c es s,
  run step (init c) es = Some s ->
  resub_list (subs s) = spec_resub (map snd (dispatched s)) /\
  (drained s = [] -> queue s = [] ->
   resub_list (subs s) = spec_resub (map snd (issued s)) /\ is_resub_of (map snd (issued s)) (resub_list (subs s))).
Proof. exact resub_set_drained_thm. Qed.
Print Assumptions C17_resub_set_drained.

(* the specification determines the request *)
Theorem C17_resub_unique : forall bs r r', is_resub_of bs r -> is_resub_of bs r' -> r = r'.
Proof. exact is_resub_unique. Qed.
Print Assumptions C17_resub_unique.

(* commands are dispatched in the order queued (dispatched ++ queue is a subsequence of the issue history, which is
   numbered increasingly; equal to it unless Stop(true) drained the queue); a command is dispatched only by a dispatcher
   entered after a successful connect + resubscribe, one queued while offline by a dispatcher entered strictly later *)
Theorem C17_fifo : forall c es s, run step (init c) es = Some s -> fifo_order s /\ offline_waits s.
Proof. exact fifo_thm. Qed.
Print Assumptions C17_fifo.

(* what "dispatcher entered" means, and that only a running dispatcher hands commands to the client *)
Theorem C17_fifo_dispatcher : forall c es s e s',
  run step (init c) es = Some s -> step s e = Some s' ->
  (ready s' = ready s \/
   (ready s' = ready s + 1 /\ sp s' = SDispatch /\
    ((exists b, e = EOnline b /\ sp s = SConnecting /\ resub_list (subs s) = []) \/
     (exists id, e = EAck id /\ sp s = SResubWait id /\ store_get id (store s) = Some SResub)))) /\
  (forall id b ok, e = EDispSend id b ok -> sp s = SDispatch) /\
  (forall k, e = EDispErr k -> sp s = SDispatch \/ exists n, sp s = SDispFailing n k).
Proof. exact dispatcher_thm. Qed.
Print Assumptions C17_fifo_dispatcher.

(* a command future is completed only by the acknowledgement of the request it was attached to (through the shared
   store, on whatever connection the acknowledgement arrives; a QoS 0 publish by its successful send), cancelled only by
   a failed dispatch, a queue timeout, the cancellation of the client future it is attached to, Stop(true), or by being
   replaced in the store by a newer request with the same packet id; once resolved it never changes *)
Theorem C17_futures : forall c es s e s' n,
  run step (init c) es = Some s -> step s e = Some s' ->
  (forall st, fut_get n (futs s) = Some FPending -> fut_get n (futs s') = Some st -> st <> FPending -> explains s e n st) /\
  (forall st, fut_get n (futs s) = Some st -> st <> FPending -> fut_get n (futs s') = Some st) /\
  (fut_get n (futs s) <> None -> fut_get n (futs s') <> None) /\
  (forall id, store_get id (store s') = Some (SCmd n) ->
     store_get id (store s) = Some (SCmd n) \/
     exists b b', e = EDispSend id b true /\ dispatching s n b' /\ body_eqb b b' = true /\ is_qos0 b' = false).
Proof. exact futures_thm. Qed.
Print Assumptions C17_futures.

(* quiescence: when Stop returns the supervisor has ended; with clear = true no command future is pending (queued ones
   included); Start afterwards is enabled and yields a fresh supervisor *)
Theorem C17_stop : forall c es s s',
  run step (init c) es = Some s -> step s (EStopRet true) = Some s' ->
  sp s = SEnded /\ sp s' = SIdle /\ ap s' = ANone /\ started s' = false /\ dying s' = false /\
  (ap s = AStop true true ->
     (forall n st, fut_get n (futs s') = Some st -> st <> FPending) /\ queue s' = [] /\ store s' = []) /\
  (ap s = AStop false true -> futs s' = futs s /\ queue s' = queue s /\ store s' = store s) /\
  (exists s'', step s' EStartCall = Some s'' /\ sp s'' = STop true /\ started s'' = true /\ ap s'' = AStart true /\
               kill s'' = false /\ dying s'' = false /\ gen s'' = gen s' + 1).
Proof. exact stop_thm. Qed.
Print Assumptions C17_stop.

(* no supervisor exists while the service is stopped *)
Theorem C17_stop_no_supervisor : forall c es s,
  run step (init c) es = Some s -> (sp s = SIdle <-> (started s = false /\ stopping s = false)).
Proof. exact no_supervisor_when_stopped. Qed.
Print Assumptions C17_stop_no_supervisor.

(* futures survive reconnects: whenever a supervisor (hence possibly a client with its cleanup) exists, the shared
   store is protected, and by C17_futures no supervisor or connection event other than the listed ones resolves a future *)
Theorem C17_store_protected : forall c es s,
  run step (init c) es = Some s -> sp s <> SIdle -> protected s = true.
Proof. exact store_protected. Qed.
Print Assumptions C17_store_protected.

(* why Stop(true) reaches every pending future: it is held by a blocked caller, the queue, the dispatcher, or the store *)
Theorem C17_pending_held : forall c es s n,
  run step (init c) es = Some s -> fut_get n (futs s) = Some FPending -> In n (holders s).
Proof. exact pending_held. Qed.
Print Assumptions C17_pending_held.

(* the predicates the model runner evaluates on the observed requests are these Coq definitions, extracted:
   resub_ok decides is_resub_of; fifo_ok is sound for "a subsequence of the commands in issue order" *)
Theorem C17_resub_ok_reflects : forall bs r, resub_ok bs r = true <-> is_resub_of bs r.
Proof. exact resub_ok_iff. Qed.
Print Assumptions C17_resub_ok_reflects.

Theorem C17_fifo_ok_sound : forall issued seen, fifo_ok seen issued = true -> Subseq seen issued.
Proof. exact fifo_ok_sound. Qed.
Print Assumptions C17_fifo_ok_sound.

(* ---- clauses judged on the observed event sequence alone (ServiceSpec.v): every accepted trace satisfies them, so an
   observed trace that does not is a failing input for the clause, whatever the monitor's state *)

(* lifecycle: Start returns true iff no supervisor is running or being stopped, Stop returns true iff one is running, and
   the supervisor is active only between such a Start and the return of the Stop that ends it *)
Theorem C17_scan_lifecycle : forall c es s, run step (init c) es = Some s -> life_ok es = true.
Proof. exact life_ok_accepted. Qed.
Print Assumptions C17_scan_lifecycle.

(* dispatch gate: a command reaches the client only on a connection that came online and whose resubscribe request (if
   any) was acknowledged; after a failed dispatch / Disconnect / end of the connection, not before the next one is online *)
Theorem C17_scan_gate : forall c es s, run step (init c) es = Some s -> gate_ok es = true.
Proof. exact gate_ok_accepted. Qed.
Print Assumptions C17_scan_gate.

(* "the service reconnects": no control point traps the supervisor — from every one (except a Stop in progress) a finite
   sequence of events (backoff elapses, connect succeeds, resubscribe acknowledged) leads into the dispatcher *)
Theorem C17_reconnect_possible : forall s,
  sp s <> SIdle -> sp s <> SEnded -> sp s <> SClosing true ->
  exists es s', run step s es = Some s' /\ sp s' = SDispatch.
Proof. exact reconnect_possible. Qed.
Print Assumptions C17_reconnect_possible.

(* ---- non-vacuity: accepted traces that exercise the hypotheses *)

Definition ta : topic := [x61].
Definition tb : topic := [x62].
Definition msg1 : message := Msg [x74] [x31] 1 false.

(* start; subscribe b, a (a's SUBACK, id 2, never arrives); connection lost; reconnect with restarted packet ids;
   resubscribe [a; b] under id 2 replaces the pending future of a; acknowledged; a command queued while offline is
   dispatched; Stop(true) cancels what is attached and what is queued *)
Definition trace1 : list event :=
  [EStartCall; EStartRet true; ENext; EOnline false;
   ECmdCall (BSub [(tb, 0)]); ECmdRet; EDispSend 1 (BSub [(tb, 0)]) true; EAck 1;
   ECmdCall (BSub [(ta, 1)]); ECmdRet; EDispSend 2 (BSub [(ta, 1)]) true;
   EKill; EOffline; EBackoff; ECmdCall (BPub msg1); ECmdRet; ENext; EOnline false].

Example C17_nonvacuous_resub :
  exists s s', run step (init 4) trace1 = Some s /\ step s (EResubSend 2 [(ta, 1); (tb, 0)] true) = Some s' /\
               spec_resub (map snd (dispatched s)) = [(ta, 1); (tb, 0)] /\
               fut_get 1 (futs s') = Some (FCancelled CReplaced).
Proof. eexists; eexists. split; [vm_compute; reflexivity|]. split; vm_compute; split; reflexivity. Qed.

Definition trace2 : list event :=
  trace1 ++ [EResubSend 2 [(ta, 1); (tb, 0)] true; EAck 2; EDispSend 3 (BPub msg1) true;
             ECmdCall (BUnsub [tb]); ECmdRet; EStopCall true; EDisconnect; EOffline].

Example C17_nonvacuous_stop :
  exists s s', run step (init 4) trace2 = Some s /\ step s (EStopRet true) = Some s' /\
               ap s = AStop true true /\
               futs s = [(0, FCompleted 1); (1, FCancelled CReplaced); (2, FPending); (3, FPending)] /\
               futs s' = [(0, FCompleted 1); (1, FCancelled CReplaced); (2, FCancelled CStopClear); (3, FCancelled CStopClear)] /\
               dtags s = [(0, 1); (1, 1); (2, 2)] /\ ready s = 2.
Proof. eexists; eexists. split; [vm_compute; reflexivity|]. vm_compute. repeat split. Qed.

(* the scanners do reject: a Start that returns true on a running service; supervisor activity after Stop returned;
   a command handed out before the resubscribe request was acknowledged; a dispatch after a failed one *)
Example C17_scanners_reject :
  life_ok [EStartCall; EStartRet true; EStartCall; EStartRet true] = false /\
  life_ok [EStartCall; EStartRet true; ENext; EStopCall true; ESupExit; EStopRet true; EOffline] = false /\
  gate_ok [ENext; EOnline false; EResubSend 1 [(ta, 1)] true; EDispSend 2 (BPub msg1) true] = false /\
  gate_ok [ENext; EOnline false; EDispSend 1 (BPub msg1) false; EDispErr KPub; EDispSend 2 (BPub msg1) true] = false /\
  gate_ok trace2 = true /\ life_ok (trace2 ++ [EStopRet true]) = true.
Proof. vm_compute. repeat split. Qed.
