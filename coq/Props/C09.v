(* C09 — Client keeps QoS>=1 publishes until acked; futures resolve truthfully and always.
   Only statements, `exact`, and Print Assumptions.  The statements are in Client/ClientSpec.v
   (C09_future_truthful_partial_statement next to its proof in Client/ClientTruth.v); they
   quantify over every trace accepted by the CL monitor Client.step: every broker behaviour, every
   interleaving of API callers, processor, pinger and die body, every failure of a Conn or Session
   call, any number of Client incarnations on one session. *)
From Coq Require Import List NArith ZArith.
From GM Require Import Base.Lts Codec.Packet Session.Store Client.Future Client.Client Client.ClientSpec
  Client.ClientWitness Client.ClientInvSbs Client.ClientInvRx Client.ClientKept Client.ClientTruth Client.ClientTotal
  Client.TraceScan Client.ClientScanProofs Client.ClientHist Client.Tracker Client.ClientPre Client.ClientResend Client.ClientScan3.
Import ListNotations.
Open Scope N_scope.

(* SavePacket(Outgoing, PUBLISH id) succeeded before any Send of that PUBLISH, first or repeated *)
Theorem C09_store_before_send : C09_store_before_send_statement.
Proof. exact store_before_send. Qed.
Print Assumptions C09_store_before_send.

(* an outgoing entry changes only by: DUP set by the resend loop; DeletePacket while an acknowledgement
   carrying its id is being processed; the PUBREL replacing it on PUBREC; a clean-session Reset; a new
   request saved under the same id *)
Theorem C09_kept_until_acked : C09_kept_until_acked_statement.
Proof. exact kept_until_acked. Qed.
Print Assumptions C09_kept_until_acked.

(* an accepted CONNACK only moves the state to Connacked; the processor then lists the whole outgoing store
   and retransmits it in store order, DUP on PUBLISH, PUBREL as such, doing nothing else in between; only
   after the last of them the state becomes Connected and the connect future completes *)
Theorem C09_resend_on_connect : C09_resend_on_connect_statement.
Proof. exact resend_on_connect. Qed.
Print Assumptions C09_resend_on_connect.

(* resend_before_new: while the listing or a retransmission is still due the client is not Connected; whoever
   moves, nothing is written to the connection but the due retransmission (or the pinger's PINGREQ), nothing is
   saved into the outgoing store, and a Publish / Subscribe / Unsubscribe / Disconnect call that gets the mutex
   is refused — no new request overtakes a retransmission, none can be listed (and sent) a second time *)
Theorem C09_resend_before_new : C09_resend_before_new_statement.
Proof. exact resend_before_new. Qed.
Print Assumptions C09_resend_before_new.

(* history form: for every accepted trace and every future that is Completed at its end, the log of
   received packets contains, after the point at which the future was stored (the packet being processed
   at that very moment included), an acknowledgement carrying the future's packet id — a CONNACK with
   code 0 for a connect future —; a QoS 0 publish future: the log of Send calls contains, after that
   point, a successful Send of a QoS 0 PUBLISH (or, which the decoder excludes, an acknowledgement
   carrying id 0) *)
Theorem C09_future_truthful : C09_future_truthful_history_statement.
Proof. exact future_truthful_history. Qed.
Print Assumptions C09_future_truthful.

(* a future turns Completed only while the processor handles an acknowledgement (the last packet
   received) carrying the id it is stored under / at the end of processConnack for an accepted CONNACK (still the last
   packet received), after the listing and the last re-send or when one of them failed / in the QoS 0
   publish call after Send returned nil *)
Theorem C09_future_truthful_partial : C09_future_truthful_partial_statement.
Proof. exact future_truthful_partial. Qed.
Print Assumptions C09_future_truthful_partial.

(* quiescence: client ended, nothing left to run, store unprotected: no stored future is pending;
   a Close/Disconnect on a client whose goroutines were never started can return *)
Theorem C09_future_total : C09_future_total_statement.
Proof. exact future_total. Qed.
Print Assumptions C09_future_total.

(* the typed accessors return a value for every result value, nil included *)
Theorem C09_accessors_total : C09_accessors_total_statement.
Proof. exact accessors_total. Qed.
Print Assumptions C09_accessors_total.

(* the clause scanners that bin/check runs over every OBSERVED event sequence (also over sequences the
   monitor rejects) accept every trace the model accepts: a scanner failing on an observed trace is a
   concrete input on which the implementation leaves the model AND breaks the clause *)
Theorem C09_scan_store_before_send_sound : forall es s, run step init es = Some s -> scan_sbs [] es = true.
Proof. exact scan_sbs_accepted. Qed.
Print Assumptions C09_scan_store_before_send_sound.

Theorem C09_scan_pubrec_sound : forall es s, run step init es = Some s ->
  scan_pubrec XInit es = Some (pexp_of (k_ppc (k s))).
Proof. exact scan_pubrec_accepted. Qed.
Print Assumptions C09_scan_pubrec_sound.

(* retransmission scanner (clauses resend_on_connect and resend_before_new on observed traces): after an
   accepted CONNACK as the first packet the processor's next observable move is the listing; once
   AllPackets(Outgoing) has listed the stored packets, the processor's Sends are exactly these, in listing
   order, DUP set on PUBLISH, PUBREL as it is, nothing else of the processor in between; a failing Send ends
   the obligation; and from that CONNACK until the last listed packet has been handed to the connection no
   API request (PUBLISH dup=0, SUBSCRIBE, UNSUBSCRIBE, DISCONNECT) is sent and nothing but a PUBREL is saved
   into the outgoing store.  Every accepted trace passes; what the scanner still expects at the end describes
   the final state (ClientResend.rr): RDue l only if the processor still has exactly l to re-send *)
Theorem C09_scan_resend_sound : forall es s, run step init es = Some s ->
  exists x, scan_resend RInit es = Some x /\ rr x s.
Proof. exact scan_resend_accepted. Qed.
Print Assumptions C09_scan_resend_sound.

Theorem C09_scan_resend_due : forall es s l, run step init es = Some s ->
  scan_resend RInit es = Some (RDue l) -> exists sp, k_ppc (k s) = PResend sp l.
Proof. exact scan_resend_due. Qed.
Print Assumptions C09_scan_resend_due.

(* kept-until-acknowledged scanner: DeletePacket(Outgoing, id) only as the processor's first move after an
   acknowledgement carrying id, SavePacket(Outgoing, PUBREL id) only as its first move after PUBREC id *)
Theorem C09_scan_kept_sound : forall es s, run step init es = Some s ->
  exists x, scan_kept None es = Some x /\ krel x (k_ppc (k s)).
Proof. exact scan_kept_accepted. Qed.
Print Assumptions C09_scan_kept_sound.

(* client.Tracker (keep-alive arithmetic) and the pinger's rule, over an explicit clock (Client/Tracker.v) *)
Local Open Scope Z_scope.
Theorem C09_tracker_window : forall (t : tracker) (r now1 now2 : BinNums.Z), now1 <= now2 ->
  tk_window (tk_reset t r) now2 <= tk_window (tk_reset t r) now1 /\
  (tk_window (tk_reset t r) now1 < 0 <-> tk_timeout t < now1 - r).
Proof. intros t r n1 n2 H. split; [exact (window_decreases t r n1 n2 H)|exact (window_negative_iff t r n1)]. Qed.
Print Assumptions C09_tracker_window.

Theorem C09_tracker_pending : forall (t : tracker) (n : BinNums.Z), outstanding t n -> (tk_pending t = true <-> 0 < n).
Proof. exact pending_iff. Qed.
Print Assumptions C09_tracker_pending.
Local Close Scope Z_scope.

Theorem C09_pinger_never_second_ping : forall ops t0,
  Forall (fun b => b = false) (r_sent (tk_exec (TkRun t0 false []) ops)).
Proof. exact never_second_ping. Qed.
Print Assumptions C09_pinger_never_second_ping.

(* non-vacuity: Connect, CONNACK, Publish(QoS 1), PUBACK, future completed, Disconnect — accepted, all
   boolean checkers true, quiescent *)
Example C09_nonvacuous : exists s, run step init witness_roundtrip = Some s /\
  store_before_send_ok s = true /\ truthful_ok s = true /\ quiescent s = true /\ pending_futures s = [].
Proof. exact roundtrip_accepted. Qed.
