(* C09 — Client keeps QoS>=1 publishes until acked; futures resolve truthfully and always.
   Only statements, `exact`, and Print Assumptions. *)
From Coq Require Import List NArith.
From GM Require Import Base.Lts Codec.Packet Session.Store Client.Future Client.Client Client.ClientSpec Client.ClientWitness.
Import ListNotations.
Open Scope N_scope.

Theorem C09_accessors_total : C09_accessors_total_statement.
Proof. exact accessors_total. Qed.
Print Assumptions C09_accessors_total.
