(* C15 — Per-publisher message order is preserved end to end, including retransmissions.
   Only statements, `exact`, Print Assumptions.

   End-to-end order is the composition of order-preserving stages; each stage has its theorem
   (for all interleavings / histories of its own model), the whole-broker runs of the check
   (go/cmd/system c15) observe the composition on sampled schedules:

   publisher's connection   the processor hands publishes to the backend in arrival order,
      (Broker/Conn.v)       one backend Publish per received packet, QoS 2 in PUBREL order with
                            the stored message intact                     C15_in_order, C15_release_intact
   backend queues           per session and queue: dequeued ++ queued = what was enqueued, in
      (Broker/Backend.v)    publish order (FIFO, one copy)                C15_queue_fifo
   subscriber's connection  the dequeuer forwards in dequeue order, one PUBLISH per dequeue
                                                                          C15_dequeue_order
   retransmission           what the session lists on resume — and what is then re-sent, in
                            that order, before anything new (C08_resend) — is in the order in
                            which the ids were FIRST saved, i.e. of their original transmission;
                            a PUBREL keeps the place of its PUBLISH          C15_resend_order, C15_store_order
   service                  commands are dispatched first-in first-out      C15_service_fifo
   (the client library's arrival-order delivery to the application is C10_qos01 / the client
   monitor: one sequential processor goroutine, callback before the next Receive) *)
From Coq Require Import List NArith Bool Sorting.Sorted.
From Coq.Strings Require Import Byte.
From GM Require Import Base.Lts Codec.Packet Session.Ids Session.Store Session.StoreSpec Session.StoreProofs
  Broker.Conn Broker.ConnSpec Broker.ConnSpec2 Broker.ConnProofsD1.
(* the other stages' theorems live in their own files (name clashes between the models): *)
From GM Require Props.C15_backend Props.C15_service Props.C15_conn.
Import ListNotations.
Open Scope N_scope.

Theorem C15_in_order : forall es s, bc_run es = Some s -> c15_in_order es = true.
Proof. exact c15_in_order_holds. Qed.
Print Assumptions C15_in_order.

Theorem C15_release_intact : forall es s, bc_run es = Some s -> c15_release_intact es = true.
Proof. exact c15_release_intact_holds. Qed.
Print Assumptions C15_release_intact.

Theorem C15_dequeue_order : forall es s, bc_run es = Some s -> c15_dequeue_order es = true.
Proof. exact c15_dequeue_order_holds. Qed.
Print Assumptions C15_dequeue_order.

Theorem C15_resend_order : forall es s, bc_run es = Some s -> c15_resend_order es = true.
Proof. exact c15_resend_order_holds. Qed.
Print Assumptions C15_resend_order.

(* the session store itself: for every operation history the listing is the one of the
   specification (StoreSpec.dspec_all: ids in first-save order, a replaced packet keeps its place) *)
Theorem C15_store_order : forall ops,
  snd (sess_run session_new ops) = snd (sspec_run sspec_new ops).
Proof. intros ops. exact (proj1 (session_refines_spec ops _ _ srel_new)). Qed.
Print Assumptions C15_store_order.
