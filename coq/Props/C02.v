(* C02 — Decoder is total, memory-safe, local and spec-faithful on arbitrary bytes.

   decode_go / detect_go (Codec/Dec.v) mirror Type.New().Decode / DetectPacket of
   /repo/packet statement by statement (tie: checks/C02.py, go/cmd/codecdec);
   ref_decode / extent (Codec/RefDecode.v) is the independent MQTT 3.1.1 reference.
   The ownership clause is decided on the Go side of the tie (buffer scribbling). *)
From Coq Require Import List NArith ZArith Bool.
From Coq.Strings Require Import Byte.
From GM Require Import Codec.Packet Codec.WF Codec.Dec Codec.RefDecode.
From GM Require Import Codec.DecProofsBase Codec.DecProofsSafe Codec.DecProofsLocal
     Codec.DecProofsSpec3 Codec.DecProofsFwd Codec.DecProofsDetect.
From GM Require Codec.DetectEquiv Codec.ReadSpec Stream.Stream Stream.StreamProofs Stream.StreamCodec
     Stream.ReadSpecProofs.
Import ListNotations.
Open Scope N_scope.

(* ---- total and memory-safe, on ALL byte lists ---- *)
Theorem C02_no_panic : forall t bs, decode_go t bs <> DPanic /\ detect_go bs <> DetPanic.
Proof. intros t bs. split; [apply decode_no_panic | apply detect_no_panic]. Qed.
Print Assumptions C02_no_panic.

Theorem C02_consumed : forall t bs r n,
  decode_go t bs = DOk r n \/ decode_go t bs = DErr n -> n <= N.of_nat (length bs).
Proof. exact decode_consumed. Qed.
Print Assumptions C02_consumed.

(* ---- spec-faithful: accepts iff the reference accepts, same fields, same count ---- *)
(* the full statement; false of the faithful model for CONNECT on unframed buffers (below) *)
Definition C02_spec_equiv_full : Prop :=
  forall t bs p n, decode_go t bs = DOk p n <-> ref_decode t bs = Some (p, n).

(* every type but CONNECT on arbitrary buffers; CONNECT on buffers framed to the declared
   extent, which is how the stream decoder (Decoder.Read) always calls Decode *)
Theorem C02_spec_equiv : forall t bs p n,
  t <> TConnect \/ extent bs = Some (N.of_nat (length bs)) ->
  (decode_go t bs = DOk p n <-> ref_decode t bs = Some (p, n)).
Proof.
  intros t bs p n [H | H]; [apply spec_equiv; exact H | apply spec_equiv_framed; exact H].
Qed.
Print Assumptions C02_spec_equiv.

Definition connect_short : bytes :=   (* CONNECT, remaining length 10, but a 12-byte body follows *)
  [x10; x0a; x00; x04; x4d; x51; x54; x54; x04; x02; x00; x0a; x00; x00].

Theorem C02_spec_equiv_connect_refuted :
  exists bs p n, decode_go TConnect bs = DOk p n /\ ref_decode TConnect bs = None.
Proof.
  exists connect_short. eexists. eexists. split; vm_compute; reflexivity.
Qed.
Print Assumptions C02_spec_equiv_connect_refuted.

(* ---- local: the result depends only on the packet's own header-declared extent ---- *)
Definition C02_local_full : Prop :=
  forall t bs tail n, extent bs = Some n -> n <= N.of_nat (length bs) ->
    decode_go t (bs ++ tail) = decode_go t (firstn (N.to_nat n) bs).

Theorem C02_local : forall t bs tail n,
  t <> TConnect -> extent bs = Some n -> n <= N.of_nat (length bs) ->
  decode_go t (bs ++ tail) = decode_go t (firstn (N.to_nat n) bs).      (* result and count *)
Proof. exact decode_local. Qed.
Print Assumptions C02_local.

(* CONNECT reads on past its declared extent: open known finding KF-C02-connect-overread *)
Theorem C02_local_connect_refuted :
  exists bs tail n, extent bs = Some n /\ n <= N.of_nat (length bs) /\
    decode_go TConnect (bs ++ tail) <> decode_go TConnect (firstn (N.to_nat n) bs).
Proof.
  exists (firstn 12 connect_short), [x00; x00], 12.
  split; [vm_compute; reflexivity |]. split; [vm_compute; discriminate |].
  vm_compute. discriminate.
Qed.
Print Assumptions C02_local_connect_refuted.

(* what does hold for CONNECT: a packet that decodes when framed to its extent decodes to
   the same packet and count whatever follows it *)
Theorem C02_local_connect_partial : forall bs tail n p m,
  extent bs = Some n -> n <= N.of_nat (length bs) ->
  decode_go TConnect (firstn (N.to_nat n) bs) = DOk p m ->
  decode_go TConnect (bs ++ tail) = DOk p m.
Proof. exact connect_local_partial. Qed.
Print Assumptions C02_local_connect_partial.

(* ---- every admitted application message can be encoded again for forwarding ----
   (WF.forwardable; the encoder side proves wf -> encodable) *)
Theorem C02_forwardable : forall bs d m id n,
  decode_go TPublish bs = DOk (Publish d m id) n -> forwardable m.
Proof. exact publish_forwardable_thm. Qed.
Print Assumptions C02_forwardable.

Theorem C02_forwardable_will : forall bs c m n,
  decode_go TConnect bs = DOk (Connect c) n -> c_will c = Some m -> forwardable m.
Proof. exact will_forwardable_thm. Qed.
Print Assumptions C02_forwardable_will.

(* ---- DetectPacket: whenever the remaining length has at most 4 bytes the reported
   length is the extent decodeHeader computes, and the type is the first nibble
   (L7: it also answers for type nibbles 0/15 and longer varints, which Decode rejects) ---- *)
Theorem C02_detect_agrees : forall bs l t n,
  detect_go bs = Detected l t -> extent bs = Some n ->
  l = Z.of_N n /\ exists b0 r, bs = b0 :: r /\ t = Byte.to_N b0 / 16.
Proof. exact detect_agrees. Qed.
Print Assumptions C02_detect_agrees.

(* the same against decodeHeader itself: a header it accepts (valid static type, varint of at
   most 4 bytes, packet wholly in the buffer) is detected with that length and type *)
Theorem C02_detect_agrees_header : forall bs ty total flags rl,
  decode_header bs ty = HOk total flags rl ->
  detect_go bs = Detected (Z.of_N (total + rl)) (type_code ty).
Proof. exact detect_agrees_header. Qed.
Print Assumptions C02_detect_agrees_header.

(* what packet.Decoder.Read makes of DetectPacket's answer (it only tests `packetLength <= 0`):
   a positive length with its type, or "need more" — on ALL byte lists this view of detect_go is
   Stream.detect_impl, the arithmetic statement of DetectPacket (Uvarint by sums, unsigned total
   modulo 2^64 taken as positive below 2^63).  Judged on the implementation as clause detect_view. *)
Theorem C02_detect_view : forall bs,
  Stream.detect_impl bs = DetectEquiv.abs_det (detect_go bs).
Proof. exact DetectEquiv.detect_equiv. Qed.
Print Assumptions C02_detect_view.

(* ---- observed at packet.Decoder.Read: one Read of the stream decoder (model Stream.dec_read with
   detect_impl and Type.New + decode_go), on every chunked byte stream, with every read limit and
   every source ending, returns exactly what ReadSpec.read_spec says: the packet iff the reference
   decoder accepts the frame the fixed header declares (same fields, same byte range), and otherwise
   the right error (EOF / unexpected EOF / detection overflow / read limit / invalid type / decode
   error), leaving exactly the bytes behind the frame.  Judged on the implementation as clause
   stream_read (first Read and the Read after a packet). ---- *)
Theorem C02_stream_read : forall lim cs e,
  StreamProofs.view (Stream.dec_read Stream.detect_impl StreamCodec.codec_decode lim (Stream.dinit cs e))
  = ReadSpec.read_spec lim (concat cs) e.
Proof. exact ReadSpecProofs.read_chunked_is_spec. Qed.
Print Assumptions C02_stream_read.

(* ---- non-vacuity ---- *)
Definition bs_of (l : list N) : bytes :=
  map (fun n => match Byte.of_N n with Some b => b | None => x00 end) l.

Definition samples : list (ptype * bytes) :=
  [ (TConnect, bs_of [16;33;0;4;77;81;84;84;4;238;0;10;0;2;105;100;0;1;119;0;2;1;2;0;4;117;115;101;114;0;4;112;97;115;115]);
    (TConnect, bs_of [16;14;0;6;77;81;73;115;100;112;3;2;0;0;0;0]);
    (TConnack, bs_of [32;2;1;5]);
    (TPublish, bs_of [61;8;0;3;97;47;98;255;255;9]);
    (TPublish, bs_of [48;3;0;1;97]);
    (TPuback, bs_of [64;2;0;1]); (TPubrec, bs_of [80;2;1;0]); (TPubrel, bs_of [98;2;255;255]);
    (TPubcomp, bs_of [112;2;0;7]);
    (TSubscribe, bs_of [130;12;0;9;0;1;97;2;0;3;98;47;35;0]);
    (TSuback, bs_of [144;5;0;9;0;1;128]);
    (TUnsubscribe, bs_of [162;9;0;9;0;1;97;0;2;43;47]);
    (TUnsuback, bs_of [176;2;0;9]);
    (TPingreq, bs_of [192;0]); (TPingresp, bs_of [208;0]); (TDisconnect, bs_of [224;0]);
    (TPingreq, bs_of [192;128;128;128;0]) ].       (* L3: non-minimal 4-byte remaining length *)

(* every sample decodes, the reference agrees, the whole buffer is the extent, and
   appending a tail changes nothing *)
Example C02_nonvacuous :
  forallb (fun tb : ptype * bytes =>
    let (t, bs) := tb in
    match decode_go t bs, ref_decode t bs, extent bs, decode_go t (bs ++ [xff; x30]) with
    | DOk p n, Some (p', n'), Some e, DOk p'' n'' =>
        packet_eqb p p' && (n =? n') && (n =? N.of_nat (length bs)) && (e =? n)
        && packet_eqb p p'' && (n =? n'')
    | _, _, _, _ => false
    end) samples = true.
Proof. vm_compute. reflexivity. Qed.

Example C02_nonvacuous_types :
  map (fun tb => type_code (fst tb)) samples = [1;1;2;3;3;4;5;6;7;8;9;10;11;12;13;14;12].
Proof. reflexivity. Qed.

(* a decoded publish and a decoded will, as the hypotheses of C02_forwardable require *)
Example C02_nonvacuous_forwardable :
  (exists d m id n, decode_go TPublish (bs_of [61;8;0;3;97;47;98;255;255;9]) = DOk (Publish d m id) n
                    /\ m_qos m = 2) /\
  (exists c m n, decode_go TConnect (snd (hd (TConnect, []) samples)) = DOk (Connect c) n /\ c_will c = Some m).
Proof.
  split.
  - do 4 eexists. split; vm_compute; reflexivity.
  - do 3 eexists. split; vm_compute; reflexivity.
Qed.

(* detection on the same samples: DetectPacket reports the extent *)
Example C02_nonvacuous_detect :
  forallb (fun tb : ptype * bytes =>
    match detect_go (snd tb), extent (snd tb) with
    | Detected l t, Some e => Z.eqb l (Z.of_N e) && (t =? type_code (fst tb))
    | _, _ => false
    end) samples = true.
Proof. vm_compute. reflexivity. Qed.

(* read_spec on a stream of two packets, a truncated packet, a 5-byte remaining length, and a
   4-byte (non-minimal) remaining length that a decoder peeking only 4 header bytes would miss *)
Example C02_nonvacuous_stream :
  (let '(r, al, pk, rest) := ReadSpec.read_spec 0 (bs_of [48;3;0;1;97; 192;0]) Stream.SEof in
   match r with Stream.RPacket fr (Publish _ m _) => (m_topic m, al, pk, rest) = (bs_of [97], Some 5, 2, bs_of [192;0]) | _ => False end) /\
  ReadSpec.read_spec 0 (bs_of [48;3;0;1]) Stream.SEof = (Stream.RFail Stream.EUnexpectedEof, Some 5, 2, []) /\
  ReadSpec.read_spec 0 (bs_of [192;128;128;128;128;0]) Stream.SEof
    = (Stream.RFail Stream.EDetectionOverflow, None, 5, bs_of [192;128;128;128;128;0]) /\
  ReadSpec.read_spec 0 (bs_of [192;128;128;128;0]) Stream.SEof = (Stream.RPacket (bs_of [192;128;128;128;0]) Pingreq, Some 5, 5, []) /\
  ReadSpec.read_spec 4 (bs_of [48;3;0;1;97]) Stream.SEof = (Stream.RFail Stream.EReadLimit, None, 2, bs_of [48;3;0;1;97]).
Proof. vm_compute. repeat split; reflexivity. Qed.

(* rejections: QoS 3, packet id 0, empty topic, reserved flags, wrong remaining length *)
Example C02_rejects :
  forallb (fun tb : ptype * bytes =>
    match decode_go (fst tb) (snd tb), ref_decode (fst tb) (snd tb) with
    | DErr _, None => true
    | _, _ => false
    end)
    [ (TPublish, bs_of [54;3;0;1;97]); (TPublish, bs_of [50;5;0;1;97;0;0]); (TPublish, bs_of [48;2;0;0]);
      (TPuback, bs_of [65;2;0;1]); (TConnack, bs_of [32;3;0;0;0]); (TSubscribe, bs_of [130;2;0;1]);
      (TConnect, firstn 12 connect_short) ] = true.
Proof. vm_compute. reflexivity. Qed.
