(* C02 — Decoder is total, memory-safe, local and spec-faithful on arbitrary bytes. *)
From Coq Require Import List NArith ZArith Bool.
From Coq.Strings Require Import Byte.
From GM Require Import Codec.Packet Codec.WF Codec.Dec Codec.RefDecode.
Import ListNotations.
Open Scope N_scope.
