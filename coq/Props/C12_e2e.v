(* C12 — Will is published exactly once iff an accepted client ends without DISCONNECT — END TO END:
   the connection clause (Props/C12.v: c12_will, "the connection hands the will to the backend exactly once iff ...")
   and the backend theorems (Props/C06.v, Props/C11.v: a Publish is delivered to the sessions matching at that moment,
   the retained store is updated; a closing publisher is never refused) composed over a whole run

       will owner's connection esW (model BC) -> backend history ops (model MB) -> subscriber's connection esS (model BC)

   with the glue of Props/C15_e2e.v (glue_publish, glue_dequeue: the backend calls seen in the connection traces ARE
   the operations of the history).  Definitions: Broker/WillE2E.v; proofs: Broker/WillE2EProofs.v.  Only statements,
   `exact`, Print Assumptions, and non-vacuity examples.

   Read off the connection trace, in the vocabulary of c12_will (wl_st), for the LAST connection of the trace:
     will_of, connect_accepted (Setup succeeded), disconnected (DISCONNECT received), ended (EClosed),
     ended_uncleanly = ended and not disconnected, will_due = the will if accepted and ended uncleanly,
     will_pubs = number of Publish calls of the connection's cleanup, closing = its transport was closed.

   C12_e2e_will_once    a will m is due.  Then for a position esW = es1 ++ [EPub g m None] ++ es2:
       (a) will_handed_once: that event is the ONLY Publish of the connection's cleanup (will_pubs 0 before, 1 at the
           end), with exactly the message m; it happens when the transport has been closed (the connection is dying)
           and after the connection's last ordinary Publish: nothing is handed to the backend afterwards;
       (b) if the call has returned in the history (will_returned), it is the last returned Publish x of the clients
           cPs there, by a client of cPs with message m, and will_step_spec m x holds: the call returns nil or
           ErrQueueFull; on nil every session gets on the queue of the will's QoS class exactly one copy — topic,
           payload, QoS as published, retain flag cleared (capped to the granted QoS when dequeued: C06_qos) — iff it
           holds a matching filter AT THAT STEP and that queue has room, and the retained store is updated iff m is
           retained (ret_spec).  If it has not returned, all returned Publishes of cPs are ordinary ones.
           THE EXCEPTIONS, as the backend model has them:
           - a session with a matching filter whose queue is FULL gets nothing, and that happens on nil only if the
             session is offline or its connection is closing (st_dying) — including the dying publisher's OWN session
             (fix d814c38 / 25be3de, DESIGN.md 12.4 D22: a closing publisher's own full queue is skipped, not refused);
           - ErrQueueFull is returned exactly when own_full: the backend does NOT see the publisher as closing, its
             own session matches and its own queue is full — then nothing at all happens: no delivery, no retained
             update.  MB marks a connection as closing (st_dying) only when the backend itself closes it (takeover,
             backend Close); it has no operation for a connection that dies by itself, although in the Go code
             client.Closing() has fired whenever the cleanup publishes the will.  So "the will is never refused" needs
             the further glue condition "mem_n c (st_dying st) = true at the will's step", which will_step_spec
             offers as a premise (then r = ROk): see C12_e2e_own_queue_full and the two example histories;
       (c) the subscriber's connection forwards the will's content as a fresh PUBLISH at most as often as x enqueued it
           for session k (at most once) plus as often as the rest of the history did (elsewhere: the same content
           published otherwise, retained replays to k); every fresh PUBLISH it sends is one it dequeued, intact and
           QoS-capped from one enqueued for k.
   C12_e2e_will_at_most_once   (c) when nothing else brings that content to k (will_fresh, decidable): at most ONE
                        fresh PUBLISH with the will's topic and payload on the subscriber's wire.
   C12_e2e_will_never   the connection has ended after a received DISCONNECT, or its CONNECT was not accepted
                        (authentication denied or failed, Setup failed): no will is due, the cleanup has handed nothing
                        to the backend (every Publish without closure on the connection was the processor's), and — with
                        the glue — every returned Publish of the clients cPs in the history IS one EPub of the trace,
                        none of which (on that connection) is the cleanup's: no operation publishes the will.
   C12_will_link        the clause will_link (c12_will + c20_closes + "a Publish only before the cleanup's", "the
                        cleanup publishes only after the transport was closed", "after EClosed only closures run") holds
                        of every trace BC accepts; C12_e2e_conn_once / C12_e2e_conn_never are (a) and "never" from the
                        clause alone, so that they apply to traces observed on the implementation.
   C12_e2e_backend_step the backend part (b) for any returned Publish of any history. *)
From Coq Require Import List NArith Bool.
From Coq.Strings Require Import Byte.
From GM Require Import Base.Lts Codec.Packet Session.Store Broker.Conn Broker.ConnSpec Broker.ConnSpec6
  Broker.ConnProofsDTraces
  Broker.EndToEnd Broker.WillE2E Broker.WillE2EProofs.
(* the backend model is used qualified (Backend.v and Conn.v both define step / state / session) *)
From GM Require Broker.Backend Broker.BackendSpec Broker.BackendProofsHist Broker.BackendLog.
Import ListNotations.
Open Scope N_scope.

Theorem C12_e2e_will_once : forall cap ops cPs k esW esS sW sS m,
  bc_run esW = Some sW -> bc_run esS = Some sS ->
  BackendLog.names_ok ops = true ->
  glue_publish cPs esW (history cap ops) ->
  glue_dequeue k esS (history cap ops) ->
  will_due esW = Some m ->
  exists es1 g es2,
    will_handed_once esW m es1 g es2 /\
    (will_returned cPs esW (history cap ops) ->
       exists tr1 x tr2,
         history cap ops = tr1 ++ x :: tr2 /\
         pub_call_of cPs x = Some m /\ pub_calls cPs tr1 = published es1 /\ pub_calls cPs tr2 = [] /\
         will_step_spec m x /\
         (length (will_copies k x) <= 1)%nat /\
         (count_key (m_topic m) (m_payload m) (forwarded esS) <=
            length (will_copies k x) + elsewhere k (m_topic m) (m_payload m) tr1 tr2)%nat) /\
    (~ will_returned cPs esW (history cap ops) ->
       prefix_of (pub_calls cPs (history cap ops)) (published es1)) /\
    (forall y, In y (forwarded esS) ->
       In y (dequeued esS) /\ exists temp z, In z (enqueued k temp (history cap ops)) /\ capped y z).
Proof. exact will_e2e_once. Qed.
Print Assumptions C12_e2e_will_once.

Theorem C12_e2e_will_at_most_once : forall cap ops cPs k esW esS sW sS m,
  bc_run esW = Some sW -> bc_run esS = Some sS ->
  BackendLog.names_ok ops = true ->
  glue_publish cPs esW (history cap ops) ->
  glue_dequeue k esS (history cap ops) ->
  will_due esW = Some m ->
  will_returned cPs esW (history cap ops) ->
  will_fresh cPs k m (history cap ops) = true ->
  (count_key (m_topic m) (m_payload m) (forwarded esS) <= 1)%nat.
Proof. exact will_e2e_at_most_once. Qed.
Print Assumptions C12_e2e_will_at_most_once.

Theorem C12_e2e_will_never : forall esW sW,
  bc_run esW = Some sW -> ended esW = true ->
  disconnected esW = true \/ connect_accepted esW = false ->
  will_due esW = None /\ will_pubs esW = 0 /\
  (forall es1 g m' es2, esW = es1 ++ EPub g m' None :: es2 -> ~ In ENewConn es2 -> by_cleanup es1 g = false) /\
  (forall cap ops cPs, glue_publish cPs esW (history cap ops) ->
     forall tr1 x tr2 m', history cap ops = tr1 ++ x :: tr2 -> pub_call_of cPs x = Some m' ->
       exists es1 g ko es2, esW = es1 ++ EPub g m' ko :: es2 /\ published es1 = pub_calls cPs tr1 /\
         (~ In ENewConn es2 -> ko = None -> by_cleanup es1 g = false)).
Proof. exact will_e2e_never. Qed.
Print Assumptions C12_e2e_will_never.

(* the own-full-queue exception of the backend model, for the publisher's own session *)
Theorem C12_e2e_own_queue_full : forall cap ops st c m got r st1 k s,
  BackendLog.names_ok ops = true ->
  In (st, Backend.OPublish c m got, r, st1) (history cap ops) -> returned r = true ->
  Backend.session_of st c = Some (k, s) ->
  BackendSpec.has_match (Backend.s_subs s) (m_topic m) = true ->
  Backend.is_full (Backend.st_cap st) (BackendLog.queue (Backend.use_temp m) s) = true ->
  (Backend.mem_n c (Backend.st_dying st) = true ->
     r = Backend.ROk /\ will_copies k (st, Backend.OPublish c m got, r, st1) = []) /\
  (Backend.mem_n c (Backend.st_dying st) = false -> r = Backend.RQueueFull /\ st1 = st).
Proof. exact will_own_queue_full. Qed.
Print Assumptions C12_e2e_own_queue_full.

(* the stages *)
Theorem C12_will_link : forall es s, bc_run es = Some s -> will_link es = true.
Proof. exact will_link_holds. Qed.
Print Assumptions C12_will_link.

Theorem C12_e2e_conn_once : forall es m,
  will_link es = true -> hd_error es = Some ENewConn -> will_due es = Some m ->
  exists es1 g es2, will_handed_once es m es1 g es2.
Proof. exact will_once_conn. Qed.
Print Assumptions C12_e2e_conn_once.

Theorem C12_e2e_conn_never : forall es,
  will_link es = true -> ended es = true -> will_due es = None ->
  will_pubs es = 0 /\
  forall es1 g m' es2, es = es1 ++ EPub g m' None :: es2 -> ~ In ENewConn es2 -> by_cleanup es1 g = false.
Proof. exact will_never_conn. Qed.
Print Assumptions C12_e2e_conn_never.

Theorem C12_e2e_backend_step : forall cap ops st c m got r st1,
  BackendLog.names_ok ops = true ->
  In (st, Backend.OPublish c m got, r, st1) (history cap ops) -> returned r = true ->
  will_step_spec m (st, Backend.OPublish c m got, r, st1).
Proof. exact MB.will_step_holds. Qed.
Print Assumptions C12_e2e_backend_step.

(* ------------------------------------------------------------ non-vacuity: a composed run with a will *)

(* The will: topic "w/1", payload "x", QoS 1, retain.  Its owner (client 3 of the backend, client id "c") publishes a
   QoS 0 message on "t", then its peer vanishes: the cleanup publishes the will, terminates, closes. *)
Definition ex_w : message := Msg [x77; x2f; x31] [x78] 1 true.
Definition ex_cw : connect := Conn [x63] 0 [] [] true (Some ex_w) 4.
Definition ex_will_conn : list event :=
  [ENewConn; ERx 2 (Connect ex_cw); EAuth 2 AOk; ESetup 2 (SOk false false 10 10 10);
   ETx 2 (Connack false 0) false true; EAll 2 Outgoing (Some []); ERestore 2 true; EDeqCall 3;
   ERx 2 (Publish false td_q0 0); EPub 2 td_q0 None; EPubRet 2 true;
   ERxErr 2; EDie 2 KTransport; EConnClose 2; EDeqRet 3 QNone;
   EPub 4 ex_w None; EPubRet 4 true; ETerm 4 true; EClosed].

(* The backend: session "s" (client 1) holds "w/#" at QoS 0, session "o" (client 2) holds "t" at QoS 1 — it does not
   match the will's topic; client 3's two Publishes; then the Dequeues of the two sessions. *)
Definition ex_will_ops : list Backend.op :=
  [Backend.OSetup 1 [x73] false; Backend.OSubscribe 1 [([x77; x2f; x23], 0)] [[]];
   Backend.OSetup 2 [x6f] false; Backend.OSubscribe 2 [([x74], 1)] [[]];
   Backend.OSetup 3 [x63] true;
   Backend.OPublish 3 td_q0 []; Backend.OPublish 3 ex_w []; Backend.OTerminate 3;
   Backend.ODequeue 1 false; Backend.ODequeue 1 false; Backend.ODequeue 2 true; Backend.ODequeue 2 false].
Definition ex_kA : Backend.skey := Backend.KStored [x73].
Definition ex_kB : Backend.skey := Backend.KStored [x6f].

(* The subscriber "s": it dequeues the will — retain flag cleared, QoS capped to the granted 0 — and forwards it. *)
Definition ex_w0 : message := Msg [x77; x2f; x31] [x78] 0 false.
Definition ex_will_sub : list event :=
  td_open td_conn 2 10 false [] ++
  [EDeqCall 3; EDeqRet 3 (QMsg ex_w0 false); ETx 3 (Publish false ex_w0 0) true true;
   EDeqCall 3; EQuiescent] ++ td_lost 2 3 4.

(* the composed run satisfies every hypothesis of C12_e2e_will_once and of C12_e2e_will_at_most_once *)
Example C12_e2e_witness :
  (exists s, bc_run ex_will_conn = Some s) /\ (exists s, bc_run ex_will_sub = Some s) /\
  BackendLog.names_ok ex_will_ops = true /\
  glue_publish [3] ex_will_conn (history 10 ex_will_ops) /\
  glue_dequeue ex_kA ex_will_sub (history 10 ex_will_ops) /\
  will_due ex_will_conn = Some ex_w /\
  will_returned [3] ex_will_conn (history 10 ex_will_ops) /\
  will_fresh [3] ex_kA ex_w (history 10 ex_will_ops) = true /\
  will_of ex_will_conn = Some ex_w /\ connect_accepted ex_will_conn = true /\ disconnected ex_will_conn = false /\
  ended_uncleanly ex_will_conn = true /\ will_pubs ex_will_conn = 1 /\
  published ex_will_conn = [td_q0; ex_w] /\ pub_calls [3] (history 10 ex_will_ops) = [td_q0; ex_w] /\
  forwarded ex_will_sub = [ex_w0].
Proof.
  split; [vm_compute; eexists; reflexivity|]. split; [vm_compute; eexists; reflexivity|].
  split; [vm_compute; reflexivity|].
  split; [exists []; vm_compute; reflexivity|]. split; [exists []; vm_compute; reflexivity|].
  vm_compute. repeat split; reflexivity.
Qed.

(* ... and so the theorems apply: at most one fresh PUBLISH with the will's content on the subscriber's wire *)
Example C12_e2e_witness_once :
  (count_key (m_topic ex_w) (m_payload ex_w) (forwarded ex_will_sub) <= 1)%nat /\
  exists es1 g es2, will_handed_once ex_will_conn ex_w es1 g es2.
Proof.
  destruct C12_e2e_witness as ((sW & HW) & (sS & HS) & Hn & Gp & Gd & Hd & Hr & Hf & _).
  split.
  - exact (C12_e2e_will_at_most_once 10 ex_will_ops [3] ex_kA ex_will_conn ex_will_sub sW sS ex_w HW HS Hn Gp Gd Hd Hr Hf).
  - destruct (C12_e2e_will_once 10 ex_will_ops [3] ex_kA ex_will_conn ex_will_sub sW sS ex_w HW HS Hn Gp Gd Hd)
      as (es1 & g & es2 & Ha & _).
    exists es1, g, es2. exact Ha.
Qed.

(* what the run shows, computed: (a) the position of the will's Publish — after the transport was closed, the last
   thing handed to the backend; (b) the will's step is the 7th of the history: it returns nil, session "s" (matching
   filter) gets exactly one copy on the stored queue, session "o" (no matching filter) and the owner's own session
   (no subscription) get none, the retained store holds the will afterwards; (c) the subscriber forwards it once,
   capped to QoS 0, and the copy count bounds it: 1 <= 1 + 0 *)
Example C12_e2e_witness_values :
  will_handed_once ex_will_conn ex_w (firstn 15 ex_will_conn) 4 (skipn 16 ex_will_conn) /\
  closing (firstn 13 ex_will_conn) = false /\ closing (firstn 14 ex_will_conn) = true /\
  match nth_error (history 10 ex_will_ops) 6 with
  | Some (st, o, r, st1) =>
      o = Backend.OPublish 3 ex_w [] /\ r = Backend.ROk /\
      will_copies ex_kA (st, o, r, st1) = [live ex_w] /\
      BackendLog.enq_event ex_kA false st o r = [live ex_w] /\ BackendLog.enq_event ex_kA true st o r = [] /\
      will_copies ex_kB (st, o, r, st1) = [] /\ will_copies (Backend.KTemp 3) (st, o, r, st1) = [] /\
      Backend.mem_n 3 (Backend.st_dying st) = false /\ BackendSpec.own_full st 3 ex_w = false /\
      Backend.st_retained st = [] /\ Backend.st_retained st1 = [([x77; x2f; x31], ex_w)] /\
      elsewhere ex_kA (m_topic ex_w) (m_payload ex_w) (firstn 6 (history 10 ex_will_ops)) (skipn 7 (history 10 ex_will_ops)) = 0%nat
  | None => False
  end /\
  deq_results ex_kA (history 10 ex_will_ops) = [ex_w0] /\ capped ex_w0 ex_w /\
  deq_results ex_kB (history 10 ex_will_ops) = [td_q0] /\
  count_key (m_topic ex_w) (m_payload ex_w) (forwarded ex_will_sub) = 1%nat.
Proof.
  split.
  - unfold will_handed_once. split; [vm_compute; reflexivity|].
    split; [vm_compute; reflexivity|]. split; [vm_compute; reflexivity|]. split; [vm_compute; reflexivity|].
    split; [vm_compute; reflexivity|]. split; [vm_compute; reflexivity|].
    vm_compute. intros H. repeat (destruct H as [H|H]; [discriminate H|]). exact H.
  - vm_compute. repeat split; try reflexivity; discriminate.
Qed.

(* ------------------------------------------------------------ non-vacuity: DISCONNECT, authentication denied *)

(* the same client sends DISCONNECT: no will, although one was announced; the backend history of its connection shows
   no Publish of client 3 at all *)
Definition ex_disc_conn : list event :=
  [ENewConn; ERx 2 (Connect ex_cw); EAuth 2 AOk; ESetup 2 (SOk false false 10 10 10);
   ETx 2 (Connack false 0) false true; EAll 2 Outgoing (Some []); ERestore 2 true; EDeqCall 3;
   ERx 2 (Publish false td_q0 0); EPub 2 td_q0 None; EPubRet 2 true;
   ERx 2 Disconnect; EConnClose 2; EDeqRet 3 QNone; ETerm 4 true; EClosed].
Definition ex_disc_ops : list Backend.op :=
  [Backend.OSetup 1 [x73] false; Backend.OSubscribe 1 [([x77; x2f; x23], 0)] [[]];
   Backend.OSetup 3 [x63] true; Backend.OPublish 3 td_q0 []; Backend.OTerminate 3;
   Backend.ODequeue 1 false; Backend.ODequeue 1 true].
(* the CONNECT is refused: not authorised *)
Definition ex_deny_conn : list event :=
  [ENewConn; ERx 2 (Connect ex_cw); EAuth 2 ADeny; ETx 2 (Connack false 5) false true; EDie 2 KClient; EConnClose 2; EClosed].

Example C12_e2e_witness_never :
  (exists s, bc_run ex_disc_conn = Some s) /\ ended ex_disc_conn = true /\ disconnected ex_disc_conn = true /\
  will_of ex_disc_conn = Some ex_w /\ connect_accepted ex_disc_conn = true /\
  BackendLog.names_ok ex_disc_ops = true /\ glue_publish [3] ex_disc_conn (history 10 ex_disc_ops) /\
  published ex_disc_conn = [td_q0] /\ pub_calls [3] (history 10 ex_disc_ops) = [td_q0] /\
  deq_results ex_kA (history 10 ex_disc_ops) = [] /\
  Backend.st_retained (Backend.run_state (Backend.init 10) ex_disc_ops) = [] /\
  (exists s, bc_run ex_deny_conn = Some s) /\ ended ex_deny_conn = true /\ connect_accepted ex_deny_conn = false /\
  will_of ex_deny_conn = Some ex_w /\ published ex_deny_conn = [].
Proof.
  split; [vm_compute; eexists; reflexivity|]. split; [vm_compute; reflexivity|]. split; [vm_compute; reflexivity|].
  split; [vm_compute; reflexivity|]. split; [vm_compute; reflexivity|]. split; [vm_compute; reflexivity|].
  split; [exists []; vm_compute; reflexivity|].
  split; [vm_compute; reflexivity|]. split; [vm_compute; reflexivity|]. split; [vm_compute; reflexivity|].
  split; [vm_compute; reflexivity|].
  split; [vm_compute; eexists; reflexivity|]. vm_compute. repeat split; reflexivity.
Qed.

(* ... and so C12_e2e_will_never applies to both: no will is due, the cleanup published nothing *)
Example C12_e2e_witness_never_applies :
  will_due ex_disc_conn = None /\ will_pubs ex_disc_conn = 0 /\
  will_due ex_deny_conn = None /\ will_pubs ex_deny_conn = 0.
Proof.
  destruct C12_e2e_witness_never as ((s1 & H1) & E1 & D1 & _ & _ & _ & _ & _ & _ & _ & _ & (s2 & H2) & E2 & A2 & _).
  destruct (C12_e2e_will_never ex_disc_conn s1 H1 E1 (or_introl D1)) as (X1 & X2 & _).
  destruct (C12_e2e_will_never ex_deny_conn s2 H2 E2 (or_intror A2)) as (Y1 & Y2 & _).
  repeat split; assumption.
Qed.

(* ------------------------------------------------------------ the own-full-queue exception, on two histories *)

(* SessionQueueSize 1.  The will's owner (client 3, id "c") itself holds "w/#", and so does session "s" (client 1).
   A message on "w/0" fills both stored queues; "s" drains its queue, the owner does not.  Then the will.
   (1) The connection died by itself: MB does not see client 3 as closing, the pre-check refuses the will with
       ErrQueueFull and nothing happens — "s" does not get it, it is not retained.  (In the Go code client.Closing()
       has fired by then and the call is accepted as in (2): MB has no operation for a connection closing itself.)
   (2) The connection was taken over (Setup of client 4 with the same id closes client 3: st_dying): the will is
       accepted, the owner's own full queue is skipped, "s" gets its copy, the will is retained. *)
Definition ex_y : message := Msg [x77; x2f; x30] [x79] 1 false.
Definition ex_full_ops (takeover : bool) : list Backend.op :=
  [Backend.OSetup 3 [x63] false; Backend.OSubscribe 3 [([x77; x2f; x23], 1)] [[]];
   Backend.OSetup 1 [x73] false; Backend.OSubscribe 1 [([x77; x2f; x23], 1)] [[]];
   Backend.OPublish 9 ex_y []; Backend.ODequeue 1 false] ++
  (if takeover then [Backend.OSetup 4 [x63] false] else []) ++
  [Backend.OPublish 3 ex_w []; Backend.OTerminate 3; Backend.OMarkClosed 3] ++
  (if takeover then [Backend.OSetupEnd false] else []) ++
  [Backend.ODequeue 1 false].
Definition ex_kC : Backend.skey := Backend.KStored [x63].

Example C12_e2e_own_queue_full_refused :
  BackendLog.names_ok (ex_full_ops false) = true /\
  match nth_error (history 1 (ex_full_ops false)) 6 with
  | Some (st, o, r, st1) =>
      o = Backend.OPublish 3 ex_w [] /\
      (exists s, Backend.session_of st 3 = Some (ex_kC, s) /\
                 BackendSpec.has_match (Backend.s_subs s) (m_topic ex_w) = true /\
                 Backend.is_full (Backend.st_cap st) (BackendLog.queue (Backend.use_temp ex_w) s) = true) /\
      Backend.mem_n 3 (Backend.st_dying st) = false /\
      r = Backend.RQueueFull /\ st1 = st /\
      will_copies ex_kA (st, o, r, st1) = [] /\ will_copies ex_kC (st, o, r, st1) = []
  | None => False
  end /\
  Backend.st_retained (Backend.run_state (Backend.init 1) (ex_full_ops false)) = [] /\
  deq_results ex_kA (history 1 (ex_full_ops false)) = [ex_y].
Proof.
  split; [vm_compute; reflexivity|]. split; [|vm_compute; split; reflexivity].
  vm_compute. split; [reflexivity|]. split; [eexists; repeat split; reflexivity|]. repeat split; reflexivity.
Qed.

Example C12_e2e_own_queue_full_skipped :
  BackendLog.names_ok (ex_full_ops true) = true /\
  match nth_error (history 1 (ex_full_ops true)) 7 with
  | Some (st, o, r, st1) =>
      o = Backend.OPublish 3 ex_w [] /\
      (exists s, Backend.session_of st 3 = Some (ex_kC, s) /\
                 BackendSpec.has_match (Backend.s_subs s) (m_topic ex_w) = true /\
                 Backend.is_full (Backend.st_cap st) (BackendLog.queue (Backend.use_temp ex_w) s) = true) /\
      Backend.mem_n 3 (Backend.st_dying st) = true /\
      r = Backend.ROk /\
      will_copies ex_kA (st, o, r, st1) = [live ex_w] /\ will_copies ex_kC (st, o, r, st1) = []
  | None => False
  end /\
  Backend.st_retained (Backend.run_state (Backend.init 1) (ex_full_ops true)) = [([x77; x2f; x31], ex_w)] /\
  deq_results ex_kA (history 1 (ex_full_ops true)) = [ex_y; live ex_w].
Proof.
  split; [vm_compute; reflexivity|]. split; [|vm_compute; split; reflexivity].
  vm_compute. split; [reflexivity|]. split; [eexists; repeat split; reflexivity|]. repeat split; reflexivity.
Qed.

(* the clause will_link rejects what it should: a will published while the transport is open; an ordinary Publish after
   the will; anything of the connection after EClosed — and a second will, a will after DISCONNECT (c12_will);
   it holds of the observed life cycles *)
Example C12_e2e_clause_discriminates :
  let pro := [ENewConn; ERx 2 (Connect ex_cw); EAuth 2 AOk; ESetup 2 (SOk false false 10 10 10)] in
  will_link (pro ++ [EPub 4 ex_w None]) = false /\
  will_link (pro ++ [EConnClose 5; EPub 4 ex_w None; EPub 2 td_q0 None]) = false /\
  c12_will (pro ++ [EConnClose 5; EPub 4 ex_w None; EPub 2 td_q0 None]) = true /\
  will_link (pro ++ [EConnClose 5; EPub 4 ex_w None; EPubRet 4 true; ETerm 4 true; EClosed; ERx 2 Pingreq]) = false /\
  will_link (pro ++ [EConnClose 5; EPub 4 ex_w None; EPub 4 ex_w None]) = false /\
  will_link (pro ++ [ERx 2 Disconnect; EConnClose 2; EPub 4 ex_w None]) = false /\
  will_link (pro ++ [EConnClose 5; EPub 4 ex_w None; EPubRet 4 true; ETerm 4 true; EClosed; EAckCall 1 2]) = true /\
  forallb will_link [ex_will_conn; ex_disc_conn; ex_deny_conn; td_life; td_resume; td_in_q1; td_in_q2] = true.
Proof. vm_compute. repeat split; reflexivity. Qed.
