(* C20 — Nothing is processed before an accepted CONNECT; each request gets its response.

   Property (properties.jsonl, C20): the broker acts on no packet before it has accepted a
   CONNECT as the first packet of the connection: anything else first closes the connection
   without a reply, failed authentication yields a not-authorised CONNACK and nothing more
   (no session, no subscription, no delivery, no will), and a second CONNECT or a
   server-only packet closes the connection.  Once connected, every SUBSCRIBE is answered
   by a SUBACK with the same id and one return code per requested filter in request order,
   every UNSUBSCRIBE by an UNSUBACK with the same id, every PINGREQ by a PINGRESP, and never
   more than one CONNACK is sent.

   The theorems are about BC (coq/Broker/Conn.v), the monitor of one broker connection
   (/repo/broker/client.go) over the events a recording Conn/Session/Backend observe;
   bc_run es = Some s says "the model accepts the trace es".  The clauses are the scanners
   of coq/Broker/ConnSpec.v, which look at the trace alone.  For EVERY accepted trace:

   C20_gate            Between ENewConn and an `Auth ok` of a goroutine that received CONNECT
                       as the first packet, no event acts on the connection's behalf
                       (no packet sent, no Subscribe/Unsubscribe/Publish/Dequeue/Setup/
                       Restore/Terminate call).  After `Auth deny`: exactly one
                       CONNACK(session-present = false, code 5), then nothing.  After an
                       authentication error or a first packet that is not CONNECT: nothing.
   C20_single_connack  At most one CONNACK per connection; a goroutine that received a
                       second CONNECT or a server-only packet (CONNACK, SUBACK, UNSUBACK,
                       PINGRESP) sends nothing afterwards.
   C20_responses       (also C07 "acks only for invoked closures") SUBACK/UNSUBACK/PUBACK/
                       PUBCOMP are sent only by a non-processor goroutine, only for a request
                       whose ack closure the backend has invoked on this connection, with
                       exactly the id (and, for SUBACK, the requested QoS codes in request
                       order) of the request the closure was handed out for, each at most once;
                       the closure is handed out only while the processor holds the matching
                       request (SUBSCRIBE / UNSUBSCRIBE / QoS 1 PUBLISH with the same message /
                       PUBREL); the processor itself sends no SUBACK/UNSUBACK/PUBACK, a PUBCOMP
                       only for a PUBREL whose id the session does not know, a PINGRESP only
                       for an unanswered PINGREQ, one for one.  At quiescence (connection
                       alive, nothing moves) every invoked closure's packet has been sent and
                       every PINGREQ is answered.
   C20_tokens          (ConnSpec3.v; also C07's publish tokens) A request is not given up for
                       lack of a token while tokens are free: counting, per connection, the
                       subscribe tokens in use as (SUBSCRIBE/UNSUBSCRIBE requests passed on to
                       the backend) minus (SUBACK/UNSUBACK packets sent successfully by a
                       non-processor goroutine), and the publish tokens in use as (QoS 1
                       publishes passed on + QoS 2 publishes stored) minus (PUBACK/PUBCOMP
                       sent successfully by a non-processor goroutine), a client-error death of
                       a processor that still holds a SUBSCRIBE/UNSUBSCRIBE (resp. QoS>0
                       PUBLISH) it has not passed on happens only when the tokens in use are at
                       least the configured number of parallel subscribes (resp. publishes).
   C20_spec            the conjunction spec_c20 of the first three.

   Only statements, `exact`, Print Assumptions, and non-vacuity examples. *)
From Coq Require Import List NArith Bool.
From Coq.Strings Require Import Byte.
From GM Require Import Base.Lts Codec.Packet Session.Store Broker.Conn Broker.ConnSpec Broker.ConnSpec3
  Broker.ConnProofsA_gate Broker.ConnProofsA_sc Broker.ConnProofsA_resp2 Broker.ConnProofsA_all
  Broker.ConnProofsA_tok Broker.ConnProofsA_traces.
Import ListNotations.
Open Scope N_scope.

Theorem C20_gate : forall es s, bc_run es = Some s -> c20_gate es = true.
Proof. exact c20_gate_holds. Qed.
Print Assumptions C20_gate.

Theorem C20_single_connack : forall es s, bc_run es = Some s -> c20_single_connack es = true.
Proof. exact c20_single_connack_holds. Qed.
Print Assumptions C20_single_connack.

Theorem C20_responses : forall es s, bc_run es = Some s -> c20_responses es = true.
Proof. exact c20_responses_holds. Qed.
Print Assumptions C20_responses.

Theorem C20_tokens : forall es s, bc_run es = Some s -> c20_tokens es = true.
Proof. exact c20_tokens_holds. Qed.
Print Assumptions C20_tokens.

Theorem C20_spec : forall es s, bc_run es = Some s -> spec_c20 es = true.
Proof. exact spec_c20_holds. Qed.
Print Assumptions C20_spec.

(* ---- non-vacuity: concrete traces the model accepts (most of them observed on the
   implementation by go/cmd/brokerconn; see Broker/ConnProofsA_traces.v) ---- *)

(* the accepted path: CONNECT, auth ok, setup, CONNACK, a SUBSCRIBE whose closure the
   backend invokes synchronously, the acker sends the SUBACK, a PINGREQ answered, quiescence,
   then the peer goes away and cleanup terminates the session *)
Example C20_nonvacuous : exists s,
  bc_run [ENewConn; ERx 2 (Connect (Conn [x63] 0 [] [] true None 4)); EAuth 2 AOk;
          ESetup 2 (SOk false false 10 10 10); ETx 2 (Connack false 0) false true;
          EAll 2 Outgoing (Some []); ERestore 2 true; EDeqCall 3;
          ERx 2 (Subscribe 7 [([x61], 1); ([x62; x2f; x23], 2)]);
          ESub 2 [([x61], 1); ([x62; x2f; x23], 2)] 1; EAckCall 1 2; EAckRet 1 2; ESubRet 2 true;
          ETx 4 (Suback 7 [1; 2]) true true;
          ERx 2 Pingreq; ETx 2 Pingresp true true; EQuiescent;
          ERxErr 2; EDie 2 KTransport; EConnClose 2; EDeqRet 3 QNone; ETerm 5 true; EClosed] = Some s.
Proof. vm_compute. eexists. reflexivity. Qed.

(* authentication denied: one CONNACK(5), then the connection is closed *)
Example C20_nonvacuous_deny : exists s,
  bc_run [ENewConn; ERx 2 (Connect (Conn [x63] 0 [] [] true (Some (Msg [x6d] [x09] 1 false)) 4));
          EAuth 2 ADeny; ETx 2 (Connack false 5) false true; EDie 2 KClient; EConnClose 2; EClosed] = Some s.
Proof. vm_compute. eexists. reflexivity. Qed.

(* the first packet is not CONNECT: no reply, no call *)
Example C20_nonvacuous_first_not_connect : exists s,
  bc_run [ENewConn; ERx 2 (Pubrel 6); EDie 2 KClient; EConnClose 2; EClosed] = Some s.
Proof. vm_compute. eexists. reflexivity. Qed.

(* a DISCONNECT *)
Example C20_nonvacuous_disconnect : exists s,
  bc_run [ENewConn; ERx 2 (Connect (Conn [x63] 0 [] [] true None 4)); EAuth 2 AOk;
          ESetup 2 (SOk false false 10 10 10); ETx 2 (Connack false 0) false true;
          EAll 2 Outgoing (Some []); ERestore 2 true; EDeqCall 3;
          ERx 2 Disconnect; EConnClose 2; EDeqRet 3 QNone; ETerm 4 true; EClosed] = Some s.
Proof. vm_compute. eexists. reflexivity. Qed.

(* observed traces: pipelined requests acknowledged late and out of order; a second CONNECT;
   a failing PINGRESP write; subscribe tokens running out and coming back; a token-wait
   timeout; a QoS 2 handshake whose retransmitted PUBREL the processor answers itself;
   two connections in one session lifetime *)
Example C20_nonvacuous_observed :
  forallb accepted_a [tr_pipe; tr_deny; tr_first_not_connect; tr_second_connect; tr_failsend;
                      tr_sub_tokens; tr_token_timeout; tr_q2_retx; tr_first_not_connect ++ tr_pipe] = true.
Proof. vm_compute. reflexivity. Qed.

(* the clauses are not trivially true: traces the scanners reject (none of them is
   accepted by the model, by the theorems above) *)
Example C20_clauses_discriminate :
  c20_gate [ENewConn; ERx 2 (Pubrel 6); ETx 2 (Pubcomp 6) true true] = false /\
  c20_gate [ENewConn; ERx 2 (Connect (Conn [] 0 [] [] true None 4)); EAuth 2 ADeny;
            ETx 2 (Connack false 5) false true; ESub 2 [] 1] = false /\
  c20_single_connack [ENewConn; ETx 2 (Connack false 0) false true; ETx 2 (Connack false 0) false true] = false /\
  c20_responses [ENewConn; ERx 2 (Subscribe 7 [([x61], 1)]); ESub 2 [([x61], 1)] 1; ETx 4 (Suback 7 [1]) true true] = false /\
  c20_responses [ENewConn; ERx 2 (Subscribe 7 [([x61], 1)]); ESub 2 [([x61], 1)] 1; EAckCall 1 2;
                 ETx 4 (Suback 7 [2]) true true] = false /\
  c20_responses [ENewConn; ERx 2 Pingreq; EQuiescent] = false /\
  (* a token-wait timeout although both subscribe tokens are free *)
  c20_tokens [ENewConn; ERx 2 (Connect (Conn [] 0 [] [] true None 4)); EAuth 2 AOk; ESetup 2 (SOk false false 10 10 2);
              ERx 2 (Subscribe 8 [([x61], 1)]); EDie 2 KClient] = false /\
  (* ... and with the only token in use (observed trace): fine *)
  c20_tokens tr_token_timeout = true.
Proof. vm_compute. repeat split; reflexivity. Qed.
