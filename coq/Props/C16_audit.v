(* C16 — clauses added by the clause-by-clause audit (/verif/audit/C16.md).  Only statements,
   `exact`, Print Assumptions, Examples.

   C16_quiescent_dequeuing (ConnSpec6.v) whenever the connection is quiescent (alive, nothing moves,
                        the subscriber has nothing left to acknowledge) the dequeuer is inside
                        Backend.Dequeue: it holds a window slot and is asking for the next message; it
                        is not waiting for a slot and has not stopped.  (The trace counterpart of
                        C16_quiescent_in_dequeue; the harness reports quiescence at the end of every
                        fully acknowledged stream even when messages are still queued.)
   C16_dequeued_is_sent (ConnSpec5.v c06_forward_intact, also C06) every message taken from the backend
                        is sent, intact, as one PUBLISH before the next one is taken.
   C16_acted_on         (ConnSpec6.v) no PUBACK / PUBCOMP is dropped: the stored packet is deleted (and
                        with it, C16_ack_returns, the slot returned) before the processor reads again. *)
From Coq Require Import List NArith Bool.
From GM Require Broker.ConnProofsD5.
From GM Require Import Base.Lts Codec.Packet Session.Store Broker.Conn Broker.ConnSpec Broker.ConnSpec2 Broker.ConnSpec5
  Broker.ConnSpec6 Broker.ConnProofsE2 Broker.ConnProofsE5 Broker.ConnProofsD3.
Import ListNotations.
Open Scope N_scope.

Theorem C16_quiescent_dequeuing : forall es s, bc_run es = Some s -> c16_quiescent_dequeuing es = true.
Proof. exact c16_quiescent_dequeuing_holds. Qed.
Print Assumptions C16_quiescent_dequeuing.

Theorem C16_dequeued_is_sent : forall es s, bc_run es = Some s -> c06_forward_intact es = true.
Proof. exact c06_forward_intact_holds. Qed.
Print Assumptions C16_dequeued_is_sent.

Theorem C16_acted_on : forall es s, bc_run es = Some s -> c20_acted_on es = true.
Proof. exact c20_acted_on_holds. Qed.
Print Assumptions C16_acted_on.

(* "retransmissions after a resume included": the dequeuer does not start (and so cannot take a window slot for a fresh
   message) before every stored packet has been re-sent — clause c15_resend_first, proved in ConnProofsD5.v *)
Theorem C16_resend_before_dequeue : forall es s, bc_run es = Some s -> c15_resend_first es = true.
Proof. exact GM.Broker.ConnProofsD5.c15_resend_first_holds. Qed.
Print Assumptions C16_resend_before_dequeue.

Example C16_audit_rejects :
  c16_quiescent_dequeuing [ENewConn; EDeqCall 3; EDeqRet 3 (QMsg e_m1 false); EQuiescent] = false /\
  c16_quiescent_dequeuing [ENewConn; EDeqCall 3; EQuiescent] = true.
Proof. vm_compute. split; reflexivity. Qed.
