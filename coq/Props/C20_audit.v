(* C20 — clauses added by the clause-by-clause audit (/verif/audit/C20.md).  Only statements,
   `exact`, Print Assumptions, Examples.

   C20_acted_on   (ConnSpec6.v) no received packet is dropped or skipped: before it receives again
                  (and before the connection is quiescent) a goroutine has performed the first step its
                  last packet calls for — Authenticate for CONNECT; the backend call for SUBSCRIBE /
                  UNSUBSCRIBE; PINGRESP for PINGREQ; Publish / Save for PUBLISH; Lookup for PUBREL;
                  Delete / Save for the subscriber's acknowledgements; closing for DISCONNECT — or has
                  reported a client error, which is the only thing it can do with a first packet that
                  is not CONNECT, a second CONNECT or a server-only packet.  With C20_responses (the
                  closure is handed out for exactly the request in hand; every invoked closure's packet
                  leaves) this is "every request is answered unless the backend withholds its
                  acknowledgement", and "anything else first / a server-only packet ... closes the
                  connection" (nothing is read after it).
   C20_closes     (ConnSpec6.v) no connection ends (EClosed) without its transport having been closed
                  by the client object; a connection whose authentication was denied does not end
                  before the CONNACK(not authorised) has been handed to the transport. *)
From Coq Require Import List NArith Bool.
From GM Require Import Base.Lts Codec.Packet Session.Store Broker.Conn Broker.ConnSpec Broker.ConnSpec6
  Broker.ConnProofsE2 Broker.ConnProofsE3 Broker.ConnProofsE5.
Import ListNotations.
Open Scope N_scope.

Theorem C20_acted_on : forall es s, bc_run es = Some s -> c20_acted_on es = true.
Proof. exact c20_acted_on_holds. Qed.
Print Assumptions C20_acted_on.

Theorem C20_closes : forall es s, bc_run es = Some s -> c20_closes es = true.
Proof. exact c20_closes_holds. Qed.
Print Assumptions C20_closes.

Example C20_audit_rejects :
  c20_acted_on [ENewConn; ERx 2 (Subscribe 7 [([Byte.x61], 1)]); ERx 2 Pingreq] = false /\
  c20_acted_on [ENewConn; ERx 2 Pingresp; ERxErr 2] = false /\
  c20_closes [ENewConn; ERx 2 (Pubrel 6); EDie 2 KClient; EClosed] = false /\
  c20_closes [ENewConn; EAuth 2 ADeny; EDie 2 KClient; EConnClose 2; EClosed] = false.
Proof. vm_compute. repeat split; reflexivity. Qed.
