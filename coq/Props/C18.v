(* C18 — Packet ids: never zero, no repeat within 65535 allocations; store is a map.
   Only statements, `exact`, and Print Assumptions. *)
From Coq Require Import List NArith.
From GM Require Import Codec.Packet Session.Ids Session.IdsProofs
  Session.Store Session.StoreSpec Session.StoreProofs.
Import ListNotations.
Open Scope N_scope.

(* every id handed out, from every state, at every position, is non-zero *)
Theorem C18_nonzero : forall s k, nth_id s k <> 0.
Proof. exact nth_id_nonzero. Qed.
Print Assumptions C18_nonzero.

(* closed form of the k-th allocation from any of the 65536 states *)
Theorem C18_closed : forall s k, s < 65536 ->
  nth_id s k = ((N.max s 1 - 1 + N.of_nat k) mod 65535) + 1.
Proof. exact nth_id_closed. Qed.
Print Assumptions C18_closed.

(* any two allocations less than 65535 apart are different *)
Theorem C18_distinct : forall s k1 k2, s < 65536 -> (k1 < k2)%nat ->
  N.of_nat k2 - N.of_nat k1 < 65535 -> nth_id s k1 <> nth_id s k2.
Proof. exact nth_id_distinct. Qed.
Print Assumptions C18_distinct.

(* any window of at most 65535 consecutive allocations: pairwise distinct, no zero *)
Theorem C18_window : forall s n, s < 65536 -> N.of_nat n <= 65535 ->
  NoDup (fst (take_ids s n)) /\ ~ In 0 (fst (take_ids s n)).
Proof. exact take_ids_nodup. Qed.
Print Assumptions C18_window.

(* a reset restarts at 1 *)
Theorem C18_reset : forall k, nth_id reset_ids k = (N.of_nat k mod 65535) + 1.
Proof. exact reset_starts_at_one. Qed.
Print Assumptions C18_reset.

(* for every operation history the session answers exactly as the specification
   (per direction a map id -> last packet saved, listing in first-save order,
   the other direction untouched, packets without id ignored) *)
Theorem C18_store_map : forall ops,
  snd (sess_run session_new ops) = snd (sspec_run sspec_new ops).
Proof. intros ops. exact (proj1 (session_refines_spec ops _ _ srel_new)). Qed.
Print Assumptions C18_store_map.

(* non-vacuity: the wrap state, and a history that exercises overwrite, delete, both directions *)
Example C18_nonvacuous :
  fst (take_ids 65535 3) = [65535; 1; 2] /\
  snd (sess_run session_new
        [OSave Outgoing (Publish false (Msg [] [] 1 false) 7); OSave Outgoing (Puback 9);
         OSave Outgoing (Pubrel 7); OSave Incoming Pingreq; OAll Outgoing; ODelete Outgoing 7;
         OLookup Outgoing 7; OAll Incoming; OAll Outgoing])
  = [RUnit; RUnit; RUnit; RUnit; RAll [Pubrel 7; Puback 9]; RUnit; RPacket None; RAll []; RAll [Puback 9]].
Proof. split; vm_compute; reflexivity. Qed.
