(* C15 — Per-publisher message order is preserved END TO END — and C06's "once, intact, QoS-capped"
   on the same path: the stages of Props/C15.v / Props/C06.v composed into theorems about a whole run

       publisher's wire -> publisher's connection -> backend queues -> subscriber's connection -> subscriber's wire
          arrived esP        esP (model BC)          ops (model MB)       esS (model BC)           forwarded esS

   (definitions: Broker/EndToEnd.v; proofs: Broker/EndToEndProofs*.v).  Only statements, `exact`,
   Print Assumptions, and non-vacuity examples.

   The two models are joined by the GLUE conditions

     glue_publish cPs esP tr   the Publish calls of the publisher's clients cPs that returned in the backend
                               history are, in order, the EPub events of the publisher's connection trace (which
                               may end with a call that has not returned);
     glue_dequeue k esS tr     the messages the subscriber's connection trace obtained (EDeqRet) are, in order,
                               the results of the Dequeue operations on session k of the history (which may end
                               with a Dequeue whose return the trace does not show).

   They hold by construction in the Go code — broker/client.go calls backend.Publish / backend.Dequeue
   directly, on the goroutine that logs the event — and are the only assumption beyond the two models.

   C15_e2e_order        For a FLOW — messages, selected by topic and payload, that only one publisher publishes
                        and all in one QoS class (QoS 0: the temporary queue; QoS > 0: the stored queue; the two
                        queues of a session are not ordered against each other), not the publisher's will and not
                        replayed to the subscriber as retained messages — the fresh PUBLISHes of the flow on the
                        subscriber's wire embed in order (Emb) into the ARRIVALS on the publisher's wire: each is
                        carried — same topic and payload, QoS not raised — by an arrival of its own, a later one
                        by a later arrival.  An arrival is a QoS 0/1 PUBLISH (carrying its message) or a PUBREL id
                        (carrying the message of a QoS 2 PUBLISH received before it under packet id id: PUBREL
                        order is the order of QoS 2 messages).  Hence no two messages of one publisher on one
                        queue are swapped between the two wires, none is delivered that did not arrive and none
                        more often than it arrived.
   C15_e2e_order_flat   when every arrival carries one message (no packet id used for two different QoS 2
                        messages): the flow on the subscriber's wire is, message for message, a subsequence of
                        the messages on the publisher's wire in arrival order.
   C15_e2e_order_clauses   the same from the two per-connection trace clauses instead of acceptance by BC, so
                        that it applies to traces observed on the implementation and judged by the clauses.
   C15_forward_link / C15_arrival_link   the two clauses hold of every trace BC accepts.  (c15_dequeue_order,
                        c06_forward_intact and c15_in_order keep their books per goroutine and let a goroutine
                        without an entry do anything; the order of a connection as a whole needs in addition that
                        the connection has one dequeuer and one processor, which is what these two clauses say.)
   C06_e2e_intact_once  every fresh PUBLISH on the subscriber's wire carries a message the connection dequeued,
                        which is — topic and payload intact, QoS not raised — one the delivery specification of
                        the backend (BackendLog.enq_event, C06_delivery_log) enqueued for that session; and for
                        every (topic, payload): #forwarded <= #dequeued <= #enqueued for the session.
   C06_e2e_forwarded_origin   ... spelled out: it stems from a Publish that returned nil while the session held a
                        matching filter, or from the retained replay of a Subscribe on the session.

   Why the candidates of a PUBREL are "the QoS 2 PUBLISHes received before under that id" and not "the latest
   one": BC accepts C15_e2e_q2_witness below, where the latest one could not be stored (SavePacket failed, the
   connection died) and the PUBREL on the resumed connection releases the earlier message. *)
From Coq Require Import List NArith Bool.
From Coq.Strings Require Import Byte.
From GM Require Import Base.Lts Codec.Packet Session.Store Broker.Conn Broker.ConnSpec Broker.ConnSpec2 Broker.ConnSpec5
  Broker.ConnProofsDTraces
  Broker.EndToEnd Broker.EndToEndProofsLists Broker.EndToEndProofsConn Broker.EndToEndProofs.
(* the backend model is used qualified (Backend.v and Conn.v both define step / state / session) *)
From GM Require Broker.Backend Broker.BackendSpec Broker.BackendProofsHist Broker.BackendLog.
Import ListNotations.
Open Scope N_scope.

Theorem C15_e2e_order : forall cap ops cPs k temp fl esP esS sP sS,
  bc_run esP = Some sP -> bc_run esS = Some sS ->
  BackendLog.names_ok ops = true ->
  glue_publish cPs esP (history cap ops) ->
  glue_dequeue k esS (history cap ops) ->
  flow_exclusive fl cPs k temp (history cap ops) = true ->
  no_will_in_flow fl esP = true ->
  Emb carries (filter (in_flow fl) (forwarded esS)) (arrived esP).
Proof. exact e2e_order. Qed.
Print Assumptions C15_e2e_order.

Theorem C15_e2e_order_clauses : forall cap ops cPs k temp fl esP esS,
  arrival_link esP = true -> forward_link esS = true ->
  BackendLog.names_ok ops = true ->
  glue_publish cPs esP (history cap ops) ->
  glue_dequeue k esS (history cap ops) ->
  flow_exclusive fl cPs k temp (history cap ops) = true ->
  no_will_in_flow fl esP = true ->
  Emb carries (filter (in_flow fl) (forwarded esS)) (arrived esP).
Proof. exact e2e_order_clauses. Qed.
Print Assumptions C15_e2e_order_clauses.

(* the same as two sequences of messages, when every arrival carries one message (the publisher does not
   use one packet id for two different QoS 2 messages): the flow on the subscriber's wire is, message for
   message, a subsequence of the publisher's wire in arrival order *)
Theorem C15_e2e_order_flat : forall cap ops cPs k temp fl esP esS sP sS,
  bc_run esP = Some sP -> bc_run esS = Some sS ->
  BackendLog.names_ok ops = true ->
  glue_publish cPs esP (history cap ops) ->
  glue_dequeue k esS (history cap ops) ->
  flow_exclusive fl cPs k temp (history cap ops) = true ->
  no_will_in_flow fl esP = true ->
  unambiguous esP = true ->
  Emb capped (filter (in_flow fl) (forwarded esS)) (arrived_msgs esP).
Proof. exact e2e_order_flat. Qed.
Print Assumptions C15_e2e_order_flat.

Theorem C15_forward_link : forall es s, bc_run es = Some s -> forward_link es = true.
Proof. exact forward_link_holds. Qed.
Print Assumptions C15_forward_link.

Theorem C15_arrival_link : forall es s, bc_run es = Some s -> arrival_link es = true.
Proof. exact arrival_link_holds. Qed.
Print Assumptions C15_arrival_link.

Theorem C06_e2e_intact_once : forall cap ops k esS sS,
  bc_run esS = Some sS ->
  BackendLog.names_ok ops = true ->
  glue_dequeue k esS (history cap ops) ->
  (forall x, In x (forwarded esS) ->
     In x (dequeued esS) /\
     exists temp y, In y (enqueued k temp (history cap ops)) /\ capped x y) /\
  (forall t p,
     (count_key t p (forwarded esS) <= count_key t p (dequeued esS))%nat /\
     (count_key t p (dequeued esS) <=
        count_key t p (enqueued k true (history cap ops)) + count_key t p (enqueued k false (history cap ops)))%nat).
Proof. exact e2e_intact_once. Qed.
Print Assumptions C06_e2e_intact_once.

Theorem C06_e2e_forwarded_origin : forall cap ops k esS sS x,
  bc_run esS = Some sS ->
  BackendLog.names_ok ops = true ->
  glue_dequeue k esS (history cap ops) ->
  In x (forwarded esS) ->
  exists st o r st1 s, In (st, o, r, st1) (history cap ops) /\ Backend.get_session st k = Some s /\
    match o with
    | Backend.OPublish c m got =>
        r = Backend.ROk /\ m_topic x = m_topic m /\ m_payload x = m_payload m /\ m_qos x <= m_qos m /\
        BackendSpec.has_match (Backend.s_subs s) (m_topic m) = true
    | Backend.OSubscribe c subs batches =>
        BackendLog.holds st c k = true /\ exists y, In y (concat batches) /\ capped x y
    | _ => False
    end.
Proof. exact e2e_forwarded_origin. Qed.
Print Assumptions C06_e2e_forwarded_origin.

(* ------------------------------------------------------------ non-vacuity: a composed run *)

(* Publisher (client 2 of the backend): QoS 0, QoS 1, QoS 1 (retain set), QoS 2 on topic "t" — four backend
   Publishes, the QoS 2 one at its PUBREL. *)
Definition ex_pub : list event :=
  td_open td_conn 2 10 false [] ++
  [EDeqCall 3;
   ERx 2 (Publish false td_q0 0); EPub 2 td_q0 None; EPubRet 2 true;
   ERx 2 (Publish false td_q1 7); EPub 2 td_q1 (Some 1); EAckCall 1 2; EAckRet 1 2; EPubRet 2 true;
   ETx 4 (Puback 7) true true;
   ERx 2 (Publish true td_q1b 8); EPub 2 td_q1b (Some 2); EPubRet 2 true; EAckCall 2 9; EAckRet 2 9;
   ETx 4 (Puback 8) true true;
   ERx 2 (Publish false td_q2 1); ESave 2 Incoming (Publish false td_q2 1) true; ETx 2 (Pubrec 1) true true;
   ERx 2 (Pubrel 1); ELookup 2 Incoming 1 (LRes (Some (Publish false td_q2 1)));
   EPub 2 td_q2 (Some 3); EAckCall 3 2; EDelete 2 Incoming 1 true; EAckRet 3 2; EPubRet 2 true;
   ETx 4 (Pubcomp 1) true true;
   EQuiescent] ++ td_lost 2 3 5.

(* Backend: subscriber "s" (client 1) holds "t" at QoS 2; the four Publishes of client 2; the subscriber's
   Dequeues take the stored queue first, then the temporary one (the Go select may pick either). *)
Definition ex_ops : list Backend.op :=
  [Backend.OSetup 1 [x73] false; Backend.OSubscribe 1 [([x74], 2)] [[]]; Backend.OSetup 2 [x63] false;
   Backend.OPublish 2 td_q0 []; Backend.OPublish 2 td_q1 []; Backend.OPublish 2 td_q1b []; Backend.OPublish 2 td_q2 [];
   Backend.ODequeue 1 false; Backend.ODequeue 1 true; Backend.ODequeue 1 false; Backend.ODequeue 1 false].
Definition ex_k : Backend.skey := Backend.KStored [x73].

(* Subscriber's connection: forwards what it dequeues, in that order (the retained flag of the third
   message was cleared by the backend). *)
Definition ex_q1b' : message := Msg [x74] [x03] 1 false.
Definition ex_sub : list event :=
  td_open td_conn 2 10 false [] ++
  [EDeqCall 3; EDeqRet 3 (QMsg td_q1 true); ENextId 3 1; ESave 3 Outgoing (Publish false td_q1 1) true;
   EDeqAck 3; ETx 3 (Publish false td_q1 1) true true;
   EDeqCall 3; EDeqRet 3 (QMsg td_q0 false); ETx 3 (Publish false td_q0 0) true true;
   EDeqCall 3; EDeqRet 3 (QMsg ex_q1b' false); ENextId 3 2; ESave 3 Outgoing (Publish false ex_q1b' 2) true;
   ETx 3 (Publish false ex_q1b' 2) true true;
   EDeqCall 3; EDeqRet 3 (QMsg td_q2 false); ENextId 3 3; ESave 3 Outgoing (Publish false td_q2 3) true;
   ETx 3 (Publish false td_q2 3) true true;
   EDeqCall 3; EQuiescent] ++ td_lost 2 3 4.

(* the flows of publisher 2 on topic "t": the QoS > 0 messages (stored queue), the QoS 0 message
   (temporary queue); and, for the counter-example, the whole topic *)
Definition fl_hi : flow := fun t p => bytes_eqb t [x74] && negb (bytes_eqb p [x00]).
Definition fl_lo : flow := fun t p => bytes_eqb t [x74] && bytes_eqb p [x00].
Definition fl_all : flow := fun t p => bytes_eqb t [x74].

(* the composed run satisfies every hypothesis of C15_e2e_order, for both flows; it is not trivial:
   four Publishes of mixed QoS, four deliveries, three of them in the first flow *)
Example C15_e2e_witness :
  (exists s, bc_run ex_pub = Some s) /\ (exists s, bc_run ex_sub = Some s) /\
  BackendLog.names_ok ex_ops = true /\
  glue_publish [2] ex_pub (history 10 ex_ops) /\
  glue_dequeue ex_k ex_sub (history 10 ex_ops) /\
  flow_exclusive fl_hi [2] ex_k false (history 10 ex_ops) = true /\ no_will_in_flow fl_hi ex_pub = true /\
  flow_exclusive fl_lo [2] ex_k true (history 10 ex_ops) = true /\ no_will_in_flow fl_lo ex_pub = true /\
  published ex_pub = [td_q0; td_q1; td_q1b; td_q2] /\
  forwarded ex_sub = [td_q1; td_q0; ex_q1b'; td_q2] /\
  filter (in_flow fl_hi) (forwarded ex_sub) = [td_q1; ex_q1b'; td_q2] /\
  arrived ex_pub = [[td_q0]; [td_q1]; [td_q1b]; [td_q2]].
Proof.
  split; [vm_compute; eexists; reflexivity|]. split; [vm_compute; eexists; reflexivity|].
  split; [vm_compute; reflexivity|].
  split; [exists []; vm_compute; reflexivity|]. split; [exists []; vm_compute; reflexivity|].
  vm_compute. repeat split; reflexivity.
Qed.

(* ... and so the theorem applies: the QoS > 0 flow and the QoS 0 flow each arrive in order *)
Example C15_e2e_witness_order :
  Emb carries (filter (in_flow fl_hi) (forwarded ex_sub)) (arrived ex_pub) /\
  Emb carries (filter (in_flow fl_lo) (forwarded ex_sub)) (arrived ex_pub).
Proof.
  destruct C15_e2e_witness as ((sP & HP) & (sS & HS) & Hn & Gp & Gd & X1 & W1 & X2 & W2 & _).
  split.
  - exact (C15_e2e_order 10 ex_ops [2] ex_k false fl_hi ex_pub ex_sub sP sS HP HS Hn Gp Gd X1 W1).
  - exact (C15_e2e_order 10 ex_ops [2] ex_k true fl_lo ex_pub ex_sub sP sS HP HS Hn Gp Gd X2 W2).
Qed.

(* the flat form applies too (every arrival of the run carries one message), and C06 end to end on the run:
   what the delivery specification enqueued for the session, queue by queue, and each delivery once *)
Example C15_e2e_witness_flat :
  unambiguous ex_pub = true /\ arrived_msgs ex_pub = [td_q0; td_q1; td_q1b; td_q2] /\
  Emb capped (filter (in_flow fl_hi) (forwarded ex_sub)) (arrived_msgs ex_pub) /\
  enqueued ex_k false (history 10 ex_ops) = [td_q1; ex_q1b'; td_q2] /\
  enqueued ex_k true (history 10 ex_ops) = [td_q0] /\
  count_key [x74] [x03] (forwarded ex_sub) = 1%nat /\ count_key [x74] [x03] (dequeued ex_sub) = 1%nat /\
  count_key [x74] [x03] (enqueued ex_k false (history 10 ex_ops)) = 1%nat.
Proof.
  split; [vm_compute; reflexivity|]. split; [vm_compute; reflexivity|].
  split; [|vm_compute; repeat split; reflexivity].
  destruct C15_e2e_witness as ((sP & HP) & (sS & HS) & Hn & Gp & Gd & X1 & W1 & _).
  exact (C15_e2e_order_flat 10 ex_ops [2] ex_k false fl_hi ex_pub ex_sub sP sS HP HS Hn Gp Gd X1 W1 eq_refl).
Qed.

(* the conclusion does discriminate.  In the same run the QoS 0 message, published first, is delivered after
   the first QoS 1 message (the stored queue was served first): for the flow "everything on topic t" the
   conclusion is FALSE — and the hypothesis that fails is flow_exclusive: the flow is not of one QoS class *)
Example C15_e2e_mixed_qos_not_ordered :
  ~ Emb carries (filter (in_flow fl_all) (forwarded ex_sub)) (arrived ex_pub) /\
  flow_exclusive fl_all [2] ex_k false (history 10 ex_ops) = false /\
  flow_exclusive fl_all [2] ex_k true (history 10 ex_ops) = false /\
  no_will_in_flow fl_all ex_pub = true.
Proof.
  split; [|vm_compute; repeat split; reflexivity].
  intros H. apply (embb_complete carries carriesb carriesb_spec) in H. vm_compute in H. discriminate H.
Qed.

(* the will is outside the order of the PUBLISHes.  The publisher announces a will on topic "w", publishes a
   QoS 0 message on "w" and is lost; the will is published by the cleanup and delivered: it never arrived
   as a PUBLISH.  For the flow "topic w" the conclusion is false, and the hypothesis that fails is
   no_will_in_flow. *)
Definition ex_w1 : message := Msg [x77] [x01] 0 false.
Definition ex_pub_will : list event :=
  td_open td_connw 2 10 false [] ++
  [EDeqCall 3; ERx 2 (Publish false ex_w1 0); EPub 2 ex_w1 None; EPubRet 2 true;
   ERxErr 2; EDie 2 KTransport; EConnClose 2; EDeqRet 3 QNone;
   EPub 4 td_will None; EPubRet 4 true; ETerm 4 true; EClosed].
Definition ex_ops_will : list Backend.op :=
  [Backend.OSetup 1 [x73] false; Backend.OSubscribe 1 [([x77], 0)] [[]]; Backend.OSetup 2 [x63] false;
   Backend.OPublish 2 ex_w1 []; Backend.OPublish 2 td_will [];
   Backend.ODequeue 1 true; Backend.ODequeue 1 true].
Definition ex_sub_will : list event :=
  td_open td_conn 2 10 false [] ++
  [EDeqCall 3; EDeqRet 3 (QMsg ex_w1 false); ETx 3 (Publish false ex_w1 0) true true;
   EDeqCall 3; EDeqRet 3 (QMsg td_will false); ETx 3 (Publish false td_will 0) true true;
   EDeqCall 3; EQuiescent] ++ td_lost 2 3 4.
Definition fl_w : flow := fun t p => bytes_eqb t [x77].

Example C15_e2e_will_not_ordered :
  (exists s, bc_run ex_pub_will = Some s) /\ (exists s, bc_run ex_sub_will = Some s) /\
  BackendLog.names_ok ex_ops_will = true /\
  glue_publish [2] ex_pub_will (history 10 ex_ops_will) /\
  glue_dequeue ex_k ex_sub_will (history 10 ex_ops_will) /\
  flow_exclusive fl_w [2] ex_k true (history 10 ex_ops_will) = true /\
  no_will_in_flow fl_w ex_pub_will = false /\
  forwarded ex_sub_will = [ex_w1; td_will] /\ arrived ex_pub_will = [[ex_w1]] /\
  ~ Emb carries (filter (in_flow fl_w) (forwarded ex_sub_will)) (arrived ex_pub_will).
Proof.
  split; [vm_compute; eexists; reflexivity|]. split; [vm_compute; eexists; reflexivity|].
  split; [vm_compute; reflexivity|].
  split; [exists []; vm_compute; reflexivity|]. split; [exists []; vm_compute; reflexivity|].
  split; [vm_compute; reflexivity|]. split; [vm_compute; reflexivity|].
  split; [vm_compute; reflexivity|]. split; [vm_compute; reflexivity|].
  intros H. apply (embb_complete carries carriesb carriesb_spec) in H. vm_compute in H. discriminate H.
Qed.

(* QoS 2: the message a PUBREL releases is one received under its packet id, not necessarily the latest.
   PUBLISH A (id 1) is stored; PUBLISH B under the same id cannot be stored (SavePacket fails) and the
   connection dies; on the resumed connection PUBREL 1 releases what the session holds, A.  BC accepts the
   trace, the clause holds, and the arrival of the PUBREL carries both candidates. *)
Definition ex_qA : message := Msg [x74] [x0a] 2 false.
Definition ex_qB : message := Msg [x74] [x0b] 2 false.
Definition ex_q2 : list event :=
  td_open td_conn 2 10 false [] ++
  [EDeqCall 3;
   ERx 2 (Publish false ex_qA 1); ESave 2 Incoming (Publish false ex_qA 1) true; ETx 2 (Pubrec 1) true true;
   ERx 2 (Publish false ex_qB 1); ESave 2 Incoming (Publish false ex_qB 1) false; EDie 2 KSession; EConnClose 2;
   EDeqRet 3 QNone; ETerm 4 true; EClosed] ++
  td_open td_conn 5 10 true [] ++
  [EDeqCall 6; ERx 5 (Pubrel 1); ELookup 5 Incoming 1 (LRes (Some (Publish false ex_qA 1)));
   EPub 5 ex_qA (Some 1); EAckCall 1 5; EDelete 5 Incoming 1 true; EAckRet 1 5; EPubRet 5 true;
   ETx 7 (Pubcomp 1) true true; EQuiescent] ++ td_lost 5 6 8.

Example C15_e2e_q2_witness :
  (exists s, bc_run ex_q2 = Some s) /\ arrival_link ex_q2 = true /\
  published ex_q2 = [ex_qA] /\ arrived ex_q2 = [[ex_qB; ex_qA]] /\ unambiguous ex_q2 = false.
Proof. split; [vm_compute; eexists; reflexivity|]. vm_compute. repeat split; reflexivity. Qed.

(* the two clauses reject what they should: a fresh PUBLISH without a dequeued message, a second dequeue
   before the first message was sent, two messages forwarded in the wrong order; a backend Publish for a
   message that was not received last, two Publishes for one packet — and they hold of the witnesses of the
   per-goroutine clauses *)
Example C15_e2e_clauses_reject :
  forward_link [ENewConn; ETx 3 (Publish false td_q0 0) true true] = false /\
  forward_link [ENewConn; EDeqRet 3 (QMsg td_q0 false); EDeqRet 3 (QMsg td_q1 false)] = false /\
  forward_link [ENewConn; EDeqRet 3 (QMsg td_q0 false); ETx 4 (Publish false td_q1 1) true true] = false /\
  forward_link [ENewConn; EDeqRet 3 (QMsg td_q0 false); EDeqRet 4 (QMsg td_q1 false);
                ETx 4 (Publish false td_q1 1) true true; ETx 3 (Publish false td_q0 0) true true] = false /\
  (* ... which the per-goroutine clauses accept (two goroutines, each in its own order) *)
  c15_dequeue_order [ENewConn; EDeqRet 3 (QMsg td_q0 false); EDeqRet 4 (QMsg td_q1 false);
                     ETx 4 (Publish false td_q1 1) true true; ETx 3 (Publish false td_q0 0) true true] = true /\
  c06_forward_intact [ENewConn; EDeqRet 3 (QMsg td_q0 false); EDeqRet 4 (QMsg td_q1 false); ENextId 4 1;
                      ETx 4 (Publish false td_q1 1) true true; ETx 3 (Publish false td_q0 0) true true] = true /\
  arrival_link [ENewConn; ERx 2 (Publish false td_q0 0); ERx 2 (Publish false td_q1 1); EPub 2 td_q0 None] = false /\
  arrival_link [ENewConn; ERx 2 (Publish false td_q0 0); EPub 2 td_q0 None; EPub 2 td_q0 None] = false /\
  arrival_link [ENewConn; ERx 2 (Pubrel 1); EPub 2 td_q2 (Some 1)] = false /\
  forallb forward_link [td_in_q1; td_in_q2; td_deq; td_resume; td_life; td_fwd] = true /\
  forallb arrival_link [td_in_q1; td_in_q2; td_deq; td_resume; td_life; td_fwd] = true.
Proof. vm_compute. repeat split; reflexivity. Qed.
