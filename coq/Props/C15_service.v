(* C15 (service part) — commands are dispatched in issue order.  For the C15 integrator:
   `From GM Require Import Props.C15_service.` gives C15_service_fifo.
   SV (Client/Service.v): `issued s` = commands accepted into the command queue, in order (numbered increasingly);
   `dispatched s` = commands the dispatcher handed to the client, in order; `queue s` = not yet dispatched;
   `drained s` = removed by Stop(true). *)
From Coq Require Import List NArith Sorted.
From GM Require Import Base.Lts Codec.Packet Client.Service Client.ServiceSpec Client.ServiceTheorems.
Import ListNotations.
Open Scope N_scope.

(* for every accepted trace: what was dispatched followed by what is still queued is a subsequence of the issue
   history (nothing overtakes, nothing is dispatched twice: the numbering is strictly increasing), and it IS the issue
   history as long as no Stop(true) removed queued commands *)
Theorem C15_service_fifo : forall c es s,
  run step (init c) es = Some s ->
  Subseq (dispatched s ++ queue s) (issued s) /\
  StronglySorted N.lt (map fst (issued s)) /\
  (drained s = [] -> issued s = dispatched s ++ queue s).
Proof. exact fifo_order_thm. Qed.
Print Assumptions C15_service_fifo.
