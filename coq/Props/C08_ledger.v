(* C08 — conservation: "nothing is lost".  ONE end-to-end clause over the whole trace of a
   session lifetime that accounts for every QoS 1/2 message the dequeuer obtained.  Only
   statements, `exact`, Print Assumptions, Examples.

   C08_ledger           (ConnSpec7.v c08_ledger) the ledger an auditor keeps over the trace — one
                        entry per dequeued QoS 1/2 message: in the hand of goroutine g -> Stored id
                        (Save Outgoing (Publish false m id) ok, id from g's NextID) -> Released id
                        (Save Outgoing (Pubrel id) ok after PUBREC id) -> Done id (Delete Outgoing id
                        ok after PUBACK / PUBCOMP id); Failed if SavePacket failed (the only way to
                        end unrecorded; that goroutine then reports a session error) — is never
                        violated: no connection ends (EClosed), starts (ENewConn) or is reported
                        quiescent with a message still in a hand or a session error still owed; no
                        goroutine takes a second message while it holds one; nothing is saved in the
                        outgoing store but the message in the saver's hand under the id just allocated,
                        and PUBREL id by the goroutine that received PUBREC id; a record is deleted
                        only by the goroutine that received PUBACK / PUBCOMP of that id; and EVERY
                        resume listing (All Outgoing) is exactly — up to the dup flag — the packets of
                        the recorded entries (Stored: PUBLISH, Released: PUBREL) in the order in which
                        they were first stored.  Holds of every accepted trace.
   C08_nothing_lost     (ConnSpec7.v nothing_lost) the readable corollary: for every i, m such that
                        the i-th event hands the QoS 1/2 message m to the dequeuer, at the end of the
                        trace m is acknowledged (record deleted after PUBACK / PUBCOMP), or recorded
                        (its PUBLISH or PUBREL is in the replica store of C08_store_replica, i.e. the
                        next resume lists and re-sends it), or its save failed, or it is in the hand of
                        a goroutine while the connection has not ended, or a clean session was started
                        afterwards — or its record was overwritten (next item).
   C08_ledger_strict_refuted   the clause "no record is ever overwritten" (c08_ledger_strict) is FALSE
                        of the model and of the code: NextID does not skip ids that are still recorded
                        and SavePacket replaces.  Accepted counter-example tr_wrap (ConnProofsF3.v,
                        459 000 events): one PUBACK withheld while 65535 further ids are allocated;
                        the first message is then overwritten and never retransmitted, while every
                        local C08 clause holds of the trace.  (DESIGN.md, observation on C08.)
   C08_ledger_strict_no_clash / C08_nothing_lost_no_clash   on accepted traces on which no PUBLISH is
                        saved under an id that the record of an earlier message still holds
                        (c08_no_id_clash) the strict clause holds and no message is overwritten. *)
From Coq Require Import List NArith Bool.
From GM Require Import Base.Lts Codec.Packet Session.Store Broker.Conn Broker.ConnSpec Broker.ConnSpec6
  Broker.ConnSpec7 Broker.ConnProofsCDefs Broker.ConnProofsCTraces
  Broker.ConnProofsF1 Broker.ConnProofsF2 Broker.ConnProofsF3.
Import ListNotations.
Open Scope N_scope.

Theorem C08_ledger : forall es s, bc_run es = Some s -> c08_ledger es = true.
Proof. exact c08_ledger_holds. Qed.
Print Assumptions C08_ledger.

Theorem C08_nothing_lost : forall es s, bc_run es = Some s -> nothing_lost es.
Proof. exact nothing_lost_holds. Qed.
Print Assumptions C08_nothing_lost.

(* the statement without the wrap-around case: false *)
Definition C08_ledger_strict_statement : Prop := forall es s, bc_run es = Some s -> c08_ledger_strict es = true.

Theorem C08_ledger_strict_refuted : exists es s, bc_run es = Some s /\ c08_ledger_strict es = false.
Proof. exact c08_ledger_strict_refuted. Qed.
Print Assumptions C08_ledger_strict_refuted.

Theorem C08_ledger_strict_no_clash : forall es s,
  bc_run es = Some s -> c08_no_id_clash es = true -> c08_ledger_strict es = true.
Proof. exact c08_ledger_strict_holds. Qed.
Print Assumptions C08_ledger_strict_no_clash.

Theorem C08_nothing_lost_no_clash : forall es s,
  bc_run es = Some s -> c08_no_id_clash es = true -> nothing_lost_strict es.
Proof. exact nothing_lost_strict_holds. Qed.
Print Assumptions C08_nothing_lost_no_clash.

(* ---------------------------------------------------------------- examples *)

(* the witness traces are accepted and satisfy the clause (also the strict one) *)
Example C08_ledger_witnesses :
  map tc_accepted [tr_qos1; tr_qos2; tr_resume] = [true; true; true] /\
  map c08_ledger [tr_qos1; tr_qos2; tr_resume] = [true; true; true] /\
  map c08_ledger_strict [tr_qos1; tr_qos2; tr_resume] = [true; true; true] /\
  map c08_no_id_clash [tr_qos1; tr_qos2; tr_resume] = [true; true; true].
Proof. vm_compute. repeat split. Qed.

(* non-vacuously: the entries really pass through Stored / Released / Done.
   tr_qos1 after the save, tr_qos2 after PUBREL was stored, at the end of both;
   tr_resume when the first connection has ended (event 24 is its EClosed): a QoS 1 PUBLISH and a
   QoS 2 PUBREL are recorded, the resumed connection lists exactly them; at the end both are done *)
Definition ledger_view (es : list event) : option (list (N * lhand) * list litem * list litem) :=
  match ledger_of es with Some t => Some (lg_hand t, lg_log t, lg_arch t) | None => None end.
Example C08_ledger_nonvacuous :
  ledger_view (firstn 9 tr_qos1) = Some ([(3, LH 8 tc_m1 None)], [], []) /\
  ledger_view (firstn 11 tr_qos1) = Some ([], [LMsg 8 tc_m1 (LStored 1)], []) /\
  ledger_view tr_qos1 = Some ([], [], [LMsg 8 tc_m1 (LDone 1)]) /\
  ledger_view (firstn 16 tr_qos2) = Some ([], [LMsg 8 tc_m2 (LReleased 1)], []) /\
  ledger_view tr_qos2 = Some ([], [], [LMsg 8 tc_m2 (LDone 1)]) /\
  nth_error tr_resume 24 = Some EClosed /\
  ledger_view (firstn 25 tr_resume) = Some ([], [LMsg 8 tc_m1 (LStored 1); LMsg 13 tc_m2 (LReleased 2)], []) /\
  In (EAll 5 Outgoing (Some [Publish false tc_m1 1; Pubrel 2])) tr_resume /\
  ledger_view tr_resume = Some ([], [], [LMsg 13 tc_m2 (LDone 2); LMsg 8 tc_m1 (LDone 1)]).
Proof. vm_compute. repeat split; auto 40. Qed.

(* the corollary on the witness: both dequeued messages are acknowledged at the end of tr_resume;
   when the first connection has ended they are recorded and in the replica store *)
Example C08_nothing_lost_nonvacuous :
  dequeued_q12 tr_resume 8 tc_m1 /\ dequeued_q12 tr_resume 13 tc_m2 /\
  fate_is tr_resume 8 tc_m1 (FAcked 1) /\ fate_is tr_resume 13 tc_m2 (FAcked 2) /\
  fate_is (firstn 25 tr_resume) 8 tc_m1 (FRecorded 1) /\ fate_is (firstn 25 tr_resume) 13 tc_m2 (FRecorded 2) /\
  fate_is (firstn 9 tr_resume) 8 tc_m1 (FInHand 3).
Proof.
  repeat split.
  - exists 3, false. split; reflexivity.
  - exists 3, false. split; reflexivity.
  - eexists. split; [vm_compute; reflexivity|]. vm_compute. auto.
  - eexists. split; [vm_compute; reflexivity|]. vm_compute. auto.
  - eexists. split; [vm_compute; reflexivity|]. left. split; [vm_compute; auto|]. exists false. vm_compute. auto.
  - eexists. split; [vm_compute; reflexivity|]. right. split; [vm_compute; auto|]. vm_compute. auto.
  - eexists _, _. split; [vm_compute; reflexivity|]. vm_compute. left. reflexivity.
Qed.

(* a failed save is the one way to end unrecorded: accepted, the entry is Failed *)
Definition tl_savefail : list event :=
  tc_open 2 2 false [] ++
  [EDeqCall 3; EDeqRet 3 (QMsg tc_m1 false); ENextId 3 1; ESave 3 Outgoing (Publish false tc_m1 1) false;
   EDie 3 KSession; EConnClose 3; ETerm 4 true; EClosed].
(* a PUBREC for an id not in flight makes the broker record PUBREL 7: listed and re-sent at the
   resume, deleted by PUBCOMP 7; no message is involved *)
Definition tl_phantom : list event :=
  tc_open 2 2 false [] ++
  [EDeqCall 3; ERx 2 (Pubrec 7); ESave 2 Outgoing (Pubrel 7) true; ETx 2 (Pubrel 7) true true;
   EDeqRet 3 (QMsg tc_m1 false); ENextId 3 1; ESave 3 Outgoing (Publish false tc_m1 1) true;
   ETx 3 (Publish false tc_m1 1) true true;
   ERxErr 2; EDie 2 KTransport; EConnClose 2; ETerm 4 true; EClosed] ++
  tc_open 5 2 true [Pubrel 7; Publish false tc_m1 1] ++
  [ERx 5 (Pubcomp 7); EDelete 5 Outgoing 7 true].
Example C08_ledger_failed_and_phantom :
  tc_accepted tl_savefail = true /\ c08_ledger tl_savefail = true /\
  ledger_view tl_savefail = Some ([], [], [LMsg 8 tc_m1 LFailed]) /\
  tc_accepted tl_phantom = true /\ c08_ledger tl_phantom = true /\
  ledger_view tl_phantom = Some ([], [LMsg 11 tc_m1 (LStored 1)], [LPhantom 7 false]).
Proof. vm_compute. repeat split. Qed.

(* hand-made bad traces are rejected (none is accepted by the monitor either) *)
(* dequeued, and the connection ends without a save *)
Definition tl_bad_dropped : list event :=
  tc_open 2 2 false [] ++
  [EDeqCall 3; EDeqRet 3 (QMsg tc_m1 false); ERxErr 2; EDie 2 KTransport; EConnClose 2; ETerm 4 true; EClosed].
(* the save failed but nobody reports the session error *)
Definition tl_bad_silent_fail : list event :=
  tc_open 2 2 false [] ++
  [EDeqCall 3; EDeqRet 3 (QMsg tc_m1 false); ENextId 3 1; ESave 3 Outgoing (Publish false tc_m1 1) false;
   ERxErr 2; EDie 2 KTransport; EConnClose 2; ETerm 4 true; EClosed].
(* a second message is taken while the first is still in hand *)
Definition tl_bad_second : list event :=
  tc_open 2 2 false [] ++
  [EDeqCall 3; EDeqRet 3 (QMsg tc_m1 false); EDeqCall 3; EDeqRet 3 (QMsg tc_m2 false)].
(* the resume listing misses a stored entry *)
Definition tl_bad_listing : list event :=
  tc_open 2 2 false [] ++
  [EDeqCall 3; EDeqRet 3 (QMsg tc_m1 false); ENextId 3 1; ESave 3 Outgoing (Publish false tc_m1 1) true;
   ETx 3 (Publish false tc_m1 1) true true;
   ERxErr 2; EDie 2 KTransport; EConnClose 2; ETerm 4 true; EClosed] ++
  tc_open 5 2 true [].
(* the resume lists the entries in the wrong order *)
Definition tl_bad_order : list event :=
  firstn 25 tr_resume ++ tc_open 5 2 true [Pubrel 2; Publish false tc_m1 1].
(* delete without acknowledgement *)
Definition tl_bad_delete : list event :=
  tc_open 2 2 false [] ++
  [EDeqCall 3; EDeqRet 3 (QMsg tc_m1 false); ENextId 3 1; ESave 3 Outgoing (Publish false tc_m1 1) true;
   ETx 3 (Publish false tc_m1 1) true true; ERx 2 Pingreq; EDelete 2 Outgoing 1 true].
(* saved under another id than the one allocated / another message than the one dequeued *)
Definition tl_bad_id : list event :=
  tc_open 2 2 false [] ++
  [EDeqCall 3; EDeqRet 3 (QMsg tc_m1 false); ENextId 3 1; ESave 3 Outgoing (Publish false tc_m1 2) true].
Definition tl_bad_msg : list event :=
  tc_open 2 2 false [] ++
  [EDeqCall 3; EDeqRet 3 (QMsg tc_m1 false); ENextId 3 1; ESave 3 Outgoing (Publish false tc_m1b 1) true].
Example C08_ledger_rejects :
  map c08_ledger [tl_bad_dropped; tl_bad_silent_fail; tl_bad_second; tl_bad_listing; tl_bad_order; tl_bad_delete;
                  tl_bad_id; tl_bad_msg]
  = [false; false; false; false; false; false; false; false] /\
  map tc_accepted [tl_bad_dropped; tl_bad_silent_fail; tl_bad_second; tl_bad_listing; tl_bad_order; tl_bad_delete;
                   tl_bad_id; tl_bad_msg]
  = [false; false; false; false; false; false; false; false].
Proof. vm_compute. split; reflexivity. Qed.

(* the wrap-around trace: accepted; the plain clause holds and shows the victim; the strict
   clause and the hypothesis c08_no_id_clash are false of it; c08_store_replica holds *)
Example C08_ledger_wrap :
  tc_accepted tr_wrap = true /\ c08_ledger tr_wrap = true /\ c08_ledger_strict tr_wrap = false /\
  c08_no_id_clash tr_wrap = false /\ c08_store_replica tr_wrap = true /\ wrap_ledger_check = true.
Proof.
  exact (conj wrap_accepted (conj wrap_ledger (conj wrap_strict (conj wrap_clash (conj wrap_replica wrap_overwritten))))).
Qed.
