(* C03 — Stream framing: any fragmentation yields the same packets; wire bytes are exact.
   Only statements, `exact`, Print Assumptions, and Examples.

   The decoder model is parameterised by the codec (detect = DetectPacket,
   decode = Type.New + Decode on exactly the packet's bytes).  C03_chunking_irrelevant,
   C03_limit_first and C03_fuel hold for EVERY detect/decode; C03_frames, C03_truncation
   and C03_limit_refuses hold for every codec meeting the two interface hypotheses
   `detect_enc` (header 2..5 bytes, need-more before it is complete, then total length
   and type) and `decode_enc` (C01 round trip), stated as premises; the Examples
   instantiate them with Stream/ToyCodec.v.
   The …_codec theorems (Stream/StreamCodec.v) discharge both premises for the REAL codec —
   enc = WireSpec.wire_spec (what Encode / Encoder.Write put on the wire, C01_layout and
   C01_wire_exact), good = WF.wf, detect = Stream.detect_impl, decode = codec_decode
   (Type.New + Dec.decode_go, by C01_roundtrip) — and carry no codec hypothesis. *)
From Coq Require Import List NArith Bool.
From Coq.Strings Require Import Byte.
From GM Require Import Codec.Packet Stream.Stream Stream.StreamSpec Stream.StreamProofs Stream.FramesProofs
  Stream.EncStream Stream.EncStreamProofs Stream.WsStream Stream.WsStreamProofs Stream.ToyCodec.
From GM Require Import Codec.WF Codec.WireSpec Stream.StreamCodec.
Import ListNotations.
Open Scope N_scope.

(* every way of cutting the byte stream into chunks gives the same packets (byte ranges and
   values), the same terminal error, the same allocation requests and the same final peek as
   delivering it in one piece — for every codec, every limit, every ending of the source *)
Theorem C03_chunking_irrelevant : forall detect decode lim cs e,
  aview (dec_all detect decode lim cs e) = aview (dec_all detect decode lim [concat cs] e).
Proof. exact chunking_irrelevant. Qed.
Print Assumptions C03_chunking_irrelevant.

(* the chunked model computes the flat-stream reference of StreamSpec.v *)
Theorem C03_flat_reference : forall detect decode lim cs e,
  aview (dec_all detect decode lim cs e) = sdec_all detect decode lim (concat cs) e.
Proof. exact dec_all_flat. Qed.
Print Assumptions C03_flat_reference.

(* reading to the first error never runs out of the fuel the model gives itself *)
Theorem C03_fuel : forall detect decode lim cs e, a_err (dec_all detect decode lim cs e) <> EOutOfFuel.
Proof. exact dec_all_fuel_ok. Qed.
Print Assumptions C03_fuel.

(* a concatenation of encodings of well-formed packets that fit the limit decodes, under
   every chunking, to exactly those packets with exactly those byte ranges, one allocation
   request of exactly the packet's size each, then EOF (or the source's own error) *)
Theorem C03_frames : forall enc detect decode (good : packet -> Prop),
  (forall p, good p -> exists h, 2 <= h /\ h <= 5 /\ h <= len (enc p) /\
     forall k, 2 <= k -> k <= h ->
       detect (takeN k (enc p)) = if k <? h then DetNeedMore else DetLen (len (enc p)) (type_code (ptype_of p))) ->
  (forall p, good p -> decode (type_code (ptype_of p)) (enc p) = Some p) ->
  forall lim ps cs e,
    Forall good ps -> Forall (fits enc lim) ps -> concat cs = concat (map enc ps) ->
    let a := dec_all detect decode lim cs e in
    a_frames a = map (frame_of enc) ps /\ a_err a = end_err e 0 /\ a_allocs a = map (alloc_of enc) ps.
Proof. exact frames. Qed.
Print Assumptions C03_frames.

(* a stream that ends j bytes into a packet: the complete packets, then ErrUnexpectedEOF
   (j > 0, source at io.EOF) resp. the source's error — never a packet from the partial bytes *)
Theorem C03_truncation : forall enc detect decode (good : packet -> Prop),
  (forall p, good p -> exists h, 2 <= h /\ h <= 5 /\ h <= len (enc p) /\
     forall k, 2 <= k -> k <= h ->
       detect (takeN k (enc p)) = if k <? h then DetNeedMore else DetLen (len (enc p)) (type_code (ptype_of p))) ->
  (forall p, good p -> decode (type_code (ptype_of p)) (enc p) = Some p) ->
  forall lim ps p j cs e,
    Forall good (p :: ps) -> Forall (fits enc lim) (p :: ps) -> j < len (enc p) ->
    concat cs = concat (map enc ps) ++ takeN j (enc p) ->
    let a := dec_all detect decode lim cs e in
    a_frames a = map (frame_of enc) ps /\ a_err a = end_err e j.
Proof. exact truncation. Qed.
Print Assumptions C03_truncation.

(* with a positive limit: every allocation request and every returned packet is within the
   limit; when the limit trips no request was made for the refused packet and at most 5 bytes
   were peeked — for every codec and every byte stream *)
Theorem C03_limit_first : forall detect decode lim cs e,
  let a := dec_all detect decode lim cs e in
  (0 < lim -> Forall (fun x => x <= lim) (a_allocs a)) /\
  (0 < lim -> Forall (fun fp => len (fst fp) <= lim) (a_frames a)) /\
  (a_err a = EReadLimit -> length (a_allocs a) = length (a_frames a) /\ a_peeked a <= 5).
Proof. exact limit_first. Qed.
Print Assumptions C03_limit_first.

(* a packet longer than the limit is refused on its header alone, whatever follows it *)
Theorem C03_limit_refuses : forall enc detect decode (good : packet -> Prop),
  (forall p, good p -> exists h, 2 <= h /\ h <= 5 /\ h <= len (enc p) /\
     forall k, 2 <= k -> k <= h ->
       detect (takeN k (enc p)) = if k <? h then DetNeedMore else DetLen (len (enc p)) (type_code (ptype_of p))) ->
  (forall p, good p -> decode (type_code (ptype_of p)) (enc p) = Some p) ->
  forall lim ps p rest cs e,
    Forall good (p :: ps) -> Forall (fits enc lim) ps -> 0 < lim -> lim < len (enc p) ->
    concat cs = concat (map enc ps) ++ enc p ++ rest ->
    let a := dec_all detect decode lim cs e in
    a_frames a = map (frame_of enc) ps /\ a_err a = EReadLimit /\ a_allocs a = map (alloc_of enc) ps /\
    a_peeked a <= 5.
Proof. exact limit_refuses. Qed.
Print Assumptions C03_limit_refuses.

(* without carrier failure, for every mix of sync/async writes, Flush, timer firings and delay
   changes: wire ++ buffer = concatenation of the encodings written, in order; nothing fails *)
Theorem C03_wire_is_concat : forall evs s s' rs,
  healthy s -> Forall ev_nofail evs -> enc_run s evs = (s', rs) ->
  healthy s' /\ wire_bytes s' ++ e_buf s' = wire_bytes s ++ e_buf s ++ written evs /\
  Forall (fun r => forall c, r <> ERErr c) rs.
Proof. exact wire_is_concat. Qed.
Print Assumptions C03_wire_is_concat.

(* … and the buffer is empty after a sync write, a Flush, a timer firing, or any write at delay 0 *)
Theorem C03_flushed_after : forall evs ev s s1 rs s' r,
  healthy s -> Forall ev_nofail evs -> ev_nofail ev -> enc_run s evs = (s1, rs) ->
  enc_step s1 ev = (s', r) -> ev_flushes s1 ev ->
  e_buf s' = [] /\ wire_bytes s' = wire_bytes s ++ e_buf s ++ written (evs ++ [ev]).
Proof. exact flushed_after. Qed.
Print Assumptions C03_flushed_after.

(* wsStream.Read: the chunks are non-empty pieces of the binary messages' data in order;
   at exhaustion they are exactly that data, whatever the read sizes *)
Theorem C03_ws_stitch : forall sizes ms e cs r,
  ws_read_all sizes (ws_init ms e) = (cs, r) ->
  (exists rest, ws_bytes ms = concat cs ++ rest) /\
  Forall (fun c => c <> []) cs /\
  (forall x, r = Some x -> concat cs = ws_bytes ms /\ x = ws_final ms e) /\
  ((length (ws_bytes ms) < length sizes)%nat -> r <> None).
Proof. exact ws_stitch. Qed.
Print Assumptions C03_ws_stitch.

(* … so the packets decoded behind a WebSocket do not depend on message boundaries *)
Theorem C03_ws_decode : forall detect decode lim sizes ms e cs x e',
  ws_read_all sizes (ws_init ms e) = (cs, Some x) ->
  aview (dec_all detect decode lim cs e') = aview (dec_all detect decode lim [ws_bytes ms] e').
Proof. exact ws_decode. Qed.
Print Assumptions C03_ws_decode.

(* ---------------------------------------------------------------- the real codec: no codec hypotheses *)

(* the two interface premises hold for the real codec: every well-formed packet has a fixed
   header of h = 1 + (1..4) bytes on which DetectPacket answers need-more / (total, type), … *)
Theorem C03_codec_detect : forall p, wf p = true ->
  exists h, 2 <= h /\ h <= 5 /\ h <= len (wire_spec p) /\
    forall k, 2 <= k -> k <= h ->
      detect_impl (takeN k (wire_spec p)) =
      if k <? h then DetNeedMore else DetLen (len (wire_spec p)) (type_code (ptype_of p)).
Proof. exact codec_detect_enc. Qed.
Print Assumptions C03_codec_detect.

(* … and New() + Decode on its bytes gives the packet back *)
Theorem C03_codec_decode : forall p, wf p = true ->
  codec_decode (type_code (ptype_of p)) (wire_spec p) = Some p.
Proof. exact codec_decode_enc. Qed.
Print Assumptions C03_codec_decode.

(* every list of well-formed packets that fit the limit, encoded, concatenated and cut into
   chunks in ANY way, decodes to exactly those packets with exactly their byte ranges, one
   allocation request of the packet's size each, then the end of the source *)
Theorem C03_frames_codec : forall lim ps cs e,
  Forall (fun p => wf p = true) ps -> Forall (fits wire_spec lim) ps ->
  concat cs = concat (map wire_spec ps) ->
  let a := dec_all detect_impl codec_decode lim cs e in
  a_frames a = map (frame_of wire_spec) ps /\ a_err a = end_err e 0 /\
  a_allocs a = map (alloc_of wire_spec) ps.
Proof. exact frames_codec. Qed.
Print Assumptions C03_frames_codec.

(* the stream ends j bytes into a well-formed packet: the complete packets, then
   ErrUnexpectedEOF (resp. EOF for j = 0, or the source's own error) *)
Theorem C03_truncation_codec : forall lim ps p j cs e,
  Forall (fun p => wf p = true) (p :: ps) -> Forall (fits wire_spec lim) (p :: ps) ->
  j < len (wire_spec p) ->
  concat cs = concat (map wire_spec ps) ++ takeN j (wire_spec p) ->
  let a := dec_all detect_impl codec_decode lim cs e in
  a_frames a = map (frame_of wire_spec) ps /\ a_err a = end_err e j.
Proof. exact truncation_codec. Qed.
Print Assumptions C03_truncation_codec.

(* a well-formed packet longer than the limit is refused on its header alone (no allocation
   request, at most 5 bytes peeked), whatever follows it *)
Theorem C03_limit_refuses_codec : forall lim ps p rest cs e,
  Forall (fun p => wf p = true) (p :: ps) -> Forall (fits wire_spec lim) ps ->
  0 < lim -> lim < len (wire_spec p) ->
  concat cs = concat (map wire_spec ps) ++ wire_spec p ++ rest ->
  let a := dec_all detect_impl codec_decode lim cs e in
  a_frames a = map (frame_of wire_spec) ps /\ a_err a = EReadLimit /\
  a_allocs a = map (alloc_of wire_spec) ps /\ a_peeked a <= 5.
Proof. exact limit_refuses_codec. Qed.
Print Assumptions C03_limit_refuses_codec.

(* behind a WebSocket: binary messages carrying a concatenation of encodings, split over
   messages in any way and read with any buffer sizes, decode to exactly those packets *)
Theorem C03_ws_decode_codec : forall lim sizes ms e cs x e' ps,
  ws_read_all sizes (ws_init ms e) = (cs, Some x) ->
  Forall (fun p => wf p = true) ps -> Forall (fits wire_spec lim) ps ->
  ws_bytes ms = concat (map wire_spec ps) ->
  let a := dec_all detect_impl codec_decode lim cs e' in
  a_frames a = map (frame_of wire_spec) ps /\ a_err a = end_err e' 0 /\
  a_allocs a = map (alloc_of wire_spec) ps.
Proof. exact ws_frames_codec. Qed.
Print Assumptions C03_ws_decode_codec.

(* ---------------------------------------------------------------- non-vacuity *)

(* the interface hypotheses are met by a concrete codec (headers of 2 and of 3 bytes) *)
Example C03_hypotheses_met :
  (forall p, toy_good p -> exists h, 2 <= h /\ h <= 5 /\ h <= len (toy_enc p) /\
     forall k, 2 <= k -> k <= h ->
       detect_impl (takeN k (toy_enc p)) =
       if k <? h then DetNeedMore else DetLen (len (toy_enc p)) (type_code (ptype_of p))) /\
  (forall p, toy_good p -> toy_decode (type_code (ptype_of p)) (toy_enc p) = Some p).
Proof. split; [exact toy_detect_enc|exact toy_decode_enc]. Qed.

(* four packets, cut in the middle of the 3-byte header, inside the body and across packets *)
Example C03_frames_example :
  let stream := concat (map toy_enc [toy_big; Pingreq; Puback 7; Disconnect]) in
  let a := dec_all detect_impl toy_decode 200 [takeN 2 stream; takeN 100 (dropN 2 stream); dropN 102 stream] SEof in
  map snd (a_frames a) = [toy_big; Pingreq; Puback 7; Disconnect] /\ a_err a = EEof /\ a_allocs a = [134; 2; 4; 2].
Proof. vm_compute. repeat split. Qed.

(* truncated inside the last packet; limit 100 refuses the 134-byte packet after peeking 3 bytes *)
Example C03_truncation_limit_example :
  let stream := concat (map toy_enc [Pingreq; toy_big]) in
  let a := dec_all detect_impl toy_decode 0 [takeN 50 stream] SEof in
  let b := dec_all detect_impl toy_decode 100 [takeN 3 stream; dropN 3 stream] SEof in
  (map snd (a_frames a) = [Pingreq] /\ a_err a = EUnexpectedEof) /\
  (map snd (a_frames b) = [Pingreq] /\ a_err b = EReadLimit /\ a_allocs b = [2] /\ a_peeked b = 3).
Proof. vm_compute. repeat split. Qed.

(* encoder: async, async, timer, sync with delay 1: one carrier write per flush *)
Example C03_wire_example :
  let '(s, rs) := enc_run (einit false None)
        [EvWrite (Some [xc0; x00]) true; EvWrite (Some [xe0; x00]) true; EvTimer; EvWrite (Some [xd0; x00]) false] in
  rev (e_wire s) = [[xc0; x00; xe0; x00]; [xd0; x00]] /\ e_buf s = [] /\ rs = [EROk; EROk; ERNone; EROk].
Proof. vm_compute. repeat split. Qed.

(* websocket: a packet split over two messages, an empty message, then a text message *)
Example C03_ws_example :
  ws_read_all [4096; 1; 4096; 4096; 4096] (ws_init [WM true [x40; x02]; WM true []; WM true [x00; x07; xc0]; WM false [x41]] SEof)
  = ([[x40; x02]; [x00]; [x07; xc0]], Some WNotBinary).
Proof. vm_compute. reflexivity. Qed.

(* the real codec: a CONNECT, a PUBLISH with a 200-byte payload (2-byte remaining length) and a
   PINGREQ; cut after 1 byte, inside the PUBLISH header, inside its payload and across packets *)
Definition real_connect : packet := Connect (Conn [x63; x31] 30 [x75] [x70] true (Some (Msg [x77] [x21] 1 false)) 4).
Definition real_publish : packet := Publish false (Msg [x61; x2f; x62] (repeat x5a (N.to_nat 200)) 1 true) 258.
Definition real_packets : list packet := [real_connect; real_publish; Pingreq].

Example C03_real_codec_example :
  let stream := concat (map wire_spec real_packets) in
  let cs := [takeN 1 stream; takeN 29 (dropN 1 stream); takeN 100 (dropN 30 stream); dropN 130 stream] in
  let a := dec_all detect_impl codec_decode 0 cs SEof in
  let b := dec_all detect_impl codec_decode 100 [takeN 30 stream; dropN 30 stream] SEof in
  let c := dec_all detect_impl codec_decode 0 [takeN 100 stream] SEof in
  forallb wf real_packets = true /\ map len (map wire_spec real_packets) = [28; 210; 2] /\
  (map snd (a_frames a) = real_packets /\ map fst (a_frames a) = map wire_spec real_packets /\
   a_err a = EEof /\ a_allocs a = [28; 210; 2]) /\
  (map snd (a_frames b) = [real_connect] /\ a_err b = EReadLimit /\ a_allocs b = [28] /\ a_peeked b = 3) /\
  (map snd (a_frames c) = [real_connect] /\ a_err c = EUnexpectedEof).
Proof. vm_compute. repeat split. Qed.
