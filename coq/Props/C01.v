(* C01 — Codec round-trips every well-formed packet; Len() equals the bytes written.
   Only statements, `exact`, and Print Assumptions.

   Model (Codec/Enc.v): len_go = each type's Len(); encode_into dst p = Encode(dst) over a
   buffer with arbitrary prior content; encode_go cap p = Encode(make([]byte, cap)) observed as
   EOk n bytes | EErr n | EPanic; encoder_write prior p = packet.Encoder.Write with a pooled
   buffer holding `prior`.  Reference (Codec/WireSpec.v): wire_spec, written from MQTT 3.1.1.
   wf / total_len: Codec/WF.v.  decode_go: Codec/Dec.v (decoder side, C02).
   Quantification is over ALL packet values: every flag combination, id, size. *)
From Coq Require Import List NArith.
From Coq.Strings Require Import Byte.
From GM Require Import Codec.Packet Codec.WF Codec.Enc Codec.WireSpec Codec.Dec Codec.EncProofsSpec Codec.EncProofsTop
  Codec.EncProofsRoundTrip Codec.EncJudge Codec.EncJudgeProofs.
Import ListNotations.
Open Scope N_scope.

(* encoding a well-formed packet into Len() bytes succeeds *)
Theorem C01_encode_total : forall p, wf p = true -> exists bs, encode_go (len_go p) p = EOk (len_go p) bs.
Proof. exact encode_total. Qed.
Print Assumptions C01_encode_total.

(* EVERY packet (well-formed or not), every buffer size: if Encode succeeds, the count it
   returns and the bytes it wrote are exactly Len() *)
Theorem C01_len_is_written : forall p cap n bs,
  encode_go cap p = EOk n bs -> n = len_go p /\ blen bs = len_go p.
Proof. exact encode_len_is_written. Qed.
Print Assumptions C01_len_is_written.

(* Len() is 1 + size of the remaining-length field + remaining length computed from the field sizes *)
Theorem C01_len_spec : forall p, wf p = true -> len_go p = total_len p.
Proof. exact len_go_total_len. Qed.
Print Assumptions C01_len_spec.

(* the bytes are the MQTT 3.1.1 layout *)
Theorem C01_layout : forall p, wf p = true -> encode_go (len_go p) p = EOk (len_go p) (wire_spec p).
Proof. exact encode_layout. Qed.
Print Assumptions C01_layout.

(* Encoder.Write: whatever earlier packets left in the pooled buffer, exactly wire_spec p is
   handed to the writer — no stale bytes *)
Theorem C01_wire_exact : forall p prior, wf p = true -> encoder_write prior p = XSent (wire_spec p).
Proof. exact encoder_write_exact. Qed.
Print Assumptions C01_wire_exact.

(* Encode into any larger, dirty buffer: the first Len() bytes are wire_spec p, the rest is untouched *)
Theorem C01_dirty_buffer : forall p dst, wf p = true -> len_go p <= blen dst ->
  encode_into dst p = BOk (len_go p) (wire_spec p ++ drop (len_go p) dst).
Proof. exact encode_dirty. Qed.
Print Assumptions C01_dirty_buffer.

(* a buffer shorter than Len(): an error — not a panic, not a success (every packet) *)
Theorem C01_short_buffer : forall p cap, cap < len_go p -> exists n, encode_go cap p = EErr n.
Proof. exact encode_short_buffer. Qed.
Print Assumptions C01_short_buffer.

(* Encode never panics, for any packet and any buffer size *)
Theorem C01_no_panic : forall p cap, encode_go cap p <> EPanic.
Proof. exact encode_no_panic. Qed.
Print Assumptions C01_no_panic.

(* decoding the wire bytes of a well-formed packet yields the packet back, field for field,
   and consumes all of them (decode_go: the model of Type.New().Decode, Codec/Dec.v) *)
Theorem C01_roundtrip : forall p, wf p = true ->
  decode_go (ptype_of p) (wire_spec p) = DOk p (total_len p).
Proof. exact roundtrip. Qed.
Print Assumptions C01_roundtrip.

(* the same, end to end through the encoder model *)
Theorem C01_encode_decode : forall p, wf p = true ->
  exists bs, encode_go (len_go p) p = EOk (len_go p) bs /\ decode_go (ptype_of p) bs = DOk p (len_go p).
Proof.
  intros p W. exists (wire_spec p). split; [exact (encode_layout p W) |].
  rewrite (len_go_total_len p W). exact (roundtrip p W).
Qed.
Print Assumptions C01_encode_decode.

(* the judges the check evaluates on the implementation's OBSERVED behaviour (Codec/EncJudge.v:
   len_is_written, len_spec, encode_total, layout, dirty, short, wire_exact, roundtrip) all hold
   of the model's own behaviour — for every packet, fill byte, extra capacity, list of short
   capacities and prior pool content.  A judge failing on the implementation is therefore a
   clause of this property failing on a concrete input. *)
Theorem C01_judges_sound : forall p fill extra caps prior,
  all_judges p (model_obs p fill extra caps prior) = true.
Proof. exact model_passes. Qed.
Print Assumptions C01_judges_sound.

(* … likewise the judge for several packets through one stream encoder … *)
Theorem C01_stream_judge_sound : forall pps : list (packet * bytes),
  j_stream (map fst pps)
    (concat (map (fun pp => match encoder_write (snd pp) (fst pp) with XSent b => b | _ => [] end) pps)) = true.
Proof. exact model_stream. Qed.
Print Assumptions C01_stream_judge_sound.

(* … and the judge for encodeHeader alone, for every type, flags, remaining length, tl, buffer *)
Theorem C01_header_judge_sound : forall t flags rl tl dst,
  j_header t flags rl tl (blen dst) (finish (encode_header dst flags rl tl t)) = true.
Proof. exact model_header. Qed.
Print Assumptions C01_header_judge_sound.

(* non-vacuity: one well-formed packet per shape, including a 16384-byte remaining length,
   and concrete wire bytes *)
Definition ex_publish : packet := Publish true (Msg [x61; x2f; x62] [x01; x02] 2 true) 65535.
Definition ex_connect : packet :=
  Connect (Conn [x63] 10 [x75] [x70] false (Some (Msg [x77] [x21] 1 true)) 3).
Definition ex_big : packet := Publish false (Msg [x74] (repeat xaa (N.to_nat 16381)) 0 false) 0.

Example C01_nonvacuous :
  wf ex_publish = true /\ wf ex_connect = true /\ wf ex_big = true /\ body_len ex_big = 16384 /\
  wf (Subscribe 1 [([x61], 0); ([x62; x2f; x23], 2)]) = true /\ wf (Suback 256 [0; 1; 2; 128]) = true /\
  wf (Unsubscribe 65535 [[x61]]) = true /\ wf (Connack true 5) = true /\ wf (Pubrel 1) = true /\ wf Pingreq = true /\
  encode_go (len_go ex_publish) ex_publish = EOk 11 [x3d; x09; x00; x03; x61; x2f; x62; xff; xff; x01; x02] /\
  wire_spec ex_connect =
    [x10; x1b; x00; x06; x4d; x51; x49; x73; x64; x70; x03; xec; x00; x0a; x00; x01; x63;
     x00; x01; x77; x00; x01; x21; x00; x01; x75; x00; x01; x70] /\
  len_go ex_big = 16388 /\
  (exists n, encode_go 10 ex_publish = EErr n) /\
  encoder_write [xee; xee; xee; xee; xee; xee; xee; xee] (Pubrel 258) = XSent [x62; x02; x01; x02] /\
  decode_go TPublish [x3d; x09; x00; x03; x61; x2f; x62; xff; xff; x01; x02] = DOk ex_publish 11.
Proof. vm_compute. repeat split; try reflexivity. eexists; reflexivity. Qed.
