(* C01 — Codec round-trips every well-formed packet; Len() equals the bytes written.
   (theorems are added as the proofs land) *)
From Coq Require Import List NArith.
From GM Require Import Codec.Packet Codec.WF Codec.Enc Codec.WireSpec.
Import ListNotations.
Open Scope N_scope.
