(* C19 (link) — what one connection sends is what the peer connection receives.
   Only statements, `exact`, Print Assumptions, and Examples.

   LK (Transport/Link.v) composes the two halves that C19 / C03 prove separately:
     connection A  = CN (Transport/BaseConn.v): Send / Close / flush timer over mercury + bufio
                     over a failing carrier; a Send's bytes are what the REAL encoder produces
                     (Enc.encoder_write on a pooled buffer with arbitrary earlier content);
     the wire      = the Write calls A's carrier accepted (link_chunks), re-cut by the network
                     in ANY way: every cs with `rechunk cs (link_chunks sA)`;
     connection B  = the stream decoder of C03 (Stream/Stream.v) with the REAL codec
                     (detect_impl = DetectPacket, codec_decode = Type.New() + Dec.decode_go),
                     alone (b_recv) or inside a BaseConn (b_receives).
   A `lev` script is any interleaving of events of any number of goroutines; `who` in LSend is the
   sending goroutine; the order of the script's Send events is the order in which the Sends got
   sendMutex (atomicity of Send / Close under the mutex: trusted + race detector, as in C19).

   Hypotheses, and why each is there (Examples below show them met, and needed):
     lquiet / lev_wf   every packet handed to Send is well-formed (WF.wf, C01) — otherwise Encode may
                       fail (Send closes the connection) or produce bytes Decode refuses;
     lflushing last    the script ends with Close, a timer firing or a flushed Send — otherwise
                       accepted packets may still sit in A's write buffer;
     within limB       every packet fits B's read limit (0 = none) — otherwise B answers
                       ErrReadLimitExceeded;
     wl = None, no LFailWrites / LClose inside (link_delivers only): A's carrier does not fail.
   No hypothesis on sizes beyond wf (which bounds the remaining length by 268435455).           *)
From Coq Require Import List NArith Bool.
From Coq.Strings Require Import Byte.
From GM Require Import Codec.Packet Codec.WF Codec.WireSpec Stream.Stream Stream.EncStream Stream.EncStreamProofs
  Stream.FramesProofs Stream.StreamCodec Stream.StreamTotal Transport.BaseConn Transport.BaseConnProofs
  Transport.Link Transport.LinkProofs.
Import ListNotations.
Open Scope N_scope.

(* A's carrier does not fail; any interleaving of buffered and flushed Sends of well-formed
   packets by any goroutines, timer firings, delay / timeout changes, ended by Close, a timer
   firing or a flushed Send.  Every Send (and the Close) returned nil, nothing is left in A's
   buffer, and for EVERY re-chunking of A's wire B decodes exactly the packets sent — each equal
   to the packet sent, with exactly its encoding as byte range, in the order of the Send events,
   one allocation request of its size each — and then sees a clean end (EOF for io.EOF):
   nothing lost, nothing invented, nothing reordered *)
Theorem C19_link_delivers :
  forall d0 csA eA limA dl dlc script last sA rsA cs limB eB,
    Forall lquiet script -> lflushing last ->
    Forall (within limB) (map snd (offered (script ++ [last]))) ->
    a_run (a_init d0 None csA eA limA dl dlc false) (script ++ [last]) = (sA, rsA) ->
    rechunk cs (link_chunks sA) ->
    let ps := map snd (offered (script ++ [last])) in
    let b := b_recv limB cs eB in
    Forall (fun r => r = CROk \/ r = CRNone) rsA /\
    laccepted (script ++ [last]) rsA = offered (script ++ [last]) /\
    e_buf (c_enc sA) = [] /\
    a_frames b = map (frame_of wire_spec) ps /\
    b_packets b = ps /\
    a_err b = end_err eB 0 /\ (eB = SEof -> a_err b = EEof) /\
    a_allocs b = map (alloc_of wire_spec) ps.
Proof. exact link_delivers. Qed.
Print Assumptions C19_link_delivers.

(* … in particular the packets of one sender goroutine arrive in the order that goroutine sent
   them: label the i-th packet B received with the goroutine of the i-th Send event; for every
   goroutine g the packets labelled g are exactly those g sent, in g's own order *)
Theorem C19_link_per_sender_order :
  forall d0 csA eA limA dl dlc script last sA rsA cs limB eB,
    Forall lquiet script -> lflushing last ->
    Forall (within limB) (map snd (offered (script ++ [last]))) ->
    a_run (a_init d0 None csA eA limA dl dlc false) (script ++ [last]) = (sA, rsA) ->
    rechunk cs (link_chunks sA) ->
    let received := b_packets (b_recv limB cs eB) in
    let senders := map fst (offered (script ++ [last])) in
    length received = length senders /\
    forall g, map snd (filter (fun x => fst x =? g) (combine senders received)) = sent_by g (script ++ [last]).
Proof. exact link_per_sender_order. Qed.
Print Assumptions C19_link_per_sender_order.

(* the same with B a BaseConn: n+1 Receive calls return the n packets, then the clean end *)
Theorem C19_link_delivers_conn :
  forall d0 csA eA limA dl dlc script last sA rsA cs limB eB,
    Forall lquiet script -> lflushing last ->
    Forall (within limB) (map snd (offered (script ++ [last]))) ->
    a_run (a_init d0 None csA eA limA dl dlc false) (script ++ [last]) = (sA, rsA) ->
    rechunk cs (link_chunks sA) ->
    let ps := map snd (offered (script ++ [last])) in
    b_receives limB cs eB (S (length ps)) =
    map (fun p => CRPacket (wire_spec p) p) ps ++ [CRRecvErr (end_err eB 0)].
Proof. exact link_delivers_conn. Qed.
Print Assumptions C19_link_delivers_conn.

(* … and with the decoder side's own model of DetectPacket (Dec.detect_go, C02) *)
Theorem C19_link_delivers_detect_go :
  forall d0 csA eA limA dl dlc script last sA rsA cs limB eB,
    Forall lquiet script -> lflushing last ->
    Forall (within limB) (map snd (offered (script ++ [last]))) ->
    a_run (a_init d0 None csA eA limA dl dlc false) (script ++ [last]) = (sA, rsA) ->
    rechunk cs (link_chunks sA) ->
    let ps := map snd (offered (script ++ [last])) in
    let b := dec_all detect_go_view codec_decode limB cs eB in
    a_frames b = map (frame_of wire_spec) ps /\ a_err b = end_err eB 0.
Proof. exact link_delivers_detect_go. Qed.
Print Assumptions C19_link_delivers_detect_go.

(* everything accepted by Sends — the buffered (async) ones included — before a Close reaches B,
   whole and in order, before B sees the end of the stream; Close returns nil
   (C19_close_loses_nothing composed with C03_frames_codec) *)
Theorem C19_link_close_loses_nothing :
  forall d0 csA eA limA dl dlc script sA rsA cs limB eB,
    Forall lquiet script ->
    Forall (within limB) (map snd (offered script)) ->
    a_run (a_init d0 None csA eA limA dl dlc false) (script ++ [LClose]) = (sA, rsA) ->
    rechunk cs (link_chunks sA) ->
    let b := b_recv limB cs eB in
    last rsA CRNone = CROk /\
    b_packets b = map snd (offered script) /\
    (forall p, In p (buffered script) -> In p (b_packets b)) /\
    a_err b = end_err eB 0 /\ (eB = SEof -> a_err b = EEof).
Proof. exact link_close_loses_nothing. Qed.
Print Assumptions C19_link_close_loses_nothing.

(* the same after ANY history (any Sends, A's own Receives, timeouts, timer firings, any carrier
   script) provided A's carrier has not failed when Close is called (C19_close_flushes composed):
   B receives exactly the packets whose Send returned nil, in order, then the clean end *)
Theorem C19_link_close_flushes :
  forall d0 wl csA eA limA dl dlc cf script s1 rs1 sA r cs limB eB,
    Forall lev_wf script ->
    Forall (within limB) (map snd (offered script)) ->
    a_run (a_init d0 wl csA eA limA dl dlc cf) script = (s1, rs1) ->
    healthy (c_enc s1) ->
    cn_step detect_impl codec_decode s1 CClose = (sA, r) ->
    rechunk cs (link_chunks sA) ->
    let b := b_recv limB cs eB in
    b_packets b = map snd (laccepted script rs1) /\
    a_frames b = map (frame_of wire_spec) (map snd (laccepted script rs1)) /\
    a_err b = end_err eB 0 /\
    (c_clfail s1 = false -> r = CROk).
Proof. exact link_close_flushes. Qed.
Print Assumptions C19_link_close_flushes.

(* ANY script on A (Sends of well-formed packets, timer, Receives, Close anywhere, Sends after
   Close) over ANY failing carrier, ANY re-chunking: B decodes a prefix of [the packets whose Send
   returned nil, in order, then possibly the packet of the one Send that reported the failure] —
   and that last one never whole (lost <> []) — and stops at a packet boundary (j = 0) or j bytes
   into the next packet of that list: never a packet that was not sent, never a reordering, never
   a packet made from partial bytes *)
Theorem C19_link_prefix_on_failure :
  forall d0 wl csA eA limA dl dlc cf script sA rsA cs limB eB,
    Forall lev_wf script ->
    Forall (within limB) (map snd (offered script)) ->
    a_run (a_init d0 wl csA eA limA dl dlc cf) script = (sA, rsA) ->
    rechunk cs (link_chunks sA) ->
    let b := b_recv limB cs eB in
    exists extra lost j,
      (extra = [] \/
       exists x, extra = [snd x] /\ In x (offered script) /\ e_berr (c_enc sA) <> None /\ lost <> []) /\
      b_packets b ++ lost = map snd (laccepted script rsA) ++ extra /\
      a_frames b = map (frame_of wire_spec) (b_packets b) /\
      a_err b = end_err eB j /\
      match lost with
      | [] => j = 0 /\ concat cs = concat (map wire_spec (b_packets b))
      | p :: _ => j < len (wire_spec p) /\
                  concat cs = concat (map wire_spec (b_packets b)) ++ takeN j (wire_spec p)
      end.
Proof. exact link_prefix_on_failure. Qed.
Print Assumptions C19_link_prefix_on_failure.

(* hence: what B receives is a prefix of the packets A's Sends accepted (returned nil for), with
   their encodings as byte ranges, followed by EOF or ErrUnexpectedEOF (source ending with io.EOF) *)
Theorem C19_link_prefix_of_accepted :
  forall d0 wl csA eA limA dl dlc cf script sA rsA cs limB eB,
    Forall lev_wf script ->
    Forall (within limB) (map snd (offered script)) ->
    a_run (a_init d0 wl csA eA limA dl dlc cf) script = (sA, rsA) ->
    rechunk cs (link_chunks sA) ->
    let b := b_recv limB cs eB in
    prefix_of (b_packets b) (map snd (laccepted script rsA)) /\
    prefix_of (a_frames b) (map (frame_of wire_spec) (map snd (laccepted script rsA))) /\
    a_frames b = map (frame_of wire_spec) (b_packets b) /\
    (exists j, a_err b = end_err eB j) /\
    (eB = SEof -> a_err b = EEof \/ a_err b = EUnexpectedEof).
Proof. exact link_prefix_of_accepted. Qed.
Print Assumptions C19_link_prefix_of_accepted.

(* ---------------------------------------------------------------- non-vacuity *)

Definition lk_connect : packet := Connect (Conn [x63; x31] 30 [x75] [x70] true (Some (Msg [x77] [x21] 1 false)) 4).
Definition lk_mid : packet := Publish false (Msg [x61] (repeat x41 (N.to_nat 300)) 0 false) 0.
Definition lk_big : packet := Publish false (Msg [x61; x2f; x62] (repeat x5a (N.to_nat 5000)) 1 true) 258.
Definition lk_sub : packet := Subscribe 9 [([x61], 1)].

(* goroutines 1 and 2; five packet types, sizes 2 .. 5010 bytes (one > 4096: split by bufio
   between two carrier writes); dirty pooled buffers; buffered sends, a timer firing, a flushed
   send, then a buffered DISCONNECT directly followed by Close *)
Definition lk_body : list lev :=
  [LSend 1 lk_connect [xee; xee] true; LSend 2 lk_mid [] true; LSend 1 lk_big [x01] true; LTimer;
   LSend 2 (Puback 7) [] false; LSend 1 lk_sub [] true; LSend 2 Disconnect [xff; xff; xff] true].
Definition lk_script : list lev := lk_body ++ [LClose].
Definition lk_packets : list packet := [lk_connect; lk_mid; lk_big; Puback 7; lk_sub; Disconnect].
Definition lk_a0 : cstate := a_init false None [] SEof 0 None false false.

(* the hypotheses of C19_link_delivers / per_sender_order / close_loses_nothing are met *)
Example C19_link_hypotheses_met :
  Forall lquiet lk_body /\ lflushing LClose /\
  Forall (within 0) (map snd (offered lk_script)) /\ Forall (within 8192) (map snd (offered lk_script)) /\
  map snd (offered lk_script) = lk_packets /\ forallb wf lk_packets = true.
Proof.
  split; [repeat (apply Forall_cons; [vm_compute; try reflexivity; exact I|]); apply Forall_nil|].
  split; [exact I|].
  split; [repeat (apply Forall_cons; [left; reflexivity|]); apply Forall_nil|].
  split; [repeat (apply Forall_cons; [right; apply N.leb_le; vm_compute; reflexivity|]); apply Forall_nil|].
  split; vm_compute; reflexivity.
Qed.

(* the whole link evaluated: A's results, the carrier writes (the 5010-byte PUBLISH is cut at
   bufio's 4096), and B's view under the byte-by-byte and the one-chunk re-chunking *)
Example C19_link_example :
  let '(rsA, w, b1) := link_run lk_a0 lk_script bytewise 0 SEof in
  let '(_, _, b2) := link_run lk_a0 lk_script one_chunk 8192 SEof in
  rsA = [CROk; CROk; CROk; CRNone; CROk; CROk; CROk; CROk] /\
  map len w = [4096; 1248; 4; 10] /\
  len (bytewise w) = 5358 /\ len (one_chunk w) = 1 /\
  rechunk (bytewise w) w /\ rechunk (one_chunk w) w /\
  (b_packets b1 = lk_packets /\ a_err b1 = EEof /\ a_allocs b1 = [28; 306; 5010; 4; 8; 2]) /\
  (b_packets b2 = lk_packets /\ a_err b2 = EEof /\ map fst (a_frames b2) = map wire_spec lk_packets) /\
  b_receives 0 (bytewise w) SEof 7 =
    map (fun p => CRPacket (wire_spec p) p) lk_packets ++ [CRRecvErr EEof] /\
  (* per sender *)
  map fst (offered lk_script) = [1; 2; 1; 2; 1; 2] /\
  sent_by 1 lk_script = [lk_connect; lk_big; lk_sub] /\ sent_by 2 lk_script = [lk_mid; Puback 7; Disconnect] /\
  map snd (filter (fun x => fst x =? 1) (combine (map fst (offered lk_script)) (b_packets b1))) = sent_by 1 lk_script /\
  map snd (filter (fun x => fst x =? 2) (combine (map fst (offered lk_script)) (b_packets b1))) = sent_by 2 lk_script /\
  (* the buffered sends, the final DISCONNECT included, arrived *)
  buffered lk_script = [lk_connect; lk_mid; lk_big; lk_sub; Disconnect].
Proof. vm_compute. repeat split. Qed.

(* failure: A's carrier takes one Write and then refuses.  CONNECT and the big PUBLISH are
   accepted (buffered; bufio's fill-and-flush is the one write that succeeds: 4096 bytes), the
   flushed PUBACK reports the error.  B gets CONNECT, then ErrUnexpectedEOF 4068 bytes into the
   PUBLISH: a prefix of the accepted packets, nothing else *)
Definition lk_fail_script : list lev :=
  [LSend 1 lk_connect [] true; LSend 2 lk_big [] true; LSend 1 (Puback 7) [] false; LSend 2 Pingreq [] true].

Example C19_link_failure_example :
  Forall lev_wf lk_fail_script /\
  let '(rsA, w, b) := link_run (a_init false (Some 1) [] SEof 0 None false false) lk_fail_script bytewise 0 SEof in
  rsA = [CROk; CROk; CRErr 4; CRErr 4] /\ map len w = [4096] /\
  map snd (laccepted lk_fail_script rsA) = [lk_connect; lk_big] /\
  b_packets b = [lk_connect] /\ a_err b = EUnexpectedEof /\
  concat w = wire_spec lk_connect ++ takeN 4068 (wire_spec lk_big).
Proof.
  split; [repeat (apply Forall_cons; [vm_compute; reflexivity|]); apply Forall_nil|].
  vm_compute. repeat split.
Qed.

(* C19_link_close_flushes after a history with A's own traffic in the other direction (a PINGREQ
   received, a timeout set) between two buffered Sends: the state before Close is healthy,
   Close returns nil, B receives both packets *)
Example C19_link_close_flushes_example :
  let '(s1, rs1) := a_run (a_init false None [[xc0]; [x00]] SEof 0 None false false)
                      [LSend 1 lk_connect [] true; LReceive; LSetTimeout; LSend 2 lk_mid [] true] in
  let '(sA, r) := cn_step detect_impl codec_decode s1 CClose in
  let b := b_recv 0 (bytewise (link_chunks sA)) SEof in
  healthy (c_enc s1) /\ rs1 = [CROk; CRPacket [xc0; x00] Pingreq; CRNone; CROk] /\ r = CROk /\
  map snd (laccepted [LSend 1 lk_connect [] true; LReceive; LSetTimeout; LSend 2 lk_mid [] true] rs1) = [lk_connect; lk_mid] /\
  b_packets b = [lk_connect; lk_mid] /\ a_err b = EEof.
Proof. vm_compute. repeat split. Qed.

(* the hypotheses are needed.
   (a) no flush at the end: accepted buffered packets are still in A's buffer, B sees nothing;
   (b) a packet beyond B's read limit: ErrReadLimitExceeded after the packets before it;
   (c) a packet that is not well-formed (SUBSCRIBE without subscriptions): Encode and Send
       succeed, B's Decode refuses the bytes *)
Example C19_link_hypotheses_needed :
  (let '(rsA, w, b) := link_run lk_a0 [LSend 1 lk_connect [] true; LSend 2 Disconnect [] true] one_chunk 0 SEof in
   rsA = [CROk; CROk] /\ w = [] /\ b_packets b = [] /\ a_err b = EEof) /\
  (let '(_, _, b) := link_run lk_a0 lk_script bytewise 1000 SEof in
   b_packets b = [lk_connect; lk_mid] /\ a_err b = EReadLimit) /\
  (let '(rsA, _, b) := link_run lk_a0 [LSend 1 Pingreq [] true; LSend 1 (Subscribe 5 []) [] false] one_chunk 0 SEof in
   wf (Subscribe 5 []) = false /\ rsA = [CROk; CROk] /\ b_packets b = [Pingreq] /\ a_err b = EDecode).
Proof. vm_compute. repeat split. Qed.
