(* C08 — Broker never loses an accepted QoS>=1 message for a persistent subscriber.
   Only statements, `exact`, Print Assumptions and Examples.

   The model BC (Broker/Conn.v) is a deterministic monitor of the events of one
   broker connection after another over one session (/repo/broker/client.go);
   [bc_run es = Some s] says that the model accepts the trace [es].  The clauses are
   the executable trace predicates of Broker/ConnSpec.v (they never look at the
   model state); each theorem says: EVERY trace the model accepts satisfies the
   clause — whatever the scheduling, the peer's behaviour, the position of
   transport/session/backend failures and the number of reconnects.  The same
   clauses, extracted, judge the traces recorded on the implementation
   (checks/C08.py).

   c08_store_before_send  a fresh (dup = false) QoS>0 PUBLISH is sent only by the goroutine
                          that dequeued the message, and only after that goroutine's
                          successful Save(Outgoing) of exactly that packet.
   c08_kept_until_acked   the outgoing store is written for a reason only: an entry is deleted
                          only by the goroutine whose last received packet is PUBACK/PUBCOMP of
                          that id, replaced by PUBREL id only after receiving PUBREC id, created
                          only for a dequeued QoS>0 message (as a fresh PUBLISH).
   c08_resend             CONNACK carries session-present = (not clean-session) && resumed; after
                          a successful CONNACK the processor lists the outgoing store and re-sends
                          every stored packet in store order (PUBLISH with dup set, PUBREL as such)
                          before Restore and before any Dequeue call of the connection.
   c08_no_second_new      over the whole session lifetime a fresh (dup = false) QoS>0 PUBLISH with
                          id i is sent at most once per allocation of i by NextID.
   c08_popped_is_saved    (ConnSpec3.v) a QoS>0 message the dequeuer took from the backend queue is
                          handed to SavePacket(Outgoing) — as a fresh PUBLISH of exactly that message —
                          before the connection can end: at EClosed no goroutine holds a dequeued,
                          not yet saved message (in the model cleanup cannot begin while the dequeuer
                          is between Dequeue's return and SavePacket).
   c08_pubrel_after_store (ConnSpec3.v) the goroutine that received PUBREC id sends PUBREL id only after
                          its successful Save(Outgoing, PUBREL id): a connection lost while writing the
                          PUBREL is resumed with PUBREL, not with the PUBLISH again. *)
From Coq Require Import List NArith Bool.
From GM Require Import Base.Lts Codec.Packet Session.Store Broker.Conn Broker.ConnSpec Broker.ConnSpec3
  Broker.ConnProofsCTraces Broker.ConnProofsC2 Broker.ConnProofsC3 Broker.ConnProofsC6.
Import ListNotations.
Open Scope N_scope.

Theorem C08_store_before_send : forall es s, bc_run es = Some s -> c08_store_before_send es = true.
Proof. exact c08_store_before_send_holds. Qed.
Print Assumptions C08_store_before_send.

Theorem C08_kept_until_acked : forall es s, bc_run es = Some s -> c08_kept_until_acked es = true.
Proof. exact c08_kept_until_acked_holds. Qed.
Print Assumptions C08_kept_until_acked.

Theorem C08_resend : forall es s, bc_run es = Some s -> c08_resend es = true.
Proof. exact c08_resend_holds. Qed.
Print Assumptions C08_resend.

Theorem C08_no_second_new : forall es s, bc_run es = Some s -> c08_no_second_new es = true.
Proof. exact c08_no_second_new_holds. Qed.
Print Assumptions C08_no_second_new.

Theorem C08_popped_is_saved : forall es s, bc_run es = Some s -> c08_popped_is_saved es = true.
Proof. exact c08_popped_is_saved_holds. Qed.
Print Assumptions C08_popped_is_saved.

Theorem C08_pubrel_after_store : forall es s, bc_run es = Some s -> c08_pubrel_after_store es = true.
Proof. exact c08_pubrel_after_store_holds. Qed.
Print Assumptions C08_pubrel_after_store.

(* non-vacuity: accepted traces (ConnProofsCTraces.v) exercising the clauses *)

(* a QoS 1 delivery with PUBACK, a QoS 2 delivery with PUBREC/PUBREL/PUBCOMP *)
Example C08_nonvacuous_qos1 :
  tc_accepted tr_qos1 = true /\ spec_c08 tr_qos1 = true /\
  In (ETx 3 (Publish false tc_m1 1) true true) tr_qos1 /\ In (ERx 2 (Puback 1)) tr_qos1.
Proof. vm_compute. repeat split; auto 30. Qed.

Example C08_nonvacuous_qos2 :
  tc_accepted tr_qos2 = true /\ spec_c08 tr_qos2 = true /\
  In (ETx 3 (Publish false tc_m2 1) true true) tr_qos2 /\ In (ETx 2 (Pubrel 1) true true) tr_qos2 /\
  In (ERx 2 (Pubcomp 1)) tr_qos2.
Proof. vm_compute. repeat split; auto 40. Qed.

(* a connection loss with a QoS 1 PUBLISH and a QoS 2 PUBREL outstanding; the resumed
   connection announces session-present and re-sends PUBLISH (dup) and PUBREL *)
Example C08_nonvacuous_resume :
  tc_accepted tr_resume = true /\ spec_c08 tr_resume = true /\
  In (ETx 5 (Connack true 0) false true) tr_resume /\
  In (ETx 5 (Publish true tc_m1 1) true true) tr_resume /\ In (ETx 5 (Pubrel 2) true true) tr_resume.
Proof. vm_compute. repeat split; auto 60. Qed.

(* the second-round clauses on the same traces (a connection that ends after QoS>0 deliveries,
   a PUBREC/PUBREL exchange, a resume that re-sends a PUBREL) *)
Example C08_nonvacuous_round2 :
  c08_popped_is_saved tr_qos1 = true /\ c08_popped_is_saved tr_resume = true /\
  c08_pubrel_after_store tr_qos2 = true /\ c08_pubrel_after_store tr_resume = true /\
  In EClosed tr_qos1 /\ In (ESave 2 Outgoing (Pubrel 1) true) tr_qos2.
Proof. vm_compute. repeat split; auto 60. Qed.

Example C08_round2_clauses_reject :
  c08_popped_is_saved [ENewConn; EDeqRet 3 (QMsg tc_m1 false); EClosed] = false /\
  c08_popped_is_saved [ENewConn; EDeqRet 3 (QMsg tc_m1 false); ESave 3 Outgoing (Publish false tc_m1b 1) true] = false /\
  c08_pubrel_after_store [ERx 2 (Pubrec 1); ETx 2 (Pubrel 1) true true] = false.
Proof. vm_compute. repeat split. Qed.

(* the clauses do reject: a fresh PUBLISH without a preceding save, an unjustified delete,
   a dequeue before the resend is complete, a second fresh send of the same id *)
Example C08_clauses_reject :
  c08_store_before_send [EDeqRet 3 (QMsg tc_m1 false); ETx 3 (Publish false tc_m1 1) true true] = false /\
  c08_kept_until_acked [ERx 2 (Pubrec 1); EDelete 2 Outgoing 1 true] = false /\
  c08_resend [ERx 2 (Connect tc_conn); ESetup 2 (SOk true false 2 10 10); ETx 2 (Connack true 0) false true;
              EAll 2 Outgoing (Some [Pubrel 2]); EDeqCall 3] = false /\
  c08_resend [ERx 2 (Connect tc_conn); ESetup 2 (SOk true false 2 10 10); ETx 2 (Connack false 0) false true] = false /\
  c08_no_second_new [ENextId 3 1; ETx 3 (Publish false tc_m1 1) true true; ETx 3 (Publish false tc_m1 1) true true] = false.
Proof. vm_compute. repeat split. Qed.
