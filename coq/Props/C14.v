(* C14 — No client can crash or stall the broker or disturb any other client.
   Only statements, `exact`, Print Assumptions.

   The property is largely about the running process (no panic, no goroutine blocked
   forever, witnesses keep receiving): those clauses are decided by the hostile-peer runs
   of the check (go/cmd/system c14) and are labelled runtime in DESIGN.md.  What is proved
   is the logic the property rests on:

   total input      every byte string is decoded or refused without panic (Codec/Dec.v)
   forwardable      every application message the decoder admits — a PUBLISH or a will — can
                    be encoded again as the PUBLISH a broker forwards, at every QoS not above
                    the original, with every id valid for it and either retain flag, so
                    forwarding it cannot fail a SUBSCRIBER's connection (Compose.v: C02 + C01)
   life cycle       per connection Terminate is called at most once, only after authentication,
                    exactly once before Closed for every connection the backend set up; nothing
                    of the connection happens after Closed (trace clause c14_lifecycle)
   closed fires     once all three goroutines of a connection have stopped, the cleanup's next
                    event is always enabled and Closed is reached within four events; a dying
                    connection's goroutines are each at a stopping point, or waiting for a
                    backend call already in progress to return, or have an enabled step of
                    their own (quiescence-style progress statements about Broker/Conn.v)
   isolation        one monitor per connection; a connection acts on others only through the
                    backend, and a Publish changes exactly the queues of the sessions that hold
                    a matching subscription, leaving subscriptions, ownership and the other
                    queue of every session alone (Broker/Backend.v) *)
From Coq Require Import List NArith Bool.
From Coq.Strings Require Import Byte.
From GM Require Import Base.Lts Codec.Packet Codec.WF Codec.Enc Codec.Dec Codec.DecProofsSafe
  Topic.MatchSpec Session.Store
  Broker.Conn Broker.ConnSpec Broker.ConnSpec2 Broker.ConnSpec5 Broker.ConnProofsD0 Broker.ConnProofsD1 Broker.ConnProofsD2 Broker.ConnProofsD3
  Broker.Compose Broker.Backend Broker.BackendSpec Broker.BackendReadings.
(* stream-level totality (C14_total_stream) lives in its own file: *)
From GM Require Props.C14_stream Props.C14_conn.
Import ListNotations.
Open Scope N_scope.

Theorem C14_total_input : forall t bs, decode_go t bs <> DPanic /\ detect_go bs <> DetPanic.
Proof. intros t bs. split; [apply decode_no_panic | apply detect_no_panic]. Qed.
Print Assumptions C14_total_input.

Theorem C14_forwardable_publish : forall bs d m id n,
  decode_go TPublish bs = DOk (Publish d m id) n ->
  forall q id' retain, q <= m_qos m -> (if q =? 0 then id' = 0 else id_ok id' = true) ->
  exists out, encode_go (len_go (forwarded m q retain id')) (forwarded m q retain id')
              = EOk (len_go (forwarded m q retain id')) out.
Proof. exact decoded_publish_forwardable. Qed.
Print Assumptions C14_forwardable_publish.

Theorem C14_forwardable_will : forall bs c m n,
  decode_go TConnect bs = DOk (Connect c) n -> c_will c = Some m ->
  forall q id' retain, q <= m_qos m -> (if q =? 0 then id' = 0 else id_ok id' = true) ->
  exists out, encode_go (len_go (forwarded m q retain id')) (forwarded m q retain id')
              = EOk (len_go (forwarded m q retain id')) out.
Proof. exact decoded_will_forwardable. Qed.
Print Assumptions C14_forwardable_will.

Theorem C14_lifecycle : forall es s, bc_run es = Some s -> c14_lifecycle2 es = true.
Proof. exact c14_lifecycle2_holds. Qed.
Print Assumptions C14_lifecycle.

Theorem C14_closed_fires : forall es s, bc_run es = Some s ->
  (exists g, role_free s g = true /\ in_closure s g = false) /\
  (lp s = LNone -> all_stopped s = true ->
   forall g, role_free s g = true -> in_closure s g = false -> cl_next_start s g) /\
  (match lp s with LWillR | LWillDie | LTerm | LTermDie => exists g, gcl s = Some g | _ => True end) /\
  (forall g, gcl s = Some g -> in_closure s g = false -> cl_next_cont s g) /\
  (lp s = LClosed -> exists s', Conn.step s EClosed = Some s' /\ lp s' = LEnd) /\
  (cl_ready s ->
   exists es' s', (length es' <= 3)%nat /\ Lts.run Conn.step s (es' ++ [EClosed]) = Some s' /\ lp s' = LEnd).
Proof. exact cleanup_enabled. Qed.
Print Assumptions C14_closed_fires.

Theorem C14_dying_stops : forall es s, bc_run es = Some s ->
  dying s = true -> lp s = LNone -> clos_idle s = true ->
  (proc_kind (pp s) = KStop -> proc_can_stop s = true) /\
  (deq_kind (dp s) = KStop -> deq_can_stop s = true) /\
  (ack_kind (ap s) = KStop -> ack_can_stop s = true) /\
  (proc_kind (pp s) <> KStop -> exists e s', Conn.step s e = Some s' /\ ev_g e = Some (proc_g s) /\
      (if ret_event e then proc_kind (pp s) = KRet else own_event e = true /\ proc_kind (pp s) = KOwn)) /\
  (deq_kind (dp s) <> KStop -> exists e s', Conn.step s e = Some s' /\ ev_g e = Some (og (gdeq s)) /\
      (if ret_event e then deq_kind (dp s) = KRet else own_event e = true /\ deq_kind (dp s) = KOwn)) /\
  (ack_kind (ap s) <> KStop -> exists e s', Conn.step s e = Some s' /\ ev_g e = Some (og (gack s)) /\
      ret_event e = false /\ own_event e = true).
Proof. exact dying_stops_summary. Qed.
Print Assumptions C14_dying_stops.

(* what one connection's Publish does to ANY session of the backend *)
Theorem C14_isolation : forall st c m got st' k s,
  targets_ok st (OPublish c m got) ROk st' = true -> name_ok (m_topic m) = true ->
  In (k, s) (sessions st) ->
  exists s', get_session st' k = Some s' /\
    s_subs s' = s_subs s /\ s_act s' = s_act s /\ other_queue m s' = other_queue m s /\
    ((exists f q, In (f, q) (s_subs s) /\ topic_matches f (m_topic m) = true) ->
       is_full (st_cap st) (queue_of m s) = false -> queue_of m s' = queue_of m s ++ [copy m]) /\
    ((forall f q, In (f, q) (s_subs s) -> topic_matches f (m_topic m) = false) -> queue_of m s' = queue_of m s) /\
    (queue_of m s' = queue_of m s \/ queue_of m s' = queue_of m s ++ [copy m]).
Proof. exact targets_reading. Qed.
Print Assumptions C14_isolation.
