(* C05 — Topic tree equals a topic->value-set map after any history; ops are atomic.
   Only statements, `exact`, and Print Assumptions. *)
From Coq Require Import List NArith.
From Coq.Strings Require Import Byte.
From GM Require Import Topic.MatchSpec Topic.Levels Topic.Trie Topic.TreeSpec.
Import ListNotations.

(* different topic strings are different keys *)
Theorem C05_topics_are_keys : forall s1 s2, split_levels s1 = split_levels s2 -> s1 = s2.
Proof. exact split_levels_inj. Qed.
Print Assumptions C05_topics_are_keys.
