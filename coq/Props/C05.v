(* C05 — Topic tree equals a topic->value-set map after any history; ops are atomic.
   Only statements, `exact`, and Print Assumptions.

   Trie.v is the model of topic/tree.go; TreeSpec.v is the map (association list
   topic -> duplicate-free value list, queries through MatchSpec.matches only).
   The theorems are about sequential histories: a method that holds the tree's mutex
   for its whole body is one atomic step (checked syntactically on tree.go and by
   concurrent runs under the race detector, see checks/C05.py). *)
From Coq Require Import List NArith Bool String Permutation.
From Coq.Strings Require Import Byte.
From GM Require Import Base.Lin Topic.MatchSpec Topic.Levels Topic.Trie Topic.TrieProofs Topic.TreeSpec
  Topic.TreeSpecProofs Topic.TrieRefineProofs Topic.TrieCanonProofs Topic.TrieTopProofs Topic.TreeLin Topic.TreeLinProofs.
Import ListNotations.
Open Scope N_scope.

(* different topic strings are different keys of the map *)
Theorem C05_topics_are_keys : forall s1 s2, split_levels s1 = split_levels s2 -> s1 = s2.
Proof. exact split_levels_inj. Qed.
Print Assumptions C05_topics_are_keys.

(* for every history of add / set / remove / empty / clear / reset on NUL-free topics:
   (1) the contents of the trie are, topic by topic, a permutation of the map's value list;
   (2) every query in scope (Get; Match/MatchFirst on a wildcard-free name; Search/SearchFirst
       with a valid filter; All; Count) is answered as the map allows — lists up to order,
       Count exactly (it does not de-duplicate, All does), First variants: some element, nothing iff empty;
   (3) the printed structure String() is the one computed from the map alone. *)
Theorem C05_refines : forall ops, forallb op_ok ops = true ->
  (forall topic, Permutation (mget (abs (run_trie ops)) topic) (mget (run_spec ops) topic)) /\
  (forall q, query_ok q = true -> answer_ok (run_spec ops) q (answer_trie (run_trie ops) q)) /\
  Permutation (Shape (run_trie ops)) (s_shape (run_spec ops)).
Proof. exact refines_all. Qed.
Print Assumptions C05_refines.

(* no history (of any operations, on any topics) leaves an empty non-root node *)
Theorem C05_pruned : forall ops, pruned (run_trie ops) /\ prunedb (run_trie ops) = true.
Proof. exact pruned_run_both. Qed.
Print Assumptions C05_pruned.

(* history independence: two well-formed trees without empty nodes and with the same contents
   print the same structure (no trace of emptied branches) *)
Theorem C05_canonical : forall t1 t2, wf t1 -> wf t2 -> pruned t1 -> pruned t2 ->
  (forall topic, Permutation (mget (abs t1) topic) (mget (abs t2) topic)) ->
  Permutation (Shape t1) (Shape t2).
Proof. exact canonical_abs. Qed.
Print Assumptions C05_canonical.

(* ... in particular any two histories that leave the same map *)
Theorem C05_history_independent : forall ops1 ops2, forallb op_ok ops1 = true -> forallb op_ok ops2 = true ->
  (forall topic, Permutation (mget (run_spec ops1) topic) (mget (run_spec ops2) topic)) ->
  Permutation (Shape (run_trie ops1)) (Shape (run_trie ops2)) /\
  (forall p, Permutation (tget p (run_trie ops1)) (tget p (run_trie ops2))).
Proof. exact history_independent. Qed.
Print Assumptions C05_history_independent.

(* operations on different topics, and Clear against operations on other values, commute on
   the map: the concurrent runs of the harness (disjoint topics and values per goroutine) have
   one possible final content and one possible answer to each goroutine's own queries *)
Theorem C05_commute : forall m o1 o2, mwf m -> independent o1 o2 ->
  map_equiv (apply_spec (apply_spec m o1) o2) (apply_spec (apply_spec m o2) o1).
Proof. exact spec_commute. Qed.
Print Assumptions C05_commute.

(* two operation sequences that are pairwise independent (two goroutines of the concurrent tie):
   EVERY interleaving leaves the same map contents as running one sequence after the other *)
Theorem C05_interleave : forall l1 l2 l, interleave l1 l2 l ->
  (forall x y, In x l1 -> In y l2 -> independent x y) ->
  forall m, mwf m -> map_equiv (run_from m l) (run_from m (l1 ++ l2)).
Proof. exact interleave_equiv. Qed.
Print Assumptions C05_interleave.

(* the boolean checker the model runner applies to the implementation's answers is the relation of C05_refines *)
Theorem C05_checker_is_relation : forall m q a, answer_okb m q a = true <-> answer_ok m q a.
Proof. exact answer_okb_iff. Qed.
Print Assumptions C05_checker_is_relation.

(* concurrent histories on overlapping keys.  A history is a list of completed operations with the
   observed result and call / return stamps from one clock.  It is linearizable when some
   permutation of it (1) never puts an operation before one that had returned before it was called
   (rt_ok) and (2) is a legal sequential run of the map specification from the empty map producing
   the observed results up to order (legal).  The extracted checker the model runner applies to the
   recorded histories answers `true` only for linearizable histories ... *)
Theorem C05_lin_check_sound : forall (h : list tevent) fuel, tree_lin_check h fuel = true ->
  exists l, Permutation l h /\ rt_ok lop (lop * list N) l /\ legal tmap lop (lop * list N) lstep lagree [] l.
Proof. exact tree_lin_sound. Qed.
Print Assumptions C05_lin_check_sound.

(* ... and its verdict `No` (search finished within the node budget) refutes linearizability:
   a `propfail lin` line of the check is a history that no atomic implementation can produce *)
Theorem C05_lin_verdict_no : forall (h : list tevent) fuel, tree_lin_verdict h fuel = No ->
  ~ exists l, Permutation l h /\ rt_ok lop (lop * list N) l /\ legal tmap lop (lop * list N) lstep lagree [] l.
Proof. exact tree_lin_refutes. Qed.
Print Assumptions C05_lin_verdict_no.

(* non-vacuity *)
Definition b (s : string) : list byte := list_byte_of_string s.
Definition ex_ops : list op :=
  [OAdd (b "a/b") 1; OAdd (b "a/b") 2; OAdd (b "a/b") 3; OAdd (b "a/+") 1; OSet (b "x/y/z") 9; ORemove (b "a/b") 1;
   OEmpty (b "x/y/z"); OAdd (b "#") 2; OClear 3].
Example C05_nonvacuous :
  forallb op_ok ex_ops = true /\
  Get (run_trie ex_ops) (b "a/b") = [2] /\
  Get (run_trie (removelast ex_ops)) (b "a/b") = [3; 2] /\          (* the swap-delete order *)
  run_spec ex_ops = [([[x23]], [2]); ([[x61]; [x62]], [2]); ([[x61]; [x2b]], [1])] /\
  All (run_trie ex_ops) = [2; 1] /\ Count (run_trie ex_ops) = 3 /\
  Shape (run_trie ex_ops) = [([[x61]], 0); ([[x61]; [x62]], 1); ([[x61]; [x2b]], 1); ([[x23]], 1)] /\
  wf (run_trie ex_ops) /\ pruned (run_trie ex_ops) /\
  mwf (run_spec ex_ops) /\ independent (OAdd (b "a") 1) (OClear 2) /\ independent (OSet (b "a") 1) (OEmpty (b "a/b")).
Proof.
  split; [vm_compute; reflexivity|]. split; [vm_compute; reflexivity|]. split; [vm_compute; reflexivity|].
  split; [vm_compute; reflexivity|]. split; [vm_compute; reflexivity|]. split; [vm_compute; reflexivity|].
  split; [vm_compute; reflexivity|].
  split; [apply wf_run|]. split; [apply pruned_run|]. split; [apply mwf_run|].
  split; [simpl; discriminate | simpl; discriminate].
Qed.

(* Set(k,1) returns; then Set(k,2) runs concurrently with a Get(k).  An atomic Set never leaves the
   topic empty: Get = [] is rejected (this is what a Set implemented as Empty-then-Add shows),
   Get = [1] and Get = [2] are accepted, and so is a Search answer in another order. *)
Definition ex_hist (observed : list N) : list tevent :=
  [mk_event (LUpd (OSet (b "k") 1)) [] 1 2; mk_event (LUpd (OSet (b "k") 2)) [] 3 6; mk_event (LGet (b "k")) observed 4 5].
Example C05_lin_examples :
  tree_lin_verdict (ex_hist []) 1000 = No /\
  tree_lin_check (ex_hist [1]) 1000 = true /\ tree_lin_check (ex_hist [2]) 1000 = true /\
  tree_lin_verdict (ex_hist [1; 2]) 1000 = No /\
  tree_lin_check [mk_event (LUpd (OAdd (b "a/b") 1)) [] 1 4; mk_event (LUpd (OAdd (b "a/+") 2)) [] 2 3;
                  mk_event (LMatch (b "a/b")) [2; 1] 5 6; mk_event (LSearch (b "a/#")) [] 2 3] 1000 = true /\
  tree_lin_verdict (ex_hist [1]) 1 = OutOfFuel.
Proof. vm_compute. repeat split; reflexivity. Qed.
