(* C13 (STATE part only) — at most one live connection per client id; takeover keeps the
   session.  MemoryBackend model MB (Broker/Backend.v, Setup split into OSetup / OSetupEnd).
   The protocol / liveness part of C13 (order of Closed and CONNACK, many contenders, nothing
   blocked) is not in this file.  Only statements, `exact`, and Print Assumptions. *)
From Coq Require Import List NArith Bool String.
From Coq.Strings Require Import Byte.
From GM Require Import Codec.Packet Topic.MatchSpec Broker.Backend Broker.BackendSpec
  Broker.BackendProofsHist Broker.BackendC13.
Import ListNotations.
Open Scope N_scope.

(* A Setup that reports "resumed" (non-clean, stored session exists; directly or at the end of a
   takeover) returns that stored session: same subscriptions, same stored queue, now owned by the
   newcomer; only the temporary queue is reset.  (The packet stores and the id counter live in
   the embedded session.MemorySession object, which the Go code returns as is; they are not part
   of this model.) *)
Theorem C13_handover_state : forall cap ops, holds_along handover_ok cap ops.
Proof. exact handover_along. Qed.
Print Assumptions C13_handover_state.

(* full statement of the uniqueness invariant (Broker/BackendC13.v: unique_ok): kept as a
   definition, evaluated on every observed state of the implementation by the check *)
Definition C13_unique_state : Prop := C13_unique_state_statement.

(* proved part: client id -> active connection is a partial function after every history *)
Theorem C13_unique_state_partial : forall cap ops,
  nodup_keys (st_active (run_state (init cap) ops)) = true.
Proof. exact active_partial_function. Qed.
Print Assumptions C13_unique_state_partial.

Definition b (s : string) : bytes := list_byte_of_string s.

(* why the statement excludes kill timeouts: Terminate removes the active entry by client id,
   so the newcomer that timed out removes the OLD connection's entry *)
Theorem C13_unique_state_kill_timeout_refuted :
  exists ops, unique_ok (run_state (init 2) ops) = false.
Proof.
  exists [OSetup 1 (b "x") true; OSetup 2 (b "x") true; OSetupEnd true; OTerminate 2].
  vm_compute; reflexivity.
Qed.
Print Assumptions C13_unique_state_kill_timeout_refuted.

(* non-vacuity: a takeover that hands the session over, and the invariant on its states *)
Example C13_nonvacuous :
  let ops := [OSetup 1 (b "x") false; OSubscribe 1 [(b "a", 1)] [[]]; OPublish 9 (Msg (b "a") (b "p") 1 false) [];
              OSetup 2 (b "x") false; OTerminate 1; OMarkClosed 1; OSetupEnd false; ODequeue 2 false] in
  fst (run (init 2) ops) = [RSetup false; ROk; ROk; RSetupWait 1; ROk; ROk; RSetup true; RMsg (Msg (b "a") (b "p") 1 false)] /\
  forallb (fun n => unique_ok (run_state (init 2) (firstn n ops))) [0;1;2;3;4;5;6;7;8]%nat = true.
Proof. split; vm_compute; reflexivity. Qed.
