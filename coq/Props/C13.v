(* C13 (STATE part only) — at most one live connection per client id; takeover keeps the
   session.  MemoryBackend model MB (Broker/Backend.v, Setup split into OSetup / OSetupEnd).
   The protocol / liveness part of C13 (order of Closed and CONNACK, many contenders, nothing
   blocked) is not in this file.  Only statements, `exact`, and Print Assumptions. *)
From Coq Require Import List NArith Bool String.
From Coq.Strings Require Import Byte.
From GM Require Import Codec.Packet Topic.MatchSpec Broker.Backend Broker.BackendSpec
  Broker.BackendProofsHist Broker.BackendC13 Broker.BackendC13Proofs.
Import ListNotations.
Open Scope N_scope.

(* A Setup that reports "resumed" (non-clean, stored session exists; directly or at the end of a
   takeover) returns that stored session: same subscriptions, same stored queue, now owned by the
   newcomer; only the temporary queue is reset.  (The packet stores and the id counter live in
   the embedded session.MemorySession object, which the Go code returns as is; they are not part
   of this model.) *)
Theorem C13_handover_state : forall cap ops, holds_along handover_ok cap ops.
Proof. exact handover_along. Qed.
Print Assumptions C13_handover_state.

(* After every history without kill timeout (OSetupEnd true) and without backend Close (`benign`):
   client id -> active connection is a partial function; every entry names the connection that holds
   the session of that id; every session's active connection is not a terminated one, holds exactly
   that session, and is the registered connection of its client id (unique_ok, Broker/BackendC13.v).
   Hence two live connections never hold sessions for the same non-empty client id. *)
Theorem C13_unique_state : forall cap ops,
  forallb benign ops = true -> unique_ok (run_state (init cap) ops) = true.
Proof. exact unique_state. Qed.
Print Assumptions C13_unique_state.

(* the partial-function part needs no hypothesis on the history *)
Theorem C13_active_partial_function : forall cap ops,
  nodup_keys (st_active (run_state (init cap) ops)) = true.
Proof. exact active_partial_function. Qed.
Print Assumptions C13_active_partial_function.

Definition b (s : string) : bytes := list_byte_of_string s.

(* why the two hypotheses: Terminate removes the active-clients entry by client id, so a newcomer
   whose Setup failed (kill timeout, or ErrClosing after Close) removes the OLD connection's entry
   when it terminates; a third connection with that id then finds no one to take over *)
Theorem C13_unique_state_kill_timeout_refuted :
  exists ops, unique_ok (run_state (init 2) ops) = false.
Proof.
  exists [OSetup 1 (b "x") true; OSetup 2 (b "x") true; OSetupEnd true; OTerminate 2].
  vm_compute; reflexivity.
Qed.
Print Assumptions C13_unique_state_kill_timeout_refuted.

Theorem C13_unique_state_close_refuted :
  exists ops, unique_ok (run_state (init 2) ops) = false.
Proof.
  exists [OSetup 1 (b "x") true; OClose; OSetup 2 (b "x") true; OTerminate 2].
  vm_compute; reflexivity.
Qed.
Print Assumptions C13_unique_state_close_refuted.

(* the consequence: two temporary sessions for client id x, both with a connection that has not terminated *)
Example C13_two_live_connections_after_kill_timeout :
  let st := run_state (init 2)
    [OSetup 1 (b "x") true; OSetup 2 (b "x") true; OSetupEnd true; OTerminate 2; OSetup 3 (b "x") true] in
  map fst (st_temps st) = [1; 3] /\ st_term st = [2] /\ map snd (st_cid st) = [b "x"; b "x"; b "x"].
Proof. vm_compute; repeat split; reflexivity. Qed.

(* non-vacuity: a takeover that hands the session over, and the invariant on its states *)
Example C13_nonvacuous :
  let ops := [OSetup 1 (b "x") false; OSubscribe 1 [(b "a", 1)] [[]]; OPublish 9 (Msg (b "a") (b "p") 1 false) [];
              OSetup 2 (b "x") false; OTerminate 1; OMarkClosed 1; OSetupEnd false; ODequeue 2 false] in
  fst (run (init 2) ops) = [RSetup false; ROk; ROk; RSetupWait 1; ROk; ROk; RSetup true; RMsg (Msg (b "a") (b "p") 1 false)] /\
  forallb (fun n => unique_ok (run_state (init 2) (firstn n ops))) [0;1;2;3;4;5;6;7;8]%nat = true.
Proof. split; vm_compute; reflexivity. Qed.
