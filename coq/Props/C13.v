(* C13 (STATE part only) — at most one live connection per client id; takeover keeps the
   session.  MemoryBackend model MB (Broker/Backend.v, Setup split into OSetup / OSetupEnd).
   The protocol / liveness part of C13 (order of Closed and CONNACK, many contenders, nothing
   blocked) is not in this file.  Only statements, `exact`, and Print Assumptions. *)
From Coq Require Import List NArith Bool String.
From Coq.Strings Require Import Byte.
From GM Require Import Codec.Packet Topic.MatchSpec Broker.Backend Broker.BackendSpec
  Broker.BackendProofsHist Broker.BackendC13 Broker.BackendC13Proofs Broker.BackendLog Broker.BackendC13Protocol Broker.BackendFrame Broker.BackendC08.
Import ListNotations.
Open Scope N_scope.

(* A Setup that reports "resumed" (non-clean, stored session exists; directly or at the end of a
   takeover) returns that stored session: same subscriptions, same stored queue, now owned by the
   newcomer; only the temporary queue is reset.  (The packet stores and the id counter live in
   the embedded session.MemorySession object, which the Go code returns as is; they are not part
   of this model.) *)
Theorem C13_handover_state : forall cap ops, holds_along handover_ok cap ops.
Proof. exact handover_along. Qed.
Print Assumptions C13_handover_state.

(* After EVERY history — kill timeouts, Setups refused while the backend closes, backend Close and the Terminate of
   connections whose Setup failed included: client id -> active connection is a partial function; every entry names the
   connection that holds the session of that id; every session's active connection is not a terminated one, holds
   exactly that session, and is the registered connection of its client id (unique_ok, Broker/BackendC13.v).
   Hence two live connections never hold sessions for the same non-empty client id.
   (Terminate releases a session and an active-clients entry only if they are still the terminating connection's own;
   with the earlier by-id delete this statement was false after a failed Setup: /repo fix "Terminate never removes
   another client's entry".) *)
Theorem C13_unique_state : forall cap ops, unique_ok (run_state (init cap) ops) = true.
Proof. exact unique_state. Qed.
Print Assumptions C13_unique_state.

(* in particular *)
Theorem C13_active_partial_function : forall cap ops,
  nodup_keys (st_active (run_state (init cap) ops)) = true.
Proof. exact active_partial_function. Qed.
Print Assumptions C13_active_partial_function.

Definition b (s : string) : bytes := list_byte_of_string s.

(* the histories that used to break the invariant (a newcomer whose Setup failed by kill timeout, or was refused while
   the backend closes, terminates; then a third connection presents the id): the displaced connection keeps its entry,
   the third connection has to take it over *)
Example C13_failed_setup_keeps_entry :
  let h1 := [OSetup 1 (b "x") true; OSetup 2 (b "x") true; OSetupEnd true; OTerminate 2] in
  let h2 := [OSetup 1 (b "x") true; OClose; OSetup 2 (b "x") true; OTerminate 2] in
  st_active (run_state (init 2) h1) = [(b "x", 1)] /\ st_active (run_state (init 2) h2) = [(b "x", 1)] /\
  fst (run (init 2) (h1 ++ [OSetup 3 (b "x") true])) = [RSetup false; RSetupWait 1; RErrKillTimeout; ROk; RSetupWait 1] /\
  forallb (fun n => unique_ok (run_state (init 2) (firstn n (h1 ++ [OSetup 3 (b "x") true; OTerminate 1; OMarkClosed 1; OSetupEnd false]))))
          [0;1;2;3;4;5;6;7;8]%nat = true.
Proof. vm_compute. repeat split; reflexivity. Qed.

(* non-vacuity: a takeover that hands the session over, and the invariant on its states *)
Example C13_nonvacuous :
  let ops := [OSetup 1 (b "x") false; OSubscribe 1 [(b "a", 1)] [[]]; OPublish 9 (Msg (b "a") (b "p") 1 false) [];
              OSetup 2 (b "x") false; OTerminate 1; OMarkClosed 1; OSetupEnd false; ODequeue 2 false] in
  fst (run (init 2) ops) = [RSetup false; ROk; ROk; RSetupWait 1; ROk; ROk; RSetup true; RMsg (Msg (b "a") (b "p") 1 false)] /\
  forallb (fun n => unique_ok (run_state (init 2) (firstn n ops))) [0;1;2;3;4;5;6;7;8]%nat = true.
Proof. split; vm_compute; reflexivity. Qed.

(* the backend resources of a connection and the session's identity, step by step (`frame_ok`, Broker/BackendFrame.v):
   a session's active connection changes only when a Setup completes on it or its holder terminates; Terminate
   releases the connection's temporary session; a stored session disappears only by a clean Setup of its id; nothing
   else touches subscriptions or ownership *)
Theorem C13_frame_state : forall cap ops,
  Forall (fun x => let '(st, o, r, st') := x in frame_ok st o r st' = true) (trace (init cap) ops).
Proof. exact frame_along. Qed.
Print Assumptions C13_frame_state.

(* Setup reports "resumed" exactly when clean = false and a stored session existed; a clean Setup deletes the stored
   session and hands out a fresh empty temporary one (also the backend side of C08) *)
Theorem C13_session_present_state : forall cap ops, holds_along session_present_ok cap ops.
Proof. exact session_present_along. Qed.
Print Assumptions C13_session_present_state.

(* ====================================================================== PROTOCOL part (Broker/BackendC13Protocol.v)
   Steps of a history are quadruples (state before, operation, result, state after); `trace (init cap) ops`
   lists them.  terminated_in c l : a successful OTerminate c occurs in l.
   closed_after_term c l : a successful OMarkClosed c occurs in l, with a successful OTerminate c before it.
   is_wait p x : x is the OSetup step of connection p_conn p that returned RSetupWait (p_old p).
   The cleanup-order assumption "a connection is marked closed only after its Terminate" (broker/client.go
   cleanup(), then close(closed); C12_will / C14_lifecycle) is the guard of OMarkClosed in the model. *)

(* (a) order.  In every history a takeover completes (OSetupEnd false returns RSetup) only after, in this
   order: the newcomer's Setup started waiting for the displaced connection, that connection terminated, it was
   marked closed. *)
Theorem C13_order : forall cap ops l1 st b st' l2,
  trace (init cap) ops = l1 ++ (st, OSetupEnd false, RSetup b, st') :: l2 ->
  exists p a w mid, st_pending st = Some p /\ l1 = a ++ w :: mid /\ is_wait p w /\ closed_after_term (p_old p) mid.
Proof. exact order_full. Qed.
Print Assumptions C13_order.

(* a weaker form kept for reference: Terminate old, then MarkClosed old, precede the completion *)
Theorem C13_order_any : forall cap ops l1 st b st' l2,
  trace (init cap) ops = l1 ++ (st, OSetupEnd false, RSetup b, st') :: l2 ->
  exists p, st_pending st = Some p /\ closed_after_term (p_old p) l1.
Proof. exact order_any. Qed.
Print Assumptions C13_order_any.

(* setup mutex: while a Setup waits no other Setup is enabled, and it keeps waiting until its SetupEnd *)
Theorem C13_setup_excluded : forall st p c id clean,
  st_pending st = Some p -> step st (OSetup c id clean) = (RNotEnabled, st).
Proof. exact setup_excluded. Qed.
Print Assumptions C13_setup_excluded.

Theorem C13_pending_persists : forall st p o,
  st_pending st = Some p -> (forall t, o <> OSetupEnd t) -> st_pending (snd (step st o)) = Some p.
Proof. exact pending_persists. Qed.
Print Assumptions C13_pending_persists.

(* (b) many contenders.  `completions id tr`: the connections whose Setup for client id `id` completed (directly or
   at the end of a takeover), in order.  After every history, for every client id: a connection active for
   the id is the LAST of them, all earlier ones have terminated, it is the only active one; every connection whose
   Setup completed is either the active one or terminated; no connection completes twice.  (Holds at every point,
   also while a Setup is waiting.) *)
Theorem C13_many : forall cap ops id,
  id <> [] ->
  let st := run_state (init cap) ops in
  let tr := trace (init cap) ops in
  (forall c, active_for st id c ->
     (exists l, completions id tr = l ++ [c] /\
                forall c', In c' l -> mem_n c' (st_term st) = true /\ terminated_in c' tr) /\
     (forall c2, active_for st id c2 -> c2 = c)) /\
  (forall c', In c' (completions id tr) -> active_for st id c' \/ terminated_in c' tr) /\
  NoDup (completions id tr).
Proof. exact many_contenders. Qed.
Print Assumptions C13_many.

(* (c) handover chain.  Any sequence of takeover operations (non-clean Setup, SetupEnd, MarkClosed, Terminate — a
   chain c1 -> c2 -> ... -> cn) keeps the subscriptions and the stored queue of every stored session; *)
Theorem C13_handover_chain : forall ops st id s,
  forallb takeover_op ops = true -> NonCleanPending st ->
  alookup bytes_eqb id (st_stored st) = Some s ->
  exists s', alookup bytes_eqb id (st_stored (run_state st ops)) = Some s' /\
             s_subs s' = s_subs s /\ s_sq s' = s_sq s.
Proof. exact handover_chain. Qed.
Print Assumptions C13_handover_chain.

(* in the delivery log (C06_delivery_log) a takeover operation is no event for a stored queue, *)
Theorem C13_takeover_no_event : forall k st o r,
  takeover_op o = true ->
  enq_event k false st o r = [] /\ deq_count k false st o r = 0%nat /\ reset_event k false st o r = false.
Proof. exact takeover_no_event. Qed.
Print Assumptions C13_takeover_no_event.

(* and subscriptions change only through Subscribe / Unsubscribe: what a connection at the end of a chain holds is
   what the history's subscribes, unsubscribes, publishes and dequeues accumulated *)
Theorem C13_subs_only_by_subscribe : forall st o k s s',
  TempsOk st ->
  match o with OSubscribe _ _ _ | OUnsubscribe _ _ => False | _ => True end ->
  get_session st k = Some s -> get_session (snd (step st o)) k = Some s' -> s_subs s' = s_subs s.
Proof. exact subs_only_by_subscribe. Qed.
Print Assumptions C13_subs_only_by_subscribe.

(* non-vacuity: three contenders for client id x; a fourth Setup while the third waits is refused; the session
   (subscription, a QoS 1 message published during the first takeover) reaches the third connection *)
Definition three_contenders : list op :=
  [OSetup 1 (b "x") false; OSubscribe 1 [(b "a", 1)] [[]];
   OSetup 2 (b "x") false; OPublish 9 (Msg (b "a") (b "p1") 1 false) []; OTerminate 1; OMarkClosed 1; OSetupEnd false;
   OSetup 3 (b "x") false; OSetup 4 (b "x") true; OTerminate 2; OMarkClosed 2; OSetupEnd false;
   ODequeue 3 false].

Example C13_three_contenders :
  fst (run (init 2) three_contenders) =
    [RSetup false; ROk; RSetupWait 1; ROk; ROk; ROk; RSetup true;
     RSetupWait 2; RNotEnabled; ROk; ROk; RSetup true; RMsg (Msg (b "a") (b "p1") 1 false)] /\
  completions (b "x") (trace (init 2) three_contenders) = [1; 2; 3] /\
  st_active (run_state (init 2) three_contenders) = [(b "x", 3)] /\
  st_term (run_state (init 2) three_contenders) = [2; 1] /\
  option_map s_subs (alookup bytes_eqb (b "x") (st_stored (run_state (init 2) three_contenders))) = Some [(b "a", 1)].
Proof. vm_compute. repeat split; reflexivity. Qed.

(* "every displaced connection has been closed" read literally (OMarkClosed) holds for connections displaced by a
   takeover (C13_order); a connection that went away by itself is terminated but may not be marked closed yet when
   its successor is already active — counter-history to the literal reading: *)
Example C13_successor_before_closed :
  let st := run_state (init 2) [OSetup 1 (b "x") false; OTerminate 1; OSetup 2 (b "x") false] in
  st_active st = [(b "x", 2)] /\ st_term st = [1] /\ st_closed st = [].
Proof. vm_compute. repeat split; reflexivity. Qed.
