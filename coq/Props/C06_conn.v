(* C06 — delivery clause "topic and payload unchanged, retain flag as queued, QoS as
   dequeued": the half contributed by the subscriber's broker connection
   (/repo/broker/client.go, dequeuer), stated over the traces of the connection model BC
   (Broker/Conn.v) by the clause c06_forward_intact of Broker/ConnSpec5.v.  Only
   statements, `exact`, Print Assumptions.

   C06_forward_intact   Every message the dequeuer takes from the backend queue
                        (EDeqRet g (QMsg m _)) is forwarded by that goroutine as exactly
                        one PUBLISH whose message equals m field for field -- topic,
                        payload, QoS as dequeued (the backend has already lowered it to
                        the granted QoS), retain flag as queued -- with dup = false and,
                        for QoS > 0, under the packet id that ENextId g id allocated for
                        it (id 0 for QoS 0); it is forwarded before the next message is
                        taken, and the dequeuer sends no other fresh (dup = false)
                        PUBLISH.  Together with the backend half (what is queued for a
                        subscriber is the published message with QoS = min(published,
                        granted), Broker/Backend*.v) this gives C06's "delivered
                        unchanged".  (c15_dequeue_order already gives "message equal";
                        this clause adds the id, the dup flag and the QoS 0 / id 0 case.) *)
From Coq Require Import List NArith Bool.
From Coq.Strings Require Import Byte.
From GM Require Import Base.Lts Codec.Packet Session.Store Broker.Conn Broker.ConnSpec Broker.ConnSpec2
  Broker.ConnSpec5 Broker.ConnProofsD3 Broker.ConnProofsDTraces.
Import ListNotations.
Open Scope N_scope.

Theorem C06_forward_intact : forall es s, bc_run es = Some s -> c06_forward_intact es = true.
Proof. exact c06_forward_intact_holds. Qed.
Print Assumptions C06_forward_intact.

(* ------------------------------------------------------------ non-vacuity *)

(* four deliveries accepted by the model -- QoS 1 (id 1), QoS 0 (id 0), QoS 2 (id 2),
   QoS 1 with the retain flag set (id 3) -- each forwarded once, unchanged *)
Example C06_witness_forward :
  (exists s, bc_run td_fwd = Some s) /\ c06_forward_intact td_fwd = true /\
  count_ev is_deqmsg td_fwd = 4%nat /\ count_ev is_fresh_pub td_fwd = 4%nat /\
  In (ETx 3 (Publish false td_q0 0) true true) td_fwd /\
  In (ETx 3 (Publish false td_q1r 3) true true) td_fwd /\ m_retain td_q1r = true.
Proof.
  split; [vm_compute; eexists; reflexivity|]. split; [vm_compute; reflexivity|].
  split; [vm_compute; reflexivity|]. split; [vm_compute; reflexivity|].
  unfold td_fwd. repeat split; repeat (apply in_or_app; first [left; cbn; tauto|right]); cbn; tauto.
Qed.

(* the clause rejects: another id than the allocated one, dup set, retain flag altered,
   QoS altered, QoS 1 without an id, QoS 0 with an id, a message forwarded twice, a
   message never forwarded before the next dequeue; the model accepts none of them *)
Example C06_clause_rejects :
  forallb (fun es => negb (c06_forward_intact es)) td_fw_mutants = true /\
  forallb (fun es => negb (accepted es)) td_fw_mutants = true /\ length td_fw_mutants = 8%nat.
Proof. vm_compute. repeat split; reflexivity. Qed.
