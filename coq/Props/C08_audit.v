(* C08 — clauses added by the clause-by-clause audit (/verif/audit/C08.md).  Only statements,
   `exact`, Print Assumptions, Examples.

   C08_deqack_after_store (ConnSpec6.v) the acknowledgement a backend may ask for with a dequeued
                        message (the closure returned by Dequeue: the backend may then forget the
                        message) is given only after the successful Save(Outgoing) of the PUBLISH that
                        carries it (QoS 0: at once): a message is never in neither place.
   C08_store_replica    (ConnSpec6.v) "stays recorded until PUBACK/PUBCOMP arrives, and is
                        retransmitted on reconnect": what the session lists at every resume is exactly
                        the outgoing store read off the trace — successful saves (PUBLISH for a
                        dequeued message, PUBREL in place of its PUBLISH) in first-save order, minus
                        successful deletes (on PUBACK/PUBCOMP), empty after a fresh session, dup set
                        on what an earlier resume re-sent.  (An entry aliased, dropped or resurrected by
                        the connection code shows here.)
   C08_acted_on         (ConnSpec6.v) no PUBACK / PUBREC / PUBCOMP is dropped: Delete Outgoing resp.
                        Save Outgoing (PUBREL) is attempted before the processor reads again.
   C08_resume_order     (ConnSpec2.v c15_resend_order, also C15) the ids listed at resume are in the
                        order of their first save.
   C08_resend_first     (ConnSpec5.v c15_resend_first, also C15) between Setup and Restore nothing is
                        dequeued and nothing is sent but CONNACK and the listed packets, in order. *)
From Coq Require Import List NArith Bool.
From GM Require Import Base.Lts Codec.Packet Session.Store Broker.Conn Broker.ConnSpec Broker.ConnSpec2 Broker.ConnSpec5
  Broker.ConnSpec6 Broker.ConnProofsE2 Broker.ConnProofsE3 Broker.ConnProofsE4 Broker.ConnProofsE5
  Broker.ConnProofsD0 Broker.ConnProofsD1 Broker.ConnProofsD5 Broker.ConnProofsCTraces.
Import ListNotations.
Open Scope N_scope.

Theorem C08_deqack_after_store : forall es s, bc_run es = Some s -> c08_deqack_after_store es = true.
Proof. exact c08_deqack_after_store_holds. Qed.
Print Assumptions C08_deqack_after_store.

Theorem C08_store_replica : forall es s, bc_run es = Some s -> c08_store_replica es = true.
Proof. exact c08_store_replica_holds. Qed.
Print Assumptions C08_store_replica.

Theorem C08_acted_on : forall es s, bc_run es = Some s -> c20_acted_on es = true.
Proof. exact c20_acted_on_holds. Qed.
Print Assumptions C08_acted_on.

Theorem C08_resume_order : forall es s, bc_run es = Some s -> c15_resend_order es = true.
Proof. exact c15_resend_order_holds. Qed.
Print Assumptions C08_resume_order.

Theorem C08_resend_first : forall es s, bc_run es = Some s -> c15_resend_first es = true.
Proof. exact c15_resend_first_holds. Qed.
Print Assumptions C08_resend_first.

Example C08_audit_nonvacuous :
  acc tr_resume = true /\ audit_clauses tr_resume = true /\ acc tr_qos2 = true /\ audit_clauses tr_qos2 = true.
Proof. vm_compute. repeat split. Qed.
Example C08_audit_rejects :
  c08_deqack_after_store [ENewConn; EDeqRet 3 (QMsg e_m1 true); ENextId 3 1; EDeqAck 3] = false /\
  c08_store_replica [ESave 3 Outgoing (Publish false e_m1 1) true; ESave 3 Outgoing (Publish false e_m2 2) true;
                     EAll 5 Outgoing (Some [Publish false e_m2 2; Publish false e_m2 2])] = false.
Proof. vm_compute. split; reflexivity. Qed.
