(* X_misc — smaller pieces of gomqtt brought inside the model (component `misc`):
   1. keep-alive / read-timeout arithmetic and token defaults of broker.Client.processConnect
   2. life cycle of broker.Engine (Handle / Accept / Close)
   3. scheme dispatch of transport.Dial / transport.Launch
   4. packet.Message.Copy/String, QOS.Successful, ID.Valid, ConnackCode.Valid/String, Type.String/Valid
   Only statements, `exact`, and Print Assumptions. *)
From Coq Require Import List NArith ZArith Bool.
From Coq.Strings Require Import Byte.
From GM Require Import Codec.Packet Misc.KeepAlive Misc.KeepAliveProofs.
Import ListNotations.
Open Scope N_scope.

(* ------------------------------------------------------------------ 1. keep alive *)

(* float64 detour: time.Duration(float64(r)*0.5) is r/2 (rounded down) for every r below 2^53 ns … *)
Theorem KA_grace_exact : forall r, r < 2 ^ 53 -> grace r = r / 2.
Proof. exact grace_exact. Qed.
Print Assumptions KA_grace_exact.

(* … and for the three values after that; 2^53+3 is the first duration on which the
   integer formula differs from the Go expression (float64 rounds it up to 2^53+4) *)
Theorem KA_grace_first_inexact :
  (forall r, r < 2 ^ 53 + 3 -> grace r = r / 2) /\
  grace (2 ^ 53 + 3) = 2 ^ 52 + 2 /\ (2 ^ 53 + 3) / 2 = 2 ^ 52 + 1.
Proof. exact (conj grace_exact_upto grace_inexact_above). Qed.
Print Assumptions KA_grace_first_inexact.

(* a uint16 number of seconds is far below that bound *)
Theorem KA_requested_small : forall ka, ka < 65536 -> requested ka < 2 ^ 53.
Proof. exact requested_small. Qed.
Print Assumptions KA_requested_small.

(* the read timeout is 1.5 x min(requested, maximum) for every non-zero request
   (uint16 seconds, MaximumKeepAlive below 2^53 ns = 104 days, default 5 min when <= 0) *)
Theorem KA_formula : forall m ka, 0 < ka < 65536 -> eff_max m < 2 ^ 53 ->
  read_timeout m ka = Z.of_N (one_and_a_half (N.min (requested ka) (eff_max m))).
Proof. exact read_timeout_formula. Qed.
Print Assumptions KA_formula.

(* a request within the maximum is honoured exactly, whatever the maximum is *)
Theorem KA_uncapped : forall m ka, 0 < ka < 65536 -> requested ka <= eff_max m ->
  read_timeout m ka = Z.of_N (one_and_a_half (requested ka)).
Proof. exact read_timeout_uncapped. Qed.
Print Assumptions KA_uncapped.

(* keep alive 0 is given the maximum *)
Theorem KA_zero : forall m, eff_max m < 2 ^ 53 ->
  read_timeout m 0 = Z.of_N (one_and_a_half (eff_max m)).
Proof. exact read_timeout_zero. Qed.
Print Assumptions KA_zero.

(* within [1.5 x min(1 s, maximum), 1.5 x maximum] … *)
Theorem KA_bounds : forall m ka, ka < 65536 -> eff_max m < 2 ^ 53 ->
  (Z.of_N (one_and_a_half (N.min second (eff_max m))) <= read_timeout m ka
   <= Z.of_N (one_and_a_half (eff_max m)))%Z.
Proof. exact read_timeout_bounds. Qed.
Print Assumptions KA_bounds.

(* … that is within [1.5 s, 1.5 x maximum] when the maximum is at least a second *)
Theorem KA_bounds_1s : forall m ka, ka < 65536 -> second <= eff_max m -> eff_max m < 2 ^ 53 ->
  (1500000000 <= read_timeout m ka <= Z.of_N (one_and_a_half (eff_max m)))%Z.
Proof. exact read_timeout_bounds_1s. Qed.
Print Assumptions KA_bounds_1s.

(* never zero or negative (BaseConn arms a deadline only for a timeout > 0) *)
Theorem KA_positive : forall m ka, ka < 65536 -> eff_max m < 2 ^ 53 -> (0 < read_timeout m ka)%Z.
Proof. exact read_timeout_pos. Qed.
Print Assumptions KA_positive.

(* full-strength version without the bound on MaximumKeepAlive, and its refutation on the
   faithful model: MaximumKeepAlive = math.MaxInt64 with keep alive 0 wraps to a negative timeout *)
Definition KA_positive_unbounded : Prop := forall m ka, ka < 65536 -> (0 < read_timeout m ka)%Z.
Theorem KA_positive_unbounded_refuted : exists m ka, ka < 65536 /\ ~ (0 < read_timeout m ka)%Z.
Proof. exact read_timeout_unbounded_refuted. Qed.
Print Assumptions KA_positive_unbounded_refuted.

(* monotone in the request over all non-zero requests, strictly below the maximum *)
Theorem KA_monotone : forall m ka1 ka2, 0 < ka1 -> ka1 <= ka2 -> ka2 < 65536 -> eff_max m < 2 ^ 53 ->
  (read_timeout m ka1 <= read_timeout m ka2)%Z.
Proof. exact read_timeout_mono. Qed.
Print Assumptions KA_monotone.

Theorem KA_strictly_monotone_below_max : forall m ka1 ka2,
  0 < ka1 -> ka1 < ka2 -> ka2 < 65536 -> requested ka2 <= eff_max m ->
  (read_timeout m ka1 < read_timeout m ka2)%Z.
Proof. exact read_timeout_strict. Qed.
Print Assumptions KA_strictly_monotone_below_max.

(* no request is given more time than keep alive 0 *)
Theorem KA_zero_is_longest : forall m ka, ka < 65536 -> eff_max m < 2 ^ 53 ->
  (read_timeout m ka <= read_timeout m 0)%Z.
Proof. exact read_timeout_zero_is_max. Qed.
Print Assumptions KA_zero_is_longest.

(* token defaults: a count is never zero (a zero-capacity token channel would stall the first flow),
   the token timeout is never zero, the ack queue holds one entry per publish and subscribe token *)
Theorem KA_tokens : forall pp ps tt,
  0 < eff_count pp /\ eff_token_timeout tt <> 0%Z /\
  ack_queue_cap pp ps = eff_count pp + eff_count ps /\ 2 <= ack_queue_cap pp ps.
Proof. exact tokens_ok. Qed.
Print Assumptions KA_tokens.

(* non-vacuity: default maximum, a capped and an uncapped request, a sub-second maximum *)
Example KA_nonvacuous :
  read_timeout 0 60 = 90000000000%Z /\ read_timeout 0 0 = 450000000000%Z /\
  read_timeout 60000000000 61 = 90000000000%Z /\ read_timeout 500000000 7 = 750000000%Z /\
  read_timeout 3 1 = 4%Z /\ eff_max (-5) = 300 * second /\ eff_max 0 < 2 ^ 53 /\
  connect_settings 0 10 0 (-1) 3 0 = Settings 300000000000 15000000000 10 10 3 30000000000 20.
Proof. repeat split; vm_compute; reflexivity. Qed.
