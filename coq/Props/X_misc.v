(* X_misc — smaller pieces of gomqtt brought inside the model (component `misc`):
   1. keep-alive / read-timeout arithmetic and token defaults of broker.Client.processConnect
   2. life cycle of broker.Engine (Handle / Accept / Close)
   3. scheme dispatch of transport.Dial / transport.Launch
   4. packet.Message.Copy/String, QOS.Successful, ID.Valid, ConnackCode.Valid/String, Type.String/Valid
   Only statements, `exact`, and Print Assumptions. *)
From Coq Require Import List NArith ZArith Bool.
From Coq.Strings Require Import Byte.
From GM Require Import Codec.Packet Misc.KeepAlive Misc.KeepAliveProofs Misc.Engine Misc.EngineProofs
  Misc.Dispatch Misc.DispatchProofs Misc.PktMisc Misc.PktMiscProofs.
Import ListNotations.
Open Scope N_scope.

(* ------------------------------------------------------------------ 1. keep alive *)

(* float64 detour: time.Duration(float64(r)*0.5) is r/2 (rounded down) for every r below 2^53 ns … *)
Theorem KA_grace_exact : forall r, r < 2 ^ 53 -> grace r = r / 2.
Proof. exact grace_exact. Qed.
Print Assumptions KA_grace_exact.

(* … and for the three values after that; 2^53+3 is the first duration on which the
   integer formula differs from the Go expression (float64 rounds it up to 2^53+4) *)
Theorem KA_grace_first_inexact :
  (forall r, r < 2 ^ 53 + 3 -> grace r = r / 2) /\
  grace (2 ^ 53 + 3) = 2 ^ 52 + 2 /\ (2 ^ 53 + 3) / 2 = 2 ^ 52 + 1.
Proof. exact (conj grace_exact_upto grace_inexact_above). Qed.
Print Assumptions KA_grace_first_inexact.

(* a uint16 number of seconds is far below that bound *)
Theorem KA_requested_small : forall ka, ka < 65536 -> requested ka < 2 ^ 53.
Proof. exact requested_small. Qed.
Print Assumptions KA_requested_small.

(* the read timeout is 1.5 x min(requested, maximum) for every non-zero request
   (uint16 seconds, MaximumKeepAlive below 2^53 ns = 104 days, default 5 min when <= 0) *)
Theorem KA_formula : forall m ka, 0 < ka < 65536 -> eff_max m < 2 ^ 53 ->
  read_timeout m ka = Z.of_N (one_and_a_half (N.min (requested ka) (eff_max m))).
Proof. exact read_timeout_formula. Qed.
Print Assumptions KA_formula.

(* a request within the maximum is honoured exactly, whatever the maximum is *)
Theorem KA_uncapped : forall m ka, 0 < ka < 65536 -> requested ka <= eff_max m ->
  read_timeout m ka = Z.of_N (one_and_a_half (requested ka)).
Proof. exact read_timeout_uncapped. Qed.
Print Assumptions KA_uncapped.

(* keep alive 0 is given the maximum *)
Theorem KA_zero : forall m, eff_max m < 2 ^ 53 ->
  read_timeout m 0 = Z.of_N (one_and_a_half (eff_max m)).
Proof. exact read_timeout_zero. Qed.
Print Assumptions KA_zero.

(* within [1.5 x min(1 s, maximum), 1.5 x maximum] … *)
Theorem KA_bounds : forall m ka, ka < 65536 -> eff_max m < 2 ^ 53 ->
  (Z.of_N (one_and_a_half (N.min second (eff_max m))) <= read_timeout m ka
   <= Z.of_N (one_and_a_half (eff_max m)))%Z.
Proof. exact read_timeout_bounds. Qed.
Print Assumptions KA_bounds.

(* … that is within [1.5 s, 1.5 x maximum] when the maximum is at least a second *)
Theorem KA_bounds_1s : forall m ka, ka < 65536 -> second <= eff_max m -> eff_max m < 2 ^ 53 ->
  (1500000000 <= read_timeout m ka <= Z.of_N (one_and_a_half (eff_max m)))%Z.
Proof. exact read_timeout_bounds_1s. Qed.
Print Assumptions KA_bounds_1s.

(* never zero or negative (BaseConn arms a deadline only for a timeout > 0) *)
Theorem KA_positive : forall m ka, ka < 65536 -> eff_max m < 2 ^ 53 -> (0 < read_timeout m ka)%Z.
Proof. exact read_timeout_pos. Qed.
Print Assumptions KA_positive.

(* full-strength version without the bound on MaximumKeepAlive, and its refutation on the
   faithful model: MaximumKeepAlive = math.MaxInt64 with keep alive 0 wraps to a negative timeout *)
Definition KA_positive_unbounded : Prop := forall m ka, ka < 65536 -> (0 < read_timeout m ka)%Z.
Theorem KA_positive_unbounded_refuted : exists m ka, ka < 65536 /\ ~ (0 < read_timeout m ka)%Z.
Proof. exact read_timeout_unbounded_refuted. Qed.
Print Assumptions KA_positive_unbounded_refuted.

(* monotone in the request over all non-zero requests, strictly below the maximum *)
Theorem KA_monotone : forall m ka1 ka2, 0 < ka1 -> ka1 <= ka2 -> ka2 < 65536 -> eff_max m < 2 ^ 53 ->
  (read_timeout m ka1 <= read_timeout m ka2)%Z.
Proof. exact read_timeout_mono. Qed.
Print Assumptions KA_monotone.

Theorem KA_strictly_monotone_below_max : forall m ka1 ka2,
  0 < ka1 -> ka1 < ka2 -> ka2 < 65536 -> requested ka2 <= eff_max m ->
  (read_timeout m ka1 < read_timeout m ka2)%Z.
Proof. exact read_timeout_strict. Qed.
Print Assumptions KA_strictly_monotone_below_max.

(* no request is given more time than keep alive 0 *)
Theorem KA_zero_is_longest : forall m ka, ka < 65536 -> eff_max m < 2 ^ 53 ->
  (read_timeout m ka <= read_timeout m 0)%Z.
Proof. exact read_timeout_zero_is_max. Qed.
Print Assumptions KA_zero_is_longest.

(* token defaults: a count is never zero (a zero-capacity token channel would stall the first flow),
   the token timeout is never zero, the ack queue holds one entry per publish and subscribe token *)
Theorem KA_tokens : forall pp ps tt,
  0 < eff_count pp /\ eff_token_timeout tt <> 0%Z /\
  ack_queue_cap pp ps = eff_count pp + eff_count ps /\ 2 <= ack_queue_cap pp ps.
Proof. exact tokens_ok. Qed.
Print Assumptions KA_tokens.

(* non-vacuity: default maximum, a capped and an uncapped request, a sub-second maximum *)
Example KA_nonvacuous :
  read_timeout 0 60 = 90000000000%Z /\ read_timeout 0 0 = 450000000000%Z /\
  read_timeout 60000000000 61 = 90000000000%Z /\ read_timeout 500000000 7 = 750000000%Z /\
  read_timeout 3 1 = 4%Z /\ eff_max (-5) = 300 * second /\ eff_max 0 < 2 ^ 53 /\
  connect_settings 0 10 0 (-1) 3 0 = Settings 300000000000 15000000000 10 10 3 30000000000 20.
Proof. repeat split; vm_compute; reflexivity. Qed.

(* ------------------------------------------------------------------ 2. engine life cycle
   `erun g e_init es = Some s`: the event trace es (what recording conns, servers and the harness
   saw) is one the monitor of Misc/Engine.v accepts.  Each theorem says that every accepted trace
   satisfies a clause; the clauses are scanners over the event list alone (and, extracted, judge
   the traces observed on the real engine). *)

(* once Close has returned no connection is configured (no client is started) and no accept loop does anything *)
Theorem ENG_nothing_after_close : forall g es s, erun g e_init es = Some s -> after_close_ok es = true.
Proof. exact after_close_sound. Qed.
Print Assumptions ENG_nothing_after_close.

(* a Handle call made after Close returned never returns true (it closes the connection: the only
   conn events the monitor allows for it are Close and the return of false) *)
Theorem ENG_handle_after_close : forall g es s, erun g e_init es = Some s -> handle_after_close_ok es = true.
Proof. exact handle_after_close_sound. Qed.
Print Assumptions ENG_handle_after_close.

(* the first Receive on a connection comes after SetReadLimit(ReadLimit), SetMaxWriteDelay(MaxWriteDelay),
   SetReadTimeout(ConnectTimeout), in this order, with the engine's values *)
Theorem ENG_settings_before_receive : forall g es s, erun g e_init es = Some s ->
  settings_before_recv g (fun _ => 0) es = true.
Proof. exact settings_before_recv_sound. Qed.
Print Assumptions ENG_settings_before_receive.

(* an accept loop stops at its first Accept error: no further Accept on that server, OnError at most once *)
Theorem ENG_accept_stops_at_error : forall g es s, erun g e_init es = Some s -> stops_at_error es = true.
Proof. exact stops_at_error_sound. Qed.
Print Assumptions ENG_accept_stops_at_error.

(* with a handler installed the error is reported before the engine comes to rest or Close returns *)
Theorem ENG_error_reported : forall g es s, erun g e_init es = Some s -> error_reported g es = true.
Proof. exact error_reported_sound. Qed.
Print Assumptions ENG_error_reported.

(* OnError is called only for a server whose Accept failed *)
Theorem ENG_onerror_justified : forall g es s, erun g e_init es = Some s ->
  onerror_justified (fun _ => false) es = true.
Proof. exact onerror_justified_sound. Qed.
Print Assumptions ENG_onerror_justified.

(* "Close returns" is false of the faithful model, twice over (both reproduced on the real engine):
   (a) Close on an engine whose Accept was never called waits for ever (tomb.Wait with no goroutine);
       only a later Accept call releases it *)
Definition ENG_close_returns : Prop := forall g es s, erun g e_init es = Some s -> is_closing s = true ->
  exists es' s', Forall not_accept_call es' /\ erun g s es' = Some s' /\ is_closed s' = true.
Theorem ENG_close_without_accept_refuted : forall g,
  exists s, erun g e_init [ECloseCall; EQuiet] = Some s /\ is_closing s = true /\
    forall es s', Forall not_accept_call es -> erun g s es = Some s' -> is_closing s' = true.
Proof. exact close_hangs_without_accept. Qed.
Print Assumptions ENG_close_without_accept_refuted.

(* (b) an accept loop that has taken a connection from its server but not yet called Handle when Close
       takes the mutex: the connection is never configured nor closed and Close never returns,
       whatever happens afterwards *)
Theorem ENG_close_deadlock_refuted : forall g,
  exists s, erun g e_init [EAcceptCall 0; ESrvAccept 0; EQuiet; ESrvConn 0 1; ECloseCall] = Some s /\
    forall es s', erun g s es = Some s' -> is_closing s' = true /\ e_conns s' 1 = COffered.
Proof. exact close_deadlock. Qed.
Print Assumptions ENG_close_deadlock_refuted.

(* non-vacuity: the documented shutdown order is accepted and ends closed and dead; bad traces are rejected *)
Example ENG_nonvacuous :
  match erun (Cfg 8388608 10000000 10000000000 true) e_init
    [EAcceptCall 0; ESrvAccept 0; EQuiet; ESrvConn 0 1; ELimit 1 8388608; EDelay 1 10000000; ETimeout 1 10000000000;
     ESrvAccept 0; ERecv 1; EQuiet; ESrvErr 0; EOnError 0; EQuiet; ECloseCall; ECloseRet; EQuiet;
     EHandleCall 3; ECClose 3; EHandleRet 3 false; EQuiet] with
  | Some s => is_closed s && dead s | None => false end = true /\
  erun (Cfg 1 2 3 true) e_init [EHandleCall 1; ELimit 1 1; EDelay 1 2; ERecv 1] = None.
Proof. split; vm_compute; reflexivity. Qed.

(* ------------------------------------------------------------------ 3. scheme dispatch of Dial / Launch *)

(* the switch is exactly the table tcp, mqtt -> net; tls, ssl, mqtts -> tls; ws -> websocket; wss -> websocket over tls *)
Theorem DSP_table : forall s k, dial_kind s = Some k <-> In (s, k) scheme_table.
Proof. exact dial_kind_table. Qed.
Print Assumptions DSP_table.

(* each supported scheme has exactly one kind, the seven names are pairwise different, all are
   well-formed lower-case schemes (so none of them can end as a parse error) *)
Theorem DSP_one_kind : forall s k1 k2, In (s, k1) scheme_table -> In (s, k2) scheme_table -> k1 = k2.
Proof. exact table_functional. Qed.
Print Assumptions DSP_one_kind.

Theorem DSP_names_distinct : NoDup (map fst scheme_table).
Proof. exact table_names_distinct. Qed.
Print Assumptions DSP_names_distinct.

Theorem DSP_names_wellformed : forall s k, In (s, k) scheme_table -> scheme_ok s = true /\ lower s = s.
Proof. exact table_names_ok. Qed.
Print Assumptions DSP_names_wellformed.

(* total, with three outcomes that are characterised exactly: parse error iff the scheme is malformed,
   a kind iff the lower-cased scheme is in the table, unsupported otherwise (and for an address without scheme) *)
Theorem DSP_parse_error : forall s, dial_outcome (Some s) = OParseError <-> scheme_ok s = false.
Proof. exact dial_parse_error. Qed.
Print Assumptions DSP_parse_error.

Theorem DSP_supported : forall s k,
  dial_outcome (Some s) = OKind k <-> scheme_ok s = true /\ In (lower s, k) scheme_table.
Proof. exact dial_supported. Qed.
Print Assumptions DSP_supported.

Theorem DSP_unsupported : forall s,
  dial_outcome (Some s) = OUnsupported <-> scheme_ok s = true /\ forall k, ~ In (lower s, k) scheme_table.
Proof. exact dial_unsupported. Qed.
Print Assumptions DSP_unsupported.

(* the case the scheme is written in does not matter *)
Theorem DSP_case_insensitive : forall kind s, dispatch kind (Some (lower s)) = dispatch kind (Some s).
Proof. exact dispatch_case_insensitive. Qed.
Print Assumptions DSP_case_insensitive.

(* Launch and Dial (two separate switch statements) agree on every address *)
Theorem DSP_launch_agrees : forall w, launch_outcome w = dial_outcome w.
Proof. exact launch_outcome_agrees. Qed.
Print Assumptions DSP_launch_agrees.

(* default ports as documented: 1883, 8883, 80, 443; a configured port replaces exactly its own kind's default *)
Theorem DSP_default_ports :
  default_port no_ports KNet = 1883 /\ default_port no_ports KTls = 8883 /\
  default_port no_ports KWs = 80 /\ default_port no_ports KWss = 443.
Proof. exact default_ports_documented. Qed.
Print Assumptions DSP_default_ports.

Theorem DSP_configured_ports : forall a b c d,
  let cfg := Ports (Some a) (Some b) (Some c) (Some d) in
  default_port cfg KNet = a /\ default_port cfg KTls = b /\ default_port cfg KWs = c /\ default_port cfg KWss = d.
Proof. exact default_ports_configured. Qed.
Print Assumptions DSP_configured_ports.

(* the tie's observation (which of the four reference servers a dial reaches, and as what) identifies the kind *)
Theorem DSP_observation_identifies_kind : forall k1 k2, (forall srv, reaches k1 srv = reaches k2 srv) -> k1 = k2.
Proof. exact reaches_identifies. Qed.
Print Assumptions DSP_observation_identifies_kind.

Example DSP_nonvacuous :
  dial_outcome (Some ["M"; "q"; "T"; "t"; "S"]%byte) = OKind KTls /\
  dial_outcome (Some ["h"; "t"; "t"; "p"]%byte) = OUnsupported /\
  dial_outcome (Some ["1"; "w"; "s"]%byte) = OParseError /\ dial_outcome (Some []) = OParseError /\
  dial_outcome None = OUnsupported /\ reaches KTls KWss = Some KTls /\ reaches KWs KWss = None.
Proof. repeat split; vm_compute; reflexivity. Qed.

(* ------------------------------------------------------------------ 4. small functions of package packet *)

(* QOS.Successful: exactly the three delivery levels; the SUBACK failure code 0x80 is not successful *)
Theorem PKT_qos_successful : forall q, qos_successful q = true <-> q <= 2.
Proof. exact qos_successful_iff. Qed.
Print Assumptions PKT_qos_successful.

(* ID.Valid: every id but 0 *)
Theorem PKT_id_valid : forall id, id_valid id = true <-> id <> 0.
Proof. exact id_valid_iff. Qed.
Print Assumptions PKT_id_valid.

(* ConnackCode: Valid iff <= 5; String says "invalid connack code" exactly for the invalid codes;
   the six valid codes have six different texts *)
Theorem PKT_connack_valid : forall c, connack_valid c = true <-> c <= 5.
Proof. exact connack_valid_iff. Qed.
Print Assumptions PKT_connack_valid.

Theorem PKT_connack_string_agrees : forall c, connack_string c = connack_invalid_string <-> connack_valid c = false.
Proof. exact connack_string_valid_iff. Qed.
Print Assumptions PKT_connack_string_agrees.

Theorem PKT_connack_string_injective : forall c d, c <= 5 -> d <= 5 -> connack_string c = connack_string d -> c = d.
Proof. exact connack_string_inj. Qed.
Print Assumptions PKT_connack_string_injective.

(* Type: Valid iff it is one of the 14 type codes of Codec/Packet.v; String says "Unknown" exactly for the
   others, names the type otherwise, and different types have different names *)
Theorem PKT_type_valid : forall t, type_valid t = true <-> exists p, type_of_code t = Some p.
Proof. exact type_valid_iff. Qed.
Print Assumptions PKT_type_valid.

Theorem PKT_type_string_agrees : forall t, type_string t = type_unknown <-> type_valid t = false.
Proof. exact type_string_valid_iff. Qed.
Print Assumptions PKT_type_string_agrees.

Theorem PKT_type_string_of_code : forall p, type_string (type_code p) = type_name p.
Proof. exact type_string_code. Qed.
Print Assumptions PKT_type_string_of_code.

Theorem PKT_type_string_injective : forall t u, type_valid t = true -> type_valid u = true ->
  type_string t = type_string u -> t = u.
Proof. exact type_string_inj. Qed.
Print Assumptions PKT_type_string_injective.

(* Message.Copy yields an equal message.  (That the copy shares no payload storage with the original is NOT
   provided by the Go code — `return &m` copies the slice header only — see the check's observation.) *)
Theorem PKT_copy_equal : forall m, message_copy m = m /\ message_eqb (message_copy m) m = true.
Proof. exact (fun m => conj (message_copy_eq m) (message_copy_eqb m)). Qed.
Print Assumptions PKT_copy_equal.

(* Message.String is inside the model exactly for topics made of ASCII bytes *)
Theorem PKT_string_defined : forall m,
  (exists x, message_string m = Some x) <-> forallb (fun b => Byte.to_N b <? 128) (m_topic m) = true.
Proof. exact message_string_defined. Qed.
Print Assumptions PKT_string_defined.

Example PKT_nonvacuous :
  qos_successful 2 = true /\ qos_successful 128 = false /\ id_valid 65535 = true /\ connack_valid 5 = true /\
  type_string 8 = ["S"; "u"; "b"; "s"; "c"; "r"; "i"; "b"; "e"]%byte /\ type_string 0 = type_unknown /\ type_string 15 = type_unknown /\
  message_string (Msg ["a"; """"; "010"]%byte ["255"; "001"]%byte 2 true) =
    Some ["<";"M";"e";"s";"s";"a";"g";"e";" ";"T";"o";"p";"i";"c";"=";"""";"a";"\";"""";"\";"n";"""";" ";"Q";"O";"S";"=";"2";" ";
          "R";"e";"t";"a";"i";"n";"=";"t";"r";"u";"e";" ";"P";"a";"y";"l";"o";"a";"d";"=";"f";"f";"0";"1";">"]%byte.
Proof. repeat split; vm_compute; reflexivity. Qed.
