(* C10 — Client: inbound QoS 2 exactly once, handshakes finish, ack only if accepted.
   Only statements, `exact`, and Print Assumptions. *)
From Coq Require Import List NArith.
From GM Require Import Base.Lts Codec.Packet Session.Store Client.Future Client.Client Client.ClientSpec Client.ClientWitness.
Import ListNotations.
Open Scope N_scope.

(* full statements (ClientSpec.v): false of the current tree, see known_findings.json *)
Definition C10_exactly_once_statement : Prop := ClientSpec.C10_exactly_once_statement.
Definition C10_pubrel_answered_statement : Prop := ClientSpec.C10_pubrel_answered_statement.

Theorem C10_pubrel_answered_refuted : ~ C10_pubrel_answered_statement.
Proof. exact pubrel_answered_refuted. Qed.
Print Assumptions C10_pubrel_answered_refuted.

Theorem C10_exactly_once_refuted : ~ C10_exactly_once_statement.
Proof. exact exactly_once_refuted. Qed.
Print Assumptions C10_exactly_once_refuted.
