(* C10 — Client: inbound QoS 2 exactly once, handshakes finish, ack only if accepted.
   Only statements, `exact`, and Print Assumptions.  The statements are in Client/ClientSpec.v
   (and, for the two partial ones, next to their proofs); they quantify over every trace accepted
   by the CL monitor Client.step: every broker script, every interleaving of processor, API
   callers, pinger and die body, every failure position. *)
From Coq Require Import List NArith.
From GM Require Import Base.Lts Codec.Packet Session.Store Client.Future Client.Client Client.ClientSpec
  Client.ClientWitness Client.ClientInvCtl Client.ClientInvOwed Client.ClientInvHs Client.ClientC10
  Client.TraceScan Client.ClientScanProofs Client.ClientScan2.
Import ListNotations.
Open Scope N_scope.

(* every QoS 2 PUBLISH is stored, then answered by PUBREC; none is owed when the processor is back in Receive *)
Theorem C10_pubrec_always : C10_pubrec_always_statement.
Proof. exact pubrec_always. Qed.
Print Assumptions C10_pubrec_always.

(* after a callback error no PUBACK/PUBREC/PUBCOMP can be written and the connection is closed *)
Theorem C10_no_ack_on_error : C10_no_ack_on_error_statement.
Proof. exact no_ack_on_error. Qed.
Print Assumptions C10_no_ack_on_error.

(* QoS 0/1: callback on arrival, QoS 1 then PUBACK *)
Theorem C10_qos01 : C10_qos01_statement.
Proof. exact qos01. Qed.
Print Assumptions C10_qos01.

(* full statements: false of the current tree (open findings KF-C10-a, KF-C10-b) *)
Definition C10_exactly_once_statement : Prop := ClientSpec.C10_exactly_once_statement.
Definition C10_pubrel_answered_statement : Prop := ClientSpec.C10_pubrel_answered_statement.

(* witness: CONNACK, PUBREL(9) with an empty incoming store: back in Receive, PUBCOMP(9) still owed *)
Theorem C10_pubrel_answered_refuted : ~ C10_pubrel_answered_statement.
Proof. exact pubrel_answered_refuted. Qed.
Print Assumptions C10_pubrel_answered_refuted.

(* a PUBREL for a stored id is answered: callback (default mode), PUBCOMP write, removal — nothing else *)
Theorem C10_pubrel_answered_partial : C10_pubrel_answered_partial_statement.
Proof. exact pubrel_answered_partial. Qed.
Print Assumptions C10_pubrel_answered_partial.

(* witness: PUBLISH(7,q2) PUBREC PUBREL callback, PUBCOMP write fails, Close, resume, PUBREL: second callback *)
Theorem C10_exactly_once_refuted : ~ C10_exactly_once_statement.
Proof. exact exactly_once_refuted. Qed.
Print Assumptions C10_exactly_once_refuted.

(* without a failed PUBCOMP write (and with a session whose DeletePacket works) the full statement holds *)
Theorem C10_exactly_once_partial : C10_exactly_once_partial_statement.
Proof. exact exactly_once_partial. Qed.
Print Assumptions C10_exactly_once_partial.

(* the clause scanners run over every OBSERVED event sequence accept every trace the model accepts *)
Theorem C10_scan_ack_sound : forall es s, run step init es = Some s ->
  exists y, scan_ack YInit es = Some y /\ yrel y (k_ppc (k s)).
Proof. exact scan_ack_accepted. Qed.
Print Assumptions C10_scan_ack_sound.

Theorem C10_scan_noack_sound : forall es s, run step init es = Some s -> scan_noack false es = true.
Proof. exact scan_noack_accepted. Qed.
Print Assumptions C10_scan_noack_sound.

(* the scanner's handshake table is the model's; without a failed PUBCOMP write / failed delete it never
   shows a second delivery *)
Theorem C10_scan_exactly_once_sound : forall es s, run step init es = Some s ->
  hs_tab (scan_hs es) = g_hs (g s) /\
  (g_compfail (g s) = false -> g_delfail (g s) = false -> hs_twice (scan_hs es) = None).
Proof. intros es s H. split; [exact (scan_hs_accepted es s H)|exact (scan_hs_once es s H)]. Qed.
Print Assumptions C10_scan_exactly_once_sound.

(* callback error => the connection is over: the scanner's two flags are the model's ghost flags, and once
   the die body is done a callback error implies that conn.Close was called (or a Send/Receive had failed) *)
Theorem C10_scan_error_closes_sound : forall es s, run step init es = Some s ->
  scan_close es = CScan (g_cbfail (g s)) (g_dead (g s)) /\
  (k_dpc (k s) = DDone -> error_closes_ok (scan_close es) = true).
Proof. intros es s H. split; [exact (scan_close_accepted es s H)|exact (scan_close_ok es s H)]. Qed.
Print Assumptions C10_scan_error_closes_sound.

(* a stored QoS 2 message is released by its own PUBREL and by nothing else: the lockstep scanner (incoming
   store rebuilt from the observed Save/Delete/Reset calls, a Delete counting only at the end of a PUBREL
   sequence; every LookupPacket result compared with it) never fails on an accepted trace and ends with the
   model's incoming store *)
Theorem C10_scan_release_sound : forall es s, run step init es = Some s ->
  exists y, scan_rel [] YInit es = Some (s_in (sess s), y) /\ yrel y (k_ppc (k s)).
Proof. exact scan_rel_accepted. Qed.
Print Assumptions C10_scan_release_sound.

(* non-vacuity: the witnesses above are accepted traces that reach the states in question; a complete
   QoS 2 handshake in default mode with exactly one delivery: *)
Example C10_nonvacuous : exists s,
  run step init (opening 1 false ++
    [ ERx (Publish false msg7 7); ESave Incoming (Publish false msg7 7) Ok; ETx (Pubrec 7) true Ok;
      ERx (Pubrel 7); ELookup Incoming 7 (Some (Some (Publish false msg7 7))); ECb msg7 Ok ]) = Some s /\
  k_ppc (k s) = PRelComp 7 7 /\ g_hs (g s) = [(7, 1)] /\ g_compfail (g s) = false.
Proof. eexists. split; [vm_compute; reflexivity|]. vm_compute. repeat split. Qed.
