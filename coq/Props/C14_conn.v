(* C14 — No client can crash or stall the broker or disturb any other client: the part
   that one broker connection (/repo/broker/client.go) contributes, "Every connection,
   however it ends, releases its resources: the backend is told about the termination
   exactly once for every connection it set up, and the connection's closed signal
   fires", stated over the connection model BC (Broker/Conn.v).  Only statements,
   `exact`, Print Assumptions.

   C14_lifecycle,       (trace clauses c14_lifecycle of Broker/ConnSpec2.v and, the official
   C14_lifecycle2       one, c14_lifecycle2 of Broker/ConnSpec5.v, for every trace the model accepts)  Per connection Terminate is called at
                        most once, only after authentication succeeded, and exactly once
                        before Closed for every connection the backend set up; nothing
                        of the connection (no receive, send, backend call) happens after
                        Closed; a new connection of the session starts only after Closed.

   C14_cleanup_enabled  "the closed signal fires", as quiescence safety of the model: in
                        every reachable state in which the three coroutines of the
                        connection have stopped (all_stopped) and the cleanup has not
                        begun, the first cleanup event is accepted from any goroutine
                        number new to the connection (such a number always exists): the
                        will's Publish when a will is due, else Terminate (whatever its
                        result), else -- the client never passed authentication --
                        Closed.  While the cleanup is under way its goroutine is known,
                        and unless that goroutine is still inside an acknowledgement
                        closure the backend invoked on it, its next event (return of the
                        will's Publish, the die-log after a failed call, Terminate,
                        Closed) is accepted, whatever the results.  Hence from every such
                        state EClosed is reachable within four further events.  The
                        model never refuses the cleanup, so an implementation trace in
                        which the cleanup does not happen is not explained by the model
                        "waiting for something".

   C14_dying_stops      Once the connection is dying (conn.Close was called) and no
                        goroutine is inside an acknowledgement closure, each of the
                        three coroutines is at one of three kinds of control points
                        (proc_kind / deq_kind / ack_kind, below):
                          KStop  it may have returned (proc_can_stop / deq_can_stop /
                                 ack_can_stop hold): done, or blocked in Receive /
                                 waiting for a token / idle, all of which the dying tomb
                                 interrupts;
                          KRet   it is inside a backend call (Authenticate, Setup,
                                 Restore, Subscribe, Unsubscribe, Publish; Dequeue) and
                                 its next event is the return of that call, which the
                                 model accepts (with either result where the result is
                                 a flag);
                          KOwn   its next event is an action of its own -- a send, a
                                 receive that fails on the closed connection, a session
                                 operation, issuing the next backend call, the die-log,
                                 closing the connection -- and the model accepts it,
                                 succeeding or failing (flag ok).
                        No control point waits for a packet from the peer or for a NEW
                        call by the backend.  (A coroutine waiting for a token is a KStop
                        point once dying; its "timeout" event is enabled only when no
                        token is free and is not needed here.) *)
From Coq Require Import List NArith Bool.
From Coq.Strings Require Import Byte.
From GM Require Import Base.Lts Codec.Packet Session.Store Broker.Conn Broker.ConnSpec Broker.ConnSpec2
  Broker.ConnSpec5 Broker.ConnProofsD0 Broker.ConnProofsD1 Broker.ConnProofsD2 Broker.ConnProofsD3 Broker.ConnProofsDTraces.
Import ListNotations.
Open Scope N_scope.

Theorem C14_lifecycle : forall es s, bc_run es = Some s -> c14_lifecycle es = true.
Proof. exact c14_lifecycle_holds. Qed.
Print Assumptions C14_lifecycle.

(* the official life-cycle clause: c14_lifecycle2 (Broker/ConnSpec5.v) is c14_lifecycle
   with "nothing of the connection happens after Closed" applied to a successful
   Authenticate / Setup as well -- in lc_step their patterns precede that line and
   escape it.  It implies the clause above on every trace. *)
Theorem C14_lifecycle2 : forall es s, bc_run es = Some s -> c14_lifecycle2 es = true.
Proof. exact c14_lifecycle2_holds. Qed.
Print Assumptions C14_lifecycle2.

Example C14_lifecycle2_differs :
  c14_lifecycle [EAuth 2 AOk] = true /\ c14_lifecycle2 [EAuth 2 AOk] = false /\
  c14_lifecycle2 (td_life ++ [ESetup 2 (SOk false false 1 1 1)]) = false /\
  c14_lifecycle2 td_life = true.
Proof. vm_compute. repeat split; reflexivity. Qed.

(* definitions used below (Broker/ConnProofsD2.v):
   cl_only s g       g is the cleanup goroutine of s, has no other role, is in no closure
   cl_next_start s g the first cleanup event by g is accepted:
                       ph = Connecting            EClosed                 -> lp = LEnd
                       ph = Connected, will = w   EPub g w None           -> lp = LWillR
                       otherwise                  ETerm g ok (any ok)     -> lp = LClosed / LTermDie
   cl_next_cont s g  the next cleanup event of g is accepted:
                       LWillR    EPubRet g ok (any ok)  -> LTerm / LWillDie
                       LWillDie  EDie g KBackend        -> LTerm
                       LTerm     ETerm g ok (any ok)    -> LClosed / LTermDie
                       LTermDie  EDie g KBackend        -> LClosed
   cl_ready s        LNone: all_stopped; LWillR..LTermDie: the cleanup goroutine is in no
                     closure; LClosed: always; LEnd: never *)
Theorem C14_cleanup_enabled : forall es s, bc_run es = Some s ->
  (exists g, role_free s g = true /\ in_closure s g = false) /\
  (lp s = LNone -> all_stopped s = true ->
   forall g, role_free s g = true -> in_closure s g = false -> cl_next_start s g) /\
  (match lp s with LWillR | LWillDie | LTerm | LTermDie => exists g, gcl s = Some g | _ => True end) /\
  (forall g, gcl s = Some g -> in_closure s g = false -> cl_next_cont s g) /\
  (lp s = LClosed -> exists s', step s EClosed = Some s' /\ lp s' = LEnd) /\
  (cl_ready s ->
   exists es' s', (length es' <= 3)%nat /\ Lts.run step s (es' ++ [EClosed]) = Some s' /\ lp s' = LEnd).
Proof. exact cleanup_enabled. Qed.
Print Assumptions C14_cleanup_enabled.

(* definitions used below (Broker/ConnProofsD2.v):
   clos_idle s         every closure is unregistered-or-done: no goroutine is inside one
   proc_next s g k ok  the processor's next event at its control point pp s (g its
                       goroutine, k an unused closure key, ok the outcome), None at a
                       stopping point;  deq_next, ack_next likewise
   proc_g s            the processor's goroutine (an unused number before its first event)
   ret_event e         e is the return of a backend call
   own_event e         e is an action of a goroutine of the connection itself *)
Theorem C14_dying_stops : forall es s, bc_run es = Some s ->
  dying s = true -> lp s = LNone -> clos_idle s = true ->
  forall ok,
  match proc_next s (proc_g s) (fresh_k s) ok with
  | Some e => ev_g e = Some (proc_g s) /\ (ret_event e = true <-> proc_kind (pp s) = KRet) /\
              (ret_event e = false -> own_event e = true) /\
              exists s', step s e = Some s' /\ gproc s' = Some (proc_g s)
  | None => proc_kind (pp s) = KStop /\ proc_can_stop s = true
  end /\
  match deq_next s (og (gdeq s)) ok with
  | Some e => ev_g e = Some (og (gdeq s)) /\ (ret_event e = true <-> deq_kind (dp s) = KRet) /\
              (ret_event e = false -> own_event e = true) /\
              exists s', step s e = Some s' /\ gdeq s' = Some (og (gdeq s))
  | None => deq_kind (dp s) = KStop /\ deq_can_stop s = true
  end /\
  match ack_next s (og (gack s)) with
  | Some e => ev_g e = Some (og (gack s)) /\ ret_event e = false /\ own_event e = true /\
              exists s', step s e = Some s' /\ gack s' = Some (og (gack s))
  | None => ack_kind (ap s) = KStop /\ ack_can_stop s = true
  end.
Proof. exact dying_stops. Qed.
Print Assumptions C14_dying_stops.

(* the same, read off per kind of control point *)
Theorem C14_dying_stops_summary : forall es s, bc_run es = Some s ->
  dying s = true -> lp s = LNone -> clos_idle s = true ->
  (proc_kind (pp s) = KStop -> proc_can_stop s = true) /\
  (deq_kind (dp s) = KStop -> deq_can_stop s = true) /\
  (ack_kind (ap s) = KStop -> ack_can_stop s = true) /\
  (proc_kind (pp s) <> KStop -> exists e s', step s e = Some s' /\ ev_g e = Some (proc_g s) /\
      (if ret_event e then proc_kind (pp s) = KRet else own_event e = true /\ proc_kind (pp s) = KOwn)) /\
  (deq_kind (dp s) <> KStop -> exists e s', step s e = Some s' /\ ev_g e = Some (og (gdeq s)) /\
      (if ret_event e then deq_kind (dp s) = KRet else own_event e = true /\ deq_kind (dp s) = KOwn)) /\
  (ack_kind (ap s) <> KStop -> exists e s', step s e = Some s' /\ ev_g e = Some (og (gack s)) /\
      ret_event e = false /\ own_event e = true).
Proof. exact dying_stops_summary. Qed.
Print Assumptions C14_dying_stops_summary.

(* the model invariant behind both progress statements: a goroutine has at most one
   role; the cleanup goroutine is known exactly while the cleanup is under way; a
   coroutine that is past its first step is known; the resend list is never empty *)
Theorem C14_model_invariant : forall es s, bc_run es = Some s -> inv s.
Proof. exact inv_reachable. Qed.
Print Assumptions C14_model_invariant.

(* ------------------------------------------------------------ non-vacuity *)

(* complete life cycles, accepted by the model: a lost client with a will (will
   published, Terminate, Closed), a first packet that is not CONNECT (Closed only), a
   failed Setup (Terminate once, its failure logged, Closed), a clean DISCONNECT *)
Example C14_witness_life :
  (exists s, bc_run td_life = Some s /\ lp s = LEnd) /\ c14_lifecycle td_life = true /\
  count_ev is_term td_life = 3%nat /\ count_ev is_closed td_life = 4%nat.
Proof. split; [vm_compute; eexists; split; reflexivity|repeat split; vm_compute; reflexivity]. Qed.

Example C14_lifecycle_rejects :
  c14_lifecycle td_bad_life1 = false /\ c14_lifecycle td_bad_life2 = false /\ c14_lifecycle td_bad_life3 = false.
Proof. vm_compute. repeat split; reflexivity. Qed.

(* a reachable state that meets the hypotheses of C14_cleanup_enabled (all coroutines
   stopped, cleanup not begun, will due) and the run to EClosed from it *)
Definition td_stopped : list event :=
  td_open td_connw 2 2 false [] ++ [EDeqCall 3; ERxErr 2; EDie 2 KTransport; EConnClose 2; EDeqRet 3 QNone].

Example C14_witness_stopped :
  exists s, bc_run td_stopped = Some s /\ lp s = LNone /\ all_stopped s = true /\
            ph s = Connected /\ will s = Some td_will /\ role_free s 4 = true /\ in_closure s 4 = false /\
            exists s', Lts.run step s [EPub 4 td_will None; EPubRet 4 true; ETerm 4 true; EClosed] = Some s' /\ lp s' = LEnd.
Proof. vm_compute. eexists. repeat split. eexists. split; reflexivity. Qed.

(* reachable states that meet the hypotheses of C14_dying_stops: (1) Close() from outside
   while the processor is about to send PUBREC (KOwn) and the dequeuer is inside Dequeue
   (KRet); (2) the processor has died and closed the connection, the dequeuer is inside
   Dequeue, the acker idle (KStop) *)
Definition td_dying1 : list event :=
  td_open td_conn 2 2 false [] ++
  [EDeqCall 3; ERx 2 (Publish false td_q2 1); ESave 2 Incoming (Publish false td_q2 1) true; EConnClose 9].
Definition td_dying2 : list event :=
  td_open td_conn 2 2 false [] ++ [EDeqCall 3; ERxErr 2; EDie 2 KTransport; EConnClose 2].

Example C14_witness_dying :
  (exists s, bc_run td_dying1 = Some s /\ dying s = true /\ lp s = LNone /\ clos_idle s = true /\
             proc_kind (pp s) = KOwn /\ deq_kind (dp s) = KRet /\ ack_kind (ap s) = KStop /\
             proc_next s (proc_g s) (fresh_k s) true = Some (ETx 2 (Pubrec 1) true true)) /\
  (exists s, bc_run td_dying2 = Some s /\ dying s = true /\ lp s = LNone /\ clos_idle s = true /\
             proc_kind (pp s) = KStop /\ deq_kind (dp s) = KRet /\
             deq_next s (og (gdeq s)) true = Some (EDeqRet 3 QNone)).
Proof. split; vm_compute; eexists; repeat split. Qed.
