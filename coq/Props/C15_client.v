(* C15, client library part — deliveries follow the arrival order.
   Only statements, `exact`, and Print Assumptions.  (Required from Props/C15.v.) *)
From Coq Require Import List NArith.
From GM Require Import Base.Lts Codec.Packet Session.Store Client.Future Client.Client Client.ClientSpec
  Client.TraceScan Client.ClientOrder.
Import ListNotations.
Open Scope N_scope.

(* the trace clause (TraceScan.scan_order, extracted and evaluated on every observed trace): a message
   callback is always for the PUBLISH the processor has just received (QoS 0/1; QoS 2 in the
   announce-on-publish mode) or for the stored message it has just looked up for the PUBREL it has just
   received (QoS 2, default mode); nothing else is received or done by the processor in between.
   Every trace accepted by the CL monitor passes it. *)
Theorem C15_client_in_order : forall es s, run step init es = Some s ->
  exists last, scan_order None es = Some last /\ orel last (k_ppc (k s)).
Proof. exact scan_order_accepted. Qed.
Print Assumptions C15_client_in_order.

(* spelled out: cut an accepted trace at any message callback Cb m; the last observable processor event
   before it is Rx PUBLISH carrying m, or the lookup (for the PUBREL just received) that returned the
   stored PUBLISH carrying m.  Hence callbacks occur in the order of these arrivals, one per arrival. *)
Theorem C15_client_callback_follows_arrival : forall es1 m r es2 s,
  run step init (es1 ++ ECb m r :: es2) = Some s ->
  (exists d id, last_proc_obs es1 = Some (ERx (Publish d m id))) \/
  (exists d id pid, last_proc_obs es1 = Some (ELookup Incoming id (Some (Some (Publish d m pid))))).
Proof. exact callback_follows_its_arrival. Qed.
Print Assumptions C15_client_callback_follows_arrival.

(* non-vacuity: the QoS 2 witness of ClientWitness passes with a callback in it *)
Example C15_client_nonvacuous :
  scan_order None
    [ ERx (Publish false (Msg [] [] 1 false) 5); ECb (Msg [] [] 1 false) Ok; ETx (Puback 5) true Ok;
      ERx (Pubrel 7); ELookup Incoming 7 (Some (Some (Publish false (Msg [] [] 2 false) 7))); ECb (Msg [] [] 2 false) Ok ]
  = Some None /\
  scan_order None [ ERx (Publish false (Msg [] [] 1 false) 5); ERx (Pingresp); ECb (Msg [] [] 1 false) Ok ] = None.
Proof. split; reflexivity. Qed.
